"""Regenerate every Gen/*.lean from /repo's current tree (used by setup.sh)."""
import importlib
from . import common, gen_lean

PROPS = ['c03', 'c04', 'c06', 'c08', 'c09', 'c10', 'c13', 'c14', 'c15', 'c17', 'c19', 'c20']


def main():
    spt = common.fresh_svgpathtools()
    for p in PROPS:
        mod = importlib.import_module('harness.props.' + p)
        for gname, fn in getattr(mod, 'GEN', {}).items():
            try:
                gen_lean.emit(gname, fn(spt))
            except Exception as e:  # the per-property check reports this as a broken obligation
                print('setup: tracing %s failed: %r' % (gname, e))
