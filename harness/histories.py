"""Objects with a past.

Every property quantifies over all segments / paths, not over freshly constructed ones: an object that was measured, evaluated,
edited in place, reversed or copied carries whatever internal state those operations left behind (length caches keyed on the control
points, memoised polynomials, boxes, shared dictionaries after `reversed()`, shared buffers after `copy.copy`).  `prepare` takes a
fresh segment and gives back an object that is geometrically described by ITS OWN current control points / arc data (callers must
derive their expectations from the returned object's defining fields, never from the data the fresh object was built from) together
with a Python expression that rebuilds exactly that object from a fresh one, for one-line replays.

The histories are structured rather than uniformly random, because the orders that matter are specific ones:

    warm-up queries  ->  optional in-place edit (kept, or undone after more queries)  ->  warm-up queries again
                     ->  optional derivation (reversed / reversed twice / copy.copy / copy.deepcopy, the twin possibly edited)

Warm-ups: full length at the default and at a coarse accuracy, poly(), bbox(), point/derivative, radialrange, a Path around the
segment asked for its length / area / point."""
import copy as _copy
import warnings

WARM_BEZ = ['s.length()', 's.length(error=1e-2, min_depth=1)', 's.poly()', 's.bbox()', 's.point(0.3)', 's.derivative(0.6)',
            's.radialrange(0.5+0.25j)', 'svgpathtools.Path(s).length()', 'svgpathtools.Path(s).point(0.4)',
            'svgpathtools.Path(s, svgpathtools.Line(s.end, s.start)).area()', 's.unit_tangent(0.5)', 's.length(0, 0.5)']
WARM_ARC = ['s.length()', 's.length(error=1e-2, min_depth=1)', 's.bbox()', 's.point(0.3)', 's.derivative(0.6)',
            'svgpathtools.Path(s).length()', 'svgpathtools.Path(s).point(0.4)', 's.unit_tangent(0.5)', 's.length(0, 0.5)']
WARM_LINE = ['s.length()', 's.poly()', 's.bbox()', 's.point(0.3)', 'svgpathtools.Path(s).length()']

FIELDS = {'Line': ['start', 'end'], 'QuadraticBezier': ['start', 'control', 'end'], 'CubicBezier': ['start', 'control1', 'control2', 'end']}


def _ev(spt, expr, s):
    with warnings.catch_warnings():
        warnings.simplefilter('ignore')
        return eval(expr, {'svgpathtools': spt, 's': s, '__import__': __import__})


def prepare(spt, r, seg, p=0.3, keep_ends=False, allow_reverse=True, allow_edit=True, undo_edits=False):
    """-> (object, source expression, tags).  With probability 1-p the fresh segment itself (source = its repr).
    keep_ends: the returned object has the same start and end as `seg` (callers that chain segments);
    allow_reverse=False: never hand out a single reversal (callers that rely on the orientation of `seg`);
    undo_edits: every in-place edit is undone again (callers that rely on the geometry of `seg`)."""
    fresh_src = 'svgpathtools.%r' % (seg,)
    if r.random() >= p:
        return seg, fresh_src, ()
    P = spt.path
    kind = type(seg).__name__
    pristine = _copy.deepcopy(seg)       # handed out instead when a history step raises (the edits may have changed `seg`)
    warm = WARM_ARC if kind == 'Arc' else (WARM_LINE if kind == 'Line' else WARM_BEZ)
    tags = []

    def warm_ops():
        ops = [w for w in warm if r.random() < 0.3]
        r.shuffle(ops)
        return ops

    stages = []          # list of (ops, derive-expression or None)
    ops = warm_ops()
    full = r.random() < 0.3
    if full:     # everything warmed up (conjunctions such as "measured AND polynomial requested" before a reversal)
        ops = list(warm)
        r.shuffle(ops)
    cur = seg
    try:
        for o in ops:
            _ev(spt, o, cur)
        if ops:
            tags.append('warm')
        # in-place edit
        if allow_edit and kind in FIELDS and r.random() < 0.45:
            flds = FIELDS[kind][1:-1] if keep_ends and len(FIELDS[kind]) > 2 else (FIELDS[kind] if not keep_ends else [])
            if flds:
                f = r.choice(flds)
                old = getattr(cur, f)
                size = max(abs(cur.end - cur.start), abs(old - cur.start), 1e-300)
                new = old + complex(r.uniform(-1, 1), r.uniform(-1, 1)) * size * r.choice([0.5, 1e-3, 2.0])
                e1 = 'setattr(s, %r, %r)' % (f, new)
                _ev(spt, e1, cur)
                ops.append(e1)
                mid = warm_ops()
                for o in mid:
                    _ev(spt, o, cur)
                ops += mid
                if undo_edits or r.random() < 0.45:
                    e2 = 'setattr(s, %r, %r)' % (f, old)
                    _ev(spt, e2, cur)
                    ops.append(e2)
                    tags.append('edit-undone')
                    if r.random() < 0.5:
                        more = warm_ops()
                        for o in more:
                            _ev(spt, o, cur)
                        ops += more
                else:
                    tags.append('edit')
        # derivation
        der = None
        if r.random() < (0.8 if full else 0.45):
            choices = ['s.reversed().reversed()', "__import__('copy').copy(s)", "__import__('copy').deepcopy(s)"]
            if allow_reverse and not keep_ends:
                choices += ['s.reversed()', 's.reversed()'] + (['s.reversed()'] * 3 if full else [])
            der = r.choice(choices)
            new = _ev(spt, der, cur)
            stages.append((ops, der))
            tags.append(der.split('(')[0].replace('s.', '').replace("__import__", 'copy') if 'copy' not in der else ('deepcopy' if 'deepcopy' in der else 'copy'))
            ops = []
            if 'copy' in der and allow_edit and kind in FIELDS and r.random() < 0.6:      # (edits the OTHER twin: geometry of the result is kept)
                # the twin that is NOT handed out is edited afterwards
                f = r.choice(FIELDS[kind])
                z = getattr(cur, f) + complex(0.75, -1.25) * max(abs(cur.end - cur.start), 1e-300)
                setattr(cur, f, z)
                with warnings.catch_warnings():
                    warnings.simplefilter('ignore')
                    cur.length(); cur.bbox()
                # in the source: the copy is taken first (bound to c), then the original s is edited, then c is returned
                stages[-1] = (stages[-1][0], '(lambda c: (setattr(s, %r, %r), s.length(), s.bbox(), c)[-1])(%s)' % (f, z, der))
                tags.append('twin-edited')
            cur = new
            tail = warm_ops() if r.random() < (0.2 if full else 0.5) else []
            for o in tail:
                _ev(spt, o, cur)
            ops = tail
        stages.append((ops, None))
    except Exception:
        return pristine, fresh_src, ()
    # compose the source from the inside out
    src = None
    for ops_, der_ in reversed(stages):
        if der_ is None:
            body = '(%s)[-1]' % ', '.join(list(ops_) + ['s', 's']) if ops_ else 's'
            src = '(lambda s: %s)' % body
        else:
            inner = src
            pre = ', '.join(ops_)
            src = '(lambda s: (%s%s(%s))%s)' % ((pre + ', ') if pre else '', inner, der_, '[-1]' if pre else '')
    if not tags:
        return pristine, fresh_src, ()
    if keep_ends and (cur.start != pristine.start or cur.end != pristine.end):
        return pristine, fresh_src, ()
    return cur, '%s(%s)' % (src, fresh_src), tuple(tags)


def rebuild(spt, src):
    """evaluate a source expression produced by `prepare`"""
    with warnings.catch_warnings():
        warnings.simplefilter('ignore')
        return eval(src, {'svgpathtools': spt, '__import__': __import__})
