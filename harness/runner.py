"""The check pipeline (DESIGN.md section 5): gen -> prove -> audit -> correspond ->
sample -> verdict -> evidence, for one property."""
from __future__ import annotations
import importlib
import json
import os
import re
import sys
import time
import traceback

from . import common, gen_lean
from .common import VERIF, LEAN_DIR, InfraError


class Ctx:
    def __init__(self, pid, tier):
        self.pid = pid
        self.tier = tier
        self.thorough = tier == 'thorough'
        self.spt = None
        self.t0 = time.time()
        self.notes = []

    def rng(self, tag=''):
        return common.rng('%s/%s' % (self.pid, tag))

    def n(self, quick, thorough):
        return thorough if self.thorough else quick


class Failure(dict):
    """a concrete failing input found on the real code.
    keys: signature, what, input, observed, expected, repro"""


class Corr:
    """result of a correspondence stream"""

    def __init__(self, stream):
        self.stream = stream
        self.cases = 0
        self.disagreements = []   # dicts: input, model, impl
        self.dist = {}
        self.samples = []

    def count(self, key, k=1):
        self.dist[key] = self.dist.get(key, 0) + k

    def compare(self, inputs, model_out, impl_out, keep=3):
        assert len(inputs) == len(model_out) == len(impl_out), (len(inputs), len(model_out), len(impl_out))
        for i, m, p in zip(inputs, model_out, impl_out):
            self.cases += 1
            if m != p:
                if len(self.disagreements) < 20:
                    self.disagreements.append({'stream': self.stream, 'input': i, 'model': m, 'impl': p})
            elif len(self.samples) < keep:
                self.samples.append({'stream': self.stream, 'input': i, 'output': p})


def theorem_names(path):
    with open(path) as f:
        txt = f.read()
    txt2 = re.sub(r'/-.*?-/', lambda m: '\n' * m.group(0).count('\n'), txt, flags=re.S)
    names = []
    for m in re.finditer(r'^\s*(?:private\s+|protected\s+)?theorem\s+([^\s:({\[]+)', txt2, flags=re.M):
        names.append((txt2.count('\n', 0, m.start()) + 1, m.group(1)))
    return names


def module_path(mod):
    return os.path.join(LEAN_DIR, *mod.split('.')) + '.lean'


def parse_build_errors(out):
    """-> list of (file, line, message)"""
    errs = []
    for m in re.finditer(r'^error: (\S+?\.lean):(\d+):(\d+): (.*)$', out, flags=re.M):
        errs.append((m.group(1), int(m.group(2)), m.group(4)[:300]))
    return errs


def locate_theorem(file, line):
    p = os.path.join(LEAN_DIR, file)
    if not os.path.exists(p):
        return None
    best = None
    for ln, nm in theorem_names(p):
        if ln <= line:
            best = nm
    return best


def imports_closure(mods):
    """local SvgVerif modules reachable from mods (for the forbidden-construct grep)"""
    seen, todo = set(), list(mods)
    while todo:
        m = todo.pop()
        if m in seen or not m.startswith('SvgVerif'):
            continue
        p = module_path(m)
        if not os.path.exists(p):
            continue
        seen.add(m)
        with open(p) as f:
            for line in f:
                mm = re.match(r'^\s*import\s+(\S+)', line)
                if mm:
                    todo.append(mm.group(1))
    return sorted(seen)


def run_check(pid, tier):
    t0 = time.time()
    mod = importlib.import_module('harness.props.' + pid.lower())
    ctx = Ctx(pid, tier)
    broken = []          # list of dicts {kind, name, detail}
    failures = []        # concrete failing inputs (Failure)
    known_hit = []
    evidence_samples = []
    try:
        ctx.spt = common.fresh_svgpathtools()
    except InfraError:
        raise
    except Exception as e:  # package does not import: nothing can be decided
        raise InfraError('svgpathtools does not import: %r' % (e,))

    # 1. gen -----------------------------------------------------------------
    gen_modules = []
    n_defs = 0
    for gname, fn in getattr(mod, 'GEN', {}).items():
        try:
            defs = fn(ctx.spt)
            main1, _ = gen_lean.render_module(gname, defs)
            defs2 = fn(ctx.spt, salt=1000 + common.seed())
            main2, _ = gen_lean.render_module(gname, defs2)
            if main1 != main2:
                # two draws disagree: either the traced code branches on its data (a real finding about the trace), or one draw hit a
                # measure-zero coincidence (two shadow values equal, a shadow exactly 0) and took a branch no generic input takes.  Two more
                # draws decide: the trace is accepted only if three of the four agree, and then the majority text is the one emitted.
                draws = [(main1, defs), (main2, defs2)]
                for extra in (2000, 3000):
                    d_ = fn(ctx.spt, salt=extra + common.seed())
                    draws.append((gen_lean.render_module(gname, d_)[0], d_))
                texts = [t_ for t_, _ in draws]
                best = max(set(texts), key=texts.count)
                if texts.count(best) >= 3:
                    defs = [d_ for t_, d_ in draws if t_ == best][0]
                else:
                    broken.append({'kind': 'translator', 'name': gname,
                                   'detail': 'trace is not shadow-independent (four shadow draws give %d different Lean texts)' % len(set(texts))})
            gen_lean.emit(gname, defs)
            n_defs += len(defs)
            gen_modules += ['SvgVerif.Gen.' + gname, 'SvgVerif.Gen.' + gname + 'Check']
        except InfraError:
            raise
        except Exception as e:
            broken.append({'kind': 'translator', 'name': gname,
                           'detail': 'tracing raised %s: %s' % (type(e).__name__, str(e)[:300]),
                           'trace': traceback.format_exc()[-1500:]})

    # 2. prove ------------------------------------------------------------------
    lean_modules = list(getattr(mod, 'LEAN_MODULES', []))
    targets = [m for m in gen_modules if os.path.exists(module_path(m))] + lean_modules
    all_thms = {}
    for m in lean_modules:
        for ln, nm in theorem_names(module_path(m)):
            all_thms[m + ':' + nm] = (m, nm)
    hits = common.forbidden_in_sources([module_path(m) for m in imports_closure(lean_modules + gen_modules)])
    if hits:
        raise InfraError('forbidden construct in Lean sources: %s' % hits[:5])
    ok, out = common.lake_build(targets) if targets else (True, '')
    failed_thms = set()
    if not ok:
        errs = parse_build_errors(out)
        if not errs:
            # Distinguish infrastructure trouble from a proof failure
            raise InfraError('lake build failed without a located error:\n' + out[-3000:])
        for file, line, msg in errs:
            thm = locate_theorem(file, line)
            name = '%s:%s' % (file, thm or ('line %d' % line))
            if 'Gen/' in file and file.endswith('Check.lean'):
                broken.append({'kind': 'translator-selfcheck', 'name': name, 'detail': msg})
            else:
                if name not in failed_thms:
                    broken.append({'kind': 'proof', 'name': name, 'detail': msg})
                failed_thms.add(name)
        # modules that import a failed module fail too ("bad import"); already covered
    # 3. audit --------------------------------------------------------------------
    audited = {}
    if ok:
        for m in lean_modules:
            a = common.audit(m)
            for thm, axs in a.items():
                audited[thm] = axs
                bad = [x for x in axs if x not in common.ALLOWED_AXIOMS]
                if bad:
                    raise InfraError('theorem %s depends on axioms %s' % (thm, bad))
    n_oblig = len(all_thms)
    n_failed = len([1 for b in broken if b['kind'] == 'proof'])
    n_disch = max(0, n_oblig - n_failed) if ok else max(0, n_oblig - max(n_failed, 1))
    if not ok and n_failed:
        # theorems after the first failure in a failing file were not checked at all
        n_disch = 0
        for m in lean_modules:
            rel = os.path.relpath(module_path(m), LEAN_DIR)
            if any(rel in b['name'] for b in broken if b['kind'] == 'proof'):
                continue
            n_disch += len(theorem_names(module_path(m)))

    # 4. correspond ---------------------------------------------------------------
    corr_total = 0
    corr_dist = {}
    if hasattr(mod, 'correspond'):
        try:
            for c in mod.correspond(ctx):
                corr_total += c.cases
                for k, v in c.dist.items():
                    corr_dist[c.stream + ':' + k] = v
                evidence_samples += c.samples[:2]
                for d in c.disagreements:
                    broken.append({'kind': 'correspondence', 'name': c.stream, 'detail': d})
        except InfraError:
            raise
        except Exception as e:
            broken.append({'kind': 'correspondence', 'name': 'runner',
                           'detail': 'correspondence runner raised %s: %s' % (type(e).__name__, str(e)[:300]),
                           'trace': traceback.format_exc()[-1500:]})

    # 5. sample ------------------------------------------------------------------
    sample_n = 0
    sample_nontrivial = 0
    sample_rule = ''
    if hasattr(mod, 'sample'):
        res = mod.sample(ctx, budget=1.0)
        sample_n, sample_nontrivial = res['evaluations'], res['distinct_nontrivial']
        sample_rule = res.get('rule', '')
        evidence_samples += res.get('samples', [])[:3]
        failures += res['failures']

    # 6. broken obligation -> failing-input search -------------------------------------
    searched = False
    _known_sigs = {k['signature'] for k in common.load_known().get('findings', []) if k['property'] == pid}
    if broken and not [f for f in failures if f.get('signature') not in _known_sigs] and hasattr(mod, 'sample'):
        searched = True
        hint = [b for b in broken if b['kind'] == 'correspondence']
        res = mod.sample(ctx, budget=getattr(mod, 'SEARCH_BUDGET', 8.0), hint=hint, broken=broken)
        failures += res['failures']

    # 7. verdict -----------------------------------------------------------------
    known = common.load_known()
    kf = [k for k in known.get('findings', []) if k['property'] == pid]
    new_failures = []
    seen_sig = set()
    for f in failures:
        matched = None
        for k in kf:
            if k['signature'] == f.get('signature'):
                matched = k
        if matched:
            if matched['signature'] not in seen_sig:
                seen_sig.add(matched['signature'])
                known_hit.append(matched)
        else:
            new_failures.append(f)
    # a broken obligation that a known finding explains (declared in the finding) is not new
    unexplained = []
    for b in broken:
        expl = [k for k in kf if b['name'] in k.get('explains_obligations', [])]
        if expl:
            for k in expl:
                if k['signature'] not in seen_sig:
                    seen_sig.add(k['signature'])
                    known_hit.append(k)
        else:
            unexplained.append(b)

    lines = []
    status = 0
    for k in known_hit:
        lines.append('KNOWN-FINDING: property=%s %s' % (pid, k['text']))
    if new_failures:
        f = new_failures[0]
        path = common.write_replay(pid, {
            'kind': 'failing-input', 'failure': f, 'other_failures': new_failures[1:6],
            'broken_obligations': unexplained[:10],
            'replay_cmd': './check %s --replay <this file>' % pid})
        lines.append('VIOLATION property=%s replay=%s' % (pid, path))
        status = 1
    elif unexplained:
        path = common.write_replay(pid, {
            'kind': 'broken-obligation',
            'broken_obligations': unexplained[:20],
            'searched_for_failing_input': searched,
            'note': 'the named theorem / correspondence stream no longer checks against the current '
                    'source; the search over the real code found no concrete failing input'}, tag='o')
        lines.append('VIOLATION property=%s replay=%s no-failing-input-found' % (pid, path))
        status = 1

    # 8. evidence ----------------------------------------------------------------
    n_oblig_total = n_oblig + n_defs + (1 if corr_total else 0)
    n_disch_total = n_disch
    if not any(b['kind'].startswith('translator') for b in broken):
        n_disch_total += n_defs
    if corr_total and not any(b['kind'] == 'correspondence' for b in broken):
        n_disch_total += 1
    coverage = {
        'obligations': n_oblig_total,
        'discharged': n_disch_total,
        'obligation_breakdown': {'theorems': n_oblig, 'theorems_discharged': n_disch,
                                 'generated_definitions_selfchecked': n_defs,
                                 'correspondence_streams_agree': int(bool(corr_total) and not any(
                                     b['kind'] == 'correspondence' for b in broken))},
        'checker_cmd': 'cd lean && lake build %s ; lake env lean <#audit_module per module>' % ' '.join(targets),
        'trusted_base': common.TRUSTED_BASE + list(getattr(mod, 'ASSUMPTIONS', [])),
        'theorems': sorted(nm for (_, nm) in all_thms.values()),
        'axioms_used': sorted({a for axs in audited.values() for a in axs}),
        'traces_validated_against_impl': corr_total,
        'correspondence_distribution': corr_dist,
        'evaluations': sample_n + corr_total,
        'distinct_nontrivial': sample_nontrivial,
        'rule': sample_rule,
        'samples': evidence_samples[:8] or [{'note': 'no sampler for this property'}],
        'exhaustive': False,
        'broken_obligations': [dict(b, trace=None) for b in broken][:10],
        'known_findings_reconfirmed': [k['signature'] for k in known_hit],
        'failing_input_search_ran': searched,
    }
    common.write_evidence(pid, tier, coverage, time.time() - t0, len(new_failures) + (1 if (unexplained and not new_failures) else 0),
                          list(getattr(mod, 'ASSUMPTIONS', [])))
    for l in lines:
        print(l)
    print('%s %s: obligations %d/%d, correspondence cases %d, sampled %d, broken %d, failures %d (known %d) [%.1fs]' % (
        pid, tier, n_disch_total, n_oblig_total, corr_total, sample_n, len(broken), len(failures), len(known_hit),
        time.time() - t0))
    return status


def run_replay(pid, path):
    mod = importlib.import_module('harness.props.' + pid.lower())
    with open(path if os.path.isabs(path) else os.path.join(VERIF, path)) as f:
        payload = json.load(f)
    common.fresh_svgpathtools()
    if payload.get('kind') != 'failing-input' or not hasattr(mod, 'replay'):
        print(json.dumps(payload, indent=1)[:4000])
        print('replay: this file names a broken obligation, not a concrete input; re-run ./check %s' % pid)
        return 0
    spt = common.fresh_svgpathtools()
    still = mod.replay(spt, payload['failure'])
    print('replay %s: %s' % (path, 'STILL FAILS' if still else 'passes now'))
    return 1 if still else 0


def main(argv):
    import argparse
    ap = argparse.ArgumentParser()
    ap.add_argument('pid')
    ap.add_argument('--tier', default=os.environ.get('VERIF_TIER', 'quick'), choices=['quick', 'thorough'])
    ap.add_argument('--replay')
    a = ap.parse_args(argv)
    try:
        if a.replay:
            return run_replay(a.pid, a.replay)
        return run_check(a.pid, a.tier)
    except InfraError as e:
        print('INFRASTRUCTURE-ERROR %s: %s' % (a.pid, e))
        return 2
    except Exception:   # a bug in the machinery itself is never reported as a violation
        print('INFRASTRUCTURE-ERROR %s: unexpected exception in the check machinery' % a.pid)
        traceback.print_exc()
        return 2
