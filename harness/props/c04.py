"""C04: Arc realises the SVG endpoint parameterisation (F.6.5) for all parameters."""
from __future__ import annotations
import cmath
import math
import warnings
from fractions import Fraction as Fr
import numpy as np
from ..tracejobs import *
from .. import symtrace as st, common
from ..gen_lean import Def
from ..runner import Corr, Failure

LEAN_MODULES = ['SvgVerif.Props.C04', 'SvgVerif.Props.C04Param', 'SvgVerif.Props.C04RoundTrip', 'SvgVerif.Props.C04Approx']
ARGS = ['theta', 'delta', 'rx', 'ry', 'cphi', 'sphi', 'rot', 'cx', 'cy', 'pi', 't']


def gen_defs(spt, salt=0):
    P = spt.path

    def job(r):
        vals, env = realvars(ARGS, r)
        theta, delta, rx, ry, cphi, sphi, rot, cx, cy, PI, t = vals
        arc = P.Arc.__new__(P.Arc)
        arc.theta, arc.delta, arc.rotation = theta, delta, rot
        arc.radius = st.Cx(rx, ry)
        arc.rot_matrix = st.Cx(cphi, sphi)
        arc.center = st.Cx(cx, cy)
        saved = (P.cos, P.sin, P.radians, P.pi)
        out = []
        A = lambda nm, val, doc: out.append(Def(nm, ARGS, node(val), 'Arc: ' + doc))
        try:
            P.cos = lambda x: st.fn_approx('cos', x, math.cos)
            P.sin = lambda x: st.fn_approx('sin', x, math.sin)
            P.radians = lambda x: x * PI / 180
            P.pi = PI
            p = arc.point(t)
            A('point_x', p.real, 'point(t).real'); A('point_y', p.imag, 'point(t).imag')
            for n in range(1, 6):
                d = arc.derivative(t, n)
                A('derivative_%d_x' % n, d.real, 'derivative(t, %d).real' % n)
                A('derivative_%d_y' % n, d.imag, 'derivative(t, %d).imag' % n)
        finally:
            P.cos, P.sin, P.radians, P.pi = saved
        return out
    return retry(job, 'c04/arc' + ('/%d' % salt if salt else ''))


GEN = {'C04': gen_defs}

ASSUMPTIONS = [
    'point/derivative theorems are about an Arc whose derived parameters are symbols; that _parameterize computes the F.6.5 centre, radii and angles is checked against an independent reference implementation by the sampler (plus the Lean lemma theta_correct for the start-angle case split), not proved end to end',
    'numpy cos/sin/arccos/sqrt are Real.cos/Real.sin/... ; the 1e-8 snap band of the radicand and np.clip are float devices outside the theorems',
]


def _run_parameterize_exact(spt, sx, sy, ex, ey, rx, ry, wx, wy, large, sweep):
    """runs the REAL Arc._parameterize on exact rationals (exactnum.Q / QC); sqrt, degrees(acos(.)), np.isclose, np.clip
    and exp(1j*phi) are replaced from outside by exact stand-ins (the Lean driver uses the same ones)"""
    from ..exactnum import Q, QC, sqrt_standin
    P = spt.path
    arc = P.Arc.__new__(P.Arc)
    arc.start, arc.end = QC(sx, sy), QC(ex, ey)
    arc.radius = QC(rx, ry)
    arc.rotation = 0.0
    arc.large_arc, arc.sweep = bool(large), bool(sweep)
    arc.autoscale_radius = True
    arc.segment_length_hash = None
    arc.segment_length = None
    w = QC(wx, wy)

    class Phi(object):
        """stands for the angle phi: only `1j*phi` (or `-1j*phi`) is ever formed from it, and only exp() consumes that"""
        def __init__(self, sign=None):
            self.sign = sign

        def __rmul__(self, c):
            assert isinstance(c, complex) and c.real == 0 and c.imag in (1.0, -1.0), c
            return Phi(int(c.imag))
        __mul__ = __rmul__

    def my_exp(z):
        assert isinstance(z, Phi) and z.sign in (1, -1), z
        return w if z.sign == 1 else w.conjugate()
    arc.phi = Phi()
    arc.rot_matrix = w
    saved = (P.sqrt, P.acos, P.degrees, P.exp, P.np.isclose, P.np.clip)
    try:
        P.sqrt = sqrt_standin
        P.acos = lambda x: (1 - x) * 90
        P.degrees = lambda x: x
        P.exp = my_exp
        P.np.isclose = lambda a, b, *r, **k: abs(a - b) <= Fr(1, 10 ** 8)
        P.np.clip = lambda x, lo, hi: (Q(lo) if x < lo else (Q(hi) if x > hi else x))
        arc._parameterize()
    finally:
        P.sqrt, P.acos, P.degrees, P.exp, P.np.isclose, P.np.clip = saved
    return arc


def correspond(ctx):
    """Arc._parameterize, the real method, on exact rational inputs against Model.ArcParam.parameterize"""
    from ..exactnum import Q, QC, qstr
    spt = ctx.spt
    r = ctx.rng('corr/param')
    c = Corr('Arc._parameterize')
    lines, impl = [], []
    units = [(Fr(3, 5), Fr(4, 5)), (Fr(5, 13), Fr(12, 13)), (Fr(-8, 17), Fr(15, 17)), (Fr(1), Fr(0)), (Fr(0), Fr(1)), (Fr(-1), Fr(0)),
             (Fr(0), Fr(-1)), (Fr(7, 25), Fr(-24, 25)), (Fr(-20, 29), Fr(-21, 29)), (Fr(-3, 5), Fr(4, 5)), (Fr(12, 13), Fr(-5, 13))]
    rq = lambda lo=-6, hi=6: Fr(r.randint(lo, hi), r.choice([1, 1, 2, 4]))
    for it in range(ctx.n(400, 6000)):
        cls = r.choice(['on-ellipse', 'on-ellipse', 'on-ellipse', 'antipodal-exact', 'antipodal-too-small', 'generic', 'generic-too-small', 'snap-band'])
        w = r.choice(units)
        large, sweep = r.random() < 0.5, r.random() < 0.5
        cx, cy = rq(), rq()
        rx, ry = Fr(r.randint(1, 6), r.choice([1, 2])), Fr(r.randint(1, 6), r.choice([1, 2]))
        u1, u2 = r.sample(units, 2)

        def pt(u):
            # c + w * (rx*ux + i*ry*uy)
            zx, zy = rx * u[0], ry * u[1]
            return (cx + w[0] * zx - w[1] * zy, cy + w[0] * zy + w[1] * zx)
        if cls == 'on-ellipse':
            s, e = pt(u1), pt(u2)
            grx, gry = rx, ry
        elif cls in ('antipodal-exact', 'antipodal-too-small', 'snap-band'):
            s, e = pt(u1), pt((-u1[0], -u1[1]))
            k = {'antipodal-exact': Fr(1), 'antipodal-too-small': Fr(r.randint(2, 5)), 'snap-band': Fr(1)}[cls]
            grx, gry = rx / k, ry / k
            if cls == 'snap-band':
                f = 1 + Fr(r.choice([1, 3, 40, 400]), 10 ** 9)     # radii a hair too large: radicand around 1e-9 .. 1e-6
                grx, gry = rx * f, ry * f
        else:
            s, e = (rq(), rq()), (rq(), rq())
            grx, gry = (rx, ry) if cls == 'generic' else (rx / 8, ry / 8)
        if s == e:
            continue
        args = [s[0], s[1], e[0], e[1], grx, gry, w[0], w[1]]
        arc = _run_parameterize_exact(spt, *args, large, sweep)
        rad = arc.radius
        out = [rad.real, rad.imag, arc.center.real, arc.center.imag, arc.theta, arc.delta]
        lines.append('arcparam %s %d %d' % (' '.join(qstr(Q(a)) for a in args), int(large), int(sweep)))
        impl.append(' '.join(qstr(Q(Fr(float(v))) if isinstance(v, float) else v) for v in out))
        c.count('%s/%s%s' % (cls, 'L' if large else 's', 'S' if sweep else 'n'))
    c.compare(lines, [m.strip() for m in common.driver(lines)], impl)
    return [c, _correspond_init(ctx), _correspond_approx(ctx)]


def _correspond_init(ctx):
    """the REAL constructor Arc(start, radius, rotation, large_arc, sweep, end) on exact rationals: signed radii, flags given
    as bools / ints, `radians` and `exp` replaced by stand-ins so that rot_matrix is a prescribed exact unit complex; compared
    with Model.ArcParam.arcInit (abs of the radii, bool() of the flags, then _parameterize)"""
    from ..exactnum import Q, QC, qstr, sqrt_standin
    P = ctx.spt.path
    r = ctx.rng('corr/init')
    c = Corr('Arc.__init__')
    units = [(Fr(3, 5), Fr(4, 5)), (Fr(5, 13), Fr(12, 13)), (Fr(-8, 17), Fr(15, 17)), (Fr(1), Fr(0)), (Fr(0), Fr(1)), (Fr(-1), Fr(0)),
             (Fr(7, 25), Fr(-24, 25)), (Fr(-3, 5), Fr(4, 5))]
    rq = lambda lo=-6, hi=6: Fr(r.randint(lo, hi), r.choice([1, 1, 2, 4]))
    lines, impl = [], []

    class Rot(object):
        """stands for the rotation in degrees; radians() turns it into the Phi object below"""
        def __init__(self, w):
            self.w = w

    class Phi(object):
        def __init__(self, w, sign=None):
            self.w, self.sign = w, sign

        def __rmul__(self, k):
            assert isinstance(k, complex) and k.real == 0 and k.imag in (1.0, -1.0), k
            return Phi(self.w, int(k.imag))
        __mul__ = __rmul__
    saved = (P.sqrt, P.acos, P.degrees, P.exp, P.radians, P.np.isclose, P.np.clip)
    try:
        P.sqrt = sqrt_standin
        P.acos = lambda x: (1 - x) * 90
        P.degrees = lambda x: x
        P.radians = lambda rot: Phi(rot.w)
        P.exp = lambda z: z.w if z.sign == 1 else z.w.conjugate()
        P.np.isclose = lambda a, b, *rr, **k: abs(a - b) <= Fr(1, 10 ** 8)
        P.np.clip = lambda x, lo, hi: (Q(lo) if x < lo else (Q(hi) if x > hi else x))
        for it in range(ctx.n(200, 3000)):
            w = r.choice(units)
            s_, e_ = (rq(), rq()), (rq(), rq())
            if s_ == e_:
                continue
            rx = Fr(r.randint(1, 6), r.choice([1, 2, 8])) * r.choice([1, 1, -1])
            ry = Fr(r.randint(1, 6), r.choice([1, 2, 8])) * r.choice([1, 1, -1])
            la, sw = r.choice([True, False, 0, 1, 2, -1]), r.choice([True, False, 0, 1, 3])
            try:
                arc = P.Arc(QC(*s_), QC(rx, ry), Rot(QC(*w)), la, sw, QC(*e_))
                out = [arc.radius.real, arc.radius.imag, arc.center.real, arc.center.imag, arc.theta, arc.delta]
                impl.append(' '.join(qstr(Q(Fr(float(v))) if isinstance(v, float) else v) for v in out)
                            + ' %s %s' % (str(arc.large_arc is True).lower(), str(arc.sweep is True).lower()))
            except Exception as e:
                impl.append('raise ' + type(e).__name__)
            lines.append('arcinit %s %d %d' % (' '.join(qstr(Q(a)) for a in [s_[0], s_[1], e_[0], e_[1], rx, ry, w[0], w[1]]), int(la), int(sw)))
            c.count('radii signs %s%s, flags %s/%s' % ('+' if rx > 0 else '-', '+' if ry > 0 else '-', type(la).__name__, type(sw).__name__))
    finally:
        P.sqrt, P.acos, P.degrees, P.exp, P.radians, P.np.isclose, P.np.clip = saved
    c.compare(lines, [m.strip() for m in common.driver(lines)], impl)
    return c


def _correspond_approx(ctx):
    """the REAL Arc.as_cubic_curves / Arc.as_quad_curves on exact rationals (exactnum.Q / QC) against Model.ArcApprox;
    radians/cos/sin/tan/sqrt are replaced from outside by exact stand-ins (the Lean driver has the same ones)"""
    from ..exactnum import Q, QC, qstr, sqrt_standin
    from .c08 import _standins
    P = ctx.spt.path
    r = ctx.rng('corr/approx')
    c = Corr('Arc.as_cubic_curves / as_quad_curves')
    F = _standins()
    lines, impl = [], []
    rq = lambda lo=-6, hi=6, ds=(1, 1, 2, 4): Fr(r.randint(lo, hi), r.choice(ds))
    saved = (P.cos, P.sin, P.tan, P.sqrt, P.radians)
    try:
        P.cos, P.sin, P.tan, P.sqrt = F['cos'], F['sin'], F['tan'], sqrt_standin
        P.radians = lambda x: x * Fr(22, 7) / 180
        for it in range(ctx.n(200, 3000)):
            kind = r.choice(['cubic', 'quad'])
            n = r.choice([1, 1, 2, 3, 4, 7])
            arc = P.Arc.__new__(P.Arc)
            arc.start, arc.end = QC(rq(), rq()), QC(rq(), rq())
            arc.center = QC(rq(), rq())
            arc.radius = QC(Fr(r.randint(1, 6), r.choice([1, 2])), Fr(r.randint(1, 6), r.choice([1, 2])))
            arc.rotation = Q(Fr(r.choice([0, 30, 45, -60, 90, 180, 200])))
            arc.theta = Q(Fr(r.randint(-180, 180)))
            arc.delta = Q(Fr(r.choice([-360, -270, -90, -10, 10, 45, 90, 180, 359])))
            args = [arc.start.real, arc.start.imag, arc.end.real, arc.end.imag, arc.center.real, arc.center.imag,
                    arc.radius.real, arc.radius.imag, arc.rotation, arc.theta, arc.delta]
            lines.append('arcapx %s %d %s' % (kind, n, ' '.join(qstr(x) for x in args)))
            try:
                segs = list(arc.as_cubic_curves(n) if kind == 'cubic' else arc.as_quad_curves(n))
                impl.append(' ; '.join(' '.join('%s %s' % (qstr(p.real), qstr(p.imag)) for p in sg.bpoints()) for sg in segs))
            except Exception as e:
                impl.append('raise ' + type(e).__name__)
            c.count('%s/curves=%d' % (kind, n))
    finally:
        P.cos, P.sin, P.tan, P.sqrt, P.radians = saved
    c.compare(lines, [m.strip() for m in common.driver(lines)], [m.strip() for m in impl])
    return c


def ref_arc(start, radius, rotation, large, sweep, end):
    """W3C SVG implementation notes F.6.5 / F.6.6, written from the specification"""
    x1, y1, x2, y2 = start.real, start.imag, end.real, end.imag
    rx, ry = abs(radius.real), abs(radius.imag)
    phi = math.radians(rotation)
    c, s = math.cos(phi), math.sin(phi)
    x1p = c * (x1 - x2) / 2 + s * (y1 - y2) / 2
    y1p = -s * (x1 - x2) / 2 + c * (y1 - y2) / 2
    lam = x1p ** 2 / rx ** 2 + y1p ** 2 / ry ** 2
    if lam > 1:
        rx *= math.sqrt(lam); ry *= math.sqrt(lam)
    num = rx ** 2 * ry ** 2 - rx ** 2 * y1p ** 2 - ry ** 2 * x1p ** 2
    den = rx ** 2 * y1p ** 2 + ry ** 2 * x1p ** 2
    coef = math.sqrt(max(0.0, num / den))
    if bool(large) == bool(sweep):
        coef = -coef
    cxp = coef * rx * y1p / ry
    cyp = -coef * ry * x1p / rx
    cx = c * cxp - s * cyp + (x1 + x2) / 2
    cy = s * cxp + c * cyp + (y1 + y2) / 2

    def ang(ux, uy, vx, vy):
        a = math.atan2(ux * vy - uy * vx, ux * vx + uy * vy)
        return math.degrees(a)
    ux, uy = (x1p - cxp) / rx, (y1p - cyp) / ry
    vx, vy = (-x1p - cxp) / rx, (-y1p - cyp) / ry
    th = ang(1, 0, ux, uy)
    dth = ang(ux, uy, vx, vy)
    if not sweep and dth > 0:
        dth -= 360
    elif sweep and dth < 0:
        dth += 360
    return complex(cx, cy), complex(rx, ry), th, dth, lam, phi


def ref_point(ref, t):
    cen, rad, th, dth, lam, phi = ref
    a = math.radians(th + t * dth)
    z = complex(rad.real * math.cos(a), rad.imag * math.sin(a))
    return cen + cmath.exp(1j * phi) * z


def sample(ctx, budget=1.0, hint=None, broken=None):
    spt = ctx.spt
    P = spt.path
    r = ctx.rng('sample' + ('' if budget == 1.0 else '-search'))
    fails, samples = [], []
    nontriv = set()
    n_eval = 0

    def fail(sig, what, inp, obs, exp, repro=''):
        if len(fails) < 40 and sum(1 for f in fails if f['signature'] == sig) < 2:
            fails.append(Failure(signature=sig, what=what, input=inp, observed=obs, expected=exp, repro=repro))

    for it in range(int(ctx.n(300, 4000) * budget)):
        scale = r.choice([1e-4, 1e-3, 1e-2, 1.0, 1.0, 1e3, 1e5])
        start = complex(r.uniform(-1, 1), r.uniform(-1, 1)) * scale
        end = start + complex(r.uniform(-1, 1), r.uniform(-1, 1)) * scale
        rot = r.choice([0, 0, 90, 180, 270, -90, 30, 45.5, 200.5, -135.25, 400.0, 725.0, r.uniform(-720, 720)])
        rcls = r.choice(['generous', 'generous', 'too-small', 'far-too-small', 'exact', 'just-fitting', 'negative', 'eccentric', 'snap-band'])
        ch = abs(end - start)
        if ch == 0:
            continue
        if rcls == 'generous':
            rad = complex(r.uniform(0.6, 3), r.uniform(0.6, 3)) * ch
        elif rcls == 'too-small':
            rad = complex(r.uniform(0.1, 0.45), r.uniform(0.1, 0.45)) * ch
        elif rcls == 'far-too-small':
            rad = complex(r.uniform(1e-6, 1e-3), r.uniform(1e-6, 1e-3)) * ch
        elif rcls == 'exact':
            start = complex(r.randint(-8, 8), r.randint(-8, 8)); end = start + r.choice([4, -4, 4j, -4j, 8])
            rad = complex(abs(end - start) / 2, abs(end - start) / 2); rot = r.choice([0, 90, 180]); ch = abs(end - start)
        elif rcls in ('just-fitting', 'snap-band'):
            # radii a hair above the minimum: (1 + eps) * minimal; eps 1e-3..1e-7, or inside the band where
            # the code replaces the radicand (about 2 eps) by 0 because np.isclose(radicand, 0)
            ratio = r.uniform(0.5, 2)
            base = P.Arc(start, complex(1e-9 * ch, 1e-9 * ch * ratio), rot, False, True, end).radius
            rad = base * (1 + (10.0 ** -r.uniform(3, 7) if rcls == 'just-fitting' else 10.0 ** -r.uniform(8.6, 10)))
        elif rcls == 'negative':
            rad = complex(-r.uniform(0.6, 3), r.choice([-1, 1]) * r.uniform(0.6, 3)) * ch
        else:
            rad = complex(r.uniform(0.6, 2), r.uniform(0.6, 2) * 1e-3) * ch
        large, sweep = r.random() < 0.5, r.random() < 0.5
        ctor = 'Arc(%r, %r, %r, %r, %r, %r)' % (start, rad, rot, large, sweep, end)
        rep = 'svgpathtools.' + ctor
        n_eval += 1
        nontriv.add((rcls, scale, large, sweep, rot % 90 == 0))
        try:
            with warnings.catch_warnings():
                warnings.simplefilter('ignore')
                arc = P.Arc(start, rad, rot, large, sweep, end)
        except Exception as e:
            fail('Arc/raises', 'Arc() raised for admissible parameters', {'arc': ctor}, repr(e), 'an arc', rep)
            continue
        ref = ref_arc(start, rad, rot, large, sweep, end)
        size = max(abs(ref[1].real), abs(ref[1].imag), ch)
        tol = 1e-7 * size + 1e-9 * abs(start)
        # end points.  Inside the snap band (0 < radicand < 1e-8, replaced by 0) the transformed end points are not unit vectors
        # any more: sin(theta) is recomputed from cos(theta), so the end points move by up to sqrt(radicand)*r ~ 1e-4 r (finding F29)
        in_band = ref[4] < 1 and (1 - ref[4]) / ref[4] < 1.5e-8
        if (abs(arc.point(0) - start) > tol or abs(arc.point(1) - end) > tol) and in_band:
            fail('Arc/snap-band: radicand below 1e-8 replaced by 0', 'radii within ~5e-9 (relative) above the minimal fitting radii: the centre is '
                 'snapped to the chord midpoint and the end points move', {'arc': ctor}, repr((arc.point(0), arc.point(1))), repr((start, end)),
                 '(%s.point(0), %s.point(1))' % (rep, rep))
        elif abs(arc.point(0) - start) > tol or abs(arc.point(1) - end) > tol:
            fail('Arc.point/endpoints (%s)' % rcls, 'point(0)/point(1) are not start/end', {'arc': ctor}, repr((arc.point(0), arc.point(1))), repr((start, end)),
                 '(%s.point(0), %s.point(1))' % (rep, rep))
        # radii: unchanged, or enlarged by exactly the minimal factor
        want_rad = ref[1]
        if abs(arc.radius - want_rad) > 1e-9 * abs(want_rad):
            fail('Arc.radius (%s)' % rcls, 'radii are not (|rx|,|ry|) * max(1, sqrt(Lambda))', {'arc': ctor, 'Lambda': ref[4]}, repr(arc.radius), repr(want_rad), rep + '.radius')
        # every point on the ellipse of the stored centre/radii/rotation
        for t in (0.0, 0.21, 0.5, 0.83, 1.0):
            p = (arc.point(t) - arc.center) * cmath.exp(-1j * math.radians(arc.rotation))
            res = (p.real / arc.radius.real) ** 2 + (p.imag / arc.radius.imag) ** 2 - 1
            if abs(res) > 1e-7:
                fail('Arc.point/on-ellipse', 'point(t) is not on the stored ellipse', {'arc': ctor, 't': t}, repr(res), '0', rep + '.point(%r)' % t)
                break
        near_half = abs(abs(ref[3]) - 180) < 1e-4 or abs(ref[4] - 1) < 1e-9 or ref[4] > 1
        if not near_half:
            if rcls == 'snap-band':
                if abs(arc.center - ref[0]) > 1e-6 * size or (abs(arc.delta) > 180) != bool(large):
                    fail('Arc/snap-band: radicand below 1e-8 replaced by 0', 'radii within ~5e-9 (relative) above the minimal fitting radii: the centre is '
                         'snapped to the chord midpoint', {'arc': ctor}, repr((arc.center, arc.delta)), repr((ref[0], ref[3])), rep + '.center')
                continue
            if abs(arc.center - ref[0]) > 1e-6 * size:
                fail('Arc.center (%s)' % rcls, 'centre differs from F.6.5', {'arc': ctor}, repr(arc.center), repr(ref[0]), rep + '.center')
            if (abs(arc.delta) > 180) != bool(large):
                fail('Arc.delta/large_arc', 'the arc spans more than 180 degrees iff large_arc is violated', {'arc': ctor}, repr(arc.delta), 'large_arc=%r' % large, rep + '.delta')
            if (arc.delta > 0) != bool(sweep):
                fail('Arc.delta/sweep', 'the angle does not move in the direction selected by sweep', {'arc': ctor}, repr(arc.delta), 'sweep=%r' % sweep, rep + '.delta')
            for t in (0.25, 0.5, 0.75):
                if abs(arc.point(t) - ref_point(ref, t)) > 1e-6 * size:
                    fail('Arc.point/vs-F.6.5 (%s)' % rcls, 'point(t) differs from the F.6.5 arc', {'arc': ctor, 't': t}, repr(arc.point(t)), repr(ref_point(ref, t)), rep + '.point(%r)' % t)
                    break
        # derivative(t, n) is the n-th t-derivative of point(t): central differences of the previous order
        t = r.uniform(0.1, 0.9)
        h = 1e-4
        prev = lambda s: arc.point(s)
        for n in range(1, 6):
            fd = (prev(t + h) - prev(t - h)) / (2 * h)
            got = arc.derivative(t, n)
            mag = abs(arc.delta * math.pi / 180) ** n * size + 1e-300
            if abs(got - fd) > 1e-5 * mag + 1e-6 * abs(fd):
                fail('Arc.derivative/n=%d' % n, 'derivative(t, n) is not the n-th derivative of point(t)', {'arc': ctor, 't': t, 'n': n}, repr(got), repr(fd),
                     rep + '.derivative(%r, %d)' % (t, n))
                break
            prev = (lambda s, n=n: arc.derivative(s, n))
        # approximations start and end at the arc's end points and are joined
        for k in (1, 3):
            for nm in ('as_cubic_curves', 'as_quad_curves'):
                pieces = list(getattr(arc, nm)(k))
                ok = len(pieces) == k and pieces[0].start == arc.start and pieces[-1].end == arc.end and all(a.end == b.start for a, b in zip(pieces, pieces[1:]))
                if ok and k == 3 and not near_half:
                    mid = pieces[0].end
                    ok = abs(mid - arc.point(1 / 3)) <= 1e-6 * size
                if not ok:
                    fail('Arc.%s' % nm, 'approximation does not start/end at the arc end points or is not joined on the arc', {'arc': ctor, 'k': k},
                         repr([(p.start, p.end) for p in pieces]), repr((arc.start, arc.end)), 'list(%s.%s(%d))' % (rep, nm, k))
        if len(samples) < 3:
            samples.append({'arc': ctor, 'Lambda': ref[4]})
    # twins: an arc and a copy of it (copy.copy / deepcopy / pickle / Arc(**same data)) are two objects; re-parameterising one of
    # them after an edit must not change what the other evaluates to
    import copy as _copy
    import pickle as _pickle
    for it in range(int(ctx.n(80, 800) * budget)):
        scale = r.choice([1e-2, 1.0, 1e3])
        start = complex(r.uniform(-1, 1), r.uniform(-1, 1)) * scale
        end = start + complex(r.uniform(0.3, 1), r.uniform(-1, 1)) * scale
        ch = abs(end - start)
        rad = complex(r.uniform(0.7, 3), r.uniform(0.7, 3)) * ch
        rot = r.choice([0, 30, 45.5, -135.25, 200.5])
        large, sweep = r.random() < 0.5, r.random() < 0.5
        ctor = 'Arc(%r, %r, %r, %r, %r, %r)' % (start, rad, rot, large, sweep, end)
        how = r.choice(['copy.copy', 'copy.copy', 'copy.deepcopy', 'pickle'])
        edit = r.choice(['start', 'end', 'radius', 'rotation', 'sweep', 'large_arc'])
        who = r.choice(['copy-edited', 'original-edited'])
        with warnings.catch_warnings():
            warnings.simplefilter('ignore')
            a = P.Arc(start, rad, rot, large, sweep, end)
            warm = r.random() < 0.5
            if warm:
                a.point(0.3); a.length()
            b = {'copy.copy': _copy.copy, 'copy.deepcopy': _copy.deepcopy, 'pickle': lambda o: _pickle.loads(_pickle.dumps(o))}[how](a)
            ed, keep = (b, a) if who == 'copy-edited' else (a, b)
            newval = {'start': start + complex(0.4, -0.3) * ch, 'end': end + complex(0.25, 0.5) * ch, 'radius': rad * 1.7, 'rotation': rot + 40,
                      'sweep': not sweep, 'large_arc': not large}[edit]
            setattr(ed, edit, newval)
            ed._parameterize()
            n_eval += 1
            nontriv.add(('twin', how, edit, who))
            ref = ref_arc(start, rad, rot, large, sweep, end)
            size = max(abs(ref[1].real), abs(ref[1].imag), ch)
            bad = None
            for t in (0.0, 0.3, 0.5, 1.0):
                if abs(keep.point(t) - ref_point(ref, t)) > 1e-6 * size:
                    bad = ('point(%r)' % t, keep.point(t), ref_point(ref, t)); break
            if bad is None:
                h = 1e-5
                fd = (keep.point(0.4 + h) - keep.point(0.4 - h)) / (2 * h)
                if abs(keep.derivative(0.4) - fd) > 1e-4 * (abs(fd) + size):
                    bad = ('derivative(0.4)', keep.derivative(0.4), fd)
            if bad is not None:
                fail('Arc/twin: %s after %s' % (bad[0].split('(')[0], how), 'after %s and an edit of %s + _parameterize() on the %s, the untouched twin no longer evaluates its own arc'
                     % (how, edit, 'copy' if who == 'copy-edited' else 'original'), {'arc': ctor, 'copy': how, 'edit': edit, 'edited': who}, repr(bad[1]), repr(bad[2]),
                     "(lambda a: (lambda w, b: (lambda ed, keep: (setattr(ed, %r, %r), ed._parameterize(), keep.%s)[-1])(*((b, a) if %r else (a, b))))(%s, %s(a)))(svgpathtools.%s)"
                     % (edit, newval, bad[0], who == 'copy-edited', '(a.point(0.3), a.length())' if warm else 'None',
                        {'copy.copy': "__import__('copy').copy", 'copy.deepcopy': "__import__('copy').deepcopy",
                         'pickle': "(lambda o: __import__('pickle').loads(__import__('pickle').dumps(o)))"}[how], ctor))
    return {'evaluations': n_eval, 'distinct_nontrivial': len(nontriv), 'failures': fails, 'samples': samples,
            'rule': 'random start != end at scales 1e-2..1e3; radii generous / too small / far too small / exactly fitting (dyadic semicircles) / a hair above the '
                    'minimum (1e-3..1e-10) / negative-signed / very eccentric; rotations multiples of 90, arbitrary, outside [0,360); all four flag combinations; '
                    'compared with an independent implementation of W3C F.6.5; twins (copy.copy/deepcopy/pickle, one of them edited and re-parameterised, the other evaluated). distinct = distinct (radius class, scale, flags, rotation multiple of 90?)'}


def replay(spt, f):
    from .c19 import replay as rp
    return rp(spt, f)
