"""C15: unit_tangent, normal and curvature are the differential geometry of the curve."""
from __future__ import annotations
import cmath
import math
import warnings
from fractions import Fraction as Fr
import numpy as np
from ..tracejobs import *
from .. import symtrace as st, common
from ..gen_lean import Def
from ..runner import Corr, Failure
from .c10 import cxvars
from .c03 import KINDS, _mk

LEAN_MODULES = ['SvgVerif.Props.C15', 'SvgVerif.Props.C15Singular', 'SvgVerif.Props.C15Laws', 'SvgVerif.Props.C15Arc']


def gen_defs(spt, salt=0):
    P = spt.path
    defs = []
    for kind, k in KINDS:
        names = ['p%d' % i for i in range(k)]
        cn = []
        for n_ in names:
            cn += [n_ + 'x', n_ + 'y']

        def job(r, kind=kind, k=k, names=names, cn=cn):
            ps, env = cxvars(names, r)
            (t,), e2 = realvars(['t'], r)
            env.update(e2)
            seg = _mk(spt, kind, ps)
            out = []
            A = lambda nm, val, doc: out.append(Def('%s_%s' % (kind, nm), cn + ['t'], node(val), '%s: %s' % (kind, doc), env))
            saved = (P.sqrt, P.np.seterr)
            try:
                P.sqrt = st.sqrt_approx
                d1 = seg.derivative(t)
                A('dx', d1.real, 'derivative(t).real'); A('dy', d1.imag, 'derivative(t).imag')
                T = seg.unit_tangent(t)
                A('tangent_x', T.real, 'unit_tangent(t).real'); A('tangent_y', T.imag, 'unit_tangent(t).imag')
                N = seg.normal(t)
                A('normal_x', N.real, 'normal(t).real'); A('normal_y', N.imag, 'normal(t).imag')
                if kind != 'line':
                    d2 = seg.derivative(t, 2)
                    A('ddx', d2.real, 'derivative(t, 2).real'); A('ddy', d2.imag, 'derivative(t, 2).imag')
                    A('curvature', seg.curvature(t), 'curvature(t) at a regular point')
            finally:
                P.sqrt = saved[0]
            return out
        defs += retry(job, 'c15/%s' % kind + ('/%d' % salt if salt else ''))

    # ---- Arc: unit_tangent / normal / curvature on an arc whose stored parameters are symbols (as in C04) ----------
    ARGS = ['theta', 'delta', 'rx', 'ry', 'rot', 'pi', 't']

    def arcjob(r):
        vals, env = realvars(ARGS, r)
        theta, delta, rx, ry, rot, PI, t = vals
        arc = P.Arc.__new__(P.Arc)
        arc.theta, arc.delta, arc.rotation = theta, delta, rot
        arc.radius = st.Cx(rx, ry)
        saved = (P.cos, P.sin, P.radians, P.pi, P.sqrt)
        out = []
        A = lambda nm, val, doc: out.append(Def('arc_%s' % nm, ARGS, node(val), 'Arc: ' + doc, env))
        try:
            P.cos = lambda x: st.fn_approx('cos', x, math.cos)
            P.sin = lambda x: st.fn_approx('sin', x, math.sin)
            P.radians = lambda x: x * PI / 180
            P.pi = PI
            P.sqrt = st.sqrt_approx
            d1 = arc.derivative(t)
            A('dx', d1.real, 'derivative(t).real'); A('dy', d1.imag, 'derivative(t).imag')
            d2 = arc.derivative(t, 2)
            A('ddx', d2.real, 'derivative(t, 2).real'); A('ddy', d2.imag, 'derivative(t, 2).imag')
            T = arc.unit_tangent(t)
            A('tangent_x', T.real, 'unit_tangent(t).real'); A('tangent_y', T.imag, 'unit_tangent(t).imag')
            N = arc.normal(t)
            A('normal_x', N.real, 'normal(t).real'); A('normal_y', N.imag, 'normal(t).imag')
            A('curvature', arc.curvature(t), 'curvature(t) at a regular point')
        finally:
            P.cos, P.sin, P.radians, P.pi, P.sqrt = saved
        return out
    defs += retry(arcjob, 'c15/arc' + ('/%d' % salt if salt else ''))
    return defs


GEN = {'C15': gen_defs}
ASSUMPTIONS = [
    'regular points: identities over R on traced definitions with numpy.sqrt / abs as Real.sqrt / |.|; float rounding sampled',
    'known finding F18: where the derivative vanishes, bezier_unit_tangent takes the principal complex square root of lim d^2/|d|^2 and so returns the direction of travel only up to sign (wrong in the open left half-plane)',
    'arcs: tangent / normal / curvature are traced on an arc whose stored parameters are symbols (Props/C15Arc.lean: normalised derivative, modulus 1, 1/r on circles); the transformation laws are theorems on the traced Bezier definitions (Props/C15Laws.lean), for arcs they follow from C04RoundTrip and are sampled',
]


def _unit(z):
    return z / abs(z)


def correspond(ctx):
    """the removable-singularity branch of bezier_unit_tangent, the real function on exact rational control points
    (exactnum.Q/QC), with csqrt replaced from outside so that its ARGUMENT is observed, against Model.Tangent.tangentLimit"""
    from ..exactnum import Q, QC, qstr
    from ..runner import Corr
    spt, P = ctx.spt, ctx.spt.path
    r = ctx.rng('corr/tanlimit')
    c = Corr('bezier_unit_tangent/singular branch')
    lines, impl = [], []
    g = lambda: (Fr(r.randint(-5, 5), r.choice([1, 1, 2])), Fr(r.randint(-5, 5), r.choice([1, 1, 2])))
    cap = {}
    saved = P.csqrt

    def my_csqrt(z):
        cap['z'] = z
        return ('csqrt', z)
    try:
        P.csqrt = my_csqrt
        for it in range(ctx.n(200, 3000)):
            cls = r.choice(['cubic p0=p1', 'cubic p2=p3', 'cubic p0=p1=p2', 'cubic p1=p2=p3', 'cubic interior', 'quad p0=p1', 'quad p1=p2'])
            if cls.startswith('quad'):
                a, b = g(), g()
                if a == b:
                    continue
                pts, t = ([a, a, b], Fr(0)) if cls == 'quad p0=p1' else ([a, b, b], Fr(1))
            elif cls == 'cubic interior':
                # derivative d(t) = (t - t0)(alpha t + beta): integrate and convert to control points
                t0 = Fr(r.randint(1, 7), 8)
                al, be = g(), g()
                if al == (0, 0) and be == (0, 0):
                    continue
                cm = lambda u, v: (u[0] * v[0] - u[1] * v[1], u[0] * v[1] + u[1] * v[0])
                c0 = al
                c1 = (be[0] - t0 * al[0], be[1] - t0 * al[1])
                c2 = (-t0 * be[0], -t0 * be[1])
                a0 = g()
                a1, a2, a3 = c2, (c1[0] / 2, c1[1] / 2), (c0[0] / 3, c0[1] / 3)
                ad = lambda *vs: (sum(v[0] for v in vs), sum(v[1] for v in vs))
                sc = lambda k, v: (k * v[0], k * v[1])
                pts = [a0, ad(sc(Fr(1, 3), a1), a0), ad(sc(Fr(1, 3), ad(a2, sc(2, a1))), a0), ad(a3, a2, a1, a0)]
                t = t0
            else:
                a, b, d_ = g(), g(), g()
                if cls == 'cubic p0=p1':
                    pts, t = [a, a, b, d_], Fr(0)
                elif cls == 'cubic p2=p3':
                    pts, t = [a, b, d_, d_], Fr(1)
                elif cls == 'cubic p0=p1=p2':
                    pts, t = [a, a, a, b], Fr(0)
                else:
                    pts, t = [a, b, b, b], Fr(1)
                if len(set(pts)) == 1:
                    continue
            seg = (P.QuadraticBezier if len(pts) == 3 else P.CubicBezier)(*[QC(*q) for q in pts])
            cap.clear()
            try:
                res = P.bezier_unit_tangent(seg, Q(t))
            except ValueError:
                res = None
            if res is None:
                out = 'nolimit'
            elif 'z' not in cap:
                continue            # the derivative did not vanish: the regular branch was taken
            else:
                z = QC.lift(cap['z'])
                out = 'value %s %s' % (qstr(z.real), qstr(z.imag))
            lines.append('tanlimit %s | %s' % (' '.join(qstr(Q(v)) for q in pts for v in q), qstr(Q(t))))
            impl.append(out)
            c.count(cls)
    finally:
        P.csqrt = saved
    c.compare(lines, [m.strip() for m in common.driver(lines)], impl)
    return [c]


def sample(ctx, budget=1.0, hint=None, broken=None):
    spt = ctx.spt
    P = spt.path
    from .c19 import _rand_pts
    from .c05 import _rand_seg
    r = ctx.rng('sample' + ('' if budget == 1.0 else '-search'))
    fails, samples = [], []
    nontriv = set()
    n_eval = 0

    def fail(sig, what, inp, obs, exp, repro=''):
        if len(fails) < 40 and sum(1 for f in fails if f['signature'] == sig) < 2:
            fails.append(Failure(signature=sig, what=what, input=inp, observed=obs, expected=exp, repro=repro))

    for it in range(int(ctx.n(200, 2500) * budget)):
        kind = r.choice(['line', 'quad', 'cubic', 'cubic', 'arc', 'arc-circle', 'cubic-nearly-straight', 'quad-nearly-straight'])
        scale = r.choice([1.0, 1.0, 1e-2, 1e3, 1e-9])     # incl. tiny drawings: a regular point whose derivative is small in absolute terms
        if kind in ('arc', 'arc-circle'):
            z0 = complex(r.uniform(-1, 1), r.uniform(-1, 1)) * scale
            z1 = z0 + complex(r.uniform(-1, 1), r.uniform(-1, 1)) * scale
            if z0 == z1:
                continue
            rx = r.uniform(0.6, 3) * abs(z1 - z0)
            ry = rx if kind == 'arc-circle' else r.uniform(0.6, 3) * abs(z1 - z0)
            seg = P.Arc(z0, complex(rx, ry), r.choice([0, 0, 30, -45.5, 90, 200.5, 270]), r.random() < 0.5, r.random() < 0.5, z1)
        elif kind in ('cubic-nearly-straight', 'quad-nearly-straight'):
            # gently curved strokes: control points almost collinear, unevenly spaced, bulging by 1e-4 .. 1e-9 of the chord (first and
            # second derivative almost parallel: the cross product in the curvature formula is a small difference of large numbers)
            a_ = complex(r.uniform(-1, 1), r.uniform(-1, 1)) * scale
            d_ = cmath.exp(1j * r.uniform(0, 6.28)) * scale * r.choice([1.0, 300.0])
            lam_ = sorted(r.uniform(0.05, 0.95) for _ in range(2))
            b1_, b2_ = [r.choice([1e-4, 1e-6, 1e-7, 1e-9]) * r.choice([1, -1, 0.3]) for _ in range(2)]
            if kind.startswith('cubic'):
                seg = P.CubicBezier(a_, a_ + d_ * (lam_[0] + 1j * b1_), a_ + d_ * (lam_[1] + 1j * b2_), a_ + d_)
            else:
                seg = P.QuadraticBezier(a_, a_ + d_ * (lam_[0] + 1j * b1_), a_ + d_)
        else:
            seg = _rand_seg(spt, r, complex(r.uniform(-1, 1), r.uniform(-1, 1)) * scale, scale, kind)
        desc = repr(seg)
        t = r.choice([0.0, 1.0, 0.5, r.random(), r.random()])
        n_eval += 1
        nontriv.add((kind, scale))
        with warnings.catch_warnings():
            warnings.simplefilter('ignore')
            try:
                d = seg.derivative(t)
                if abs(d) < 1e-9 * scale:
                    continue
                T = seg.unit_tangent(t)
                N = seg.normal(t)
                kap = seg.curvature(t)
                dd = seg.derivative(t, 2) if kind != 'line' else 0j
            except Exception as e:
                fail('%s/raises' % kind.split('-')[0], 'unit_tangent/normal/curvature raised at a regular point', {'seg': desc, 't': t}, repr(e), 'values')
                continue
        kd = kind.split('-')[0]
        if abs(abs(T) - 1) > 1e-9 or abs(T - _unit(d)) > 1e-9:
            fail('%s.unit_tangent' % kd, 'unit_tangent is not derivative/|derivative|', {'seg': desc, 't': t}, repr(T), repr(_unit(d)), 'svgpathtools.%s.unit_tangent(%r)' % (desc, t))
        # direction of travel by finite differences inside the interval
        h = 1e-6
        ta, tb = (t, t + h) if t + h <= 1 else (t - h, t)
        fd = seg.point(tb) - seg.point(ta)
        if abs(fd) > 0 and abs(_unit(fd) - T) > 1e-3:
            fail('%s.unit_tangent/direction' % kd, 'unit_tangent does not point in the direction of travel', {'seg': desc, 't': t}, repr(T), repr(_unit(fd)),
                 'svgpathtools.%s.unit_tangent(%r)' % (desc, t))
        if abs(N - (-1j) * T) > 1e-12:
            fail('%s.normal' % kd, 'normal is not the unit tangent rotated by -90 degrees', {'seg': desc, 't': t}, repr(N), repr(-1j * T), 'svgpathtools.%s.normal(%r)' % (desc, t))
        want = abs(d.real * dd.imag - d.imag * dd.real) / abs(d) ** 3 if kind != 'line' else 0.0
        if abs(kap - want) > 1e-7 * (abs(want) + 1 / scale):
            fail('%s.curvature' % kd, 'curvature is not |x\'y\'\'-y\'x\'\'|/|(x\',y\')|^3', {'seg': desc, 't': t}, repr(kap), repr(want), 'svgpathtools.%s.curvature(%r)' % (desc, t))
        if kind.endswith('nearly-straight'):
            # exact curvature from the control points (rationals), compared to a relative 1e-7 plus the rounding of the cross product itself
            from fractions import Fraction as _F
            bp_ = [(_F(q_.real), _F(q_.imag)) for q_ in seg.bpoints()]
            tt_ = _F(t)
            def _dc(pts_):
                return [((pts_[i_ + 1][0] - pts_[i_][0]) * (len(pts_) - 1), (pts_[i_ + 1][1] - pts_[i_][1]) * (len(pts_) - 1)) for i_ in range(len(pts_) - 1)]
            def _ev(pts_):
                while len(pts_) > 1:
                    pts_ = [((1 - tt_) * pts_[i_][0] + tt_ * pts_[i_ + 1][0], (1 - tt_) * pts_[i_][1] + tt_ * pts_[i_ + 1][1]) for i_ in range(len(pts_) - 1)]
                return pts_[0]
            d1_ = _ev(_dc(bp_)); d2_ = _ev(_dc(_dc(bp_)))
            cross_ = abs(float(d1_[0] * d2_[1] - d1_[1] * d2_[0]))
            sp_ = math.hypot(float(d1_[0]), float(d1_[1]))
            exact_k = cross_ / sp_ ** 3
            noise_ = 64 * 2.0 ** -52 * math.hypot(float(d2_[0]), float(d2_[1])) / sp_ ** 2
            if abs(kap - exact_k) > 1e-7 * exact_k + noise_:
                fail('%s.curvature/nearly straight' % kd, 'curvature of a gently curved stroke is not |x\'y\'\'-y\'x\'\'|/|(x\',y\')|^3 (exact value from the control points)',
                     {'seg': desc, 't': t}, repr(kap), repr(exact_k), 'svgpathtools.%s.curvature(%r)' % (desc, t))
        if kind == 'arc-circle' and abs(kap - 1 / seg.radius.real) > 1e-7 / seg.radius.real:
            fail('arc.curvature/circle', 'curvature of a circular arc is not 1/r', {'seg': desc, 't': t}, repr(kap), repr(1 / seg.radius.real), 'svgpathtools.%s.curvature(%r)' % (desc, t))
        if kind in ('arc', 'arc-circle'):
            # curvature from the geometry alone: finite differences of point()
            hh = 1e-4
            tm = min(max(t, hh), 1 - hh)
            p0, p1, p2 = seg.point(tm - hh), seg.point(tm), seg.point(tm + hh)
            v = (p2 - p0) / (2 * hh); a2 = (p2 - 2 * p1 + p0) / hh ** 2
            kfd = abs(v.real * a2.imag - v.imag * a2.real) / abs(v) ** 3
            kk = seg.curvature(tm)
            if abs(kk - kfd) > 1e-3 * (kfd + 1 / scale):
                fail('arc.curvature/geometry', 'arc curvature disagrees with finite differences of point()', {'seg': desc, 't': tm}, repr(kk), repr(kfd),
                     'svgpathtools.%s.curvature(%r)' % (desc, tm))
        # transformation laws (similarities and reversal)
        ang = r.uniform(-180, 180); sc_ = r.choice([0.5, 2.0, 3.5]); z = complex(r.uniform(-5, 5), r.uniform(-5, 5)) * scale
        with warnings.catch_warnings():
            warnings.simplefilter('ignore')
            try:
                w = cmath.exp(1j * math.radians(ang))
                T_rot = seg.rotated(ang, origin=0j).unit_tangent(t)
                T_tr = seg.translated(z).unit_tangent(t)
                T_sc = seg.scaled(sc_).unit_tangent(t)
                T_rev = seg.reversed().unit_tangent(1 - t)
                k_rot = seg.rotated(ang, origin=0j).curvature(t)
                k_sc = seg.scaled(sc_).curvature(t)
                k_rev = seg.reversed().curvature(1 - t)
            except Exception as e:
                fail('%s/transform-raises' % kd, 'transformed segment raised', {'seg': desc, 't': t}, repr(e), 'values')
                continue
        for nm, got, wantv in (('rotation', T_rot, w * T), ('translation', T_tr, T), ('scaling', T_sc, T), ('reversal', T_rev, -T)):
            if abs(got - wantv) > 1e-7:
                fail('%s.unit_tangent/under-%s' % (kd, nm), 'tangent does not transform correctly under ' + nm, {'seg': desc, 't': t}, repr(got), repr(wantv))
        for nm, got, wantv in (('rotation', k_rot, kap), ('scaling', k_sc, kap / sc_), ('reversal', k_rev, kap)):
            if abs(got - wantv) > 1e-6 * (abs(wantv) + 1 / scale):
                fail('%s.curvature/under-%s' % (kd, nm), 'curvature does not transform correctly under ' + nm, {'seg': desc, 't': t}, repr(got), repr(wantv))
        if len(samples) < 3:
            samples.append({'seg': desc, 't': t})

    # vanishing derivative at an end: coincident control points, heading into every quadrant
    for it in range(int(ctx.n(80, 800) * budget)):
        kind = r.choice(['quad', 'cubic'])
        end = r.choice([0, 1])
        ang = r.uniform(-math.pi, math.pi) if r.random() < 0.6 else r.choice([0.3, 1.2, 2.0, 2.9, -0.3, -1.2, -2.0, -2.9])
        dirn = cmath.exp(1j * ang)
        exact = r.random() < 0.5
        if exact:
            # small dyadic coordinates: every polynomial evaluation in the singular branch is exact
            dirn = complex(round(dirn.real * 8) / 8, round(dirn.imag * 8) / 8)
            if dirn == 0:
                continue
            s0 = complex(r.randint(-12, 12) / 4, r.randint(-12, 12) / 4)
            other = s0 + dirn * r.choice([1, 2, 4])
            far = other + complex(r.randint(-8, 8) / 4, r.randint(-8, 8) / 4)
            dirn = dirn / abs(dirn)
        else:
            s0 = complex(r.uniform(-3, 3), r.uniform(-3, 3))
            other = s0 + dirn * r.uniform(0.5, 3)
            far = other + complex(r.uniform(-2, 2), r.uniform(-2, 2))
        if kind == 'cubic':
            seg = P.CubicBezier(s0, s0, other, far) if end == 0 else P.CubicBezier(far, other, s0, s0)
        else:
            seg = P.QuadraticBezier(s0, s0, other) if end == 0 else P.QuadraticBezier(other, s0, s0)
        t = float(end)
        travel = dirn if end == 0 else -dirn      # direction of travel from inside the interval
        desc = repr(seg)
        via_path = ''
        if r.random() < 0.35:
            # the same segment as a member of a path that is moved as a whole (translation by a dyadic vector / doubling keep the
            # coordinates exact and the direction of travel): its neighbour starts exactly at, a rounding error away from, or clearly
            # away from its end
            gap = r.choice([0, 0, 2.0 ** -30, 1e-9, -3e-10, 2.0 ** -40 * (1 + 1j), 0.5])
            e_ = seg.end + gap
            nxt = P.Line(e_, e_ + complex(r.choice([1, -1, 2]), r.choice([1, -2, 0.5])))
            prv = P.Line(seg.start - gap - complex(1, 0.5), seg.start - gap)
            members, idx = ([seg, nxt], 0) if end == 1 else ([prv, seg], 1)
            opn, ops_ = r.choice([('translated', '.translated((2.5-0.75j))'), ('scaled', '.scaled(2.0)'), ('translated twice', '.translated((4+2j)).translated((-4-2j))'),
                                  ('rotated', '.rotated(90, origin=0j)'), ('rotated', '.rotated(180, origin=0j)')])
            if opn == 'rotated' and not exact:
                opn, ops_ = 'translated', '.translated((2.5-0.75j))'
            desc = 'Path(%s)%s[%d]' % (', '.join('svgpathtools.%r' % (m,) for m in members), ops_, idx)
            try:
                with warnings.catch_warnings():
                    warnings.simplefilter('ignore')
                    seg = eval('svgpathtools.' + desc, {'svgpathtools': spt})
            except Exception as e:
                fail('Path.%s raises' % opn, 'a path-level similarity raised', {'seg': desc}, repr(e)[:200], 'a path', 'svgpathtools.' + desc)
                continue
            if 'rotated(90' in ops_:
                travel = travel * 1j
            elif 'rotated(180' in ops_:
                travel = -travel
            if opn == 'rotated':
                # numpy scalars from the rotation: the exact-zero test of the singular branch needs the coincidence to survive
                bp_ = seg.bpoints()
                if not ((end == 1 and bp_[-1] == bp_[-2]) or (end == 0 and bp_[0] == bp_[1])):
                    continue
            via_path = opn + ('/near-joint' if gap not in (0, 0.5) else '')
        n_eval += 1
        quadrant = ('right' if travel.real > 1e-9 else 'left' if travel.real < -1e-9 else 'vertical')
        nontriv.add(('singular', kind, end, quadrant, exact, via_path))
        unstable = (end == 1 and not exact)     # finding F28: float evaluation of g(1) is not exactly 0
        with warnings.catch_warnings():
            warnings.simplefilter('ignore')
            try:
                T = complex(seg.unit_tangent(t))
            except Exception as e:
                sig = 'unit_tangent/zero-derivative-at-t=1/float-coordinates/numerically-unstable' if unstable else '%s.unit_tangent/zero-derivative/raises' % kind
                fail(sig, 'unit_tangent raised where the derivative vanishes', {'seg': desc, 't': t}, repr(e)[:200], repr(travel),
                     'svgpathtools.%s.unit_tangent(%r)' % (desc, t))
                continue
        if abs(abs(T) - 1) > 1e-6 or (abs(T - travel) > 1e-5 and abs(T + travel) > 1e-5):
            sig = 'unit_tangent/zero-derivative-at-t=1/float-coordinates/numerically-unstable' if unstable else 'unit_tangent/zero-derivative/wrong-direction'
            fail(sig, 'unit_tangent at a vanishing derivative is not a unit vector along the curve', {'seg': desc, 't': t}, repr(T), repr(travel),
                 'svgpathtools.%s.unit_tangent(%r)' % (desc, t))
        elif abs(T - travel) > 1e-5:
            sig = ('unit_tangent/zero-derivative/sign-lost-in-left-half-plane' if quadrant != 'right'
                   else 'unit_tangent/zero-derivative/sign-wrong-in-right-half-plane')
            fail(sig, 'unit_tangent at a vanishing derivative is not the limit of derivative/|derivative| from inside the interval',
                 {'seg': desc, 't': t, 'quadrant': quadrant}, repr(T), repr(travel), 'svgpathtools.%s.unit_tangent(%r)' % (desc, t))
    return {'evaluations': n_eval, 'distinct_nontrivial': len(nontriv), 'failures': fails, 'samples': samples,
            'rule': 'random Line/Quadratic/Cubic/Arc (elliptical and circular) at scales 1e-2..1e3, t at ends and inside; tangent against derivative and finite '
                    'differences, normal, curvature against the formula, 1/r and finite differences of point(); rotation/translation/scaling/reversal laws; '
                    'Bezier segments whose first or last two control points coincide heading into every quadrant, 35% of them taken out of a two-segment path (neighbour touching exactly, a rounding error away, or apart) that was translated / doubled / turned by 90 or 180 degrees as a whole. distinct = distinct (kind, scale) / (singular, kind, end, half-plane)'}


def replay(spt, f):
    from .c19 import replay as rp
    return rp(spt, f)
