"""C08: bbox() contains the curve and every side of it is touched by the curve."""
from __future__ import annotations
import math
from fractions import Fraction as Fr
import numpy as np
from ..tracejobs import *
from .. import symtrace as st, common, histories
from ..gen_lean import Def
from ..runner import Corr, Failure

LEAN_MODULES = ['SvgVerif.Props.C08', 'SvgVerif.Props.C08Arc', 'SvgVerif.Props.C08ArcParam']


def _cubic_with_critical(r1, r2, k, c):
    """Bezier coordinates a0..a3 (Fractions) whose derivative is 3k (t-r1)(t-r2)"""
    co = [Fr(k), -Fr(3 * k, 2) * (r1 + r2), 3 * k * r1 * r2, Fr(c)]     # numpy order
    return [co[3], co[2] / 3 + co[3], (co[1] + 2 * co[2]) / 3 + co[3], co[0] + co[1] + co[2] + co[3]]


def gen_defs(spt, salt=0):
    bz = spt.bezier
    names = ['a0', 'a1', 'a2', 'a3']

    def mkjob(sign):
        """sign = +1: shadow with tau >= 0 (q = tau + sqdelta); -1: tau < 0 (q = tau - sqdelta)"""
        def job(r):
            # a'(t) = 3k (t-r1)(t-r2) has denom = -k and tau = -k (r1+r2)/2
            sh = _cubic_with_critical(Fr(1, 3) + Fr(salt % 7, 100), Fr(3, 4), Fr(-sign * (2 + salt % 3)), Fr(1, 5))
            env = dict(zip(names, sh))
            a = [st.R.var(n, env[n]) for n in names]
            rec = {'sqrt': [], 'pts': []}
            saved = (bz.sqrt, bz.bezier_point)

            def my_sqrt(x):
                rec['sqrt'].append(x)
                return st.sqrt(x)

            def my_bp(p, t):
                rec['pts'].append(t)
                return saved[1](p, t)
            try:
                bz.sqrt, bz.bezier_point = my_sqrt, my_bp
                lo, hi = bz.bezier_real_minmax(a)
            finally:
                bz.sqrt, bz.bezier_point = saved
            assert len(rec['sqrt']) == 1 and len(rec['pts']) == 4, rec
            delta = rec['sqrt'][0]
            r1, r2 = rec['pts'][2], rec['pts'][3]
            # r1 = q / denom, r2 = (a0 - a1) / q with q = tau +- sqrt(delta)
            assert r1.n.op == 'div' and r2.n.op == 'div' and r2.n.args[1] is r1.n.args[0]
            denom = st.R(r1.n.args[1])
            q = r1.n.args[0]
            assert q.op == ('add' if sign > 0 else 'sub') and q.args[1].op == 'fn', q.op
            tau = st.R(q.args[0])
            assert (tau.val >= 0) == (sign > 0)
            tag = 'pos' if sign > 0 else 'neg'
            out = [Def('minmax_r1_' + tag, names, r1.n, 'bezier.bezier_real_minmax: r1 (third local extremizer) on the path tau %s 0' % ('>=' if sign > 0 else '<')),
                   Def('minmax_r2_' + tag, names, r2.n, 'bezier.bezier_real_minmax: r2 (fourth local extremizer) on the path tau %s 0, q != 0' % ('>=' if sign > 0 else '<'))]
            if sign > 0:
                (t,), e2 = realvars(['t'], r)
                val = saved[1](a, t)
                out = [Def('minmax_denom', names, denom.n, 'bezier.bezier_real_minmax: denom'),
                       Def('minmax_delta', names, delta.n, 'bezier.bezier_real_minmax: delta (argument of sqrt)'),
                       Def('minmax_tau', names, tau.n, 'bezier.bezier_real_minmax: tau')] + out + [
                       Def('minmax_value', names + ['t'], node(val), 'bezier.bezier_point(a, t) as used by bezier_real_minmax')]
            return out
        return job
    defs = retry(mkjob(+1), 'c08/minmax' + ('/%d' % salt if salt else ''))
    defs += retry(mkjob(-1), 'c08/minmax-neg' + ('/%d' % salt if salt else ''))

    # degenerate cubic coordinate (denom == 0) and the quadratic / line route: derivative coefficients handed to the root finder
    def job2(r):
        a, env = realvars(['a0', 'a1', 'a2'], r)
        # elevated quadratic: b = degree elevation, so that a0-3a1+3a2-a3 == 0 identically on the symbols
        b = [a[0], (a[0] + 2 * a[1]) / 3, (2 * a[1] + a[2]) / 3, a[2]]
        rec = {}
        saved = bz.polyroots01

        def my_roots(dc):
            rec['dc'] = list(dc)
            return []
        out = []
        with allow_eq():
            try:
                bz.polyroots01 = my_roots
                bz.bezier_real_minmax(b)
            finally:
                bz.polyroots01 = saved
        dc = rec['dc']
        assert len(dc) == 2, dc
        out.append(Def('degenerate_dcoeff_0', ['a0', 'a1', 'a2'], node(dc[0]), 'derivative coefficients handed to polyroots01 when denom == 0 (degree-elevated quadratic a0,a1,a2): [0]'))
        out.append(Def('degenerate_dcoeff_1', ['a0', 'a1', 'a2'], node(dc[1]), 'derivative coefficients handed to polyroots01 when denom == 0: [1]'))
        return out
    defs += retry(job2, 'c08/degenerate' + ('/%d' % salt if salt else ''))
    return defs


class allow_eq:
    def __enter__(self):
        self.c = st.TraceCtx.current
        self.old = self.c.allow_eq
        self.c.allow_eq = True

    def __exit__(self, *a):
        self.c.allow_eq = self.old


from . import c04 as _c04
GEN = {'C08': gen_defs, 'C04': _c04.gen_defs}     # C08ArcParam uses C04's traced Arc.point (point_zero / point_one)

ASSUMPTIONS = [
    'math.sqrt is an oracle in the closed form; np.roots is the oracle when the cubic term of a coordinate vanishes and for quadratics (the theorem there would be conditional on "the roots returned contain every interior zero of the derivative"; that route is sampled)',
    'Arc.bbox: the model (Model.ArcBBox) is tied by exact correspondence on rationals with stand-ins for cos/sin/tan/atan/pi; the theorem arcBbox_contains_tight assumes start = point(0), end = point(1), |theta| <= 180, |delta| <= 360 (C04) and treats the float tests cos(phi) == 0 / sin(phi) == 0 as exact',
    'containment/tightness are exact-arithmetic statements over R; float rounding is sampled with the tolerances of the statement',
]


def _fr(x):
    x = Fr(x)
    return str(x.numerator) if x.denominator == 1 else '%d/%d' % (x.numerator, x.denominator)


def _exact_sqrt(x):
    x = Fr(x)
    n, d = x.numerator, x.denominator
    rn, rd = math.isqrt(n), math.isqrt(d)
    assert rn * rn == n and rd * rd == d, x
    return Fr(rn, rd)


class _NoRoots(Exception):
    pass


def _standins():
    """exact stand-ins for the math functions Arc.bbox / Arc.point call (the Lean driver has the same ones)"""
    from ..exactnum import Q

    def q(x):
        return x if isinstance(x, Q) else Q(Fr(x))

    def c(x):
        u = q(x) / 2
        return (1 - u * u) / (1 + u * u)

    def s(x):
        u = q(x) / 2
        return 2 * u / (1 + u * u)
    return {'cos': c, 'sin': s, 'tan': lambda x: s(x) / c(x), 'atan': lambda y: q(y) / (1 + abs(q(y))) * Fr(11, 7), 'pi': Q(Fr(22, 7))}


def _correspond_arc(ctx):
    """the REAL Arc.bbox (and Arc.point inside it) on exact rationals against Model.ArcBBox.bbox"""
    import math as _math
    from ..exactnum import Q, QC, qstr
    P = ctx.spt.path
    r = ctx.rng('corr/arcbbox')
    c = Corr('Arc.bbox')
    F = _standins()
    lines, impl = [], []
    rq = lambda lo=-6, hi=6, ds=(1, 1, 2, 4): Fr(r.randint(lo, hi), r.choice(ds))
    saved = (P.cos, P.sin, P.pi, _math.atan, _math.tan)
    try:
        P.cos, P.sin, P.pi = F['cos'], F['sin'], F['pi']
        _math.atan, _math.tan = F['atan'], F['tan']
        for it in range(ctx.n(300, 4000)):
            branch = r.choice(['cos0', 'sin0', 'general', 'general', 'general'])
            phi = {'cos0': Fr(2), 'sin0': Fr(0)}.get(branch) if branch != 'general' else rq(-5, 5, (1, 2, 3))
            if branch == 'general' and (phi == 0 or phi in (2, -2)):
                phi = Fr(1, 3)
            if branch == 'cos0' and r.random() < 0.5:
                phi = Fr(-2)
            rx, ry = Fr(r.randint(1, 6), r.choice([1, 2])), Fr(r.randint(1, 6), r.choice([1, 2]))
            theta = Fr(r.randint(-180, 180))
            delta = Fr(r.choice([-360, -300, -200, -90, -10, 10, 45, 90, 180, 270, 359, 360]))
            if r.random() < 0.3:    # make one of the candidate parameters land exactly on 0 or 1 (the closed filter)
                k = r.randint(-2, 2)
                ang = F['atan'](-(Q(ry) / Q(rx)) * F['tan'](phi)) if branch == 'general' else (F['pi'] / 2 if branch == 'cos0' else Q(0))
                theta = ((ang + F['pi'] * k) * (360 / (2 * F['pi']))).v - (delta if r.random() < 0.5 else 0)
            arc = P.Arc.__new__(P.Arc)
            arc.radius = QC(rx, ry)
            arc.phi = Q(phi)
            arc.rot_matrix = QC(rq(-2, 2), rq(-2, 2))       # read only through .real / .imag
            arc.center = QC(rq(), rq())
            arc.theta, arc.delta = Q(theta), Q(delta)
            arc.rotation = 0.0
            arc.start, arc.end = QC(rq(), rq()), QC(rq(), rq())
            args = [arc.start.real, arc.start.imag, arc.end.real, arc.end.imag, arc.center.real, arc.center.imag, rx, ry, phi,
                    arc.rot_matrix.real, arc.rot_matrix.imag, theta, delta]
            lines.append('arcbbox ' + ' '.join(qstr(Q(x) if not isinstance(x, Q) else x) for x in args))
            try:
                bb = P.Arc.bbox(arc)
                impl.append(' '.join(qstr(x) for x in bb))
            except Exception as e:
                impl.append('raise ' + type(e).__name__)
            c.count(branch)
            # distribution: how many critical parameters passed the closed filter, and whether one sat exactly on an end
            ax = F['atan'](-(Q(ry) / Q(rx)) * F['tan'](phi)) if branch == 'general' else (F['pi'] / 2 if branch == 'cos0' else Q(0))
            tx = [((ax + F['pi'] * k) * (360 / (2 * F['pi'])) - Q(theta)) / Q(delta) for k in range(-4, 5)]
            c.count('x candidates passing 0<=t<=1: %d' % sum(1 for t in tx if 0 <= t <= 1))
            if any(t == 0 or t == 1 for t in tx):
                c.count('x candidate exactly on an end')
    finally:
        P.cos, P.sin, P.pi, _math.atan, _math.tan = saved
    model = [m.strip() for m in common.driver(lines)]
    c.compare(lines, model, impl)
    return c


def correspond(ctx):
    spt = ctx.spt
    bz = spt.bezier
    r = ctx.rng('corr')
    c = Corr('bezier_real_minmax (cubic coordinate)')
    lines, impl = [], []
    saved = (bz.sqrt, bz.polyroots01)

    def no_roots(dc):
        raise _NoRoots()
    try:
        bz.sqrt = _exact_sqrt
        bz.polyroots01 = no_roots
        for it in range(ctx.n(300, 3000)):
            kind = r.choice(['two-real', 'two-real', 'two-real', 'double', 'complex', 'degenerate'])
            k = Fr(r.choice([-3, -1, 1, 2, 5]), r.choice([1, 2]))
            c0 = Fr(r.randint(-8, 8), 4)
            if kind == 'two-real':
                r1 = Fr(r.randint(-6, 14), 8)
                r2 = Fr(r.randint(-6, 14), 8)
                a = _cubic_with_critical(r1, r2, k, c0)
                c.count('critical points in (0,1): %d' % sum(1 for x in (r1, r2) if 0 < x < 1))
                c.count('tau %s 0' % ('>=' if -k * (r1 + r2) >= 0 else '<'))
            elif kind == 'double':   # tau^2 = delta = 0 when the double root is 0: the `q != 0` guard
                r1 = r2 = Fr(r.choice([0, 0, 0, 1, 4, 8, -3]), 8)
                a = _cubic_with_critical(r1, r2, k, c0)
                c.count('double critical point at %s' % ('0 (q == 0)' if r1 == 0 else 'another place'))
            elif kind == 'complex':
                p, q = Fr(r.randint(-4, 12), 8), Fr(r.randint(1, 6), 4)
                # a'(t) = 3k((t-p)^2 + q^2)
                co = [k, -3 * k * p, 3 * k * (p * p + q * q), c0]
                a = [co[3], co[2] / 3 + co[3], (co[1] + 2 * co[2]) / 3 + co[3], co[0] + co[1] + co[2] + co[3]]
                c.count('no real critical point')
            else:
                q0, q1, q2 = [Fr(r.randint(-8, 8), 2) for _ in range(3)]
                a = [q0, (q0 + 2 * q1) / 3, (2 * q1 + q2) / 3, q2]
                c.count('cubic term vanishes')
            lines.append('minmax ' + ' '.join(_fr(x) for x in a))
            try:
                lo, hi = bz.bezier_real_minmax(a)
                impl.append('%s %s' % (_fr(lo), _fr(hi)))
            except _NoRoots:
                impl.append('none')
    finally:
        bz.sqrt, bz.polyroots01 = saved
    c.compare(lines, [m.strip() for m in common.driver(lines)], impl)

    c2 = Corr('Path.bbox')
    P = spt.path
    lines, impl = [], []
    for it in range(ctx.n(150, 1500)):
        n = r.randint(1, 5)
        segs, boxes = [], []
        for _ in range(n):
            z0 = complex(r.randint(-9, 9), r.randint(-9, 9))
            z1 = complex(r.randint(-9, 9), r.randint(-9, 9))
            if z0 == z1:
                z1 += 1
            segs.append(P.Line(z0, z1))
            boxes += [min(z0.real, z1.real), max(z0.real, z1.real), min(z0.imag, z1.imag), max(z0.imag, z1.imag)]
        lines.append('pathbbox ' + ' '.join(_fr(Fr(b)) for b in boxes))
        impl.append(' '.join(_fr(Fr(b)) for b in P.Path(*segs).bbox()))
    c2.count('paths', len(lines))
    c2.compare(lines, [m.strip() for m in common.driver(lines)], impl)
    return [c, c2, _correspond_arc(ctx)]


def sample(ctx, budget=1.0, hint=None, broken=None):
    spt = ctx.spt
    P = spt.path
    from .c05 import _rand_seg
    from .c19 import _rand_pts
    r = ctx.rng('sample' + ('' if budget == 1.0 else '-search'))
    fails, samples = [], []
    nontriv = set()
    n_eval = 0
    ts = np.linspace(0, 1, 2001)

    def fail(sig, what, inp, obs, exp, repro=''):
        if len(fails) < 40 and sum(1 for f in fails if f['signature'] == sig) < 2:
            fails.append(Failure(signature=sig, what=what, input=inp, observed=obs, expected=exp, repro=repro))

    def check(obj, desc, kind, pts, rep0=None):
        try:
            xmin, xmax, ymin, ymax = obj.bbox()
        except Exception as e:
            fail('%s.bbox/raises' % kind, 'bbox() raised', {'obj': desc}, repr(e), 'a box', (rep0 if rep0 is not None else 'svgpathtools.%s.bbox()' % desc))
            return
        xs, ys = pts.real, pts.imag
        size = max(xs.max() - xs.min(), ys.max() - ys.min(), 1e-300)
        # relative to the size of the curve, plus what the rounding of the coordinates themselves does to an extremum found from
        # DIFFERENCES of coordinates (a curve of size 2e-4 sitting at 3000 has lost seven digits before anything is computed)
        scale = size + max(abs(xs).max(), abs(ys).max()) * 1e-7
        tol = 1e-9 * scale + 1e4 * 2.0 ** -52 * max(abs(xs).max(), abs(ys).max())
        rep = (rep0 if rep0 is not None else 'svgpathtools.%s.bbox()' % desc)
        if xs.min() < xmin - tol or xs.max() > xmax + tol or ys.min() < ymin - tol or ys.max() > ymax + tol:
            i = int(np.argmax(np.maximum.reduce([xmin - xs, xs - xmax, ymin - ys, ys - ymax])))
            fail('%s.bbox/containment' % kind, 'a point of the curve lies outside bbox()', {'obj': desc, 'point': repr(complex(pts[i]))},
                 repr((xmin, xmax, ymin, ymax)), 'box containing %r' % complex(pts[i]), rep)
        tt = 1e-5 * size
        if xs.min() > xmin + tt or xs.max() < xmax - tt or ys.min() > ymin + tt or ys.max() < ymax - tt:
            fail('%s.bbox/tightness' % kind, 'a side of bbox() is not touched by the curve', {'obj': desc}, repr((xmin, xmax, ymin, ymax)),
                 repr((xs.min(), xs.max(), ys.min(), ys.max())), rep)

    for it in range(int(ctx.n(250, 3000) * budget)):
        kind = r.choice(['line', 'quad', 'cubic', 'cubic', 'cubic-elevated', 'cubic-near-elevated', 'cubic-near-flat-end', 'cubic-monotone', 'arc', 'arc', 'arc-large'])
        scale = r.choice([1e-2, 1.0, 1.0, 1e3])
        if kind in ('line', 'quad', 'cubic'):
            ps, scale = _rand_pts(r, {'line': 2, 'quad': 3, 'cubic': 4}[kind])
            if all(q == ps[0] for q in ps):
                continue
            seg = {'line': P.Line, 'quad': P.QuadraticBezier, 'cubic': P.CubicBezier}[kind](*ps)
        elif kind == 'cubic-elevated':      # a coordinate polynomial that degenerates to lower degree (exactly, dyadic inputs)
            q = [complex(r.randint(-16, 16), r.randint(-16, 16)) * 3 for _ in range(3)]
            if r.random() < 0.5:
                seg = P.CubicBezier(q[0], (q[0] + 2 * q[1]) / 3, (2 * q[1] + q[2]) / 3, q[2])
            else:   # only the x coordinate is an elevated quadratic
                y = [r.uniform(-50, 50) for _ in range(4)]
                xs_ = [q[0].real, (q[0].real + 2 * q[1].real) / 3, (2 * q[1].real + q[2].real) / 3, q[2].real]
                seg = P.CubicBezier(*[complex(a, b) for a, b in zip(xs_, y)])
        elif kind == 'cubic-near-elevated':
            # decimal coordinates whose cubic term vanishes exactly over the rationals but leaves a rounding
            # residue in floats (the input class of the repaired cancellation defect)
            def coord():
                while True:
                    a0, a1, a2 = [r.randint(-9, 9) for _ in range(3)]
                    a3 = a0 - 3 * a1 + 3 * a2
                    if abs(a3) <= 30:
                        d = r.choice([10.0, 1000.0, 1e5, 0.7])
                        return [a0 / d, a1 / d, a2 / d, a3 / d]
            x, y = coord(), (coord() if r.random() < 0.5 else [r.uniform(-1, 1) for _ in range(4)])
            if r.random() < 0.5:
                x, y = y, x
            seg = P.CubicBezier(*[complex(a, b) for a, b in zip(x, y)])
            if seg.start == seg.control1 == seg.control2 == seg.end:
                continue
        elif kind == 'cubic-near-flat-end':
            # control2 and end (or start and control1) agree in one coordinate only up to rounding - 0.1 + 0.2 against 0.3, 3 * 1.1 against
            # 3.3, a value and itself after a 90 degree turn - while that coordinate is not monotone
            pairs_ = [(0.1 + 0.2, 0.3), (3 * 1.1, 3.3), (0.7 + 0.1, 0.8), (1.1 * 1.1, 1.21), (0.3, 0.1 + 0.2)]
            u_, v_ = r.choice(pairs_)
            s_ = r.choice([1.0, -1.0, 10.0])
            u_, v_ = u_ * s_, v_ * s_
            lo_ = min(u_, v_) - abs(u_) * r.uniform(0.5, 2) - 0.2
            a0_ = u_ + r.choice([0.0, abs(u_) * 0.5, -abs(u_) * 0.3])
            coord = [a0_, lo_ if r.random() < 0.5 else u_ + abs(u_) * 2 + 0.5, u_, v_]      # ..., control2 = u, end = v ~ u
            other = [r.uniform(-1, 1) for _ in range(4)]
            if r.random() < 0.5:
                coord = coord[::-1]; other = other[::-1]
            x, y = (coord, other) if r.random() < 0.5 else (other, coord)
            seg = P.CubicBezier(*[complex(a, b) for a, b in zip(x, y)])
            if r.random() < 0.3:
                seg = seg.rotated(r.choice([90, -90]), origin=0j)
        elif kind == 'cubic-monotone':
            x = sorted(r.uniform(-5, 5) for _ in range(4)); y = sorted(r.uniform(-5, 5) for _ in range(4))
            seg = P.CubicBezier(*[complex(a, b) for a, b in zip(x, y)])
        else:
            seg = None
            while seg is None:
                z0 = complex(r.uniform(-1, 1), r.uniform(-1, 1)) * scale
                z1 = z0 + complex(r.uniform(-1, 1), r.uniform(-1, 1)) * scale
                if z0 == z1:
                    continue
                rad = complex(r.uniform(0.3, 3), r.uniform(0.3, 3)) * scale
                if kind == 'arc-large':
                    rad = complex(1, r.choice([1, 1, 0.5, 2])) * abs(z1 - z0) * r.uniform(0.52, 0.8)
                rot = r.choice([0, 0, 90, 180, 270, 30, 45.5, -60, 200.5, 725.0, r.uniform(-360, 360)])
                seg = P.Arc(z0, rad, rot, (r.random() < 0.5) or kind == 'arc-large', r.random() < 0.5, z1)
        derived = ''
        if r.random() < 0.35:
            # an object obtained through the library's own operations instead of the constructor
            derived = r.choice(['rotated', 'translated', 'scaled', 'reversed', 'cropped', 'warm+reversed'])
            try:
                if derived == 'rotated':
                    seg = seg.rotated(r.choice([30, 90, -45.5, 123.0, 180]))
                elif derived == 'translated':
                    seg = seg.translated(complex(r.uniform(-3, 3), r.uniform(-3, 3)) * scale)
                elif derived == 'scaled':
                    seg = seg.scaled(r.choice([0.5, 2.0, -1.5]))
                elif derived == 'cropped':
                    t0_ = r.uniform(0, 0.5)
                    seg = seg.cropped(t0_, r.uniform(t0_ + 0.2, 1))
                else:
                    if derived.startswith('warm'):
                        seg.length(); seg.bbox()
                    seg = seg.reversed()
            except Exception:
                derived = ''
        desc = repr(seg) + ((' [obtained by %s]' % derived) if derived else '')
        rep0 = None
        if not derived:
            # an object with a past (queries, in-place edits kept or undone, reversal, copies): see harness/histories.py
            seg, src_, tags_ = histories.prepare(spt, r, seg, p=0.35)
            if tags_:
                derived = '+'.join(tags_)
                desc = src_
                rep0 = src_ + '.bbox()'
        n_eval += 1
        nontriv.add((kind, scale, derived))
        pts = np.array([seg.point(t) for t in ts])
        check(seg, desc, kind.split('-')[0], pts, rep0)
        if len(samples) < 3:
            samples.append({'seg': desc})
    for it in range(int(ctx.n(40, 400) * budget)):
        n = r.randint(1, 5)
        cur = complex(r.uniform(-3, 3), r.uniform(-3, 3))
        segs = []
        for i in range(n):
            segs.append(_rand_seg(spt, r, cur, 1.0))
            cur = segs[-1].end + (complex(1, 1) if r.random() < 0.3 else 0)
        path = P.Path(*segs)
        twin_hist = ''
        if r.random() < 0.3:
            # the box is asked for, then one coordinate of one point moves between -1 and -2 (two values with equal hash in CPython, also
            # inside a complex and inside the tuples segments and paths hash), then the box is asked for again
            cand = [sg for sg in segs if not isinstance(sg, P.Arc)]
            if cand:
                sg = r.choice(cand)
                a_ = float(r.randint(-3, 3))
                v1_, v2_ = r.choice([(complex(a_, -1.0), complex(a_, -2.0)), (complex(-2.0, a_), complex(-1.0, a_)), (complex(a_, -2.0), complex(a_, -1.0))])
                attr = r.choice(['start', 'end'])
                setattr(sg, attr, v1_)
                path.bbox(); path.length()
                how_ = r.choice(['attribute', 'item'])
                if how_ == 'attribute':
                    setattr(sg, attr, v2_)
                else:
                    i_ = [j for j, x_ in enumerate(segs) if x_ is sg][0]
                    new_ = type(sg)(*[(v2_ if (k_ == (0 if attr == 'start' else len(sg.bpoints()) - 1)) else q_) for k_, q_ in enumerate(sg.bpoints())])
                    path[i_] = new_
                    segs[i_] = new_
                twin_hist = ' [after bbox(), then %s %s: %r -> %r]' % (how_, attr, v1_, v2_)
        n_eval += 1
        nontriv.add(('path', n, bool(twin_hist)))
        pts = np.concatenate([np.array([s.point(t) for t in ts[::4]]) for s in segs])
        desc = repr(path).replace('\n', ' ') + twin_hist
        check(path, desc, 'Path', pts, rep0=('' if twin_hist else None))
        bb = path.bbox()
        sb = [s.bbox() for s in segs]
        want = (min(b[0] for b in sb), max(b[1] for b in sb), min(b[2] for b in sb), max(b[3] for b in sb))
        if tuple(bb) != want:
            fail('Path.bbox/union', 'path box is not the union of the segment boxes', {'path': desc}, repr(tuple(bb)), repr(want), ('' if twin_hist else 'svgpathtools.%s.bbox()' % desc))
    return {'evaluations': n_eval, 'distinct_nontrivial': len(nontriv), 'failures': fails, 'samples': samples,
            'rule': 'random segments: lines, quadratics, cubics (generic, degree-elevated so that a coordinate polynomial degenerates exactly, monotone), '
                    'arcs of every rotation / flag combination incl. nearly full turns, scales 1e-2..1e3; random paths. 2001 points per segment; '
                    'containment within 1e-9 size, each side attained within 1e-5 size. distinct = distinct (kind, scale)'}


def replay(spt, f):
    from .c19 import replay as rp
    return rp(spt, f)
