"""C01: Path.d() output parses back to the same path, under every option."""
from __future__ import annotations
import itertools
import math
import warnings
from fractions import Fraction as Fr
from .. import common
from ..runner import Corr, Failure

LEAN_MODULES = ['SvgVerif.Props.C01']
ASSUMPTIONS = [
    'float(repr(x)) == x and str.format produce the tokens (CPython); the serializer model is tied at token level through the real tokenizer',
    'absolute form: the theorem uses no arithmetic law beyond commutativity of + (inherited from C02), so it speaks about floats; relative form: a + (b - a) = b is assumed, i.e. exact arithmetic - rounding of the emitted differences is sampled',
    'arcs are their raw Arc(...) arguments here; re-normalisation of auto-enlarged radii is C04',
]

OPTS = list(itertools.product([False, True], repeat=3))   # useSandT, use_closed_attrib, rel


def _fr(x):
    x = Fr(x)
    return str(x.numerator) if x.denominator == 1 else '%d/%d' % (x.numerator, x.denominator)


def _pt(z):
    return '%s %s' % (_fr(Fr(z.real)), _fr(Fr(z.imag)))


def _seg_words(spt, s):
    P = spt.path
    if isinstance(s, P.Line):
        return 'L %s %s' % (_pt(s.start), _pt(s.end))
    if isinstance(s, P.QuadraticBezier):
        return 'Q %s %s %s' % (_pt(s.start), _pt(s.control), _pt(s.end))
    if isinstance(s, P.CubicBezier):
        return 'C %s %s %s %s' % (_pt(s.start), _pt(s.control1), _pt(s.control2), _pt(s.end))
    return 'A %s %s %s %d %d %s' % (_pt(s.start), _pt(s.radius), _fr(Fr(s.rotation)), int(s.large_arc), int(s.sweep), _pt(s.end))


def _gen_path(spt, r, dy=True):
    """structured dyadic path: 1-3 subpaths, open / closed by line / closed by curve / revisiting the start,
    smooth and non-smooth joints, arcs whose radii need no enlargement"""
    P = spt.path

    def pt():
        return complex(r.randint(-16, 16), r.randint(-16, 16)) / r.choice([1, 1, 2, 4])
    segs = []
    for sub in range(r.randint(1, 3)):
        cur = pt()
        first = cur
        n = r.randint(1, 6)
        prev = None
        for i in range(n):
            kind = r.choice(['line', 'line', 'quad', 'cubic', 'cubic', 'arc'])
            closing = (i == n - 1 and r.random() < 0.6)
            revisit = (not closing and r.random() < 0.15)
            end = first if (closing or revisit) else pt()
            if end == cur:
                end = cur + complex(1, 0.5)
            if kind == 'line':
                s = P.Line(cur, end)
            elif kind == 'quad':
                c = pt()
                if isinstance(prev, P.QuadraticBezier) and r.random() < 0.5:
                    c = cur + cur - prev.control          # smooth joint, written as T when useSandT
                elif isinstance(prev, P.CubicBezier) and r.random() < 0.5:
                    c = cur + cur - prev.control2         # mirrored handle after a curve of the other kind (no shorthand applies)
                elif r.random() < 0.2:
                    c = cur
                s = P.QuadraticBezier(cur, c, end)
            elif kind == 'cubic':
                c1, c2 = pt(), pt()
                if isinstance(prev, P.CubicBezier) and r.random() < 0.5:
                    c1 = cur + cur - prev.control2
                elif isinstance(prev, P.QuadraticBezier) and r.random() < 0.5:
                    c1 = cur + cur - prev.control         # mirrored handle after a curve of the other kind (no shorthand applies)
                elif r.random() < 0.2:
                    c1 = cur
                s = P.CubicBezier(cur, c1, c2, end)
            else:
                rad = complex(r.choice([64, 96, 80]), r.choice([64, 72, 128]))
                s = P.Arc(cur, rad, r.choice([0, 30, -45, 90]), r.random() < 0.5, r.random() < 0.5, end)
                if s.radius != rad:
                    s = P.Line(cur, end)
            segs.append(s)
            prev = s
            cur = end
    return P.Path(*segs)


def correspond(ctx):
    spt = ctx.spt
    P = spt.path
    r = ctx.rng('corr')
    c = Corr('Path.d/tokens')
    lines, impl = [], []
    pobj = P.Path()
    for it in range(ctx.n(150, 1500)):
        path = _gen_path(spt, r)
        segtxt = ' ; '.join(_seg_words(spt, s) for s in path)
        for (us, uc, rel) in OPTS:
            lines.append('dtoks %d %d %d | %s' % (us, uc, rel, segtxt))
            with warnings.catch_warnings():
                warnings.simplefilter('ignore')
                d = path.d(useSandT=us, use_closed_attrib=uc, rel=rel)
            toks = []
            for t in pobj._tokenize_path(d):
                toks.append('c' + t if t in P.COMMANDS else _fr(Fr(float(t))))
            impl.append(' '.join(toks))
            c.count('opts useSandT=%d closed=%d rel=%d' % (us, uc, rel))
        try:
            closed = path.iscontinuous() and path.isclosed()
        except Exception:
            closed = False
        c.count('closed path' if closed else 'open path')
        c.count('last=%s' % type(path[-1]).__name__)
    model = [m.strip() for m in common.driver(lines)]
    c.compare(lines, model, impl)
    return [c]


# ---------------------------------------------------------------------------
def _rand_float_path(spt, r):
    P = spt.path
    cls = r.choice(['int', 'half', 'tiny', 'huge', 'generic', 'generic'])

    def num():
        if cls == 'int':
            return float(r.randint(-50, 50))
        if cls == 'half':
            return r.randint(-100, 100) / 2
        if cls == 'tiny':
            return r.uniform(-1, 1) * 1e-7
        if cls == 'huge':
            return r.uniform(-1, 1) * 1e12
        return r.uniform(-100, 100)

    def pt():
        return complex(num(), num())
    segs = []
    for sub in range(r.randint(1, 3)):
        cur = pt(); first = cur; prev = None
        n = r.randint(1, 6)
        for i in range(n):
            kind = r.choice(['line', 'quad', 'cubic', 'cubic', 'arc'])
            closing = (i == n - 1 and r.random() < 0.6)
            revisit = (not closing and r.random() < 0.15)
            end = first if (closing or revisit) else pt()
            if (closing or revisit) and r.random() < 0.25 and first != 0:
                # back at the start only up to round-off: a few ulps, or a relative 1e-10 .. 1e-8, away from it (NOT closed)
                end = r.choice([complex(first.real + 3 * _ulp(first.real), first.imag - 2 * _ulp(first.imag)), first * (1 + 3e-10), first * (1 - 2e-9),
                                complex(first.real * (1 + 1e-8), first.imag)])
            if end == cur:
                continue
            if kind == 'line':
                s = P.Line(cur, end)
            elif kind == 'quad':
                c = pt()
                if isinstance(prev, P.QuadraticBezier) and r.random() < 0.6:
                    c = cur + cur - prev.control
                elif isinstance(prev, P.QuadraticBezier) and r.random() < 0.3:
                    c = cur + (cur - prev.control)     # smooth, but a different rounding
                elif isinstance(prev, P.CubicBezier) and r.random() < 0.5:
                    c = cur + cur - prev.control2      # mirrored across the joint, but after a curve of the OTHER kind: T does not apply
                s = P.QuadraticBezier(cur, c, end)
            elif kind == 'cubic':
                c1, c2 = pt(), pt()
                if isinstance(prev, P.CubicBezier) and r.random() < 0.6:
                    c1 = cur + cur - prev.control2
                elif isinstance(prev, P.CubicBezier) and r.random() < 0.3:
                    c1 = cur + (cur - prev.control2)
                elif isinstance(prev, P.QuadraticBezier) and r.random() < 0.5:
                    c1 = cur + cur - prev.control      # mirrored across the joint, but after a curve of the OTHER kind: S does not apply
                elif r.random() < 0.15:
                    c1 = cur
                s = P.CubicBezier(cur, c1, c2, end)
            else:
                sc = abs(end - cur)
                rad = complex(r.uniform(0.2, 3) * sc, r.uniform(0.2, 3) * sc)
                s = P.Arc(cur, rad, r.choice([0.0, 30.0, -45.5, 400.0]), r.random() < 0.5, r.random() < 0.5, end)
            segs.append(s); prev = s; cur = end
    if segs and r.random() < 0.5 and isinstance(segs[-1], P.Line) and segs[-1].end == segs[0].start and all(a_.end == b_.start for a_, b_ in zip(segs, segs[1:])):
        # a closed outline drawn twice (or its closing edge retraced): an EARLIER Line equal, by value, to the closing Line
        dup = [type(x_)(*x_.bpoints()) if not isinstance(x_, P.Arc) else P.Arc(x_.start, x_.radius, x_.rotation, x_.large_arc, x_.sweep, x_.end) for x_ in segs]
        segs = segs + dup if r.random() < 0.6 else segs + [P.Line(segs[-1].end, segs[-1].start), P.Line(segs[-1].start, segs[-1].end)]
    return (P.Path(*segs) if segs else None), cls


def _ulp(x):
    return math.ulp(abs(x)) if x else 5e-324


def sample(ctx, budget=1.0, hint=None, broken=None):
    spt = ctx.spt
    P = spt.path
    r = ctx.rng('sample' + ('' if budget == 1.0 else '-search'))
    fails, samples = [], []
    nontriv = set()
    n_eval = 0

    def fail(sig, what, inp, obs, exp, repro=''):
        if len(fails) < 40 and sum(1 for f in fails if f['signature'] == sig) < 2:
            fails.append(Failure(signature=sig, what=what, input=inp, observed=obs, expected=exp, repro=repro))

    def pts(s):
        if isinstance(s, P.Arc):
            return [s.start, s.end]
        return list(s.bpoints())

    for it in range(int(ctx.n(150, 2000) * budget)):
        path, cls = _rand_float_path(spt, r)
        if path is None or len(path) == 0:
            continue
        # optional mutation history first: the d-string must describe the CURRENT segments
        if r.random() < 0.3:
            # queries first (they may fill whatever the path caches: end points, closedness, a first d-string, lengths),
            # then an edit through the path's own interface
            for q_ in r.sample(['ends', 'closed', 'd', 'length', 'none'], r.randint(0, 2)):
                try:
                    if q_ == 'ends':
                        path.start, path.end
                    elif q_ == 'closed':
                        path.iscontinuous() and path.isclosed()
                    elif q_ == 'd':
                        path.d(use_closed_attrib=True)
                    elif q_ == 'length':
                        path.length()
                except Exception:
                    pass
            how = r.choice(['set', 'set', 'pop', 'append', 'setlast', 'insert0'])
            j = r.randrange(len(path))
            z = path[j].end + complex(3.5, -20.25)
            if how == 'set':
                path[r.choice([j, j - len(path)])] = P.Line(path[j].start, z)
            elif how == 'pop' and len(path) > 1:
                path.pop()                      # e.g. the closing line of a closed path
            elif how == 'append':
                path.append(P.Line(path[-1].end, path[-1].end + complex(-7.25, 2.5)))     # a tail after a closed outline
            elif how == 'setlast':
                last = path[-1]
                path[-1] = P.Line(last.start, last.end + complex(1.5, 1.25)) if isinstance(last, P.Line) else \
                    P.CubicBezier(last.start, last.start + 1, last.start + 2j, last.end + complex(2.5, -0.5))
            else:
                path.insert(0, P.Line(path[0].start + complex(-4.5, 3.25), path[0].start))
        n_eval += 1
        try:
            closed = path.iscontinuous() and path.isclosed()
        except Exception:
            closed = False
        nontriv.add((cls, closed, type(path[-1]).__name__, len(path.continuous_subpaths()) > 1))
        desc = repr(path).replace('\n', ' ')
        for (us, uc, rel) in OPTS:
            with warnings.catch_warnings():
                warnings.simplefilter('ignore')
                d = path.d(useSandT=us, use_closed_attrib=uc, rel=rel)
                try:
                    back = spt.parse_path(d)
                except Exception as e:
                    fail('d/parse raises', 'parse_path(path.d(...)) raised', {'path': desc, 'opts': [us, uc, rel], 'd': d}, repr(e), 'a path',
                         'svgpathtools.parse_path(svgpathtools.%s.d(useSandT=%r, use_closed_attrib=%r, rel=%r))' % (desc, us, uc, rel))
                    continue
            rep = 'svgpathtools.parse_path(svgpathtools.%s.d(useSandT=%r, use_closed_attrib=%r, rel=%r))' % (desc, us, uc, rel)
            segs = list(back)
            extra_ok = False
            if rel and len(segs) == len(path) + 1 and isinstance(segs[-1], P.Line):
                # relative form only: a closing line of rounding-error length after a Z that follows a curve
                scale = max(abs(p) for s in path for p in pts(s))
                if abs(segs[-1].end - segs[-1].start) <= 64 * len(path) * _ulp(scale) and not isinstance(path[-1], P.Line):
                    segs = segs[:-1]; extra_ok = True
            if len(segs) != len(path):
                which = 'dropped' if len(segs) < len(path) else 'added'
                fail('d/segment %s (closed=%s, last=%s)' % (which, closed, type(path[-1]).__name__), 'a segment was %s by the round trip' % which,
                     {'path': desc, 'opts': {'useSandT': us, 'use_closed_attrib': uc, 'rel': rel}, 'd': d}, repr(back)[:300], 'same number of segments', rep)
                continue
            bad = None
            cnt = 0
            for a, b in zip(path, segs):
                cnt += 1
                if type(a) is not type(b):
                    bad = ('kind', a, b); break
                if isinstance(a, P.Arc):
                    if a.large_arc != b.large_arc or a.sweep != b.sweep or a.rotation != b.rotation:
                        bad = ('arc flags/rotation', a, b); break
                    if abs(a.radius - b.radius) > 1e-12 * abs(a.radius):
                        bad = ('arc radius', a, b); break
                for p, q in zip(pts(a), pts(b)):
                    if rel:
                        scale = max(abs(p), abs(q), max(abs(x) for s in path for x in pts(s)))
                        if abs(p - q) > 8 * cnt * _ulp(scale) * 4:
                            bad = ('point (relative form)', a, b); break
                    elif p != q:
                        bad = ('point (absolute form)', a, b); break
                if bad:
                    break
            if bad:
                sig = 'd/%s/useSandT=%d closed_attrib=%d rel=%d' % (bad[0], us, uc, rel)
                fail(sig, 'round trip changed a %s' % bad[0], {'path': desc, 'opts': {'useSandT': us, 'use_closed_attrib': uc, 'rel': rel}, 'd': d},
                     repr(bad[2]), repr(bad[1]), rep)
            elif not rel and not extra_ok and back != path and not any(
                    isinstance(a, P.Arc) and a.radius != b.radius for a, b in zip(path, segs)):   # enlarged radii may differ by rounding
                fail('d/not-equal/absolute', 'absolute form does not compare equal', {'path': desc, 'd': d}, repr(back)[:200], desc[:200], rep)
        if len(samples) < 3:
            samples.append({'path': desc[:300], 'd': path.d()[:200]})
    # chains of smooth joints with generic float coordinates: the S/T decision and the parser must agree to the last bit
    for it in range(int(ctx.n(40, 400) * budget)):
        kind = r.choice(['cubic', 'quad'])
        cur = complex(r.uniform(-100, 100), r.uniform(-100, 100))
        segs = []
        for j in range(8):
            end = complex(r.uniform(-100, 100), r.uniform(-100, 100))
            if kind == 'cubic':
                c2 = complex(r.uniform(-100, 100), r.uniform(-100, 100))
                c1 = (cur + (cur - segs[-1].control2)) if segs else complex(r.uniform(-100, 100), r.uniform(-100, 100))
                segs.append(P.CubicBezier(cur, c1, c2, end))
            else:
                c = (cur + (cur - segs[-1].control)) if segs else complex(r.uniform(-100, 100), r.uniform(-100, 100))
                segs.append(P.QuadraticBezier(cur, c, end))
            cur = end
        path = P.Path(*segs)
        n_eval += 1
        nontriv.add(('smooth-chain', kind))
        with warnings.catch_warnings():
            warnings.simplefilter('ignore')
            d = path.d(useSandT=True)
            back = spt.parse_path(d)
        if back != path:
            desc = repr(path).replace('\n', ' ')
            fail('d/point (absolute form)/useSandT smooth chain', 'absolute form with S/T shorthand does not compare equal after the round trip',
                 {'path': desc[:600], 'd': d[:300]}, repr(back)[:200], desc[:200],
                 'svgpathtools.parse_path(svgpathtools.%s.d(useSandT=True)) == svgpathtools.%s' % (desc, desc))
    return {'evaluations': n_eval * 8, 'distinct_nontrivial': len(nontriv), 'failures': fails, 'samples': samples,
            'rule': 'random paths (1-3 subpaths; open / closed by a line / closed by a curve / revisiting the start; smooth joints built with the '
                    'parser\'s expression and with a differently rounded one; arcs incl. auto-enlarged radii and rotations outside [0,360); number '
                    'classes int/half/tiny/huge/generic), optionally queried (end points, closedness, a first d(), length) and then edited (item assignment, pop, append, insert) first, x all 8 option sets. '
                    'distinct = distinct (number class, closed?, kind of last segment, several subpaths?)'}


def replay(spt, f):
    from .c19 import replay as rp
    return rp(spt, f)
