"""C02: parse_path implements the SVG path-data semantics for every command sequence."""
from __future__ import annotations
import itertools
import math
import re
import warnings
from fractions import Fraction as Fr
from .. import common
from ..runner import Corr, Failure

LEAN_MODULES = ['SvgVerif.Props.C02', 'SvgVerif.Props.C02Lexer']
ASSUMPTIONS = [
    'float(token) and the regex engine are CPython; the tokenizer model is tied by exhaustive correspondence on short strings, not by a theorem',
    'the refinement theorem is law-free except for commutativity of + (IEEE addition is commutative); the reflection 2*cur - c is (cur + cur) - c on both sides',
    'Arc construction (auto-scaling of radii, derived parameters) is C04; here an arc is its raw arguments',
    'known finding F5: arc flags written without separators (a1 1 0 01 2,2) are mis-tokenised',
]

LETTERS = 'MmZzLlHhVvCcSsQqTtAa'
ARITY = {'M': 2, 'Z': 0, 'L': 2, 'H': 1, 'V': 1, 'C': 6, 'S': 4, 'Q': 4, 'T': 2, 'A': 7}


def _fr(x):
    x = Fr(x)
    return str(x.numerator) if x.denominator == 1 else '%d/%d' % (x.numerator, x.denominator)


def _num(r):
    return Fr(r.randint(-64, 64), r.choice([1, 1, 2, 8]))


def _args(r, letter):
    u = letter.upper()
    if u == 'A':
        return [Fr(r.choice([24, 32, 40, -24, 0])), Fr(r.choice([24, 36, 0])), Fr(r.choice([0, 30, -45, 90])),
                Fr(r.choice([0, 1])), Fr(r.choice([0, 1])), Fr(r.randint(-4, 4)), Fr(r.randint(-4, 4))]
    return [_num(r) for _ in range(ARITY[u])]


def _seg_text(spt, s):
    P = spt.path
    f = lambda z: '%s %s' % (_fr(Fr(z.real)), _fr(Fr(z.imag)))
    if isinstance(s, P.Line):
        return 'L %s %s' % (f(s.start), f(s.end))
    if isinstance(s, P.QuadraticBezier):
        return 'Q %s %s %s' % (f(s.start), f(s.control), f(s.end))
    if isinstance(s, P.CubicBezier):
        return 'C %s %s %s %s' % (f(s.start), f(s.control1), f(s.control2), f(s.end))
    if isinstance(s, P.Arc):
        # radii may have been auto-enlarged by Arc() (that is C04's subject); they are checked by the sampler
        return 'A %s r r %s %d %d %s' % (f(s.start), _fr(Fr(s.rotation)), int(s.large_arc), int(s.sweep), f(s.end))
    return '?'


def _impl_parse(spt, text, cur=0j):
    with warnings.catch_warnings():
        warnings.simplefilter('ignore')
        try:
            p = spt.parse_path(text, current_pos=cur)
        except ValueError as e:
            return 'err implicit' if 'implicit' in str(e) else 'err notnum'
        except IndexError:
            return 'err pop'
        except TypeError:
            return 'err typeerror'
        except AssertionError:
            return 'err assert'
        except Exception as e:
            return 'err ' + type(e).__name__
    segs = ' ; '.join(_seg_text(spt, s) for s in p)
    return ('ok %s %s' % (str(bool(p._closed)).lower(), segs)).strip()


def _model_arc_abs(line):
    """the model prints the raw radius arguments; Arc() stores their absolute values"""
    def fix(m):
        parts = m.group(0).split(' ')
        parts[3] = 'r'; parts[4] = 'r'
        return ' '.join(parts)
    return re.sub(r'A \S+ \S+ \S+ \S+', fix, line)


def _prog_tokens(prog):
    """prog: list of (letter or None for implicit, args)"""
    toks, words = [], []
    for letter, args in prog:
        if letter is not None:
            toks.append('c' + letter); words.append(letter)
        for a in args:
            toks.append(_fr(a))
            words.append(repr(float(a)) if a.denominator != 1 else str(a.numerator))
    return toks, ' '.join(words)


def _rand_prog(r, maxlen):
    prog = [(r.choice('Mm'), [_num(r), _num(r)])]
    prev = prog[0][0]
    for _ in range(r.randint(0, maxlen)):
        l = r.choice(LETTERS)
        implicit = False
        if r.random() < 0.3 and prev not in 'Zz':
            # implicit repetition of the previous command (lineto after a moveto)
            l = {'M': 'L', 'm': 'l'}.get(prev, prev)
            implicit = True
        prog.append((None if implicit else l, _args(r, l)))
        prev = l
    return prog


def _pen_stays_prog(r, num, zero):
    """a curve, then a command that leaves the pen exactly where the curve ended (zero relative moveto / lineto, an arc that
    ends on the current point, a closepath or moveto back to a start the curve itself returned to), then S/T: the SVG rules
    say the smooth command must NOT reflect the old control point (the previous command is not a curve command)"""
    px, py = num(), num()
    prog = [('M', [px, py])]
    kind = r.choice('CQ')
    stay = r.choice(['m00', 'a00', 'l00', 'Zloop', 'Mloop', 'h0', 'none'])
    endx, endy = (px, py) if stay in ('Zloop', 'Mloop') else (num(), num())
    if kind == 'C':
        prog.append(('C', [num(), num(), num(), num(), endx, endy]))
    else:
        prog.append(('Q', [num(), num(), endx, endy]))
    if r.random() < 0.3 and stay not in ('Zloop', 'Mloop'):
        prog.append(({'C': 's', 'Q': 't'}[kind], [num() for _ in range(4 if kind == 'C' else 2)]))
    prog += {'m00': [('m', [zero, zero])], 'a00': [('a', [num() * 0 + 30, num() * 0 + 30, zero, zero, zero + 1, zero, zero])],
             'l00': [('l', [zero, zero])], 'Zloop': [(r.choice('Zz'), [])], 'Mloop': [('M', [px, py])],
             'h0': [('h', [zero])], 'none': []}[stay]
    sm = r.choice('SsTt')
    prog.append((sm, [num() for _ in range(ARITY[sm.upper()])]))
    if r.random() < 0.4:
        prog.append((None, [num() for _ in range(ARITY[sm.upper()])]))
    return prog, stay


def correspond(ctx):
    spt = ctx.spt
    r = ctx.rng('corr')
    out = []
    # ---- parser, token level -------------------------------------------------------------
    c = Corr('parse_path/tokens')
    progs = []
    # exhaustive: every program M + up to 2 (quick) / 3 (thorough) commands over the 20 letters
    depth = 3 if ctx.thorough else 2
    for k in range(0, depth + 1):
        for combo in itertools.product(LETTERS, repeat=k):
            prog = [('M', [Fr(1), Fr(2)])]
            for l in combo:
                prog.append((l, _args(r, l)))
            progs.append(prog)
    for it in range(ctx.n(400, 4000)):
        progs.append(_rand_prog(r, 12))
    for it in range(ctx.n(150, 1500)):
        progs.append(_pen_stays_prog(r, lambda: _num(r), Fr(0))[0])
    # malformed stream: missing arguments, leading number, letters where numbers are expected
    for it in range(ctx.n(150, 1500)):
        prog = _rand_prog(r, 5)
        toks, text = _prog_tokens(prog)
        kind = r.choice(['drop', 'leadnum', 'dup-letter'])
        words = text.split(' ')
        if kind == 'drop' and len(toks) > 3:
            i = r.randrange(2, len(toks))
            del toks[i]; del words[i]
        elif kind == 'leadnum':
            toks = ['3'] + toks; words = ['3'] + words
        else:
            i = r.randrange(1, len(toks) + 1)
            l = r.choice('LlCcAaTt')
            toks.insert(i, 'c' + l); words.insert(i, l)
        progs.append(('raw', toks, ' '.join(words)))
    lines, impl = [], []
    for prog in progs:
        if prog and prog[0] == 'raw':
            _, toks, text = prog
            c.count('malformed')
        else:
            toks, text = _prog_tokens(prog)
            for l, _ in prog:
                c.count('cmd ' + (l or 'implicit'))
        cur = complex(r.randint(-3, 3), r.randint(-3, 3))
        lines.append('parse %d %d %s' % (int(cur.real), int(cur.imag), ' '.join(toks)))
        impl.append(_impl_parse(spt, text, cur))
    model = [_model_arc_abs(m.strip()) for m in common.driver(lines)]
    c.compare(lines, model, impl)
    c.exhaustive_depth = depth
    out.append(c)

    # ---- tokenizer: exhaustive over short strings of the characters that matter ------------
    c2 = Corr('_tokenize_path')
    P = spt.path
    alphabet = '01.-+e, L'
    maxlen = 5 if ctx.thorough else 4
    strs = ['M1.5.5-2e-3L+.1e', '1e5e5', 'a1 1 0 01 2,2', '1.e5', '--1', '+-1', '1-2', '.5.5', 'M1,2,3', '1E+2', '1e+', 'Z z', '']
    for n in range(1, maxlen + 1):
        for tup in itertools.product(alphabet, repeat=n):
            strs.append(''.join(tup))
    for _ in range(ctx.n(500, 5000)):
        strs.append(''.join(r.choice('0123456789.-+eE, \tMmLlzZaAsS') for _ in range(r.randint(5, 14))))
    lines, impl = [], []
    pobj = P.Path()
    for s in strs:
        lines.append('lex ' + ' '.join(str(ord(ch)) for ch in s))
        impl.append('|'.join(pobj._tokenize_path(s)))
    c2.count('strings', len(strs))
    c2.compare(lines, [m.rstrip('\n') for m in common.driver(lines)], impl)
    out.append(c2)
    return out


# ---------------------------------------------------------------------------
# sampler: an independent reference interpreter of the SVG path grammar (floats, strings)

NUM_RE = re.compile(r'[-+]?(?:[0-9]+\.?[0-9]*|\.[0-9]+)(?:[eE][-+]?[0-9]+)?')


def ref_tokens(d):
    """reference tokenizer written from the SVG path grammar (numbers, flags handled by the interpreter)"""
    i, out = 0, []
    while i < len(d):
        ch = d[i]
        if ch in LETTERS:
            out.append(ch); i += 1
        elif ch in ' \t\n\r,':
            i += 1
        else:
            m = NUM_RE.match(d, i)
            if not m:
                raise ValueError('bad char %r' % ch)
            out.append(m.group(0)); i = m.end()
    return out


def ref_interpret(d, cur=0j):
    """returns list of ('L'|'Q'|'C'|'A', points...) per SVG 1.1 section 8.3 / F.6.2"""
    toks = ref_tokens(d)
    segs = []
    start = None
    lastC = lastQ = None
    i = 0
    cmd = None

    def num():
        nonlocal i
        v = float(toks[i]); i += 1
        return v

    def pt(rel):
        x = num(); y = num()
        z = complex(x, y)
        return cur + z if rel else z
    while i < len(toks):
        if toks[i] in LETTERS:
            cmd = toks[i]; i += 1
            first = True
        else:
            if cmd is None or cmd in 'Zz':
                raise ValueError('number without command')
            first = False
            if cmd in 'Mm':
                cmd = 'L' if cmd == 'M' else 'l'
        rel = cmd.islower()
        u = cmd.upper()
        if u == 'M':
            cur = pt(rel); start = cur; lastC = lastQ = None
            continue
        if u == 'Z':
            if cur != start:
                segs.append(('L', cur, start))
            cur = start; lastC = lastQ = None
            continue
        if u == 'L':
            e = pt(rel); segs.append(('L', cur, e)); cur = e; lastC = lastQ = None
        elif u == 'H':
            x = num(); e = complex(cur.real + x if rel else x, cur.imag); segs.append(('L', cur, e)); cur = e; lastC = lastQ = None
        elif u == 'V':
            y = num(); e = complex(cur.real, cur.imag + y if rel else y); segs.append(('L', cur, e)); cur = e; lastC = lastQ = None
        elif u == 'C':
            c1 = pt(rel); c2 = pt(rel); e = pt(rel); segs.append(('C', cur, c1, c2, e)); cur = e; lastC = c2; lastQ = None
        elif u == 'S':
            c1 = (cur + cur - lastC) if lastC is not None else cur
            c2 = pt(rel); e = pt(rel); segs.append(('C', cur, c1, c2, e)); cur = e; lastC = c2; lastQ = None
        elif u == 'Q':
            c = pt(rel); e = pt(rel); segs.append(('Q', cur, c, e)); cur = e; lastQ = c; lastC = None
        elif u == 'T':
            c = (cur + cur - lastQ) if lastQ is not None else cur
            e = pt(rel); segs.append(('Q', cur, c, e)); cur = e; lastQ = c; lastC = None
        elif u == 'A':
            rx = num(); ry = num(); rot = num(); la = num(); sw = num(); e = pt(rel)
            if rx == 0 or ry == 0:
                segs.append(('L', cur, e))
            elif e != cur:
                segs.append(('A', cur, complex(abs(rx), abs(ry)), rot, bool(la), bool(sw), e))
            cur = e; lastC = lastQ = None
    return segs


def _impl_segs(spt, p):
    P = spt.path
    out = []
    for s in p:
        if isinstance(s, P.Line):
            out.append(('L', s.start, s.end))
        elif isinstance(s, P.QuadraticBezier):
            out.append(('Q', s.start, s.control, s.end))
        elif isinstance(s, P.CubicBezier):
            out.append(('C', s.start, s.control1, s.control2, s.end))
        else:
            out.append(('A', s.start, s.radius, s.rotation, s.large_arc, s.sweep, s.end))
    return out


def _spell(r, prog, style):
    """one lexical spelling of a program [(letter or None, [floats])]"""
    parts = []
    for letter, args in prog:
        if letter is not None:
            parts.append(letter)
        strs = []
        for ai, a in enumerate(args):
            a = float(a)
            is_flag = len(args) == 7 and ai in (3, 4)      # only arc commands take seven arguments
            if style == 'traildot' and not is_flag and a == int(a) and abs(a) < 1e15 and r.random() < 0.7:
                # digit-sequence "." with nothing after the dot (SVG: fractional-constant), optionally with an exponent
                s = str(int(a)) + '.'
                if a != 0 and int(a) % 10 == 0 and r.random() < 0.5:
                    k = len(str(abs(int(a)))) - len(str(abs(int(a))).rstrip('0'))
                    s = str(int(a))[:-k] + '.' + r.choice(['e', 'E', 'e+']) + str(k)
                elif r.random() < 0.3:
                    s += r.choice(['e0', 'E+0', 'e-0'])
                if float(s) != a:
                    s = str(int(a))
            elif style == 'exp' and a != 0 and r.random() < 0.5:
                s = '%e' % a
                if float(s) != a:
                    s = repr(a)
            elif style == 'dot' and abs(a) < 1 and a != 0 and repr(a).lstrip('-').startswith('0.'):
                s = repr(a).replace('0.', '.', 1)
            elif style == 'dotexp' and a != 0 and r.random() < 0.7:
                # leading dot AND exponent: 5.0 -> ".5e1", -25.0 -> "-.25E+2", 0.003 -> ".3e-2"
                from decimal import Decimal
                d = Decimal(repr(a))
                sign, digits, exp = d.as_tuple()
                digits = ''.join(map(str, digits)).rstrip('0') or '0'
                k = len(''.join(map(str, d.as_tuple().digits))) + exp
                s = ('-' if sign else '') + '.' + digits + r.choice(['e', 'E']) + r.choice(['', '+'] if k >= 0 else ['']) + str(k)
                if float(s) != a:
                    s = repr(a)
            elif a == int(a) and abs(a) < 1e15:
                s = str(int(a))
            else:
                s = repr(a)
            strs.append(s)
        if style == 'sign':
            body = ''
            for s in strs:
                body += (s if (s.startswith('-') or body == '') else ('+' + s if r.random() < 0.3 else ' ' + s))
        elif style == 'comma':
            body = ','.join(strs)
        elif style == 'commaspace':
            body = ' , '.join(strs)
        elif style == 'spaces':
            body = '   '.join(strs)
        else:
            body = ' '.join(strs)
        parts.append(body)
    sep = '' if style in ('sign', 'comma') else ' '
    text = ''
    for p in parts:
        if text and (text[-1].isdigit() or text[-1] == '.') and p and (p[0].isdigit() or p[0] == '.'):
            text += ' '
        text += (sep if text and sep else '') + p
    return text


def sample(ctx, budget=1.0, hint=None, broken=None):
    spt = ctx.spt
    r = ctx.rng('sample' + ('' if budget == 1.0 else '-search'))
    fails, samples = [], []
    nontriv = set()
    n_eval = 0

    def fail(sig, what, inp, obs, exp, repro=''):
        if len(fails) < 40 and sum(1 for f in fails if f['signature'] == sig) < 2:
            fails.append(Failure(signature=sig, what=what, input=inp, observed=obs, expected=exp, repro=repro))

    def cmp(d, cur=0j):
        want = ref_interpret(d, cur)
        try:
            with warnings.catch_warnings():
                warnings.simplefilter('ignore')
                p = spt.parse_path(d, current_pos=cur)
        except Exception as e:
            return 'raise ' + type(e).__name__, want, None
        got = _impl_segs(spt, p)
        ok = len(got) == len(want)
        if ok:
            for g, w in zip(got, want):
                if g[0] != w[0]:
                    ok = False; break
                for idx, (a, b) in enumerate(zip(g[1:], w[1:])):
                    if g[0] == 'A' and idx == 1:
                        # radii: unchanged, or both enlarged by one common factor >= 1
                        if not (a.real >= b.real * (1 - 1e-12) and abs(a.real * b.imag - a.imag * b.real) <= 1e-9 * a.real * b.imag):
                            ok = False; break
                        continue
                    if a != b:
                        ok = False; break
        return ('ok' if ok else 'differs'), want, got

    for it in range(int(ctx.n(400, 5000) * budget)):
        cls = r.choice(['int', 'half', 'tiny', 'huge', 'mixed'])
        def fnum():
            if cls == 'int':
                return float(r.randint(-50, 50))
            if cls == 'half':
                return r.randint(-100, 100) / 2
            if cls == 'tiny':
                return r.uniform(-1, 1) * 1e-7
            if cls == 'huge':
                return r.uniform(-1, 1) * 1e12
            return r.choice([float(r.randint(-9, 9)), r.uniform(-10, 10), 0.0, 1e-5, 123456.789])
        prog = [(r.choice('Mm'), [fnum(), fnum()])]
        prev = prog[0][0]
        pen_stays = r.random() < 0.15
        if pen_stays:
            prog, _stay = _pen_stays_prog(r, fnum, 0.0)
        for _ in range(0 if pen_stays else r.randint(1, 10)):
            l = r.choice(LETTERS)
            implicit = False
            if r.random() < 0.3 and prev not in 'Zz':
                l = {'M': 'L', 'm': 'l'}.get(prev, prev); implicit = True
            if l.upper() == 'A':
                args = [r.choice([30.0, 45.5, -30.0, 0.0]), r.choice([30.0, 60.25, 0.0]), r.choice([0.0, 30.0, -45.0]), float(r.choice([0, 1])),
                        float(r.choice([0, 1])), fnum(), fnum()]
                if r.random() < 0.1:
                    args[5] = args[6] = 0.0     # relative: end == current point
            else:
                args = [fnum() for _ in range(ARITY[l.upper()])]
            prog.append((None if implicit else l, args))
            prev = l
        style = r.choice(['plain', 'comma', 'commaspace', 'spaces', 'sign', 'exp', 'dot', 'dotexp', 'traildot'])
        d = _spell(r, prog, style)
        d0 = _spell(r, prog, 'plain')
        n_eval += 1
        nontriv.add((cls, style, tuple(sorted(set((l or 'i').upper() for l, _ in prog)))))
        edited_first = False
        if r.random() < 0.3:
            # the very first parse of this text is handed to a caller who edits it in place (its own object); every later parse of the
            # same text must still mean what the text says
            try:
                with warnings.catch_warnings():
                    warnings.simplefilter('ignore')
                    mine = spt.parse_path(d)
                    for sg_ in mine:
                        if isinstance(sg_, spt.Arc):
                            continue
                        sg_.start = sg_.start + (3 - 2j)
                        sg_.end = sg_.end * 2 + 1j
                        for nm_ in ('control', 'control1', 'control2'):
                            if hasattr(sg_, nm_):
                                setattr(sg_, nm_, getattr(sg_, nm_) - (5 + 5j))
                    if len(mine):
                        mine.append(spt.Line(mine[-1].end, mine[-1].end + 1))
                edited_first = True
                nontriv.add(('parsed again after the first result was edited', cls))
            except Exception:
                pass
        try:
            res, want, got = cmp(d)
        except Exception:
            continue     # the reference tokenizer rejected our own spelling (should not happen)
        letters = [l for l, _ in prog]
        if res != 'ok':
            sig = 'parse_path/' + res.replace(' ', '-')
            seq = ''.join((l or '·') for l in letters)
            if res == 'raise TypeError' and re.search(r'[Zz][SsTt]', seq):
                sig = 'parse_path/smooth-after-closepath-TypeError'
            elif res == 'raise AssertionError':
                sig = 'parse_path/arc-with-end-equal-to-current-point'
            fail(sig + ('/after an earlier result was edited' if edited_first else ''), 'parse_path(d) disagrees with the SVG reference interpreter'
                 + (' (the same text was parsed before and that result edited in place by its owner)' if edited_first else ''), {'d': d, 'style': style},
                 repr(got)[:300] if got else res, repr(want)[:300],
                 ('svgpathtools.parse_path(%r)' % d) if not edited_first else
                 '(lambda p: ([(setattr(s, "start", s.start + (3-2j)), setattr(s, "end", s.end * 2 + 1j)) for s in p if not isinstance(s, svgpathtools.Arc)], svgpathtools.parse_path(%r))[-1])(svgpathtools.parse_path(%r))' % (d, d))
        else:
            # lexically different spellings of the same program parse to equal paths
            try:
                with warnings.catch_warnings():
                    warnings.simplefilter('ignore')
                    pa, pb = spt.parse_path(d), spt.parse_path(d0)
                if pa != pb:
                    fail('parse_path/spelling', 'two spellings of one program parse to different paths', {'d1': d, 'd2': d0}, repr(pa)[:200], repr(pb)[:200])
            except Exception:
                pass
        if len(samples) < 3:
            samples.append({'d': d})
    # relative runs that come back to the subpath start only up to round-off, then closepath: the pen is compared with the start
    # exactly (floats), so the closing Line exists iff the accumulated float sums differ
    from decimal import Decimal
    for it in range(int(ctx.n(150, 1500) * budget)):
        digs = r.choice([1, 1, 2, 3])
        def dnum(lo=-9, hi=9):
            return Decimal(r.randint(lo * 10 ** digs, hi * 10 ** digs)).scaleb(-digs)
        kind = r.choice(['m-rel', 'M-abs', 'curpos', 'bigsmall'])
        cur0 = 0j
        if kind == 'bigsmall':
            parts = ['M%s %s' % (r.choice(['1e16', '4e15', '-9e15']), r.choice(['0', '1', '3']))]
            k = r.randint(1, 3)
            steps = [(Decimal(r.randint(1, 6)), Decimal(r.randint(-3, 3))) for _ in range(k)]
        else:
            if kind == 'curpos':
                cur0 = complex(float(dnum()), float(dnum()))
                parts = ['m %s %s' % (r.choice(['0', '.5', '-2']), r.choice(['0', '1.25']))]
            else:
                parts = ['%s %s %s' % ('m' if kind == 'm-rel' else 'M', dnum(), dnum())]
            k = r.randint(1, 5)
            steps = [(dnum(), dnum()) for _ in range(k)]
        sx = sum(a for a, _ in steps); sy = sum(b for _, b in steps)
        order = steps + [(-sx, -sy)]
        for a, b in order:
            form = r.choice(['l', 'l', 'hv', 'q', 'c', 'a'])
            if form == 'l':
                parts.append('l %s %s' % (a, b))
            elif form == 'hv':
                parts.append('h %s v %s' % (a, b))
            elif form == 'q':
                parts.append('q %s %s %s %s' % (dnum(), dnum(), a, b))
            elif form == 'c':
                parts.append('c %s %s %s %s %s %s' % (dnum(), dnum(), dnum(), dnum(), a, b))
            else:
                parts.append('a %s %s 0 0 1 %s %s' % (abs(dnum(1, 9)) + 20, abs(dnum(1, 9)) + 20, a, b))
        parts.append(r.choice('zZ'))
        if r.random() < 0.3:
            parts.append('l 1 1')
        d = ' '.join(parts)
        n_eval += 1
        nontriv.add(('rel-return', kind, digs))
        try:
            res, want, got = cmp(d, cur0)
        except Exception:
            continue
        if res != 'ok':
            fail('parse_path/closepath-near-start/' + res.replace(' ', '-'), 'parse_path(d) disagrees with the SVG reference interpreter on a run of relative commands that returns to the subpath start up to round-off and is then closed',
                 {'d': d, 'current_pos': [cur0.real, cur0.imag]}, repr(got)[:300] if got else res, repr(want)[:300],
                 'svgpathtools.parse_path(%r, current_pos=%r)' % (d, cur0))
    # arc flags written without separators (finding F5)
    for d in ['M0,0 a25,25 0 01 50,25', 'M0,0 A25 25 0 0150 25', 'M 10 10 a 20 20 0 1040 0']:
        n_eval += 1
        try:
            want = None
            with warnings.catch_warnings():
                warnings.simplefilter('ignore')
                p = spt.parse_path(d)
            P = spt.path
            okk = len(p) == 1 and isinstance(p[0], P.Arc)
        except Exception:
            okk = False
        if not okk:
            fail('parse_path/arc-flags-without-separators', 'arc flags written without separators are not tokenised as single characters', {'d': d},
                 'exception or wrong segments', 'one Arc', 'svgpathtools.parse_path(%r)' % d)
    return {'evaluations': n_eval, 'distinct_nontrivial': len(nontriv), 'failures': fails, 'samples': samples,
            'rule': 'random programs over the 20 letters (1..10 commands after the moveto, implicit repetitions, relative arcs ending on the current point, zero radii; 15%: a curve, a command that leaves the pen in place - zero m/l/h, omitted arc, Z or M back to the start - then S/T), '
                    'number classes int/half/tiny/huge/mixed, spellings plain/comma/comma+spaces/multi-space/sign-as-separator/exponent/leading-dot/leading-dot-with-exponent/trailing-dot (with exponent); '
                    'relative runs with decimal arguments that return to the subpath start up to round-off (also with a non-dyadic current_pos, and 1e16-sized starts) then z; compared with an independent reference interpreter of the SVG path grammar. distinct = distinct (number class, spelling, letter set)'}


def replay(spt, f):
    from .c19 import replay as rp
    return rp(spt, f)
