"""C11: every reported intersection is a real one, in range, with coherent parameters."""
from __future__ import annotations
import math
import cmath
import warnings
from fractions import Fraction as Fr
import numpy as np
from ..tracejobs import *
from .. import symtrace as st, common, histories
from ..gen_lean import Def
from ..runner import Corr, Failure
from . import isect_common as ic

LEAN_MODULES = ['SvgVerif.Props.C11', 'SvgVerif.Props.C11Model', 'SvgVerif.Props.C11PointToT', 'SvgVerif.Props.C11Cubic']

ASSUMPTIONS = [
    'np.roots (through polyroots01) is an oracle: soundness of bezier_by_line_intersections and of the u1transform route of Arc.intersect is '
    'proved for every value the oracle returns that IS a root of the polynomial handed to it; how close a float "root" is to a root is sampled',
    'bezier_intersections: the theorem bounds the distance of a reported pair by the widths of two boxes of area < tol_deC (reported_close), '
    'not by 1e-5 of the size; bezier_bounding_box / halve_bezier enter as the contract EnvSound (containment: C08, restriction: C09/C19)',
    'Arc.point_to_t is modelled and proved sound for points ON the ellipse under the exact reading of np.isclose (pointToT_sound); the '
    'the six-way case split of the circle-circle branch of Arc.intersect is sampled only',
    'numpy phase()/degrees(): phase2t is modelled over R with pi = Real.pi and compared exactly with a rational stand-in for pi',
]


def _cx(name, vx, vy, env):
    env[name + 'x'], env[name + 'y'] = Fr(vx), Fr(vy)
    return st.Cx.var(name, Fr(vx), Fr(vy))


def _bern(ps, t):
    """exact Bernstein value of Fraction pairs"""
    n = len(ps) - 1
    x = y = Fr(0)
    for i, (px, py) in enumerate(ps):
        w = math.comb(n, i) * (1 - t) ** (n - i) * t ** i
        x += w * px
        y += w * py
    return x, y


BEZ = [('line', 2), ('quad', 3), ('cubic', 4)]


def _mkseg(spt, kind, ps):
    P = spt.path
    return {'line': P.Line, 'quad': P.QuadraticBezier, 'cubic': P.CubicBezier}[kind](*ps)


def gen_defs(spt, salt=0):
    P = spt.path
    B = spt.bezier
    defs = []
    sfx = ('/%d' % salt) if salt else ''

    # ---- Line.intersect(Line): denom, t1, t2 (shadows: a crossing strictly inside both) ------------------
    def job_ll(r):
        env = {}
        t1s, t2s = Fr(r.randint(1, 6), 7), Fr(r.randint(1, 4), 5)
        p0 = (rfrac(r), rfrac(r)); p1 = (rfrac(r), rfrac(r)); q0 = (rfrac(r), rfrac(r))
        X = (p0[0] + t1s * (p1[0] - p0[0]), p0[1] + t1s * (p1[1] - p0[1]))
        q1 = (q0[0] + (X[0] - q0[0]) / t2s, q0[1] + (X[1] - q0[1]) / t2s)
        a = P.Line(_cx('p0', *p0, env), _cx('p1', *p1, env))
        b = P.Line(_cx('q0', *q0, env), _cx('q1', *q1, env))
        saved = P.np.isclose
        rec = {}

        def my_isclose(x, y, *a_, **k):
            rec['denom'] = x
            return False
        try:
            P.np.isclose = my_isclose
            res = a.intersect(b)
        finally:
            P.np.isclose = saved
        assert len(res) == 1, res
        t1, t2 = res[0]
        assert t1.val == t1s and t2.val == t2s, (t1.val, t2.val)
        args = ['p0x', 'p0y', 'p1x', 'p1y', 'q0x', 'q0y', 'q1x', 'q1y']
        return [Def('ll_denom', args, node(rec['denom']), 'Line.intersect(Line): denom (the quantity tested with np.isclose(denom, 0))', env),
                Def('ll_t1', args, node(t1), 'Line.intersect(Line): t1 (parameter on self)', env),
                Def('ll_t2', args, node(t2), 'Line.intersect(Line): t2 (parameter on other_seg)', env)]
    defs += retry(job_ll, 'c11/ll' + sfx)

    # ---- bezier_by_line_intersections(bezier, line): the polynomial handed to polyroots01, xval, line_t ------------
    for kind, k in BEZ[1:]:
        names = ['b%d' % i for i in range(k)]
        cn = [n_ + c for n_ in names for c in 'xy']

        def job_bl(r, kind=kind, k=k, names=names, cn=cn):
            env = {}
            kk = Fr(r.randint(1, 5), r.choice([1, 2, 3]))
            l0 = (rfrac(r), rfrac(r))
            d = (3 * kk * r.choice([-1, 1]), 4 * kk * r.choice([-1, 1]))
            if r.random() < 0.5:
                d = (d[1], d[0])
            Ls = 5 * kk
            t0, u0 = Fr(r.randint(1, 6), 7), Fr(r.randint(1, 4), 5)
            raw = [(rfrac(r), rfrac(r)) for _ in range(k)]
            bx, by = _bern(raw, t0)
            X = (l0[0] + u0 * d[0], l0[1] + u0 * d[1])
            pts = [(px - bx + X[0], py - by + X[1]) for px, py in raw]
            seg = _mkseg(spt, kind, [_cx(n_, px, py, env) for n_, (px, py) in zip(names, pts)])
            line = P.Line(_cx('l0', l0[0], l0[1], env), _cx('l1', l0[0] + d[0], l0[1] + d[1], env))
            env['L'] = Ls
            env['t'] = t0
            Lvar = st.R.var('L', Ls)
            tvar = st.R.var('t', t0)
            rec = {}
            saved = (B.polyroots01, st.Cx.__abs__)

            def my_roots(p):
                rec['p'] = list(p)
                return [tvar]
            try:
                B.polyroots01 = my_roots
                st.Cx.__abs__ = lambda self: Lvar
                with allow_eq():
                    res = B.bezier_by_line_intersections(seg, line)
            finally:
                B.polyroots01, st.Cx.__abs__ = saved
            assert len(res) == 1 and len(rec['p']) == k, (res, rec)
            bt, lt = res[0]
            assert bt is tvar and lt.val == u0, (lt.val, u0)
            args = cn + ['l0x', 'l0y', 'l1x', 'l1y', 'L']
            out = []
            for j, cj in enumerate(rec['p']):
                out.append(Def('bl_%s_c%d' % (kind, j), args, node(cj),
                               'bezier_by_line_intersections(%s, line): coefficient %d (highest power first) of the polynomial handed to polyroots01; '
                               'L stands for line_length = abs(line[1] - line[0])' % (kind, j), env))
            out.append(Def('bl_%s_linet' % kind, args + ['t'], node(lt),
                           'bezier_by_line_intersections(%s, line): the line parameter xval/line_length reported for the root t' % kind, env))
            pt = seg.point(tvar)
            out.append(Def('bl_%s_px' % kind, cn + ['t'], node(pt.real), '%s.point(t).real' % kind, env))
            out.append(Def('bl_%s_py' % kind, cn + ['t'], node(pt.imag), '%s.point(t).imag' % kind, env))
            return out
        defs += retry(job_bl, 'c11/bl/%s' % kind + sfx)

    # ---- Arc.intersect(Bezier): the polynomial |u1transform(B(t))|^2 - 1 handed to polyroots01 -------------------
    for kind, k in BEZ:
        names = ['b%d' % i for i in range(k)]
        cn = [n_ + c for n_ in names for c in 'xy']

        def job_ab(r, kind=kind, k=k, names=names, cn=cn):
            env = {}
            seg = _mkseg(spt, kind, [_cx(n_, rfrac(r), rfrac(r), env) for n_ in names])
            arc = P.Arc.__new__(P.Arc)
            arc.rotation = 30.0
            w = r.choice([(Fr(3, 5), Fr(4, 5)), (Fr(5, 13), Fr(-12, 13)), (Fr(-8, 17), Fr(15, 17))])
            arc.rot_matrix = _cx('w', w[0], w[1], env)
            arc.center = _cx('c', rfrac(r), rfrac(r), env)
            env['rx'], env['ry'] = abs(rfrac(r)), abs(rfrac(r))
            arc.radius = st.Cx(st.R.var('rx', env['rx']), st.R.var('ry', env['ry']))
            env['t'] = rfrac(r, 1, 6, (7,))
            tvar = st.R.var('t', env['t'])
            rec = {}
            saved = P.polyroots01

            def my_roots(p):
                rec['p'] = p
                return []
            try:
                P.polyroots01 = my_roots
                res = P.Arc.intersect(arc, seg)
            finally:
                P.polyroots01 = saved
            assert res == [] and rec['p'].order == 2 * (k - 1), (res, rec['p'].order)
            args = cn + ['wx', 'wy', 'cx', 'cy', 'rx', 'ry']
            out = []
            for j, cj in enumerate(rec['p'].coeffs):
                out.append(Def('ab_%s_c%d' % (kind, j), args, node(cj),
                               'Arc.intersect(%s): coefficient %d (highest power first) of u1poly_mag2 - 1, the polynomial handed to polyroots01 '
                               '(w = rot_matrix, c = center, rx/ry = radius)' % (kind, j), env))
            u = arc.u1transform(seg.point(tvar))
            out.append(Def('ab_%s_ux' % kind, args + ['t'], node(u.real), 'Arc.u1transform(%s.point(t)).real' % kind, env))
            out.append(Def('ab_%s_uy' % kind, args + ['t'], node(u.imag), 'Arc.u1transform(%s.point(t)).imag' % kind, env))
            return out
        defs += retry(job_ab, 'c11/ab/%s' % kind + sfx)

    # ---- Arc.intersect(Arc), both circular and unrotated: the two candidate points of the generic case -------------
    def job_cc(r):
        env = {}
        sc = Fr(r.randint(1, 4), r.choice([1, 2]))
        c0 = (rfrac(r), rfrac(r))
        off = r.choice([(Fr(42, 5), Fr(56, 5)), (Fr(56, 5), Fr(-42, 5)), (Fr(-14), Fr(0)), (Fr(0), Fr(14))])
        c1 = (c0[0] + off[0] * sc, c0[1] + off[1] * sc)
        env.update({'r0': 13 * sc, 'r1': 15 * sc, 'd': 14 * sc, 'h': 12 * sc})
        r0, r1 = st.R.var('r0', env['r0']), st.R.var('r1', env['r1'])
        dvar, hvar = st.R.var('d', env['d']), st.R.var('h', env['h'])

        def mk(center, rad, start):
            a = P.Arc.__new__(P.Arc)
            a.rotation = 0.0
            a.radius = st.Cx(rad, rad)
            a.center = center
            a.start, a.end, a.large_arc, a.sweep = start, start + 1, False, True
            return a
        a0 = mk(_cx('p0', c0[0], c0[1], env), r0, 1 + 2j)
        a1 = mk(_cx('p1', c1[0], c1[1], env), r1, 5 - 3j)
        rec = {'pts': [], 'sq': []}
        saved = (P.np.isclose, P.sqrt, st.Cx.__abs__, P.Arc.point_to_t)

        def my_sqrt(x):
            rec['sq'].append(x)
            return hvar

        def my_pt(self, p):
            rec['pts'].append(p)
            return None
        try:
            P.np.isclose = lambda *a, **k: False
            P.sqrt = my_sqrt
            st.Cx.__abs__ = lambda self: dvar
            P.Arc.point_to_t = my_pt
            P.complex = lambda x, y: st.Cx(x, y)      # shadows the builtin inside svgpathtools.path only
            res = P.Arc.intersect(a0, a1)
        finally:
            P.np.isclose, P.sqrt, st.Cx.__abs__, P.Arc.point_to_t = saved
            if hasattr(P, 'complex'):
                del P.complex
        assert res == [] and len(rec['sq']) == 1 and len(rec['pts']) == 4, (res, len(rec['sq']), len(rec['pts']))
        args = ['p0x', 'p0y', 'p1x', 'p1y', 'r0', 'r1', 'd', 'h']
        p30, p31 = rec['pts'][0], rec['pts'][2]
        return [Def('cc_hsq', args[:7], node(rec['sq'][0]), 'Arc.intersect(Arc), two circles: the argument of sqrt, r0^2 - a^2 (d stands for abs(p0 - p1))', env),
                Def('cc_p30x', args, node(p30.real), 'two circles: first candidate point p30 (h stands for the square root)', env),
                Def('cc_p30y', args, node(p30.imag), 'two circles: p30.imag', env),
                Def('cc_p31x', args, node(p31.real), 'two circles: second candidate point p31', env),
                Def('cc_p31y', args, node(p31.imag), 'two circles: p31.imag', env)]
    defs += retry(job_cc, 'c11/cc' + sfx)

    # ---- Arc.intersect(Line), unrotated arc, non-vertical line: the candidate coordinates --------------------------------
    def job_al(r):
        env = {}
        # ellipse x^2/a^2 + y^2/b^2 = 1 (centre c), line through two of its rational points
        a_, b_ = Fr(r.randint(1, 5)), Fr(r.randint(1, 5), 2)
        c = (rfrac(r), rfrac(r))
        u = r.sample([(Fr(3, 5), Fr(4, 5)), (Fr(5, 13), Fr(12, 13)), (Fr(-8, 17), Fr(15, 17)), (Fr(-3, 5), Fr(-4, 5)), (Fr(12, 13), Fr(-5, 13))], 2)
        q0 = (c[0] + a_ * u[0][0], c[1] + b_ * u[0][1])
        q1 = (c[0] + a_ * u[1][0], c[1] + b_ * u[1][1])
        # extend the chord beyond both points
        l0 = (q0[0] - (q1[0] - q0[0]) / 3, q0[1] - (q1[1] - q0[1]) / 3)
        l1 = (q1[0] + (q1[0] - q0[0]) / 2, q1[1] + (q1[1] - q0[1]) / 2)
        arc = P.Arc.__new__(P.Arc)
        arc.rotation = 0
        env['a'], env['b'] = a_, b_
        arc.radius = st.Cx(st.R.var('a', a_), st.R.var('b', b_))
        arc.center = _cx('c', c[0], c[1], env)
        line = P.Line(_cx('l0', l0[0], l0[1], env), _cx('l1', l1[0], l1[1], env))
        rec = {'pts': [], 'sq': []}
        saved = (P.sqrt, P.Arc.point_to_t)
        had_complex = hasattr(P, 'complex')

        def my_sqrt(x):
            rec['sq'].append(x)
            sv = st._exact_sqrt(x.val)
            assert sv is not None, x.val
            env['s'] = sv
            return st.R.var('s', sv)

        def my_pt(self, p):
            rec['pts'].append(p)
            return None
        try:
            P.sqrt = my_sqrt
            P.Arc.point_to_t = my_pt
            P.complex = lambda x, y: st.Cx(x, y)
            res = P.Arc.intersect(arc, line)
        finally:
            P.sqrt, P.Arc.point_to_t = saved
            if not had_complex:
                del P.complex
        assert res == [] and len(rec['sq']) == 1 and len(rec['pts']) == 4, (res, len(rec['sq']), len(rec['pts']))
        args = ['a', 'b', 'cx', 'cy', 'l0x', 'l0y', 'l1x', 'l1y']
        pts = rec['pts']      # order: (x1,y1), (x1,y2), (x2,y1), (x2,y2), each + center
        return [Def('al_disc', args, node(rec['sq'][0]), 'Arc.intersect(Line), unrotated arc, non-vertical line: the discriminant (argument of sqrt)', env),
                Def('al_p11x', args + ['s'], node(pts[0].real), 'candidate (x1, y1) + center, real part (s stands for sqrt(discriminant))', env),
                Def('al_p11y', args + ['s'], node(pts[0].imag), 'candidate (x1, y1) + center, imaginary part', env),
                Def('al_p22x', args + ['s'], node(pts[3].real), 'candidate (x2, y2) + center, real part', env),
                Def('al_p22y', args + ['s'], node(pts[3].imag), 'candidate (x2, y2) + center, imaginary part', env)]
    defs += retry(job_al, 'c11/al' + sfx)

    # ---- Arc.intersect(Line), unrotated arc, VERTICAL line ---------------------------------------------------------------
    def job_alv(r):
        env = {}
        a_, b_ = Fr(r.randint(1, 5)), Fr(r.randint(1, 5), 2)
        c = (rfrac(r), rfrac(r))
        u = r.choice([(Fr(3, 5), Fr(4, 5)), (Fr(5, 13), Fr(12, 13)), (Fr(-8, 17), Fr(15, 17)), (Fr(-3, 5), Fr(4, 5))])
        xq = c[0] + a_ * u[0]                       # the vertical line x = xq meets the ellipse at cy +- b*u_y
        arc = P.Arc.__new__(P.Arc)
        arc.rotation = 0
        env['a'], env['b'] = a_, b_
        arc.radius = st.Cx(st.R.var('a', a_), st.R.var('b', b_))
        arc.center = _cx('c', c[0], c[1], env)
        lx = st.R.var('lx', xq); env['lx'] = xq
        y0, y1 = c[1] - 2 * b_, c[1] + 3 * b_
        env['l0y'], env['l1y'] = y0, y1
        line = P.Line(st.Cx(lx, st.R.var('l0y', y0)), st.Cx(lx, st.R.var('l1y', y1)))    # the SAME symbol for both x
        rec = {'pts': [], 'sq': []}
        saved = (P.sqrt, P.Arc.point_to_t)
        had_complex = hasattr(P, 'complex')

        def my_sqrt(x):
            rec['sq'].append(x)
            sv = st._exact_sqrt(x.val)
            assert sv is not None, x.val
            env['s'] = sv
            return st.R.var('s', sv)

        def my_pt(self, p):
            rec['pts'].append(p)
            return None
        ctx_ = st.TraceCtx.current
        old_eq = ctx_.allow_eq
        try:
            ctx_.allow_eq = True          # the branch test `direction.real == 0` holds by construction
            P.sqrt = my_sqrt
            P.Arc.point_to_t = my_pt
            P.complex = lambda x, y: st.Cx(x, y)
            res = P.Arc.intersect(arc, line)
        finally:
            ctx_.allow_eq = old_eq
            P.sqrt, P.Arc.point_to_t = saved
            if not had_complex:
                del P.complex
        assert res == [] and len(rec['sq']) == 1 and len(rec['pts']) == 2, (res, len(rec['sq']), len(rec['pts']))
        args = ['a', 'b', 'cx', 'cy', 'lx', 'l0y', 'l1y']
        pts = rec['pts']
        return [Def('alv_disc', args, node(rec['sq'][0]), 'Arc.intersect(Line), unrotated arc, vertical line: the discriminant 1 - c^2/a^2 (argument of sqrt)', env),
                Def('alv_p1x', args + ['s'], node(pts[0].real), 'vertical line: first candidate + center, real part (s stands for sqrt(discriminant))', env),
                Def('alv_p1y', args + ['s'], node(pts[0].imag), 'vertical line: first candidate + center, imaginary part', env),
                Def('alv_p2x', args + ['s'], node(pts[1].real), 'vertical line: second candidate + center, real part', env),
                Def('alv_p2y', args + ['s'], node(pts[1].imag), 'vertical line: second candidate + center, imaginary part', env)]
    defs += retry(job_alv, 'c11/alv' + sfx)

    # ---- Line.point_to_t ----------------------------------------------------------------------------------------------------
    def job_lpt(r):
        env = {}
        s0, e0 = (rfrac(r), rfrac(r)), (rfrac(r), rfrac(r))
        t0 = Fr(r.randint(1, 6), 7)
        pt = (s0[0] + t0 * (e0[0] - s0[0]), s0[1] + t0 * (e0[1] - s0[1]))
        line = P.Line(_cx('s', s0[0], s0[1], env), _cx('e', e0[0], e0[1], env))
        point = _cx('z', pt[0], pt[1], env)
        rec = {'calls': []}
        saved = P.np.isclose

        def my_isclose(x, y, *a, **k):
            rec['calls'].append(x)
            return len(rec['calls']) == 3          # not start, not end; the imaginary part "is close to 0"
        try:
            P.np.isclose = my_isclose
            with allow_eq():
                t = line.point_to_t(point)
        finally:
            P.np.isclose = saved
        assert len(rec['calls']) == 3 and t.val == t0, (len(rec['calls']), t.val)
        args = ['sx', 'sy', 'ex', 'ey', 'zx', 'zy']
        return [Def('lpt_t', args, node(t), 'Line.point_to_t(point): the returned parameter t.real', env),
                Def('lpt_im', args, node(rec['calls'][2]), 'Line.point_to_t(point): t.imag, the quantity tested with np.isclose(., 0)', env)]
    defs += retry(job_lpt, 'c11/lpt' + sfx)
    return defs


class allow_eq:
    def __enter__(self):
        self.c = st.TraceCtx.current
        self.old = self.c.allow_eq
        self.c.allow_eq = True

    def __exit__(self, *a):
        self.c.allow_eq = self.old


def _gen_c04(spt, salt=0):
    from . import c04
    return c04.gen_defs(spt, salt)


# Props/C11 also uses the traced Arc.point of C04, so that trace is regenerated here too
GEN = {'C11': gen_defs, 'C04': _gen_c04}


def _pairs_str(prs, sort=False):
    prs = [(Fr(a), Fr(b)) for a, b in prs]
    if sort:
        prs = sorted(prs)
    return ' ; '.join('%s %s' % (ic.fr_str(a), ic.fr_str(b)) for a, b in prs)


def _rq(r, lo=-8, hi=8, dens=(1, 1, 2, 4)):
    return Fr(r.randint(lo, hi), r.choice(dens))


def corr_lineline(ctx):
    """Line.intersect(Line) on exact rational end points against Model.Intersect.lineLine"""
    spt, P = ctx.spt, ctx.spt.path
    r = ctx.rng('corr/ll')
    c = Corr('Line.intersect(Line)')
    lines, impl = [], []
    for it in range(ctx.n(400, 6000)):
        cls = r.choice(['generic', 'generic', 'parallel', 'touch-end', 'nearly-parallel', 'disjoint-hull', 'tiny'])
        pts = [(_rq(r), _rq(r)) for _ in range(4)]
        if cls == 'parallel':
            d = (pts[1][0] - pts[0][0], pts[1][1] - pts[0][1])
            k = _rq(r, 1, 4)
            pts[3] = (pts[2][0] + k * d[0], pts[2][1] + k * d[1])
        elif cls == 'touch-end':
            t = r.choice([Fr(0), Fr(1), Fr(1, 2)])
            pts[2] = (pts[0][0] + t * (pts[1][0] - pts[0][0]), pts[0][1] + t * (pts[1][1] - pts[0][1]))
        elif cls == 'nearly-parallel':
            d = (pts[1][0] - pts[0][0], pts[1][1] - pts[0][1])
            eps = Fr(r.choice([1, 3, 30, 1000]), 10 ** 9)
            pts[2] = pts[0]
            pts[2] = (pts[0][0] + Fr(1, 4) * d[0] - eps * 0, pts[0][1] + Fr(1, 4) * d[1])
            pts[3] = (pts[2][0] + d[0] - eps * d[1], pts[2][1] + d[1] + eps * d[0])
            pts[2] = (pts[2][0] - d[0] + eps * d[1], pts[2][1] - d[1] - eps * d[0])
        elif cls == 'disjoint-hull':
            pts[2] = (pts[2][0] + 40, pts[2][1])
            pts[3] = (pts[3][0] + 40, pts[3][1])
        elif cls == 'tiny':
            pts = [(x / 10 ** 5, y / 10 ** 5) for x, y in pts]
        if pts[0] == pts[1] or pts[2] == pts[3] or (pts[0], pts[1]) == (pts[2], pts[3]):
            continue
        a = P.Line(ic.FC(*pts[0]), ic.FC(*pts[1]))
        b = P.Line(ic.FC(*pts[2]), ic.FC(*pts[3]))
        res = a.intersect(b)
        lines.append('lineline ' + ' '.join(ic.fr_str(v) for q in pts for v in q))
        impl.append(_pairs_str(res))
        c.count('%s/%d' % (cls, len(res)))
    c.compare(lines, [m.strip() for m in common.driver(lines)], impl)
    return c


def corr_hull(ctx):
    """the four early-return hull tests of Line/Quadratic/Cubic.intersect against Model.Intersect.hullDisjoint"""
    spt, P = ctx.spt, ctx.spt.path
    r = ctx.rng('corr/hull')
    c = Corr('Bezier.intersect/hull-prefilter')
    lines, impl = [], []
    saved = (P.bezier_intersections, P.bezier_by_line_intersections, P.QuadraticBezier.length, P.CubicBezier.length)
    try:
        P.bezier_intersections = lambda *a, **k: [(7, 7)]
        P.bezier_by_line_intersections = lambda *a, **k: [(7, 7)]
        P.QuadraticBezier.length = lambda self, *a, **k: 1
        P.CubicBezier.length = lambda self, *a, **k: 1
        for it in range(ctx.n(400, 5000)):
            ka, kb = r.choice(BEZ), r.choice(BEZ)
            if ka[0] == 'line' and kb[0] == 'line':
                continue
            # boxes that overlap, touch along an edge / at a corner, or are disjoint in exactly one coordinate
            off = r.choice([(0, 0), (0, 0), (3, 0), (0, 3), (-3, 0), (0, -3), (2, 2), (1, 0), (0, -1)])
            pa = [(Fr(r.randint(0, 2)), Fr(r.randint(0, 2))) for _ in range(ka[1])]
            pb = [(Fr(r.randint(0, 2) + off[0]), Fr(r.randint(0, 2) + off[1])) for _ in range(kb[1])]
            if len(set(pa)) < 2 or len(set(pb)) < 2:
                continue
            a = _mkseg(spt, ka[0], [ic.FC(*q) for q in pa])
            b = _mkseg(spt, kb[0], [ic.FC(*q) for q in pb])
            if a == b:
                continue
            res = a.intersect(b)
            lines.append('hull %s | %s' % (' '.join(ic.fr_str(v) for q in pa for v in q), ' '.join(ic.fr_str(v) for q in pb for v in q)))
            impl.append('true' if res == [] else 'false')
            c.count('%s-%s/%s' % (ka[0], kb[0], impl[-1]))
    finally:
        P.bezier_intersections, P.bezier_by_line_intersections, P.QuadraticBezier.length, P.CubicBezier.length = saved
    c.compare(lines, [m.strip() for m in common.driver(lines)], impl)
    return c


def corr_bezline(ctx):
    """bezier_by_line_intersections on exact complex numbers (roots prescribed) against Model.Intersect.bezierByLine"""
    spt, B = ctx.spt, ctx.spt.bezier
    r = ctx.rng('corr/bl')
    c = Corr('bezier_by_line_intersections')
    lines, impl = [], []
    saved = B.polyroots01
    try:
        for it in range(ctx.n(300, 4000)):
            k = r.choice([2, 3, 3, 4, 4, 5])
            kk = Fr(r.randint(1, 4), r.choice([1, 2]))
            d = r.choice([(3, 4), (4, 3), (-3, 4), (5, 12), (1, 0), (0, -1), (-8, 15)])
            d = (d[0] * kk, d[1] * kk)
            L = ic._exact_sqrt(d[0] * d[0] + d[1] * d[1])
            l0 = (_rq(r), _rq(r))
            l1 = (l0[0] + d[0], l0[1] + d[1])
            pts = [(_rq(r), _rq(r)) for _ in range(k)]
            cls = r.choice(['free', 'on-line', 'on-line', 'at-ends'])
            roots = [Fr(r.randint(0, 8), 8) for _ in range(r.randint(0, 4))]
            if cls != 'free' and roots:
                # move the curve so that B(roots[0]) lies on the line (inside, or exactly at an end of it)
                u = r.choice([Fr(0), Fr(1)]) if cls == 'at-ends' else Fr(r.randint(1, 7), 8)
                bx, by = _bern(pts, roots[0])
                X = (l0[0] + u * d[0], l0[1] + u * d[1])
                pts = [(px - bx + X[0], py - by + X[1]) for px, py in pts]
            if r.random() < 0.3 and roots:
                roots.append(roots[0])          # set() must drop the repeat
            if all(q == pts[0] for q in pts):
                continue
            B.polyroots01 = lambda p, roots=roots: list(roots)
            res = B.bezier_by_line_intersections([ic.FC(*q) for q in pts], [ic.FC(*l0), ic.FC(*l1)])
            lines.append('bezline %s | %s %s | %s' % (' '.join(ic.fr_str(v) for q in pts for v in q),
                                                     ' '.join(ic.fr_str(v) for v in l0 + l1), ic.fr_str(L),
                                                     ' '.join(ic.fr_str(v) for v in roots)))
            impl.append(_pairs_str(res, sort=True))
            c.count('deg%d/%s/%d' % (k - 1, cls, len(res)))
    finally:
        B.polyroots01 = saved
    c.compare(lines, [m.strip() for m in common.driver(lines)], impl)
    return c


def _hull_box(bez):
    xs = [p.real for p in bez]
    ys = [p.imag for p in bez]
    return min(xs), max(xs), min(ys), max(ys)


def corr_bezint(ctx):
    """bezier_intersections (pair list, redundant-pair removal, approximate point set, maxits) on dyadic control
    points with the control-polygon box in place of bezier_bounding_box, against Model.Intersect.bezierIntersections"""
    spt, B = ctx.spt, ctx.spt.bezier
    from math import ceil, log
    r = ctx.rng('corr/bi')
    c = Corr('bezier_intersections')
    lines, impl = [], []
    saved = B.bezier_bounding_box
    try:
        B.bezier_bounding_box = _hull_box
        for it in range(ctx.n(250, 3000)):
            k1, k2 = r.choice([2, 3, 4, 4]), r.choice([2, 3, 4, 4])
            cls = r.choice(['random', 'random', 'cross-grid', 'multi', 'disjoint', 'shared-end', 'axis'])
            g = lambda: complex(r.randint(-4, 4), r.randint(-4, 4))
            b1 = [g() for _ in range(k1)]
            b2 = [g() for _ in range(k2)]
            if cls == 'cross-grid':
                b1 = [complex(-4, -4 + r.randint(0, 1)), complex(4, 4)][:2] if k1 == 2 else [complex(-4, -3), complex(-1, 4), complex(1, -4), complex(4, 3)][:k1]
                b2 = [complex(-4, 4), complex(4, -4 + r.randint(0, 2))][:2] if k2 == 2 else [complex(-3, 4), complex(4, 1), complex(-4, -1), complex(3, -4)][:k2]
            elif cls == 'multi':
                b1 = [complex(-4, 0), complex(-1, 6), complex(1, -6), complex(4, 0)]
                b2 = [complex(-4, r.randint(-1, 1)), complex(4, r.randint(-1, 1))] if r.random() < 0.5 else [complex(0, -4), complex(6, -1), complex(-6, 1), complex(0, 4)]
            elif cls == 'disjoint':
                b2 = [p + 20 for p in b2]
            elif cls == 'shared-end':
                b2[0] = b1[-1]
            elif cls == 'axis':
                b1 = [complex(x, 1) for x in sorted(r.sample(range(-4, 5), k1))]
            if len(set(b1)) < 2 or len(set(b2)) < 2 or b1 == b2:
                continue
            tol_deC = 2.0 ** -r.choice([-2, 0, 2, 4, 6])
            tol = 2.0 ** -r.choice([1, 3, 6, 20])
            m = r.choice([4, 6, 7, 8, 8])
            longer = tol_deC * 2.0 ** (m - 1) * r.choice([1.0, 1.5])
            maxits = int(ceil(1 - log(tol_deC / longer) / log(2)))
            if maxits > 8:
                continue
            try:
                res = B.bezier_intersections(list(b1), list(b2), longer, tol=tol, tol_deC=tol_deC)
                out = ('ok ' + _pairs_str(res)).strip()
            except Exception as e:
                if 'maximum' not in str(e):
                    raise
                out = 'maxits'
            f = lambda bz: ' '.join('%s %s' % (ic.fr_str(Fr(p.real)), ic.fr_str(Fr(p.imag))) for p in bz)
            lines.append('bezint %s %s %d | %s | %s' % (ic.fr_str(Fr(tol)), ic.fr_str(Fr(tol_deC)), maxits, f(b1), f(b2)))
            impl.append(out)
            c.count('%s/%s' % (cls, 'maxits' if out == 'maxits' else min(len(res), 4)))
    finally:
        B.bezier_bounding_box = saved
    c.compare(lines, [m.strip() for m in common.driver(lines)], impl)
    return c


def corr_phase2t(ctx):
    """Arc.phase2t with exact rational theta, delta, psi and a rational stand-in for pi against Model.Intersect.phase2t"""
    spt, P = ctx.spt, ctx.spt.path
    r = ctx.rng('corr/phase2t')
    c = Corr('Arc.phase2t')
    lines, impl = [], []
    PI = Fr(22, 7)
    saved = (P.degrees, P.pi)
    try:
        P.pi = PI
        P.degrees = lambda x: x * 180 / PI
        for it in range(ctx.n(400, 5000)):
            theta = Fr(r.randint(-1440, 1440), r.choice([1, 1, 2, 8]))
            if r.random() < 0.5:
                theta = Fr(r.randint(-180, 180))
            delta = Fr(r.randint(1, 360), r.choice([1, 2])) * r.choice([-1, 1])
            psi = Fr(r.randint(-22 * 8, 22 * 8), 7 * 8)           # within (-pi, pi] for pi = 22/7
            if r.random() < 0.15:
                psi = r.choice([PI, -PI, Fr(0), theta * PI / 180])
            arc = P.Arc.__new__(P.Arc)
            arc.theta, arc.delta = theta, delta
            t = P.Arc.phase2t(arc, psi)
            lines.append('phase2t %s %s %s %s' % (ic.fr_str(PI), ic.fr_str(theta), ic.fr_str(delta), ic.fr_str(psi)))
            impl.append(ic.fr_str(t))
            c.count('delta%s/%s' % ('>0' if delta > 0 else '<0', 'in' if 0 <= t <= 1 else 'out'))
    finally:
        P.degrees, P.pi = saved
    c.compare(lines, [m.strip() for m in common.driver(lines)], impl)
    return c


def corr_pathint(ctx):
    """Path.intersect (loop order, t2T through Path.index, joint de-duplication) on stub segments with prescribed
    segment-level results and preset length fractions, against Model.Intersect.pathIntersect"""
    spt, P = ctx.spt, ctx.spt.path
    r = ctx.rng('corr/pathint')
    c = Corr('Path.intersect')
    lines, impl = [], []

    class Stub(object):
        def __init__(self, label, table, pts):
            self.label, self.table, self.pts = label, table, pts
            self.start = self.end = 0j

        def __eq__(self, o):
            return isinstance(o, Stub) and self.label == o.label

        def __ne__(self, o):
            return not self == o

        def __hash__(self):
            return hash(self.label)

        def intersect(self, other, tol=None):
            return list(self.table.get((id(self), id(other)), []))

        def point(self, t):
            return self.pts[(id(self), t)]

        def length(self, *a, **k):
            return 1

    for it in range(ctx.n(300, 4000)):
        n1, n2 = r.randint(1, 4), r.randint(1, 4)
        table, ptab = {}, {}
        # labels: equal segments (a retraced stroke) share a label within a path
        lab1 = [r.choice([0, 1, 2, 3]) if r.random() < 0.4 else 10 + i for i in range(n1)]
        lab2 = [r.choice([0, 1, 2, 3]) if r.random() < 0.4 else 20 + i for i in range(n2)]
        s1 = [Stub(('a', l), table, ptab) for l in lab1]
        s2 = [Stub(('b', l), table, ptab) for l in lab2]
        hits = []
        pool = [complex(r.randint(0, 3), r.randint(0, 3)) for _ in range(3)]
        for i, a in enumerate(s1):
            for j, b in enumerate(s2):
                res = []
                used = set()
                for _ in range(r.choice([0, 0, 1, 1, 2, 3])):
                    t1 = Fr(r.randint(0, 8), 8)
                    if t1 in used:
                        continue
                    used.add(t1)
                    t2 = Fr(r.randint(0, 8), 8)
                    pt = r.choice(pool) if r.random() < 0.6 else complex(r.randint(0, 6), r.randint(0, 6))
                    if (id(a), t1) in ptab:
                        pt = ptab[(id(a), t1)]
                    ptab[(id(a), t1)] = pt
                    res.append((t1, t2))
                    hits.append((i, j, t1, t2, pt))
                table[(id(a), id(b))] = res
        def fracs(n):
            w = [r.randint(0, 4) for _ in range(n)]
            if sum(w) == 0:
                w[0] = 1
            return [Fr(x, sum(w)) for x in w]
        f1, f2 = fracs(n1), fracs(n2)
        p1, p2 = P.Path(*s1), P.Path(*s2)
        for p, f in ((p1, f1), (p2, f2)):
            p._length = Fr(1)
            p._lengths = list(f)
            p._length_params = (spt.path.LENGTH_ERROR, spt.path.LENGTH_MIN_DEPTH)
        tol = r.choice([0.5, 1.25, 2.5, 1e-12])
        res = p1.intersect(p2, tol=tol)
        out = []
        for (T1, sg1, t1), (T2, sg2, t2) in res:
            i = [k for k, s in enumerate(s1) if s is sg1][0]
            j = [k for k, s in enumerate(s2) if s is sg2][0]
            out.append('%s %d %s %s %d %s' % (ic.fr_str(T1), i, ic.fr_str(t1), ic.fr_str(T2), j, ic.fr_str(t2)))
        # labels as small naturals (equality classes)
        enc = lambda labs: ' '.join(str(sorted(set(labs)).index(l)) for l in labs)
        lines.append('pathint %s | %s | %s | %s | %s | %s' % (
            ic.fr_str(Fr(tol) * Fr(tol)), ' '.join(ic.fr_str(x) for x in f1), ' '.join(ic.fr_str(x) for x in f2), enc(lab1), enc(lab2),
            ' '.join('%d %d %s %s %d %d' % (i, j, ic.fr_str(t1), ic.fr_str(t2), int(pt.real), int(pt.imag)) for i, j, t1, t2, pt in hits)))
        impl.append(' ; '.join(out))
        c.count('hits=%d/kept=%d' % (min(len(hits), 5), min(len(res), 5)))
    c.compare(lines, [m.strip() for m in common.driver(lines)], impl)
    return c


def corr_arcptt(ctx):
    """Arc.point_to_t, the real method, on exact rationals (exactnum.Q/QC; sqrt, degrees(acos), degrees(asin) and np.isclose
    replaced by exact stand-ins on both sides) against Model.ArcPointToT.pointToT"""
    from ..exactnum import Q, QC, qstr, sqrt_standin
    spt, P = ctx.spt, ctx.spt.path
    r = ctx.rng('corr/arcptt')
    c = Corr('Arc.point_to_t')
    lines, impl = [], []

    def my_isclose(a, b, rtol=Fr(1, 10 ** 5), atol=Fr(1, 10 ** 8), **k):
        rtol, atol = Fr(rtol), Fr(atol)
        if isinstance(a, QC) or isinstance(b, QC):
            a, b = QC.lift(a), QC.lift(b)
            dx, dy = (a.real - b.real).v, (a.imag - b.imag).v
            assert rtol == 0
            return dx * dx + dy * dy <= atol * atol
        a, b = Q(a).v if not isinstance(a, Q) else a.v, Q(b).v if not isinstance(b, Q) else b.v
        return abs(a - b) <= atol + rtol * abs(b)
    saved = (P.sqrt, P.acos, P.asin, P.degrees, P.np.isclose)
    try:
        P.sqrt = sqrt_standin
        P.acos = lambda x: ('acos', x)
        P.asin = lambda x: ('asin', x)
        P.degrees = lambda tg: (1 - tg[1]) * 90 if tg[0] == 'acos' else tg[1] * 90
        P.np.isclose = my_isclose
        quarters = [Fr(k, 4) for k in range(-5, 6)]
        for it in range(ctx.n(400, 6000)):
            cx, cy = Fr(r.randint(-3, 3)), Fr(r.randint(-3, 3))
            rx, ry = Fr(r.randint(1, 4)), Fr(r.randint(1, 4), r.choice([1, 2]))
            theta = Fr(r.choice([0, 30, -90, 135, -180, 180, 45, -45, 270, -400]))
            delta = Fr(r.choice([90, -90, 180, -180, 270, -270, 45, 359, -30, 720]))
            rot = r.choice([0.0, 0.0, 0.0, 0.0, 30.0])
            ax, ay = r.choice(quarters), r.choice(quarters)
            cls = r.choice(['grid', 'match', 'match', 'match', 'near', 'start', 'end', 'far'])
            if cls in ('match', 'near'):
                # the four ways an x-candidate and a y-candidate angle can coincide under the stand-ins acos -> 90(1-x), asin -> 90x;
                # a wide ellipse so that the distance pre-filter (with the stand-in sqrt) lets the point through
                rx, ry = Fr(1), Fr(r.choice([4, 5, 6]))
                a = Fr(r.randint(-4, 4), 4)
                ax, ay = r.choice([(a, 1 - a), (a, 1 + a), (a, a - 1), (a, -1 - a)])
            if cls == 'near':
                ay += Fr(r.choice([1, -1, 1000]), 10 ** r.choice([7, 11]))
            px, py = cx + rx * ax, cy + ry * ay
            start = (cx + rx, cy)
            end = (cx, cy + ry)
            if cls == 'start':
                px, py = start[0] + Fr(r.choice([0, 1, 20]), 10 ** 7), start[1]
            elif cls == 'end':
                px, py = end[0], end[1] - Fr(r.choice([0, 1, 20]), 10 ** 7)
            elif cls == 'far':
                px, py = cx + rx * 7, cy - ry * 5
            arc = P.Arc.__new__(P.Arc)
            arc.start, arc.end, arc.center = QC(*start), QC(*end), QC(cx, cy)
            arc.radius = QC(rx, ry)
            arc.rotation = rot
            arc.theta, arc.delta = Q(theta), Q(delta)
            try:
                t = P.Arc.point_to_t(arc, QC(px, py))
                out = 'none' if t is None else 't ' + qstr(Q(Fr(t)) if isinstance(t, float) else t)
            except ValueError:
                out = 'valueerror'
            args = [start[0], start[1], end[0], end[1], cx, cy, rx, ry, Fr(rot), theta, delta, px, py]
            lines.append('arcptt ' + ' '.join(qstr(Q(a)) for a in args))
            impl.append(out)
            c.count('%s/%s' % (cls, out.split(' ')[0]))
    finally:
        P.sqrt, P.acos, P.asin, P.degrees, P.np.isclose = saved
    c.compare(lines, [m.strip() for m in common.driver(lines)], impl)
    return c


def correspond(ctx):
    return [corr_lineline(ctx), corr_hull(ctx), corr_bezline(ctx), corr_bezint(ctx), corr_phase2t(ctx), corr_pathint(ctx), corr_arcptt(ctx)]


def _tolerated(spt, a, b, e):
    """exceptions the statement tolerates: two arcs that are not both circular and unrotated"""
    P = spt.path
    if isinstance(a, P.Arc) and isinstance(b, P.Arc):
        return not (ic.arc_class(a) == 'circ0' and ic.arc_class(b) == 'circ0')
    return False


def _configs(spt, r, ka, kb, scale, cfg=None):
    """yield (config name, a, b)"""
    P = spt.path
    cfg = cfg or r.choice(['cross', 'cross', 'cross', 'touch', 'disjoint', 'near-miss', 'endpoint', 'random', 'special'])
    classes = (r.choice([None, 'circ0']) if ka == 'arc' else None, r.choice([None, 'circ0']) if kb == 'arc' else None)
    if cfg == 'special':
        # exactly degenerate coefficient patterns of the polynomials handed to the root finders: a quadratic whose start tangent is
        # exactly parallel to an axis-parallel line (zero linear coefficient), a line that starts exactly at the centre of a rotated arc
        # (or at the foot of the perpendicular from the centre)
        kinds = {ka, kb}
        if kinds == {'quad', 'line'}:
            p0 = complex(r.randint(-3, 3), r.randint(-3, 3)) * scale
            horiz = r.random() < 0.5
            d1 = (complex(r.choice([1, 2, -1.5]), 0) if horiz else complex(0, r.choice([1, 2, -1.5]))) * scale
            p2 = p0 + complex(r.uniform(0.5, 3), r.uniform(0.5, 3)) * scale * r.choice([1, -1])
            q = P.QuadraticBezier(p0, p0 + d1, p2)
            m = q.point(r.uniform(0.3, 0.8))
            ln = (P.Line(complex(m.real - 4 * scale, m.imag), complex(m.real + 4 * scale, m.imag)) if horiz
                  else P.Line(complex(m.real, m.imag - 4 * scale), complex(m.real, m.imag + 4 * scale)))
            if r.random() < 0.3:      # a short line that does not reach the curve at all
                ln = P.Line(ln.start, ln.start + (ln.end - ln.start) * 0.01)
            return (cfg, q, ln) if ka == 'quad' else (cfg, ln, q)
        if kinds == {'arc', 'line'}:
            arc = ic.rand_seg(spt, r, 'arc', scale, None)
            if r.random() < 0.4:
                # an ellipse turned by a multiple of 180 degrees is the same point set, but not the same parameterisation
                arc = P.Arc(arc.start, complex(arc.radius.real, arc.radius.real * r.choice([0.5, 0.7, 1.6])), r.choice([180, -180, 540, 360, 180.0]), arc.large_arc, arc.sweep, arc.end)
                p_, q_ = arc.point(r.uniform(0.15, 0.45)), arc.point(r.uniform(0.55, 0.9))
                ln = P.Line(p_ - (q_ - p_) * r.uniform(0.2, 1), q_ + (q_ - p_) * r.uniform(0.2, 1)) if r.random() < 0.5 else \
                    P.Line(arc.center + (p_ - arc.center) * 0.3, arc.center + (p_ - arc.center) * 1.7)
                return (cfg, arc, ln) if ka == 'arc' else (cfg, ln, arc)
            if arc.rotation == 0:
                arc = arc.rotated(r.choice([30, 77.5, -120]))
            c = arc.center
            far = c + cmath.rect(4 * abs(arc.radius) , r.uniform(0, 6.28))
            ln = P.Line(c, far)
            if r.random() < 0.4:
                # start at the foot of the perpendicular from the centre onto a line that crosses the arc
                a_, b_ = arc.point(0.4), arc.point(0.4) + cmath.rect(abs(arc.radius), r.uniform(0, 6.28))
                d_ = (b_ - a_) / abs(b_ - a_)
                foot = a_ + d_ * ((c - a_).real * d_.real + (c - a_).imag * d_.imag)
                ln = P.Line(foot, foot + d_ * 4 * abs(arc.radius))
            return (cfg, arc, ln) if ka == 'arc' else (cfg, ln, arc)
        cfg = 'cross'
    if cfg == 'random':
        return cfg, ic.rand_seg(spt, r, ka, scale, classes[0]), ic.rand_seg(spt, r, kb, scale, classes[1])
    if cfg == 'disjoint':
        a = ic.rand_seg(spt, r, ka, scale, classes[0])
        b = ic.rand_seg(spt, r, kb, scale, classes[1])
        sh = complex(r.choice([-1, 1]) * r.uniform(2.5, 6), r.choice([-1, 0, 1]) * r.uniform(2.5, 6)) * scale
        return cfg, a, ic.similarity(spt, b, 1, 1.0, sh * (4 if 'arc' in (ka, kb) else 1))
    ang = None
    if cfg in ('touch', 'near-miss'):
        ang = r.choice([0.0, 180.0])
    keep = (kb == 'arc' and classes[1] == 'circ0') or (kb == 'arc' and r.random() < 0.5)
    res = ic.through_common_point(spt, r, ka, kb, ang, scale, classes, keep_arc_unrotated=keep)
    if res is None:
        return None
    a, b, ta, tb, ang = res
    if cfg == 'near-miss':
        nrm = a.derivative(ta)
        nrm = 1j * nrm / abs(nrm)
        b = ic.similarity(spt, b, 1, 1.0, nrm * scale * r.choice([1e-9, 1e-7, 1e-5, 1e-3, -1e-7, -1e-4]))
    if cfg == 'endpoint':
        # b starts where a ends
        b = ic.similarity(spt, b, 1, 1.0, a.point(1) - b.point(0))
    return cfg, a, b


AREA_RULE_SIG = 'bezier-bezier/area-stop-rule: cell boxes of area < tol wider than the allowed distance'


def area_rule_explains(spt, a, b, t1, t2, tol=1e-12):
    """True iff (t1, t2) is the centre of a pair of dyadic cells of equal depth whose sub-curve boxes both have area
    < tol and overlap: then bezier_intersections reported exactly what its stop rule (box AREA < tol_deC) tells it
    to, and a large distance between the two points is the known finding F32, not a new defect."""
    P = spt.path
    if not all(isinstance(s, (P.QuadraticBezier, P.CubicBezier)) for s in (a, b)):
        return False

    def depth(t):
        for k in range(0, 60):
            x = t * 2.0 ** (k + 1)
            if x == int(x):
                return k if int(x) % 2 == 1 else None
        return None
    k1, k2 = depth(t1), depth(t2)
    if k1 is None or k1 != k2:
        return False
    h = 0.5 ** (k1 + 1)

    def box(seg, t):
        ts = np.linspace(t - h, t + h, 65)
        pts = np.array([seg.point(x) for x in ts])
        return pts.real.min(), pts.real.max(), pts.imag.min(), pts.imag.max()
    B1, B2 = box(a, t1), box(b, t2)
    area = lambda B: (B[1] - B[0]) * (B[3] - B[2])
    if not (area(B1) < tol and area(B2) < tol):
        return False
    sx = 0.05 * max(B1[1] - B1[0], B2[1] - B2[0]) + 1e-15
    sy = 0.05 * max(B1[3] - B1[2], B2[3] - B2[2]) + 1e-15
    return (min(B1[1], B2[1]) - max(B1[0], B2[0]) > -sx) and (min(B1[3], B2[3]) - max(B1[2], B2[2]) > -sy)


def check_pairs(spt, a, b, res, fail, info, swapped=None, rep=None):
    P = spt.path
    arc = isinstance(a, P.Arc) or isinstance(b, P.Arc)
    size = max(ic.seg_size(a), ic.seg_size(b))
    tol = (1e-3 if arc else 1e-5) * size
    rep = rep or 'svgpathtools.%r.intersect(svgpathtools.%r)' % (a, b)
    kk = '%s-%s' % (ic.kind_of(spt, a), ic.kind_of(spt, b))
    for pr in res:
        try:
            t1, t2 = pr
        except Exception:
            fail('%s/shape' % kk, 'an entry of the result is not a pair', info, repr(pr), '(t1, t2)', rep)
            continue
        if not (0 <= t1 <= 1 and 0 <= t2 <= 1):
            fail('%s/t-range' % kk, 'a reported parameter is outside [0,1]', info, repr((t1, t2)), 'both in [0,1]', rep)
            continue
        d = abs(a.point(t1) - b.point(t2))
        if not d <= tol and area_rule_explains(spt, a, b, t1, t2):
            fail(AREA_RULE_SIG, 'bezier_intersections stops when the box AREAS are below tol: the reported points are farther apart than '
                 '1e-5 of the curves\' size (small curves, or thin boxes of nearly straight axis-parallel pieces)', info,
                 'distance %r at %r' % (d, (t1, t2)), '<= %r' % tol, rep)
        elif not d <= tol:
            fail('%s/not-an-intersection' % kk, 'the two points at the reported parameters do not coincide', info,
                 'distance %r at %r' % (d, (t1, t2)), '<= %r (%g of the curves\' size)' % (tol, 1e-3 if arc else 1e-5), rep)


def sample(ctx, budget=1.0, hint=None, broken=None):
    spt = ctx.spt
    P = spt.path
    r = ctx.rng('sample' + ('' if budget == 1.0 else '-search'))
    fails, samples = [], []
    nontriv = set()
    n_eval = 0
    n_pairs = 0
    n_timeout = 0

    def fail(sig, what, inp, obs, exp, repro=''):
        if len(fails) < 40 and sum(1 for f in fails if f['signature'] == sig) < 2:
            fails.append(Failure(signature=sig, what=what, input=inp, observed=obs, expected=exp, repro=repro))

    warnings.simplefilter('ignore')
    N_main = int(ctx.n(260, 4000) * budget)
    N_hist = int(ctx.n(60, 600) * budget)
    N_special = int(ctx.n(40, 400) * budget)
    for it in range(N_main + N_hist + N_special):
        ka, kb = r.choice(ic.KINDS4), r.choice(ic.KINDS4)
        scale = r.choice([1.0, 1.0, 1.0, 100.0, 1e-2])
        always_hist = N_main <= it < N_main + N_hist       # a second block: crossing pairs whose operands ALL have a past
        special = it >= N_main + N_hist                     # a third block: the exactly degenerate configurations of `_configs`
        if always_hist:
            ka, kb = r.choice([('cubic', 'arc'), ('arc', 'cubic'), ('quad', 'arc'), ('arc', 'quad'), ('cubic', 'line'), ('line', 'cubic'), ('cubic', 'quad'),
                               ('quad', 'line'), ('arc', 'line'), ('line', 'arc')])
            scale = 1.0
        if special:
            ka, kb = r.choice([('quad', 'line'), ('line', 'quad'), ('arc', 'line'), ('line', 'arc'), ('arc', 'line')])
            scale = r.choice([1.0, 1.0, 10.0])
        c = _configs(spt, r, ka, kb, scale, cfg='cross' if always_hist else ('special' if special else None))
        if c is None:
            continue
        cfg, a, b = c
        if a == b:
            continue
        srca, srcb, htags = 'svgpathtools.%r' % (a,), 'svgpathtools.%r' % (b,), ()
        if always_hist or r.random() < 0.3:
            # operands with a past (measured, evaluated, edited and restored, reversed, copied): harness/histories.py
            a, srca, ta_ = histories.prepare(spt, r, a, p=1.0, undo_edits=True)
            b, srcb, tb_ = histories.prepare(spt, r, b, p=1.0 if always_hist else 0.4, undo_edits=True)
            htags = ta_ + tb_
        info = {'a': srca if htags else repr(a), 'b': srcb if htags else repr(b), 'config': cfg}
        rep = '%s.intersect(%s)' % (srca, srcb)
        rrep = '%s.intersect(%s)' % (srcb, srca)
        n_eval += 1
        kk = '%s-%s' % (ka, kb)
        res = rres = None
        slow = ka != 'line' and kb != 'line' and not ('arc' in (ka, kb) and ka != kb)
        if slow and cfg in ('touch', 'near-miss') and r.random() < 0.7:
            continue
        try:
            with ic.time_limit(2.0):
                res = a.intersect(b)
        except ic.Timeout:
            n_timeout += 1
        except Exception as e:
            if not _tolerated(spt, a, b, e):
                fail('%s/raises %s' % (kk, type(e).__name__), 'intersect raised', info, repr(e)[:200], 'a list of pairs', rep)
        try:
            if res is not None:
                with ic.time_limit(2.0):
                    rres = b.intersect(a)
        except ic.Timeout:
            n_timeout += 1
        except Exception as e:
            if not _tolerated(spt, a, b, e):
                fail('%s-%s/raises %s' % (kb, ka, type(e).__name__), 'intersect raised', info, repr(e)[:200], 'a list of pairs', rrep)
        if res is not None and r.random() < 0.3:
            # asked again, the same question has the same answer (nothing an earlier query found may be remembered anywhere)
            try:
                with ic.time_limit(2.0):
                    res_again = a.intersect(b)
                if sorted((float(x_), float(y_)) for x_, y_ in res_again) != sorted((float(x_), float(y_)) for x_, y_ in res):
                    fail('%s/not repeatable' % kk, 'the same intersect call, repeated, returns a different list', info, repr(res_again), repr(res),
                         '(lambda a, b: (a.intersect(b), a.intersect(b)))(%s, %s)' % (srca, srcb))
            except ic.Timeout:
                pass
            except Exception:
                pass
        if res is not None:
            check_pairs(spt, a, b, res, fail, info, rep=rep)
            n_pairs += len(res)
            nontriv.add((ka, kb, cfg, ic.arc_class(a) if ka == 'arc' else '', ic.arc_class(b) if kb == 'arc' else '', min(len(res), 3), bool(htags)))
        if rres is not None:
            check_pairs(spt, b, a, rres, fail, info, rep=rrep)
        # operand swap: same crossings, parameters exchanged (decided only where the answer is stable: transversal configurations)
        both_arcs_general = (ka == 'arc' and kb == 'arc' and not (ic.arc_class(a) == 'circ0' and ic.arc_class(b) == 'circ0'))
        # (two arcs that are not both circular and unrotated: the solver is documented as not fully implemented and each operand order
        # finds its own subset of the crossings - the statement covers what IS returned there, which check_pairs examined above)
        if res is not None and rres is not None and cfg in ('cross', 'disjoint') and not both_arcs_general:
            A = sorted((float(t1), float(t2)) for t1, t2 in res)
            B = sorted((float(t1), float(t2)) for t2, t1 in rres)
            if 'arc' in (ka, kb):
                # an arc's solvers are approximate (the statement allows 1e-3 of the size for the coincidence of the two points) and may
                # report one crossing twice with parameters a few 1e-6 apart: "the same crossings" is decided on the crossing POINTS, as
                # sets, within that tolerance - every crossing of one order is a crossing of the other order
                size_ = max(abs(a.point(0.5) - a.point(0)), abs(a.point(1) - a.point(0)), abs(b.point(0.5) - b.point(0)), abs(b.point(1) - b.point(0)), 1e-300)
                near = lambda p_, q_: abs(a.point(p_[0]) - a.point(q_[0])) <= 2e-3 * size_ and abs(b.point(p_[1]) - b.point(q_[1])) <= 2e-3 * size_
                ok = all(any(near(p_, q_) for q_ in B) for p_ in A) and all(any(near(p_, q_) for p_ in A) for q_ in B)
            else:
                ok = len(A) == len(B)
            if ok and 'arc' not in (ka, kb):
                # match greedily within 1e-6
                Bl = list(B)
                for p in A:
                    m = [q for q in Bl if abs(p[0] - q[0]) < 1e-6 and abs(p[1] - q[1]) < 1e-6]
                    if not m:
                        ok = False
                        break
                    Bl.remove(m[0])
            if not ok:
                fail('%s/swap' % kk, 'swapping the operands does not return the same crossings with the parameters exchanged', info,
                     repr(rres), 'the pairs of %r exchanged' % (res,), rep)
        if len(samples) < 3 and res:
            samples.append({'a': repr(a), 'b': repr(b), 'config': cfg, 'result': repr(res)})

    # ---- the known thin-box configuration (F32), re-confirmed on every run ---------------------------------
    a = P.CubicBezier(0, 1 + 1e-7j, 2 + 2e-7j, 3 + 3.5e-7j)
    b = P.CubicBezier(1.3 - 1j, 1.3 + 1e-7 - 0.3j, 1.3 + 2e-7 + 0.4j, 1.3 + 3.3e-7 + 1j)
    try:
        res = a.intersect(b)
        check_pairs(spt, a, b, res, fail, {'a': repr(a), 'b': repr(b), 'config': 'thin-boxes'})
        n_eval += 1
    except Exception as e:
        fail('cubic-cubic/raises %s' % type(e).__name__, 'intersect raised', {'a': repr(a), 'b': repr(b)}, repr(e)[:200], 'a list of pairs')

    # ---- paths ---------------------------------------------------------------------------------------
    from .c05 import _rand_seg
    n_path = 0
    for it in range(int(ctx.n(50, 700) * budget)):
        def mkpath(n, kinds, origin):
            cur = origin
            segs = []
            for i in range(n):
                s = _rand_seg(spt, r, cur, r.choice([1.0, 2.0]), r.choice(kinds))
                segs.append(s)
                cur = s.end
            if r.random() < 0.3 and n > 1 and abs(cur - origin) > 1e-3:
                segs.append(P.Line(cur, origin))
            return P.Path(*segs)
        kinds = r.choice([['line'], ['line', 'quad', 'cubic'], ['line', 'quad', 'cubic', 'arc']])
        p1 = mkpath(r.randint(1, 5), kinds, complex(r.uniform(-1, 1), r.uniform(-1, 1)))
        p2 = mkpath(r.randint(1, 5), kinds, complex(r.uniform(-1, 1), r.uniform(-1, 1)))
        if r.random() < 0.25 and len(p2) > 1:
            # share a joint location: p2 passes through a joint of p1 at one of its own joints
            sh = p1[0].end - p2[0].end
            p2 = p2.translated(sh)
        if p1 == p2:
            continue
        info = {'path1': repr(p1), 'path2': repr(p2)}
        rep = 'svgpathtools.%r.intersect(svgpathtools.%r)' % (p1, p2)
        n_eval += 1
        n_path += 1
        has_arcs = any(isinstance(s, P.Arc) for s in list(p1) + list(p2))
        try:
            with ic.time_limit(4.0):
                res = p1.intersect(p2)
        except ic.Timeout:
            n_timeout += 1
            continue
        except Exception as e:
            if not any(isinstance(s, P.Arc) and isinstance(s2, P.Arc) and _tolerated(spt, s, s2, e) for s in p1 for s2 in p2):
                fail('Path.intersect/raises %s' % type(e).__name__, 'Path.intersect raised', info, repr(e)[:200], 'a list', rep)
            continue
        L = max(p1.length(), p2.length())
        tol = (1e-3 if has_arcs else 1e-5) * L
        nontriv.add(('path', len(p1), len(p2), has_arcs, min(len(res), 3)))
        for ent in res:
            try:
                (T1, s1, t1), (T2, s2, t2) = ent
            except Exception:
                fail('Path.intersect/shape', 'entry is not ((T1,seg1,t1),(T2,seg2,t2))', info, repr(ent), 'that shape', rep)
                continue
            if not any(s1 is s for s in p1) or not any(s2 is s for s in p2):
                fail('Path.intersect/membership', 'seg1 / seg2 are not members of the two paths', info, repr((s1, s2)), 'members', rep)
                continue
            if not (0 <= T1 <= 1 and 0 <= T2 <= 1 and 0 <= t1 <= 1 and 0 <= t2 <= 1):
                fail('Path.intersect/range', 'a parameter is outside [0,1]', info, repr((T1, t1, T2, t2)), 'all in [0,1]', rep)
                continue
            pts = [p1.point(T1), s1.point(t1), s2.point(t2), p2.point(T2)]
            d = max(abs(pts[i] - pts[j]) for i in range(4) for j in range(i))
            if not d <= tol:
                fail('Path.intersect/incoherent', 'path1.point(T1), seg1.point(t1), seg2.point(t2), path2.point(T2) do not coincide', info,
                     repr(pts), 'within %g' % tol, rep)
            # T and t must describe the same place exactly as Path.t2T does
            k1 = [i for i, s in enumerate(p1) if s is s1][0]
            k2 = [i for i, s in enumerate(p2) if s is s2][0]
            if abs(p1.t2T(k1, t1) - T1) > 1e-12 and p1[k1] != p1[p1.index(s1)]:
                fail('Path.intersect/T1', 'T1 is not t2T(index of seg1, t1)', info, repr((T1, k1, t1)), repr(p1.t2T(k1, t1)), rep)
    return {'evaluations': n_eval, 'distinct_nontrivial': len(nontriv), 'failures': fails, 'samples': samples,
            'rule': 'all 16 ordered kind pairs (arcs circular-unrotated / elliptic / rotated) in crossing (constructed through a common point), '
                    'touching, disjoint, near-miss (1e-9..1e-3 of the size), shared-end-point and random configurations at scales 1e-2, 1, 100; '
                    'every reported pair checked for range and coincidence with the statement\'s tolerances; operand swap compared on crossing/disjoint '
                    'configurations; %d random path pairs (with shared joints) for the T/t/segment coherence. %d reported pairs checked; %d calls skipped after a 2 s / 4 s time limit (touching curves make the subdivision solver exponential). '
                    'distinct = distinct (kinds, config, arc classes, #results)' % (n_path, n_pairs, n_timeout)}


def replay(spt, f):
    from .c19 import replay as rp
    return rp(spt, f)
