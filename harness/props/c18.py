"""C18: paths written to SVG (wsvg, Document) are read back unchanged, with attributes."""
from __future__ import annotations
import re
import io
import os
import shutil
import tempfile
import warnings
import numpy as np
from .. import common
from ..runner import Corr, Failure

LEAN_MODULES = ['SvgVerif.Props.C18', 'SvgVerif.Props.C18Groups']
SVGNS = 'http://www.w3.org/2000/svg'

ASSUMPTIONS = [
    'XML text is outside the model: svgwrite / ElementTree serialisation followed by minidom / ElementTree / iterparse parsing is taken to preserve the element tree, '
    'element order, attribute names and attribute values (exercised by the sampler incl. quotes, &, <, > and non-ASCII in values)',
    'that parse_path(path.d()) gives the path back is C01/C02; here the d text written must be the text read',
    'svgwrite turns the keyword stroke_width into the attribute stroke-width: supplied keys are compared under that convention; svgwrite does not write attributes whose value is the empty string, so empty values are not generated',
]

NAMES = ['a', 'b', 'c', 'k']


def _d_of(pid):
    return 'M0,0L%d,1' % pid


def _pid_of(d):
    return int(d.split('L')[1].split(',')[0])


def _rand_tree(r, counter, level=0):
    """(svg text of a <g> body, protocol words) for a group's content"""
    n_p = r.randint(0, 2)
    n_k = r.randint(0, 2) if level < 2 else 0
    items = ['p'] * n_p + ['k'] * n_k
    r.shuffle(items)
    text, pw, kw = '', [], []
    for it in items:
        if it == 'p':
            pid = counter[0]
            counter[0] += 1
            text += '<path d="%s"/>' % _d_of(pid)
            pw.append(str(pid))
        else:
            nm = r.choice(NAMES)
            t2, w2 = _rand_tree(r, counter, level + 1)
            text += '<g id="%s">%s</g>' % (nm, t2)
            kw += ['D', nm] + w2
    return text, [str(n_p)] + pw + [str(n_k)] + kw


def correspond(ctx):
    spt = ctx.spt
    r = ctx.rng('corr')
    out = []
    # ---- Document histories -----------------------------------------------------------------------------------
    c = Corr('Document/add_path, get_or_add_group, paths')
    lines, impl = [], []
    for it in range(ctx.n(250, 2500)):
        counter = [0]
        if r.random() < 0.2:
            doc = spt.Document()
            words = ['0', '0']
        else:
            body, words = _rand_tree(r, counter)
            doc = spt.Document.from_svg_string('<svg xmlns="%s">%s</svg>' % (SVGNS, body))
        ops = []
        qres = []

        def _ids_below(el):
            return sorted(_pid_of(e.get('d')) for e in el.iter('{%s}path' % SVGNS))
        for k in range(r.randint(0, 7)):
            names = [r.choice(NAMES) for _ in range(r.choice([0, 0, 1, 1, 2, 3]))]
            u = r.random()
            if u < 0.55:
                pid = counter[0]
                counter[0] += 1
                with warnings.catch_warnings():
                    warnings.simplefilter('ignore')
                    doc.add_path(_d_of(pid), group=(list(names) if names else None))
                ops.append('P %d %s' % (pid, ' '.join(names)))
            elif u < 0.7 and names:
                doc.get_or_add_group(list(names))
                ops.append('G %s' % ' '.join(names))
            elif u < 0.85:
                # add_group under a parent addressed by name (a second group of the same id may result)
                parent = names[:-1] if names else []
                nm = names[-1] if names else r.choice(NAMES)
                with warnings.catch_warnings():
                    warnings.simplefilter('ignore')
                    pel = doc.get_group(list(parent))
                    doc.add_group({'id': nm}, parent=pel)
                ops.append('R %s %s' % (nm, ' '.join(parent)))
            else:
                # a query by name in the middle of the history
                with warnings.catch_warnings():
                    warnings.simplefilter('ignore')
                    g = doc.get_group(list(names))
                    got_q = doc.paths_from_group(list(names))
                below = _ids_below(g) if g is not None else []
                if sorted(_pid_of(p.element.get('d')) for p in got_q) != below:
                    below = ['paths_from_group!=elements-below-get_group']
                qres.append(' '.join(map(str, below)))
                ops.append('Q %s' % ' '.join(names))
        with warnings.catch_warnings():
            warnings.simplefilter('ignore')
            got = [_pid_of(p.element.get('d')) for p in doc.paths()]
        allp = sorted(_pid_of(e.get('d')) for e in doc.tree.getroot().iter('{%s}path' % SVGNS))
        lines.append('doc D - %s | %s' % (' '.join(words), ' ; '.join(o.strip() for o in ops)))
        impl.append('ok %s | all %s | q %s' % (' '.join(map(str, got)), ' '.join(map(str, allp)), ' ; '.join(qres)))
        c.count('ops=%d' % len(ops))
        for o in ops:
            c.count('op ' + o[0])
    model = []
    for m in common.driver(lines):
        m = m.strip()
        if ' | all' in m:
            a, b = m.split(' | all')
            b, q = (b.split(' | q') + [''])[:2]
            m = a + ' | all ' + ' '.join(map(str, sorted(int(x) for x in b.split()))) + ' | q ' + q.strip()
        model.append(re.sub(r'\s+', ' ', m).strip())
    c.compare(lines, model, [re.sub(r'\s+', ' ', x).strip() for x in impl])
    out.append(c)

    # ---- the attributes wsvg writes ---------------------------------------------------------------------------
    c2 = Corr('wsvg/attributes written')
    tmp = tempfile.mkdtemp(prefix='verif_c18_')
    lines, impl = [], []
    try:
        import xml.etree.ElementTree as ET
        keys = ['stroke', 'fill', 'id', 'stroke_width', 'stroke-width', 'class', 'opacity', 'stroke_linecap', 'd']
        vals = ['red', 'none', '2', 'x1', '0.5', 'round', 'a-b', 'url(#g)']
        for it in range(ctx.n(60, 600)):
            n = r.randint(1, 4)
            paths = [spt.Path(spt.Line(complex(i, 0), complex(i, 1 + it % 5))) for i in range(n)]
            attrs = []
            for i in range(n):
                ks = r.sample(keys, r.randint(0, 4))
                if 'stroke_width' in ks and 'stroke-width' in ks:
                    ks.remove('stroke-width')
                attrs.append({k: r.choice(vals) for k in ks})
            if all(not a for a in attrs):
                attrs[0] = {'stroke': 'red'}
            fn = os.path.join(tmp, 'w%d.svg' % it)
            with warnings.catch_warnings():
                warnings.simplefilter('ignore')
                spt.wsvg(paths, attributes=attrs, filename=fn)
            els = [e for e in ET.parse(fn).getroot() if e.tag == '{%s}path' % SVGNS]
            for p, a, e in zip(paths, attrs, els):
                lines.append('wattrs %s %s' % (p.d().replace(' ', '~'), ' '.join('%s %s' % kv for kv in a.items())))
                impl.append(' '.join(sorted('%s=%s' % (k, v.replace(' ', '~')) for k, v in e.attrib.items())))
            if len(els) != n:
                lines.append('wattrs count %d' % n)
                impl.append('count %d' % len(els))
            c2.count('n=%d' % n)
    finally:
        shutil.rmtree(tmp, ignore_errors=True)
    model = [' '.join(sorted(m.strip().split(' '))) for m in common.driver(lines)]
    c2.compare(lines, model, impl)
    out.append(c2)
    return out


# ------------------------------------------------------------------------------------------------------------------
def _rand_path(spt, r):
    P = spt
    z = lambda: complex(round(r.uniform(-50, 50), r.choice([0, 1, 3])), round(r.uniform(-50, 50), r.choice([0, 1, 3])))
    segs = []
    cur = z()
    for k in range(r.randint(1, 5)):
        if segs and r.random() < 0.2:
            cur = z()           # new subpath
        kind = r.choice('LLQCA')
        e = z()
        while e == cur:
            e = z()
        if kind == 'L':
            segs.append(P.Line(cur, e))
        elif kind == 'Q':
            segs.append(P.QuadraticBezier(cur, z(), e))
        elif kind == 'C':
            segs.append(P.CubicBezier(cur, z(), z(), e))
        else:
            segs.append(P.Arc(cur, complex(r.uniform(1, 40), r.uniform(1, 40)), r.choice([0, 30, -75.5]), r.random() < 0.5, r.random() < 0.5, e))
        cur = e
    return P.Path(*segs)


def _close(a, b, tol=1e-9):
    if len(a) != len(b):
        return False
    for s, t in zip(a, b):
        if type(s) is not type(t):
            return False
        for u in (0, 0.3, 1):
            if abs(s.point(u) - t.point(u)) > tol * (1 + abs(s.point(u))):
                return False
    return True


def sample(ctx, budget=1.0, hint=None, broken=None):
    spt = ctx.spt
    r = ctx.rng('sample' + ('' if budget == 1.0 else '-search'))
    fails, samples = [], []
    nontriv = set()
    n_eval = 0

    def fail(sig, what, inp, obs, exp, repro=''):
        if len(fails) < 40 and sum(1 for f in fails if f['signature'] == sig) < 2:
            fails.append(Failure(signature=sig, what=what, input=inp, observed=obs, expected=exp, repro=repro))

    tmp = tempfile.mkdtemp(prefix='verif_c18_')
    vals = ['red', 'none', '2.5', 'a b', 'it\'s', 'say "hi"', 'x<y&z>w', 'café', 'url(#g1)']
    keys = ['stroke', 'fill', 'id', 'stroke_width', 'class', 'opacity', 'stroke_linecap', 'data-x', 'xlink:href', 'xml:space']
    rename = lambda k: k.replace('_', '-')
    try:
        for it in range(int(ctx.n(40, 400) * budget)):
            n = r.randint(1, 4)
            paths = [_rand_path(spt, r) for _ in range(n)]
            use_attr = r.random() < 0.7
            attrs = [{k: r.choice(vals) for k in r.sample(keys, r.randint(1, 4))} for _ in range(n)] if use_attr else None
            if attrs:
                # the same presentation attributes under their real (hyphenated) names, as read from another SVG file
                for a_ in attrs:
                    for k_ in ('stroke_width', 'stroke_linecap'):
                        if k_ in a_ and r.random() < 0.5:
                            a_[k_.replace('_', '-')] = a_.pop(k_)
                    if r.random() < 0.2 and 'stroke_width' not in a_:
                        a_['stroke-width'] = r.choice(['3', '0.25', '7px'])
            svg_attr = {'width': '100px', 'height': '50px', 'viewBox': '0 0 10 20', 'id': r.choice(['root', 'r&d'])} if r.random() < 0.5 else None
            fn = os.path.join(tmp, r.choice(['w%d.svg', 'with space %d.svg', 'w%d.xml']) % it)
            inp = {'paths': [repr(p) for p in paths], 'attributes': attrs, 'svg_attributes': svg_attr, 'filename': os.path.basename(fn)}
            n_eval += 1
            nontriv.add((n, use_attr, svg_attr is not None, tuple(sorted(set(type(s).__name__[0] for p in paths for s in p)))))
            expect = [spt.parse_path(p.d()) for p in paths]
            try:
                with warnings.catch_warnings():
                    warnings.simplefilter('ignore')
                    spt.wsvg(paths, attributes=attrs, svg_attributes=svg_attr, filename=fn)
            except Exception as e:
                fail('wsvg raises', 'wsvg raised', inp, repr(e)[:300], 'a file')
                continue
            readers = {}
            try:
                with warnings.catch_warnings():
                    warnings.simplefilter('ignore')
                    ps, at, sa = spt.svg2paths2(fn)
                    readers['svg2paths'] = (ps, at, sa)
                    doc = spt.Document(fn)
                    dp = doc.paths()
                    readers['Document.paths'] = (dp, [dict(p.element.attrib) for p in dp], dict(doc.tree.getroot().attrib))
                    sd = spt.SaxDocument(fn)
                    readers['SaxDocument'] = (sd.flatten_all_paths(), [dict(v) for v in sd.tree], dict(sd.root_values))
            except Exception as e:
                fail('reader raises on a wsvg file', 'a reader raised on a file written by wsvg', inp, repr(e)[:300], 'paths')
                continue
            clark = {'{http://www.w3.org/1999/xlink}': 'xlink:', '{http://www.w3.org/XML/1998/namespace}': 'xml:'}

            def unclark(dct):
                # ElementTree spells a prefixed attribute name in Clark notation ({namespace}local)
                o = {}
                for k, v in dct.items():
                    for ns, pre in clark.items():
                        if isinstance(k, str) and k.startswith(ns):
                            k = pre + k[len(ns):]
                    o[k] = v
                return o
            for name, (ps, at, sa) in readers.items():
                at = [unclark(a) for a in at]
                if list(ps) != expect:
                    fail('%s/paths differ after wsvg' % name, 'the paths read back are not parse_path(p.d()) of the paths written, in order', inp,
                         repr(list(ps))[:400], repr(expect)[:400])
                    continue
                if not all(_close(a, b) for a, b in zip(ps, paths)):
                    fail('%s/paths moved after wsvg' % name, 'a path read back differs from the original beyond the d-string round-trip tolerance', inp, repr(list(ps))[:300], repr(paths)[:300])
                if attrs:
                    for a_in, a_out in zip(attrs, at):
                        miss = {rename(k): v for k, v in a_in.items() if a_out.get(rename(k)) != v}
                        if miss:
                            fail('%s/attribute lost or changed' % name, 'a supplied per-path attribute is not returned with its value', inp, repr({k: a_out.get(k) for k in miss}), repr(miss))
                            break
                if svg_attr:
                    miss = {k: v for k, v in svg_attr.items() if sa.get(k) != v}
                    if miss:
                        fail('%s/svg attribute lost or changed' % name, 'a supplied svg-level attribute is not returned with its value', inp, repr({k: sa.get(k) for k in miss}), repr(miss))
            # -- history: load -> add_path / add_group -> paths() -> save -> reload ---------------------------------------
            try:
                with warnings.catch_warnings():
                    warnings.simplefilter('ignore')
                    doc = spt.Document(fn)
                    added = []
                    for k in range(r.randint(1, 3)):
                        newp = _rand_path(spt, r)
                        names = [r.choice(NAMES) for _ in range(r.choice([0, 1, 2]))]
                        if r.random() < 0.3 and names:
                            doc.get_or_add_group(list(names))
                        elif r.random() < 0.4 and names:
                            # look the name up first (it may not exist yet), then create the group with add_group under its parent
                            doc.paths_from_group(list(names))
                            pel = doc.get_group(list(names[:-1]))
                            if pel is not None and doc.get_group(list(names)) is None:
                                doc.add_group({'id': names[-1], 'class': 'made-by-add_group'}, parent=pel)
                        at_new = {'id': 'new%d' % k, 'stroke': r.choice(vals)}
                        doc.add_path(newp, at_new, group=(list(names) if names else None))
                        added.append((newp, at_new))
                        # the element must sit exactly in the group chain that was named (not in a same-named group elsewhere)
                        parent = {ch: pa for pa in doc.tree.iter() for ch in pa}
                        el = [e for e in doc.tree.iter() if e.get('id') == at_new['id']]
                        chain = []
                        cur_el = parent.get(el[0]) if el else None
                        while cur_el is not None and cur_el is not doc.tree.getroot():
                            chain.append(cur_el.get('id'))
                            cur_el = parent.get(cur_el)
                        if len(el) != 1 or chain[::-1] != list(names):
                            fail('Document.add_path/wrong group', 'add_path(group=names) did not put the path into the group chain that was named',
                                 dict(inp, group=list(names), history=[repr(x[1]) for x in added]), repr(chain[::-1]), repr(list(names)))
                        elif names:
                            # ... and that group is the one a lookup by the same names finds, so the document's own query sees the path
                            g_found = doc.get_group(list(names))
                            q_ids = [q.element.get('id') for q in doc.paths_from_group(list(names))]
                            g_tree = doc.tree.getroot()       # the same lookup done on the element tree itself
                            for nm_ in names:
                                g_tree = next((ch for ch in g_tree if ch.tag == '{%s}g' % SVGNS and ch.get('id') == nm_), None)
                                if g_tree is None:
                                    break
                            if g_found is not parent.get(el[0]) or g_tree is not parent.get(el[0]) or at_new['id'] not in q_ids:
                                fail('Document.add_path/not in the group the name lookup finds',
                                     'a path added with add_path(group=names) is not inside get_group(names) / not returned by paths_from_group(names)',
                                     dict(inp, group=list(names), history=[repr(x[1]) for x in added]), repr(q_ids), 'contains %r' % at_new['id'])
                    # paths taken out of ANOTHER document (they carry the element they came from, which may have a transform of its own)
                    # and added here: what arrives is the path as it was handed over, i.e. the flattened geometry
                    borrowed = []
                    if r.random() < 0.5:
                        donors = []
                        for _ in range(r.randint(1, 2)):
                            dp_ = _rand_path(spt, r)
                            for _try in range(8):
                                if not any(isinstance(sg_, spt.Arc) for sg_ in dp_):
                                    break
                                dp_ = _rand_path(spt, r)
                            else:
                                continue
                            donors.append(dp_)
                        if donors:
                            fn3 = fn + '.donor.svg'
                            d_attrs = [dict({'id': 'donor%d' % i_, 'fill': 'none'}, **({'transform': r.choice(['translate(3,4)', 'translate(-2.5 8)', 'scale(2)', 'matrix(1 0 0 1 5 -6)'])}
                                                                                  if r.random() < 0.6 else {})) for i_ in range(len(donors))]
                            spt.wsvg(donors, attributes=d_attrs, filename=fn3)
                            for q_ in spt.Document(fn3).paths():
                                with_attr = r.random() < 0.4
                                if with_attr:
                                    doc.add_path(q_, {'id': 'borrowed-' + q_.element.get('id')})
                                else:
                                    doc.add_path(q_)
                                borrowed.append(spt.parse_path(q_.d()))
                            nontriv.add(('borrowed', len(donors), any('transform' in a_ for a_ in d_attrs)))
                    seen = doc.paths()
                    want_all = expect + [spt.parse_path(p.d()) for p, _ in added] + borrowed
                    for b_ in borrowed:
                        if sum(1 for q in seen if q == b_) < 1:
                            fail('Document.paths/borrowed path changed', 'a path taken from another Document\'s paths() and added with add_path is not returned unchanged by this Document\'s paths()',
                                 dict(inp, borrowed=repr(b_)), repr([q for q in seen if q not in expect][:3])[:400], repr(b_)[:300])
                            break
                    for p, a in added:
                        hit = [q for q in seen if q.element.get('id') == a['id']]
                        if len(hit) != 1 or hit[0] != spt.parse_path(p.d()):
                            fail('Document.paths/added path not visible', 'a path added with add_path is not returned by the same Document\'s paths()', dict(inp, added=repr(p), group_attrs=a),
                                 repr(hit)[:300], repr(spt.parse_path(p.d()))[:300])
                            break
                    if len(seen) != len(want_all):
                        fail('Document.paths/count after add_path', 'paths() does not return the loaded paths plus the added ones', inp, str(len(seen)), str(len(want_all)))
                    fn2 = fn + '.saved.svg'
                    doc.save(fn2, prettify=(r.random() < 0.3))
                    key = lambda q: repr(q)
                    for name, read in (('svg2paths', lambda: spt.svg2paths(fn2)[0]), ('Document.paths', lambda: spt.Document(fn2).paths()),
                                       ('SaxDocument', lambda: spt.SaxDocument(fn2).flatten_all_paths())):
                        got = read()
                        if sorted(map(key, got)) != sorted(map(key, want_all)):
                            fail('%s/paths differ after Document.save' % name, 'reading a file saved by Document does not return the document\'s paths', dict(inp, added=[repr(p) for p, _ in added]),
                                 '%d paths: %s' % (len(got), repr(list(got))[:300]), '%d paths' % len(want_all))
            except Exception as e:
                fail('Document history raises', 'load / add_path / paths / save / reload raised', inp, repr(e)[:300], 'no exception')
            if len(samples) < 2:
                samples.append({'paths': [repr(p) for p in paths][:2], 'attributes': attrs})
    finally:
        shutil.rmtree(tmp, ignore_errors=True)
    return {'evaluations': n_eval, 'distinct_nontrivial': len(nontriv), 'failures': fails, 'samples': samples,
            'rule': 'random lists of 1-4 paths (Line/Quadratic/Cubic/Arc mixes, several subpaths, coordinates with 0-3 decimals), optional per-path attribute dicts (values incl. spaces, quotes, '
                    '&<>, non-ASCII) and svg attributes, file names with spaces / other extensions; wsvg then svg2paths2, Document.paths, SaxDocument: same paths in order (== parse_path(p.d())), '
                    'close to the originals, supplied attributes returned; then Document: add_path (root / nested / new groups; also paths borrowed from another Document whose elements carry their own transform, with and without attribs) -> paths() sees the added paths -> save (plain/pretty) -> the three '
                    'readers return the same multiset. distinct = distinct (n, attributes?, svg attributes?, segment kinds)'}


def replay(spt, f):
    from .c19 import replay as rp
    return rp(spt, f)
