"""C14: area() is the signed enclosed area; enclosure tests agree with crossing parity."""
from __future__ import annotations
import math
import warnings
from fractions import Fraction as Fr
import numpy as np
from ..tracejobs import *
from .. import symtrace as st, common
from ..gen_lean import Def
from ..runner import Corr, Failure
from .c10 import cxvars

LEAN_MODULES = ['SvgVerif.Props.C14', 'SvgVerif.Props.C14General', 'SvgVerif.Props.C14Green']

SHAPES = {
    # name: (kinds of the segments, number of distinct points); the last segment returns to p0
    'tri': ['line', 'line', 'line'],
    'quadri': ['line', 'line', 'line', 'line'],
    'cubic_line': ['cubic', 'line'],
    'quad_line': ['quad', 'line'],
    'cubic_cubic': ['cubic', 'cubic'],
}


def _build(spt, kinds, pts):
    """closed path through the point list (control points included), returning to pts[0]"""
    P = spt.path
    segs, i = [], 0
    n = len(pts)
    for k in kinds:
        if k == 'line':
            segs.append(P.Line(pts[i % n], pts[(i + 1) % n])); i += 1
        elif k == 'quad':
            segs.append(P.QuadraticBezier(pts[i % n], pts[(i + 1) % n], pts[(i + 2) % n])); i += 2
        else:
            segs.append(P.CubicBezier(pts[i % n], pts[(i + 1) % n], pts[(i + 2) % n], pts[(i + 3) % n])); i += 3
    assert i == n, (i, n)
    return P.Path(*segs)


def _npts(kinds):
    return sum({'line': 1, 'quad': 2, 'cubic': 3}[k] for k in kinds)


class allow_eq:
    def __enter__(self):
        self.c = st.TraceCtx.current
        self.old = self.c.allow_eq
        self.c.allow_eq = True

    def __exit__(self, *a):
        self.c.allow_eq = self.old


def gen_defs(spt, salt=0):
    P = spt.path
    defs = []
    for name, kinds in SHAPES.items():
        n = _npts(kinds)
        names = ['p%d' % i for i in range(n)]
        cn = []
        for n_ in names:
            cn += [n_ + 'x', n_ + 'y']

        def job(r, name=name, kinds=kinds, names=names, cn=cn):
            pts, env = cxvars(names, r)
            (zx, zy, a, b, c, d, e, f), e2 = realvars(['zx', 'zy', 'a', 'b', 'c', 'd', 'e', 'f'], r)
            env.update(e2)
            path = _build(spt, kinds, pts)
            out = []
            with allow_eq():
                out.append(Def('%s_area' % name, cn, node(path.area()), 'Path.area() of the closed path %s' % '+'.join(kinds), env))
                out.append(Def('%s_area_reversed' % name, cn, node(path.reversed().area()), 'reversed().area() (%s)' % name, env))
                out.append(Def('%s_area_translated' % name, cn + ['zx', 'zy'], node(path.translated(st.Cx(zx, zy)).area()),
                               'translated(z).area() (%s)' % name, env))
                tf = np.array([[a, c, e], [b, d, f], [0, 0, 1]], dtype=object)
                out.append(Def('%s_area_transformed' % name, cn + ['a', 'b', 'c', 'd', 'e', 'f'], node(P.transform(path, tf).area()),
                               'transform(path, [[a,c,e],[b,d,f],[0,0,1]]).area() (%s)' % name, env))
            return out
        defs += retry(job, 'c14/%s' % name + ('/%d' % salt if salt else ''))
    return defs


GEN = {'C14': gen_defs}

ASSUMPTIONS = [
    'the general-n theorems are about the hand model pathArea (fold of per-segment closed forms), tied to the code by bridges to five traced closed shapes and by exact correspondence with the real Path.area() on rational control points',
    'that the per-segment value is the Green integral of x dy is proved only in closed form for cubic+line; orientation (positive for counter-clockwise) is pinned by concrete squares and sampled; the general Jordan-curve statement is not attempted',
    'arcs enter area() through a chord approximation (sampled); enclosure relies on Path.intersect (C11/C12) - the theorems cover the decision logic',
]


def _fr(x):
    x = Fr(x)
    return str(x.numerator) if x.denominator == 1 else '%d/%d' % (x.numerator, x.denominator)


def correspond(ctx):
    spt = ctx.spt
    P = spt.path
    c = Corr('path_encloses_pt / is_contained_by decision logic')
    lines, impl = [], []
    sq = P.Path(P.Line(0j, 4 + 0j), P.Line(4 + 0j, 4 + 4j), P.Line(4 + 4j, 4j), P.Line(4j, 0j))
    saved_int = P.Path.intersect
    try:
        for n in range(0, 7):
            P.Path.intersect = lambda self, other, justonemode=False, tol=1e-12, n=n: [('x',)] * n
            lines.append('encloses %d' % n)
            impl.append(str(bool(P.path_encloses_pt(1 + 1j, -1 - 1j, sq))).lower())
        for crosses in (0, 1):
            for inbox in (0, 1):
                for n in range(0, 4):
                    inner = P.Path(P.Line((1 + 1j) if inbox else (9 + 9j), 2 + 1j))

                    def fake(self, other, justonemode=False, tol=1e-12, crosses=crosses, n=n):
                        if justonemode:
                            return [('x',)] if crosses else []
                        return [('x',)] * n
                    P.Path.intersect = fake
                    lines.append('contained %d %d %d' % (crosses, inbox, n))
                    impl.append(str(bool(inner.is_contained_by(sq))).lower())
                    c.count('crosses=%d inbox=%d' % (crosses, inbox))
    finally:
        P.Path.intersect = saved_int
    c.compare(lines, [m.strip() for m in common.driver(lines)], impl)

    # ---- Path.area: number of chords that replace an Arc (seg2lines) ---------------------------------------
    c2 = Corr('Path.area/arc chord count')
    lines, impl = [], []
    r = ctx.rng('corr/chords')

    class StubArc(P.Arc):
        """an Arc (isinstance) of prescribed length; radius/delta are decoys.  point() counts its calls: seg2lines
        evaluates num_lines + 1 points"""
        def __init__(self, L):
            self.L = L
            self.start, self.end = 0j, 2 + 0j
            self.radius, self.rotation, self.large_arc, self.sweep = 1 + 3j, 0.0, False, True
            self.center, self.theta, self.delta = 1 + 0j, 180.0, -77.0
            self.calls = 0

        def length(self, *a, **k):
            return self.L

        def point(self, t):
            self.calls += 1
            return 2 * t + 1j * t * (1 - t)
    for it in range(ctx.n(120, 1500)):
        L = r.randint(1, 80) / 8.0
        chord = r.choice([0.125, 0.25, 0.5, 1.0, 0.375, 2.0])
        arc = StubArc(L)
        path = P.Path(arc, P.Line(2 + 0j, 0j))
        path.area(chord_length=chord)
        lines.append('numlines %s %s' % (Fr(L), Fr(chord)))
        impl.append(str(arc.calls - 1))
        c2.count('chord=%s' % chord)
    c2.compare(lines, [m.strip() for m in common.driver(lines)], impl)

    # ---- Path.area() on closed paths of any number of Line/Quadratic/Cubic segments, exact rational control points ---------
    from ..exactnum import Q, QC, qstr
    c3 = Corr('Path.area/general closed Bezier path')
    lines, impl = [], []
    for it in range(ctx.n(150, 2000)):
        n = r.randint(1, 6)
        g = lambda: (Fr(r.randint(-6, 6), r.choice([1, 1, 2])), Fr(r.randint(-6, 6), r.choice([1, 1, 4])))
        first = g()
        cur = first
        segs, spec = [], []
        for i in range(n):
            kind = r.choice(['L', 'L', 'Q', 'C'])
            end = first if i == n - 1 else g()
            if kind == 'L' and end == cur:
                kind = 'Q'
            pts = [cur] + [g() for _ in range({'L': 0, 'Q': 1, 'C': 2}[kind])] + [end]
            segs.append({'L': P.Line, 'Q': P.QuadraticBezier, 'C': P.CubicBezier}[kind](*[QC(*q) for q in pts]))
            spec.append(kind + ' ' + ' '.join(qstr(Q(v)) for q in pts for v in q))
            cur = end
        path = P.Path(*segs)
        a = path.area()
        lines.append('patharea ' + ' | '.join(spec))
        impl.append(qstr(a if isinstance(a, Q) else Q(Fr(a))))
        c3.count('n=%d' % n)
    c3.compare(lines, [m.strip() for m in common.driver(lines)], impl)
    return [c, c2, c3]


def _shoelace(pts):
    s = Fr(0)
    n = len(pts)
    for i in range(n):
        a, b = pts[i], pts[(i + 1) % n]
        s += Fr(a.real) * Fr(b.imag) - Fr(b.real) * Fr(a.imag)
    return s / 2


def _even_odd(pt, poly):
    """exact even-odd test for a point in general position (not on an edge, no vertex on the horizontal ray)"""
    x, y = Fr(pt.real), Fr(pt.imag)
    inside = False
    n = len(poly)
    for i in range(n):
        ax, ay, bx, by = Fr(poly[i].real), Fr(poly[i].imag), Fr(poly[(i + 1) % n].real), Fr(poly[(i + 1) % n].imag)
        if (ay > y) != (by > y):
            xc = ax + (y - ay) * (bx - ax) / (by - ay)
            if xc > x:
                inside = not inside
    return inside


def sample(ctx, budget=1.0, hint=None, broken=None):
    spt = ctx.spt
    P = spt.path
    r = ctx.rng('sample' + ('' if budget == 1.0 else '-search'))
    fails, samples = [], []
    nontriv = set()
    n_eval = 0

    def fail(sig, what, inp, obs, exp, repro=''):
        if len(fails) < 40 and sum(1 for f in fails if f['signature'] == sig) < 2:
            fails.append(Failure(signature=sig, what=what, input=inp, observed=obs, expected=exp, repro=repro))

    def dense_area(path, n=4000):
        pts = []
        for s in path:
            pts += [s.point(t) for t in np.linspace(0, 1, n, endpoint=False)]
        a = 0.0
        for i in range(len(pts)):
            p, q = pts[i], pts[(i + 1) % len(pts)]
            a += p.real * q.imag - q.real * p.imag
        return a / 2

    for it in range(int(ctx.n(120, 1500) * budget)):
        cls = r.choice(['polygon', 'polygon', 'polygon', 'bezier', 'bezier', 'bezier', 'horizontal-chord', 'horizontal-chord', 'polygon', 'bezier', 'arc', 'mixed-arc', 'mixed-arc'])
        n_eval += 1
        if cls == 'polygon':
            n = r.randint(3, 7)
            kindp = r.choice(['convex', 'random', 'random'])
            if kindp == 'convex':
                angs = sorted(r.uniform(0, 2 * math.pi) for _ in range(n))
                pts = [complex(round(10 * math.cos(a) * 8) / 8, round(10 * math.sin(a) * 8) / 8) for a in angs]
            else:
                pts = [complex(r.randint(-40, 40) / 4, r.randint(-40, 40) / 4) for _ in range(n)]
            if len(set(pts)) < n or any(pts[i] == pts[(i + 1) % n] for i in range(n)):
                continue
            path = P.polygon(*pts)
            want = float(_shoelace(pts))
            nontriv.add((cls, kindp, n))
            tol = 1e-9 * (abs(want) + 100)
        elif cls in ('bezier', 'horizontal-chord'):
            n = r.randint(1, 4)
            cur = complex(r.uniform(-5, 5), r.uniform(-5, 5)); first = cur
            segs = []
            for i in range(n):
                end = complex(r.uniform(-5, 5), r.uniform(-5, 5)) if i < n - 1 else first
                if cls == 'horizontal-chord' and i == 0 and n > 1:
                    end = complex(r.uniform(-5, 5), cur.imag)      # a curve whose two end points have equal y
                k = r.choice(['line', 'quad', 'cubic', 'cubic'])
                if end == cur or (n == 1):
                    k = 'cubic'
                if k == 'line':
                    segs.append(P.Line(cur, end))
                elif k == 'quad':
                    segs.append(P.QuadraticBezier(cur, complex(r.uniform(-5, 5), r.uniform(-5, 5)), end))
                else:
                    segs.append(P.CubicBezier(cur, complex(r.uniform(-5, 5), r.uniform(-5, 5)), complex(r.uniform(-5, 5), r.uniform(-5, 5)), end))
                cur = end
            path = P.Path(*segs)
            want = dense_area(path)
            nontriv.add((cls, n))
            tol = 1e-4 * (abs(want) + 10)
        elif cls == 'mixed-arc':
            # a closed outline that MIXES an arc with lines / Beziers, away from the coordinate axes: half discs, an arc closed by a cubic,
            # a rectangle with two rounded corners
            rad = r.uniform(0.3, 1.5); c0 = complex(r.uniform(-6, 6), r.uniform(-6, 6)) + r.choice([0, 0, 20 + 10j]); ry = rad * r.choice([1, 1, 0.5, 2])
            sw = r.random() < 0.5
            rot = r.choice([0, 0, 30, 90, -45.5])
            w = complex(math.cos(math.radians(rot)), math.sin(math.radians(rot)))
            a_, b_ = c0 - rad * w, c0 + rad * w
            arc_ = P.Arc(a_, complex(rad, ry), rot, False, sw, b_)
            form_ = r.choice(['line', 'cubic', 'two-lines', 'rounded'])
            if form_ == 'line':
                segs = [arc_, P.Line(b_, a_)]
            elif form_ == 'cubic':
                segs = [arc_, P.CubicBezier(b_, b_ + complex(r.uniform(-1, 1), r.uniform(-1, 1)), a_ + complex(r.uniform(-1, 1), r.uniform(-1, 1)), a_)]
            elif form_ == 'two-lines':
                m_ = c0 + 1j * w * rad * r.choice([2, -2, 0.5]) * (1 if sw else -1)
                segs = [arc_, P.Line(b_, m_), P.QuadraticBezier(m_, (m_ + a_) / 2 + 0.2, a_)]
            else:
                x0, y0, wd, ht, q_ = c0.real, c0.imag, r.uniform(2, 5), r.uniform(2, 4), r.uniform(0.2, 0.8)
                segs = [P.Line(complex(x0, y0), complex(x0 + wd - q_, y0)), P.Arc(complex(x0 + wd - q_, y0), complex(q_, q_), 0, False, True, complex(x0 + wd, y0 + q_)),
                        P.Line(complex(x0 + wd, y0 + q_), complex(x0 + wd, y0 + ht - q_)), P.Arc(complex(x0 + wd, y0 + ht - q_), complex(q_, q_), 0, False, True, complex(x0 + wd - q_, y0 + ht)),
                        P.Line(complex(x0 + wd - q_, y0 + ht), complex(x0, y0 + ht)), P.Line(complex(x0, y0 + ht), complex(x0, y0))]
            path = P.Path(*segs)
            if r.random() < 0.3:
                path = path.reversed()
            want = dense_area(path, n=20000)
            chord = 0.01 * min(rad, ry)
            nontriv.add((cls, form_, rot != 0))
            tol = 2e-4 * (abs(want) + 1)
        else:
            rad = r.uniform(0.05, 0.2); c0 = complex(r.uniform(-3, 3), r.uniform(-3, 3)); ry = rad * r.choice([1, 1, 0.5, 2, 4, 0.25, 8])
            sw = r.random() < 0.5
            rot = r.choice([0, 0, 30, 90, -45.5])
            w = complex(math.cos(math.radians(rot)), math.sin(math.radians(rot)))
            path = P.Path(P.Arc(c0 - rad * w, complex(rad, ry), rot, False, sw, c0 + rad * w), P.Arc(c0 + rad * w, complex(rad, ry), rot, False, sw, c0 - rad * w))
            want = math.pi * rad * ry * (1 if sw else -1)
            nontriv.add((cls, sw, ry / rad > 1, rot != 0))
            chord = rad * r.choice([4e-2, 1e-1, 2e-2])
            # "within the chord-length approximation": each half ellipse is replaced by n = ceil(length/chord) chords at equal steps of
            # the eccentric angle, so the polygon is the affine image of a regular 2n-gon: area = rx*ry*n*sin(pi/n), exactly.
            # Fewer chords than that (a larger error) is a violation; the half perimeter comes from our own quadrature.
            m = 4000
            ang = np.linspace(0, math.pi, m + 1)
            speed = np.sqrt((rad * np.sin(ang)) ** 2 + (ry * np.cos(ang)) ** 2)
            half = float(np.sum((speed[:-1] + 4 * np.sqrt((rad * np.sin((ang[:-1] + ang[1:]) / 2)) ** 2 + (ry * np.cos((ang[:-1] + ang[1:]) / 2)) ** 2) + speed[1:]) * (math.pi / m) / 6))
            n_lo = max(1, int(math.ceil(half * (1 - 1e-7) / chord)))
            poly_lo = rad * ry * n_lo * math.sin(math.pi / n_lo)
            tol = (math.pi * rad * ry - poly_lo) * 1.001 + 1e-12 * abs(want)
        desc = repr(path).replace('\n', ' ')
        rep = 'svgpathtools.%s.area()' % desc if cls not in ('arc', 'mixed-arc') else 'svgpathtools.%s.area(chord_length=%r)' % (desc, chord)
        try:
            got = path.area(chord_length=chord) if cls in ('arc', 'mixed-arc') else path.area()
        except Exception as e:
            fail('area/raises', 'area() raised', {'path': desc}, repr(e), repr(want), rep)
            continue
        if abs(got - want) > tol:
            fail('area/value (%s)' % cls, 'area() is not the signed enclosed area', {'path': desc}, repr(got), repr(want), rep)
            continue
        if cls not in ('arc', 'mixed-arc'):
            if r.random() < 0.5:
                # other queries first (length, a point, an intersection-free bbox): whatever they cache on the segments
                # must not leak into the reversed / transformed copies
                try:
                    path.length(); path.point(0.3); path.bbox()
                except Exception:
                    pass
            rv = path.reversed().area()
            if abs(rv + got) > 1e-9 * (abs(got) + 100):
                fail('area/reversed', 'area does not change sign under reversed()', {'path': desc}, repr(rv), repr(-got), 'svgpathtools.%s.reversed().area()' % desc)
            z = complex(r.uniform(-50, 50), r.uniform(-50, 50))
            tv = path.translated(z).area()
            if abs(tv - got) > 1e-7 * (abs(got) + 100):
                fail('area/translated', 'area is not translation invariant', {'path': desc, 'z': repr(z)}, repr(tv), repr(got))
            M = np.array([[r.uniform(-2, 2), r.uniform(-2, 2), 1.5], [r.uniform(-2, 2), r.uniform(-2, 2), -0.5], [0, 0, 1.0]])
            det = M[0, 0] * M[1, 1] - M[0, 1] * M[1, 0]
            mv = P.transform(path, M).area()
            if abs(mv - det * got) > 1e-7 * (abs(det * got) + 100):
                fail('area/determinant', 'area does not scale by the determinant', {'path': desc, 'M': M.tolist()}, repr(mv), repr(det * got))
        if cls == 'polygon':
            # even-odd enclosure against an exact test, probe in general position
            bb = path.bbox()
            opt = complex(bb[0] - 1 - r.random(), bb[2] - 1 - r.random())
            for _ in range(4):
                pt = complex(r.uniform(bb[0], bb[1]), r.uniform(bb[2], bb[3]))
                # general position w.r.t. the probe: no vertex within 1e-3 of the probe line, point not near an edge
                d = opt - pt
                if any(abs(((v - pt) * d.conjugate()).imag) / abs(d) < 1e-3 for v in pts):
                    continue
                if any(abs(((pt - a_) * (b_ - a_).conjugate()).imag) / abs(b_ - a_) < 1e-3 for a_, b_ in zip(pts, pts[1:] + pts[:1])):
                    continue
                # self-intersections of the polygon near the probe line are not "transversal crossings away from joints": skip non-simple polygons
                if kindp != 'convex':
                    simple = True
                    m = len(pts)
                    for i in range(m):
                        for j in range(i + 2, m):
                            if i == 0 and j == m - 1:
                                continue
                            if P.Line(pts[i], pts[(i + 1) % m]).intersect(P.Line(pts[j], pts[(j + 1) % m])):
                                simple = False
                    if not simple:
                        continue
                # crossings of the probe with the edges must be pairwise well separated (Path.intersect merges
                # crossings closer than tol, e.g. on overlapping collinear edges): otherwise outside the statement
                xs_ = []
                for a_, b_ in zip(pts, pts[1:] + pts[:1]):
                    den_ = ((b_ - a_).conjugate() * d).imag
                    if abs(den_) < 1e-9:
                        xs_ = None; break
                    u_ = (((pt - a_).conjugate() * d).imag) / den_
                    v_ = (((pt - a_).conjugate() * (b_ - a_)).imag) / den_
                    if -1e-6 <= u_ <= 1 + 1e-6 and -1e-6 <= v_ <= 1 + 1e-6:
                        xs_.append(a_ + u_ * (b_ - a_))
                if xs_ is None or any(abs(p_ - q_) < 1e-3 for i_, p_ in enumerate(xs_) for q_ in xs_[i_ + 1:]):
                    continue
                want_in = _even_odd(pt, pts)
                try:
                    with warnings.catch_warnings():
                        warnings.simplefilter('ignore')
                        got_in = P.path_encloses_pt(pt, opt, path)
                except Exception as e:
                    fail('path_encloses_pt/raises', 'raised', {'path': desc, 'pt': repr(pt)}, repr(e), repr(want_in))
                    continue
                if bool(got_in) != want_in:
                    fail('path_encloses_pt/even-odd', 'path_encloses_pt disagrees with the even-odd rule', {'path': desc, 'pt': repr(pt), 'opt': repr(opt)},
                         repr(got_in), repr(want_in), 'svgpathtools.path_encloses_pt(%r, %r, svgpathtools.%s)' % (pt, opt, desc))
        if len(samples) < 3:
            samples.append({'path': desc[:300], 'area': got})
    # is_contained_by on nested / disjoint / crossing shapes, incl. a self-intersecting outer path
    def square(c0, h):
        return P.polygon(c0 - h - h * 1j, c0 + h - h * 1j, c0 + h + h * 1j, c0 - h + h * 1j)
    bow = P.polygon(0j, 10 + 10j, 10 + 0j, 0 + 10j)
    cases = [(square(5 + 5j, 1), square(5 + 5j, 4), True, 'nested'), (square(20 + 20j, 1), square(5 + 5j, 4), False, 'disjoint'),
             (square(9 + 5j, 2), square(5 + 5j, 4), False, 'crossing'), (square(8 + 5j, 0.5), bow, True, 'in right lobe of a bow-tie'),
             (square(2 + 5j, 0.5), bow, True, 'in left lobe of a bow-tie'), (square(5 + 8.5j, 0.5), bow, False, 'in the notch of a bow-tie')]
    def blob(c0, rad, kind='cubic'):
        # a closed outline of four curves around c0 (a circle approximated by cubics, or a rounder-than-square of quadratics)
        k_ = 0.5522847498 * rad
        E, N, W, S_ = c0 + rad, c0 + 1j * rad, c0 - rad, c0 - 1j * rad
        if kind == 'cubic':
            return P.Path(P.CubicBezier(E, E + 1j * k_, N + k_, N), P.CubicBezier(N, N - k_, W + 1j * k_, W), P.CubicBezier(W, W - 1j * k_, S_ - k_, S_),
                          P.CubicBezier(S_, S_ + k_, E - 1j * k_, E))
        return P.Path(P.QuadraticBezier(E, E + 1j * rad, N), P.QuadraticBezier(N, N - rad, W), P.QuadraticBezier(W, W - 1j * rad, S_), P.QuadraticBezier(S_, S_ + rad, E))
    for kd_ in ('cubic', 'quad'):
        big = blob(5 + 5j, 4, kd_)
        cases += [(blob(5 + 5j, 1.5, kd_), big, True, 'curved outlines, nested'), (blob(20 + 3j, 1.5, kd_), big, False, 'curved outlines, disjoint'),
                  (blob(1.75 + 5j, 1.5, kd_), big, False, 'curved outlines crossing, start of the inner one inside'),
                  (blob(8.5 + 5j, 1.5, kd_), big, False, 'curved outlines crossing, start of the inner one outside')]
    for inner, outer, want, nm in cases:
        for k in range(int(ctx.n(2, 6) * budget) + (2 if nm.startswith('curved') else 0)):
            z = complex(r.uniform(-0.2, 0.2), r.uniform(-0.2, 0.2)) if (k and not nm.startswith('curved')) else 0
            # (the curved cases are asked the SAME question several times in a row: the answer may not depend on what was asked before)
            a_, b_ = inner.translated(z), outer
            n_eval += 1
            nontriv.add(('contained', nm))
            try:
                with warnings.catch_warnings():
                    warnings.simplefilter('ignore')
                    got = a_.is_contained_by(b_)
            except Exception as e:
                fail('is_contained_by/raises', 'raised', {'case': nm}, repr(e), repr(want))
                continue
            if bool(got) != want:
                fail('is_contained_by/' + nm, 'is_contained_by is wrong', {'inner': repr(a_).replace('\n', ' '), 'outer': repr(b_).replace('\n', ' ')}, repr(got), repr(want),
                     'svgpathtools.%s.is_contained_by(svgpathtools.%s)' % (repr(a_).replace('\n', ' '), repr(b_).replace('\n', ' ')))
    return {'evaluations': n_eval, 'distinct_nontrivial': len(nontriv), 'failures': fails, 'samples': samples,
            'rule': 'closed polygons (convex, random incl. self-intersecting) against the exact rational shoelace value; closed Bezier paths (1-4 segments, incl. '
                    'curves with a horizontal chord) against a 4000-point-per-segment polygon; circles/ellipses from two arcs; reversal, translation, random '
                    'affine maps; even-odd enclosure on simple polygons with the probe in general position; is_contained_by on nested/disjoint/crossing squares '
                    'and a bow-tie. distinct = distinct (class, subclass, size)'}


def replay(spt, f):
    from .c19 import replay as rp
    return rp(spt, f)
