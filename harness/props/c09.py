"""C09: reversed / split / cropped trace the same curve under the documented parameter map."""
from __future__ import annotations
import math
import warnings
import numpy as np
from fractions import Fraction as Fr
from ..tracejobs import *
from .. import symtrace as st, common
from ..gen_lean import Def
from ..runner import Corr, Failure
from .c03 import KINDS, _mk, _bern_exact_c, _close

LEAN_MODULES = ['SvgVerif.Props.C09', 'SvgVerif.Props.C09Length', 'SvgVerif.Props.C04RoundTrip']


def gen_defs(spt, salt=0):
    P = spt.path
    defs = []
    for kind, k in KINDS:
        names = ['p%d' % i for i in range(k)]

        def job(r, kind=kind, k=k, names=names):
            ps, env = ringvars(names, r)
            env.update({'t': Fr(r.randint(1, 9), 10), 'u': rfrac(r), 't0': Fr(r.randint(1, 4), 10), 't1': Fr(r.randint(5, 9), 10),
                        'loc': Fr(0)})
            env['loc'] = (env['t1'] - env['t0']) / (1 - env['t0'])
            t, u, t0, t1, loc = [st.R.var(n, env[n], ring=True) for n in ('t', 'u', 't0', 't1', 'loc')]
            seg = _mk(spt, kind, ps)
            out = []
            A = lambda nm, args, val, doc: out.append(Def('%s_%s' % (kind, nm), args, node(val), '%s: %s' % (kind, doc), env))
            rv = seg.reversed()
            assert type(rv) is type(seg)
            A('reversed_point', names + ['u'], rv.point(u), 'reversed().point(u)')
            for j, b in enumerate(rv.bpoints()):
                A('reversed_bp_%d' % j, names, b, 'reversed().bpoints()[%d]' % j)
            a, b = seg.split(t)
            assert type(a) is type(seg) and type(b) is type(seg)
            A('split_left_point', names + ['t', 'u'], a.point(u), 'split(t)[0].point(u)')
            A('split_right_point', names + ['t', 'u'], b.point(u), 'split(t)[1].point(u)')
            A('split_left_end', names + ['t'], a.end, 'split(t)[0].end')
            A('split_right_start', names + ['t'], b.start, 'split(t)[1].start')
            A('split_left_start', names + ['t'], a.start, 'split(t)[0].start')
            A('split_right_end', names + ['t'], b.end, 'split(t)[1].end')
            c0 = seg.cropped(0, t1)
            c1 = seg.cropped(t0, 1)
            assert type(c0) is type(seg) and type(c1) is type(seg)
            A('crop0_point', names + ['t1', 'u'], c0.point(u), 'cropped(0, t1).point(u)')
            A('crop1_point', names + ['t0', 'u'], c1.point(u), 'cropped(t0, 1).point(u)')
            ci = seg.cropped(t0, t1)
            assert type(ci) is type(seg)
            A('cropi_point', names + ['t0', 't1', 'u'], ci.point(u), 'cropped(t0, t1).point(u), 0 < t0 < t1 < 1')
            return out
        defs += retry(job, 'c09/%s' % kind + ('/%d' % salt if salt else ''))
    return defs


from . import c04 as _c04
GEN = {'C09': gen_defs, 'C04': _c04.gen_defs}     # C04RoundTrip (arcs) uses C04's traced Arc.point
ASSUMPTIONS = [
    'Path.cropped / Path.reversed: hand model tied by exact correspondence on stub segments; isclose snaps are modelled with their numeric thresholds',
    'Arc.reversed/cropped: the point maps are theorems of Props/C04RoundTrip.lean (reversed_point, cropped_point, built_*) about the constructor calls those methods make; that the methods pass exactly those arguments is checked by the sampler on real arcs',
]


# ---------------------------------------------------------------------------
# correspondence: Path.cropped index logic on stub segments with Fraction lengths

def _fr(x):
    x = Fr(x)
    return str(x.numerator) if x.denominator == 1 else '%d/%d' % (x.numerator, x.denominator)


class Crop(object):
    pass


def _stub_path(spt, lens, labels, closed):
    P = spt.path

    class Stub(object):
        def __init__(self, idx, ln, lab, start, end):
            self.idx, self._len, self.lab = idx, ln, lab
            self.start, self.end = start, end

        def __eq__(self, o):
            return isinstance(o, Stub) and self.lab == o.lab

        def __ne__(self, o):
            return not self == o
        __hash__ = object.__hash__

        def length(self, t0=0, t1=1, error=None, min_depth=None):
            return self._len * (t1 - t0)

        def cropped(self, a, b):
            c = Crop()
            c.idx, c.a, c.b, c.start, c.end = self.idx, Fr(a), Fr(b), self.start, self.end
            return c

        def point(self, t):
            return ('pt', self.idx, t)

    n = len(lens)
    segs = []
    for i in range(n):
        s = complex(i, 0)
        e = complex(i + 1, 0) if (i < n - 1 or not closed) else 0j
        segs.append(Stub(i, lens[i], labels[i], s, e))
    return P.Path(*segs), Stub


def _show_pieces(res, Stub):
    out = []
    for x in res:
        if isinstance(x, Crop):
            out.append('%d:%s:%s' % (x.idx, _fr(x.a), _fr(x.b)))
        elif isinstance(x, Stub):
            out.append('%d:0:1' % x.idx)
        else:
            out.append('?')
    return ' '.join(out)


def correspond(ctx):
    spt = ctx.spt
    r = ctx.rng('corr')
    c = Corr('Path.cropped')
    lines, impl = [], []
    for it in range(ctx.n(400, 5000)):
        n = r.randint(1, 6)
        lens = [Fr(r.randint(1, 12), r.choice([1, 2, 3])) for _ in range(n)]
        labels = list(range(n))
        if r.random() < 0.25 and n >= 2:      # equal segments (Path.index finds the first one)
            j = r.randrange(1, n)
            labels[j] = labels[r.randrange(0, j)]
            lens[j] = lens[labels[j]]
        closed = r.random() < 0.6
        tot = sum(lens)
        cums = [sum(lens[:i]) / tot for i in range(n + 1)]

        def pickT():
            q = r.random()
            if q < 0.3:
                return r.choice(cums)
            if q < 0.4:
                return r.choice(cums[1:]) - Fr(1, 10 ** 10) if r.random() < 0.5 else min(Fr(1), r.choice(cums[:-1]) + Fr(1, 10 ** 10))
            return Fr(r.randint(0, 64), 64)
        T0, T1 = pickT(), pickT()
        if not (0 <= T0 <= 1 and 0 <= T1 <= 1):
            continue
        path, Stub = _stub_path(spt, lens, labels, closed)
        lines.append('cropped %d %s | %s | %s %s' % (int(closed), ' '.join(_fr(x) for x in lens), ' '.join(map(str, labels)), _fr(T0), _fr(T1)))
        try:
            res = path.cropped(T0, T1)
            impl.append('ok ' + _show_pieces(list(res), Stub))
        except AssertionError:
            impl.append('assert')
        except ValueError:
            impl.append('valueerror')
        except Exception as e:
            impl.append('raise ' + type(e).__name__)
        c.count('closed=%d wrap=%d n=%d' % (closed, T1 < T0, min(n, 3)))
    model = common.driver(lines)
    c.compare(lines, [m.strip() for m in model], [m.strip() for m in impl])
    return [c]


# ---------------------------------------------------------------------------

SNAP_SIG = 'Path.cropped/both ends snapped past each other at one joint'
HALF_SIG = 'arc piece spanning a half turn: centre snapped (C04 finding F29)'


def _half_turn(delta_deg):
    return abs(abs(delta_deg) - 180.0) < 0.02


def _snapped_across(path, T0, T1):
    """T0 < T1 lie so close to one joint that Path.cropped's np.isclose snapping (t ~ 1 -> start of the next segment, t ~ 0 -> end of
    the previous one) moves them past each other"""
    try:
        k0, t0 = path.T2t(T0)
        k1, t1 = path.T2t(T1)
        n = len(path)
        i0 = (k0 + 1) % n if np.isclose(t0, 1) else k0
        i1 = (k1 - 1) % n if np.isclose(t1, 0) else k1
        return T0 < T1 and (np.isclose(t0, 1) or np.isclose(t1, 0)) and (i0 > i1 or (i0 == i1 and np.isclose(t0, 1) and np.isclose(t1, 0)))
    except Exception:
        return False


def sample(ctx, budget=1.0, hint=None, broken=None):
    spt = ctx.spt
    P = spt.path
    from .c05 import _rand_seg
    from .c19 import _rand_pts
    r = ctx.rng('sample' + ('' if budget == 1.0 else '-search'))
    fails, samples = [], []
    nontriv = set()
    n_eval = 0

    def fail(sig, what, inp, obs, exp, repro=''):
        if len(fails) < 12:
            fails.append(Failure(signature=sig, what=what, input=inp, observed=obs, expected=exp, repro=repro))

    us = [0.0, 0.0625, 0.3, 0.5, 0.77, 1.0]
    for it in range(int(ctx.n(200, 2500) * budget)):
        kind = r.choice(['line', 'quad', 'cubic', 'arc', 'arc'])
        scale = r.choice([1e-2, 1.0, 1.0, 1e3])
        if kind == 'arc':
            seg = None
            while seg is None:
                try:
                    st_ = complex(r.uniform(-1, 1), r.uniform(-1, 1)) * scale
                    seg = P.Arc(st_, complex(r.uniform(0.2, 2), r.uniform(0.2, 2)) * scale, r.choice([0, 0, 30, 90, 200.5, -45]),
                                r.random() < 0.5, r.random() < 0.5, st_ + complex(r.uniform(-1, 1), r.uniform(-1, 1)) * scale)
                except AssertionError:
                    seg = None
        else:
            k = {'line': 2, 'quad': 3, 'cubic': 4}[kind]
            ps, scale = _rand_pts(r, k)
            if r.random() < 0.15:
                # the same curves spelt with other number types: a 1-D curve on the real axis given by Python ints, numpy ints or floats,
                # or control points taken out of a numpy complex array
                ntype = r.choice(['int', 'int', 'np.int64', 'float', 'np.complex128'])
                if ntype == 'np.complex128':
                    ps = list(np.array(ps, dtype=complex))
                else:
                    vals = [r.randint(-9, 9) for _ in range(k)]
                    ps = [{'int': int, 'np.int64': np.int64, 'float': float}[ntype](v) for v in vals]
                scale = (ntype,)
            if all(q == ps[0] for q in ps) or (kind == 'line' and ps[0] == ps[1]):
                continue
            seg = _mk(spt, kind, ps)
        size = max(abs(seg.point(x) - seg.point(0)) for x in (0.25, 0.5, 0.75, 1.0)) + abs(seg.point(0)) + 1e-300
        tol = 1e-9 * size
        desc = repr(seg)
        n_eval += 1
        nontriv.add((kind, scale))
        rv = seg.reversed()
        for u in us:
            if abs(rv.point(u) - seg.point(1 - u)) > tol:
                fail('%s.reversed' % kind, 'reversed().point(u) != point(1-u)', {'seg': desc, 'u': u}, repr(rv.point(u)), repr(seg.point(1 - u)),
                     'svgpathtools.%s.reversed().point(%r)' % (desc, u))
                break
        if kind == 'arc':
            # the constructor calls Arc.reversed / Arc.cropped make are exactly the ones Props/C04RoundTrip.lean is about
            ta, tb = sorted([r.uniform(0, 0.6), r.uniform(0.4, 1)])
            if ta < tb:
                cr_ = seg.cropped(ta, tb)
                # (the radii are compared up to rounding: the constructor enlarges them by sqrt(Lambda) whenever the computed Lambda
                # exceeds 1, which happens by an ulp for end points that lie on the ellipse only up to rounding)
                got_ = (rv.start, rv.end, rv.rotation, bool(rv.large_arc), bool(rv.sweep),
                        cr_.start, cr_.end, cr_.rotation, bool(cr_.large_arc), bool(cr_.sweep))
                want_ = (seg.end, seg.start, seg.rotation, bool(seg.large_arc), not seg.sweep,
                         seg.point(ta), seg.point(tb), seg.rotation, abs(seg.delta * (tb - ta)) > 180, bool(seg.sweep))
                if got_ != want_ or abs(cr_.radius - seg.radius) > 1e-9 * abs(seg.radius) or abs(rv.radius - seg.radius) > 1e-9 * abs(seg.radius):
                    fail('arc.reversed/cropped constructor data', 'Arc.reversed() / Arc.cropped() do not hand the expected end points, radii, rotation and flags to Arc()',
                         {'seg': desc, 't0': ta, 't1': tb}, repr(got_), repr(want_))
        t = r.choice([0.5, 0.25, 0.125, 0.875, r.uniform(0.02, 0.98)])
        a, b = seg.split(t)
        if abs(a.end - seg.point(t)) > tol or abs(b.start - seg.point(t)) > tol or abs(a.start - seg.point(0)) > tol or abs(b.end - seg.point(1)) > tol:
            fail('%s.split/meet' % kind, 'split(t) pieces do not meet at point(t) / keep the ends', {'seg': desc, 't': t},
                 repr((a.start, a.end, b.start, b.end)), repr((seg.point(0), seg.point(t), seg.point(t), seg.point(1))),
                 'svgpathtools.%s.split(%r)' % (desc, t))
        for u in us:
            if abs(a.point(u) - seg.point(u * t)) > tol or abs(b.point(u) - seg.point(t + u * (1 - t))) > tol:
                if kind == 'arc' and (_half_turn(seg.delta * t) or _half_turn(seg.delta * (1 - t))):
                    fail(HALF_SIG, 'a piece of an arc that spans a half turn up to ~0.01 degrees is rebuilt by the Arc constructor inside the snap band of C04 finding F29 '
                         '(radicand below 1e-8 replaced by 0): its centre is snapped to the chord midpoint and its points are off by up to 1e-4 of the radius',
                         {'seg': desc, 't': t, 'u': u}, repr((a.point(u), b.point(u))), repr((seg.point(u * t), seg.point(t + u * (1 - t)))),
                         '[s.point(%r) for s in svgpathtools.%s.split(%r)]' % (u, desc, t))
                    break
                fail('%s.split/points' % kind, 'split(t) pieces are not the two restrictions', {'seg': desc, 't': t, 'u': u},
                     repr((a.point(u), b.point(u))), repr((seg.point(u * t), seg.point(t + u * (1 - t)))),
                     '[s.point(%r) for s in svgpathtools.%s.split(%r)]' % (u, desc, t))
                break
        t0, t1 = sorted([r.choice([0.0, 0.0, 0.125, 0.25, r.uniform(0, 1)]), r.choice([1.0, 1.0, 0.875, 0.5, r.uniform(0, 1)])])
        if t1 - t0 < 1e-3:
            continue
        try:
            cr = seg.cropped(t0, t1)
        except Exception as e:
            fail('%s.cropped/raises' % kind, 'cropped(t0,t1) raised', {'seg': desc, 't0': t0, 't1': t1}, repr(e), 'a segment',
                 'svgpathtools.%s.cropped(%r, %r)' % (desc, t0, t1))
            continue
        ctol = tol
        for u in us:
            if abs(cr.point(u) - seg.point(t0 + u * (t1 - t0))) > ctol:
                if kind == 'arc' and _half_turn(seg.delta * (t1 - t0)):
                    fail(HALF_SIG, 'a piece of an arc that spans a half turn up to ~0.01 degrees is rebuilt by the Arc constructor inside the snap band of C04 finding F29',
                         {'seg': desc, 't0': t0, 't1': t1, 'u': u}, repr(cr.point(u)), repr(seg.point(t0 + u * (t1 - t0))), 'svgpathtools.%s.cropped(%r, %r).point(%r)' % (desc, t0, t1, u))
                    break
                fail('%s.cropped/points' % kind, 'cropped(t0,t1).point(u) != point(t0+u(t1-t0))', {'seg': desc, 't0': t0, 't1': t1, 'u': u},
                     repr(cr.point(u)), repr(seg.point(t0 + u * (t1 - t0))), 'svgpathtools.%s.cropped(%r, %r).point(%r)' % (desc, t0, t1, u))
                break
        # the piece is a segment in its own right: reversing it, or moving it rigidly, must trace the same piece (whatever
        # bookkeeping the crop left on it is used by those operations)
        try:
            with warnings.catch_warnings():
                warnings.simplefilter('ignore')
                crv = cr.reversed()
                ctr = cr.translated(0j) if kind != 'arc' else cr.translated(complex(0, 0))
            for u in us:
                if abs(crv.point(u) - cr.point(1 - u)) > ctol * 10 or abs(ctr.point(u) - cr.point(u)) > ctol * 10:
                    fail('%s.cropped then reversed/translated' % kind, 'reversed() / translated(0) of a cropped piece does not trace the piece', {'seg': desc, 't0': t0, 't1': t1, 'u': u},
                         repr((crv.point(u), ctr.point(u))), repr((cr.point(1 - u), cr.point(u))), 'svgpathtools.%s.cropped(%r, %r).reversed().point(%r)' % (desc, t0, t1, u))
                    break
            a_, b_ = seg.split(0.5 if kind != 'arc' else r.choice([0.5, 0.3, 0.7]))
            for pc_, nm_ in ((a_, 'split()[0]'), (b_, 'split()[1]')):
                if any(abs(pc_.reversed().point(u) - pc_.point(1 - u)) > ctol * 10 for u in us):
                    fail('%s.split then reversed' % kind, 'reversed() of a split piece does not trace the piece', {'seg': desc, 'piece': nm_}, repr(pc_.reversed().point(0.3)),
                         repr(pc_.point(0.7)), '')
                    break
        except Exception as e:
            fail('%s.cropped then reversed/raises' % kind, 'reversed()/translated() of a cropped piece raised', {'seg': desc, 't0': t0, 't1': t1}, repr(e)[:200], 'a segment',
                 'svgpathtools.%s.cropped(%r, %r).reversed()' % (desc, t0, t1))
        if len(samples) < 2:
            samples.append({'seg': desc, 't': t, 't0': t0, 't1': t1})

    # the recorded witness of finding F38, re-examined on every run
    wp_ = P.Path(P.Line(0j, 1j), P.Line(1j, 2 + 1j), P.Line(2 + 1j, 2 - 1j), P.Line(2 - 1j, 2 - 3j), P.Line(2 - 3j, 4 - 3j), P.Line(4 - 3j, 0j))
    n_eval += 1
    try:
        Lw_ = wp_.length()
        bw_ = sum(sg_.length() for sg_ in wp_[:3]) / Lw_
        wT0_, wT1_ = bw_ - 1e-10, bw_ + 1e-10
        cw_ = wp_.cropped(wT0_, wT1_)
        if abs(cw_.length() - wp_.length(wT0_, wT1_)) > 1e-6 * (Lw_ + 1):
            fail(SNAP_SIG, 'cropped(T0, T1) with T0 < T1 both within 1e-8 (in t) of the same joint returns two whole segments in the wrong order', {'path': repr(wp_).replace('\n', ' '), 'T0': wT0_, 'T1': wT1_},
                 repr(cw_)[:300], 'a piece of length %r' % wp_.length(wT0_, wT1_), 'svgpathtools.%s.cropped(%r, %r)' % (repr(wp_).replace('\n', ' '), wT0_, wT1_))
    except Exception as e:
        fail('Path.cropped/raises', 'Path.cropped raised %s' % type(e).__name__, {'path': 'witness of F38'}, repr(e)[:200], 'a path')
    # paths
    for it in range(int(ctx.n(80, 800) * budget)):
        n = r.randint(1, 5)
        closed = r.random() < 0.6
        cur = complex(r.uniform(-3, 3), r.uniform(-3, 3))
        first = cur
        segs = []
        dyadic = r.random() < 0.4
        for i in range(n):
            if dyadic:
                d = r.choice([1, -1, 1j, -1j]) * r.choice([1, 2])
                segs.append(P.Line(cur, cur + d))
            else:
                segs.append(_rand_seg(spt, r, cur, 1.0, r.choice(['line', 'quad', 'cubic', 'arc'])))
            cur = segs[-1].end
        if closed:
            if cur == first:
                continue
            segs.append(P.Line(cur, first))
        if r.random() < 0.2:      # a retraced stroke: the path contains two equal segments
            a_ = segs[0]
            back = a_.reversed()
            again = back.reversed()
            segs = [a_, back, again] + [s.translated(a_.end - s.start) if False else s for s in []]
            nxt = _rand_seg(spt, r, again.end, 1.0, 'line')
            segs.append(nxt)
            closed = False
        gapped = ''
        if not closed and len(segs) >= 2 and r.random() < 0.3:
            # several sub-paths: real gaps between some consecutive segments - ordinary ones, or small compared with the coordinates
            # (a drawing far from the origin whose sub-paths lie a unit apart)
            gapped = r.choice(['gap', 'small-relative-gap', 'small-relative-gap'])
            off = 0j
            if gapped == 'small-relative-gap':
                off = complex(r.choice([2e5, -3e5, 1e6]), r.choice([1e5, 2e5]))
            shift = 0j
            new_segs = []
            for i_, sg in enumerate(segs):
                if i_ > 0 and r.random() < 0.6:
                    shift += (complex(1.5, 0.25) if gapped == 'gap' else complex(r.choice([1.0, 0.5, -0.75]), r.choice([0.25, 0.0])))
                new_segs.append(sg.translated(off + shift))
            segs = new_segs
            if all(a_.end == b_.start for a_, b_ in zip(segs, segs[1:])):
                gapped = ''
        path = P.Path(*segs)
        desc = repr(path).replace('\n', ' ')
        if r.random() < 0.5:
            path.length()   # fill the caches before the operation
            path.point(0.3)
        n_eval += 1
        nontriv.add(('path', len(segs), closed, dyadic, gapped))
        L = path.length()
        tol = 1e-8 * (L + 1)
        # reversed
        rp = path.reversed()
        if abs(rp.length() - L) > 1e-9 * L:
            fail('Path.reversed/length', 'reversed() changes the length', {'path': desc}, repr(rp.length()), repr(L))
        bounds_ = [0.0]
        for s_ in segs:
            bounds_.append(bounds_[-1] + s_.length() / L)
        for T in (0.0, 0.03125, 0.3, 0.5, 0.9, 1.0):
            if gapped and min(abs((1 - T) - b_) for b_ in bounds_[1:-1] + [2.0]) < 1e-6:
                continue      # at a jump across a gap the parameter belongs to either side
            if abs(rp.point(T) - path.point(1 - T)) > 1e-6 * (L + 1):
                fail('Path.reversed/points', 'reversed().point(T) != point(1-T)', {'path': desc, 'T': T, 'queried_before': True},
                     repr(rp.point(T)), repr(path.point(1 - T)), 'svgpathtools.%s.reversed().point(%r)' % (desc, T))
                break
        # cropped
        bounds = [0.0]
        for s in segs:
            bounds.append(bounds[-1] + s.length() / L)
        cands = [0.0, 1.0, 0.25, 0.5, 0.75] + bounds[1:-1] + [r.random(), r.random()]
        if gapped:
            cands = [0.0, 1.0] + [c_ for c_ in [0.25, 0.5, 0.75, r.random(), r.random(), r.random()] if min(abs(c_ - b_) for b_ in bounds) > 1e-6]
        T0, T1 = r.choice(cands), r.choice(cands)
        T0, T1 = min(max(T0, 0.0), 1.0), min(max(T1, 0.0), 1.0)
        if T0 == T1 or (T0 == 1 and T1 == 0):
            continue
        if T1 < T0 and not closed:
            T0, T1 = T1, T0
        try:
            cp = path.cropped(T0, T1)
        except Exception as e:
            fail('Path.cropped/raises', 'Path.cropped raised %s' % type(e).__name__, {'path': desc, 'T0': T0, 'T1': T1}, repr(e), 'a path',
                 'svgpathtools.%s.cropped(%r, %r)' % (desc, T0, T1))
            continue
        wrap = T1 < T0
        try:
            want_len = (path.length(T0, 1) + path.length(0, T1)) if wrap else path.length(T0, T1)
        except AssertionError:
            continue   # Arc.length asserts 0<=t<=1; T2t may return 1+ulp (C05/C06 rounding gap)
        rep = 'svgpathtools.%s.cropped(%r, %r)' % (desc, T0, T1)
        if not wrap and _snapped_across(path, T0, T1):
            # finding F38: both ends within np.isclose of ONE joint; the real method snaps T0 forward and T1 backward past each other
            if abs(cp.length() - want_len) > 1e-6 * (L + 1) or any(abs(x.end - y.start) > tol for x, y in zip(cp, list(cp)[1:])):
                fail(SNAP_SIG, 'cropped(T0, T1) with T0 < T1 both within 1e-8 (in t) of the same joint returns two whole segments in the wrong order: the end at T0 is '
                     'snapped FORWARD onto the joint and the end at T1 BACKWARD onto it, so they pass each other', {'path': desc, 'T0': T0, 'T1': T1}, repr(cp)[:300],
                     'a piece of length %r' % want_len, rep)
            continue
        if abs(cp.point(0) - path.point(T0)) > tol or abs(cp.point(1) - path.point(T1)) > tol:
            fail('Path.cropped/ends', 'cropped(T0,T1) does not start at point(T0) / end at point(T1)', {'path': desc, 'T0': T0, 'T1': T1},
                 repr((cp.point(0), cp.point(1))), repr((path.point(T0), path.point(T1))), rep)
        if not wrap:
            # the first and the last piece are the restrictions of the segments they were cut from (the pieces in between are whole segments)
            try:
                k0_, t0_ = path.T2t(T0)
                k1_, t1_ = path.T2t(T1)
            except Exception:
                k0_ = None
            if k0_ is not None and 1e-6 < t0_ < 1 - 1e-6 and 1e-6 < t1_ < 1 - 1e-6 and k1_ > k0_ and len(cp) == k1_ - k0_ + 1:
                for U in (0.0, 0.3, 0.7, 1.0):
                    w0_ = segs[k0_].point(t0_ + U * (1 - t0_))
                    w1_ = segs[k1_].point(U * t1_)
                    if abs(cp[0].point(U) - w0_) > 1e-6 * (L + 1) + 1e-9 * abs(w0_) or abs(cp[-1].point(U) - w1_) > 1e-6 * (L + 1) + 1e-9 * abs(w1_):
                        fail('Path.cropped/end pieces', 'the first / last piece of cropped(T0,T1) is not the restriction of the segment it was cut from',
                             {'path': desc, 'T0': T0, 'T1': T1, 'u': U}, repr((cp[0].point(U), cp[-1].point(U))), repr((w0_, w1_)), rep)
                        break
        if not gapped and any(abs(x.end - y.start) > tol for x, y in zip(cp, list(cp)[1:])):
            fail('Path.cropped/joined', 'consecutive pieces of the crop are not joined', {'path': desc, 'T0': T0, 'T1': T1}, repr(cp), 'joined pieces', rep)
        if abs(cp.length() - want_len) > 1e-6 * (L + 1):
            sig = 'Path.cropped/length'
            if wrap and T1 == 0:
                sig = 'Path.cropped/length/T1=0-on-closed-path'
            fail(sig, 'length of cropped(T0,T1) is not length(T0,T1)', {'path': desc, 'T0': T0, 'T1': T1, 'wrap': wrap}, repr(cp.length()), repr(want_len), rep + '.length()')
    return {'evaluations': n_eval, 'distinct_nontrivial': len(nontriv), 'failures': fails, 'samples': samples,
            'rule': 'random segments of all four kinds (scales 1e-2..1e3; 15% of the Beziers spelt with Python ints, numpy ints or floats on the real axis, or numpy complex scalars), split/crop parameters incl. 0, 1, dyadic; random open/closed paths '
                    '(dyadic lines with exact joints, or mixed kinds), caches filled or not before the operation, T0/T1 incl. joints and wrap-around. '
                    'distinct = distinct (kind, scale) / (path, n, closed, dyadic)'}


def replay(spt, f):
    from .c19 import replay as rp
    return rp(spt, f)
