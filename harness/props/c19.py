"""C19: generic Bezier / polynomial helpers."""
from __future__ import annotations
from ..tracejobs import *
from .. import symtrace as st
from ..gen_lean import Def

MAXDEG = 8


def gen_defs(spt, salt=0):
    bz = spt.bezier
    defs = []
    for n in range(0, MAXDEG + 1):
        names = ['p%d' % i for i in range(n + 1)]

        def job(r, n=n, names=names):
            ps, env = ringvars(names, r)
            (t,), e2 = ringvars(['t'], r)
            env.update(e2)
            out = []
            out.append(Def('bezier_point_%d' % n, names + ['t'], node(bz.bezier_point(ps, t)),
                           'bezier.bezier_point, degree %d' % n, env))
            co = bz.bezier2polynomial(ps)                      # numpy ordering: highest first
            co2 = bz.bezier2polynomial(ps, numpy_ordering=False)
            assert len(co) == n + 1 and len(co2) == n + 1
            for j in range(n + 1):
                out.append(Def('b2p_%d_np_%d' % (n, j), names, node(co[j]),
                               'bezier.bezier2polynomial(p)[%d], degree %d, numpy ordering' % (j, n), env))
                out.append(Def('b2p_%d_std_%d' % (n, j), names, node(co2[j]),
                               'bezier.bezier2polynomial(p, numpy_ordering=False)[%d], degree %d' % (j, n), env))
            if n >= 1:
                L, Rr = bz.split_bezier(ps, t)
                assert len(L) == n + 1 and len(Rr) == n + 1
                for j in range(n + 1):
                    out.append(Def('split_%d_L_%d' % (n, j), names + ['t'], node(L[j]),
                                   'bezier.split_bezier(p,t)[0][%d], degree %d' % (j, n), env))
                    out.append(Def('split_%d_R_%d' % (n, j), names + ['t'], node(Rr[j]),
                                   'bezier.split_bezier(p,t)[1][%d], degree %d' % (j, n), env))
                hl, hr = bz.halve_bezier(ps)
                for j in range(n + 1):
                    out.append(Def('halve_%d_L_%d' % (n, j), names, node(hl[j]),
                                   'bezier.halve_bezier(p)[0][%d], degree %d' % (j, n), env))
                    out.append(Def('halve_%d_R_%d' % (n, j), names, node(hr[j]),
                                   'bezier.halve_bezier(p)[1][%d], degree %d' % (j, n), env))
            if 1 <= n <= 3:
                cs, envc = ringvars(['c%d' % i for i in range(n + 1)], r)
                bp = bz.polynomial2bezier(cs)
                for j in range(n + 1):
                    out.append(Def('p2b_%d_%d' % (n, j), ['c%d' % i for i in range(n + 1)], node(bp[j]),
                                   'bezier.polynomial2bezier(c)[%d], order %d (c numpy-ordered)' % (j, n), envc))
            return out
        defs += retry(job, 'c19/%d' % n + ('/%d' % salt if salt else ''))
    return defs


# ---------------------------------------------------------------------------
# check interface
from fractions import Fraction as Fr
import itertools
import math
import numpy as np
from .. import common
from ..runner import Corr, Failure

LEAN_MODULES = ['SvgVerif.Props.C19', 'SvgVerif.Props.C19Identities', 'SvgVerif.Props.C19Limit', 'SvgVerif.Props.C19General']
GEN = {'C19': gen_defs}
ASSUMPTIONS = [
    'np.roots is an oracle: the theorems start from the list it returns',
    'polynomial identities are exact-arithmetic statements over any field of characteristic 0; float evaluation is covered by the sampler only',
    'rational_limit: the model is tied by exact correspondence; the analytic statement (value = limit of f/g) is not yet proved in Lean',
]


class _QC:
    """exact complex number handed to polyroots in place of a numpy complex"""

    def __init__(self, re, im):
        self.real, self.imag = re, im


class _NPShim:
    def __init__(self, roots):
        self._roots = roots

    def roots(self, p):
        return list(self._roots)

    def __getattr__(self, k):
        return getattr(np, k)


def _fr(x):
    x = Fr(x)
    return str(x.numerator) if x.denominator == 1 else '%d/%d' % (x.numerator, x.denominator)


ATOL, RTOL = Fr(1, 10 ** 8), Fr(1, 10 ** 5)


def _margin_ok(a, b):
    """is isclose(a,b) decided identically in exact and float arithmetic?"""
    thr = ATOL + RTOL * abs(b)
    d = abs(a - b)
    return abs(d - thr) > thr * Fr(1, 10 ** 6)


def _gen_rootlist(r, maxn=7):
    n = r.randint(0, maxn)
    base = [Fr(r.randint(-16, 80), 64) for _ in range(max(1, n // 2 + 1))]
    out = []
    for _ in range(n):
        b = r.choice(base)
        pert = r.choice([0, 0, Fr(1, 2 ** 40), -Fr(1, 2 ** 40), Fr(1, 2 ** 30), Fr(1, 2 ** 18), -Fr(1, 2 ** 18),
                         Fr(1, 2 ** 12), Fr(3, 64)])
        im = r.choice([0, 0, 0, Fr(1, 2 ** 40), -Fr(1, 2 ** 40), Fr(1, 2 ** 20), -Fr(1, 4), Fr(1, 2)])
        out.append((b + pert, Fr(im)))
    return out


def _rootlist_ok(rs):
    res = [a for a, im in rs]
    for a, im in rs:
        if not _margin_ok(im, Fr(0)):
            return False
    for a in res:
        for b in res:
            if a is not b and not _margin_ok(a, b):
                return False
    return True


def _correspond_general(ctx):
    """n_choose_k, bernstein, bezier_point, bezier2polynomial (both orderings), split_bezier, halve_bezier for
    control-point tuples of 0..12 points, real functions on Fractions vs Model.BezierN at Rat"""
    bz = ctx.spt.bezier
    c = Corr('general-degree bezier helpers')
    r = ctx.rng('corr-bezn')
    lines, impl = [], []

    def frs(xs):
        return ' '.join(_fr(Fr(x)) for x in xs)

    def run(f):
        try:
            return f()
        except Exception as e:
            return type(e).__name__
    for n in range(0, 13):
        for k in range(0, n + 1):
            lines.append('bezn nck %d %d' % (n, k)); impl.append(str(bz.n_choose_k(n, k)))
    c.count('n_choose_k', len(lines))
    for _ in range(ctx.n(250, 2500)):
        npts = r.choice([0, 1, 2, 3, 4, 5, 5, 6, 6, 7, 8, 9, 10, 12])
        ps = [Fr(r.randint(-9, 9), r.choice([1, 1, 2, 3])) for _ in range(npts)]
        t = r.choice([Fr(0), Fr(1), Fr(1, 2), Fr(r.randint(-3, 7), r.choice([2, 3, 4, 5]))])
        op = r.choice(['point', 'point', 'b2p', 'split', 'split', 'halve', 'bern'])
        c.count('%s/%s' % (op, 'deg<=3' if npts <= 4 else 'deg>=4'))
        if op == 'point':
            lines.append('bezn point %s %s' % (_fr(t), frs(ps)))
            impl.append(run(lambda: _fr(Fr(bz.bezier_point(ps, t)))))
        elif op == 'bern':
            lines.append('bezn bern %d %s' % (npts, _fr(t)))
            impl.append(run(lambda: frs(bz.bernstein(npts, t))))
        elif op == 'b2p':
            o = r.random() < 0.5
            lines.append('bezn b2p %d %s' % (int(o), frs(ps)))
            impl.append(run(lambda: frs(bz.bezier2polynomial(list(ps), numpy_ordering=o))))
        elif op == 'split':
            lines.append('bezn split %s %s' % (_fr(t), frs(ps)))
            impl.append(run(lambda: '%s | %s' % tuple(frs(x) for x in bz.split_bezier(list(ps), t))))
        else:   # halve_bezier multiplies by the float 0.5: integer control points keep it exact
            ps = [Fr(r.randint(-64, 64)) for _ in range(npts)]
            lines.append('bezn halve %s' % frs(ps))
            impl.append(run(lambda: '%s | %s' % tuple(frs(x) for x in bz.halve_bezier(list(ps)))))
    c.compare(lines, [m.strip() for m in common.driver(lines)], [m.strip() for m in impl])
    return c


def correspond(ctx):
    spt = ctx.spt
    pt = spt.polytools
    out = []
    # ---- stream 1: polyroots01 after np.roots ---------------------------------
    c = Corr('polyroots01-filter')
    r = ctx.rng('corr-polyroots')
    cases = [[(Fr(9, 10), Fr(0)), (Fr(500002, 1000000), Fr(0)), (Fr(1, 2), Fr(0)), (Fr(1, 10), Fr(0))]]
    want = ctx.n(400, 4000)
    while len(cases) < want:
        rs = _gen_rootlist(r)
        if _rootlist_ok(rs):
            cases.append(rs)
    if ctx.thorough:   # all orders of small multisets
        basis = [(Fr(1, 2), Fr(0)), (Fr(1, 2) + Fr(1, 2 ** 30), Fr(0)), (Fr(1, 4), Fr(0)), (Fr(5, 4), Fr(0)),
                 (Fr(1, 3), Fr(1, 2))]
        for k in range(1, 6):
            for perm in itertools.permutations(basis, k):
                cases.append(list(perm))
    lines, impl = [], []
    saved = pt.np
    try:
        for rs in cases:
            lines.append('polyroots01 ' + ' '.join('%s %s' % (_fr(a), _fr(b)) for a, b in rs))
            pt.np = _NPShim([_QC(a, b) for a, b in rs])
            try:
                res = pt.polyroots01([1, 0])
                impl.append('ok ' + ' '.join(_fr(x) for x in res) if res else 'ok ')
            except Exception as e:
                impl.append('raise ' + type(e).__name__)
            n_in = sum(1 for a, b in rs if b == 0 and 0 <= a <= 1)
            c.count('candidates=%d' % min(n_in, 5))
    finally:
        pt.np = saved
    model = common.driver(lines)
    model = [m.rstrip() for m in model]
    impl = [m.rstrip() for m in impl]
    c.compare(lines, model, impl)
    out.append(c)

    # ---- stream 2: rational_limit ------------------------------------------------
    c2 = Corr('rational_limit')
    r = ctx.rng('corr-ratlimit')

    def polymul(a, b):
        res = [Fr(0)] * (len(a) + len(b) - 1)
        for i, x in enumerate(a):
            for j, y in enumerate(b):
                res[i + j] += x * y
        return res

    lines, impl = [], []
    for _ in range(ctx.n(300, 3000)):
        t0 = Fr(r.randint(-6, 6), r.choice([1, 2, 3]))
        ma, mb = r.randint(0, 3), r.randint(0, 3)
        f = [Fr(r.randint(-4, 4)) for _ in range(r.randint(1, 3))]
        g = [Fr(r.randint(-4, 4)) for _ in range(r.randint(1, 3))]
        if all(x == 0 for x in g):
            g[-1] = Fr(1)
        if r.random() < 0.1:
            f = [Fr(0)]
        for _ in range(ma):
            f = polymul(f, [Fr(1), -t0])
        for _ in range(mb):
            g = polymul(g, [Fr(1), -t0])
        lines.append('ratlimit %s | %s | %s' % (' '.join(map(_fr, f)), ' '.join(map(_fr, g)), _fr(t0)))
        pf = np.poly1d(np.array(f, dtype=object))
        pg = np.poly1d(np.array(g, dtype=object))
        try:
            v = pt.rational_limit(pf, pg, t0)
            impl.append('value ' + _fr(Fr(v)))
        except ValueError:
            impl.append('nolimit')
        except Exception as e:
            impl.append('raise ' + type(e).__name__)
        c2.count('mult f=%d g=%d' % (ma, mb))
    model = common.driver(lines)
    c2.compare(lines, model, impl)
    out.append(c2)
    # ---- stream 3: general-degree helpers on exact rationals ---------------------------
    out.append(_correspond_general(ctx))
    return out


# ---------------------------------------------------------------------------
# sampler / failing-input search on the real code with floats

def _bern_exact(ps, t):
    n = len(ps) - 1
    t = Fr(t)
    return sum(math.comb(n, i) * (1 - t) ** (n - i) * t ** i * p for i, p in enumerate(ps))


def _cfr(z):
    return (Fr(z.real), Fr(z.imag))


def _bern_exact_c(ps, t):
    xs = _bern_exact([Fr(p.real) for p in ps], t)
    ys = _bern_exact([Fr(p.imag) for p in ps], t)
    return complex(float(xs), float(ys))


def _rand_pts(r, n):
    scale = r.choice([1e-3, 1.0, 1.0, 100.0, 1e4, 1e6])
    kind = r.random()
    pts = [complex(r.uniform(-1, 1), r.uniform(-1, 1)) * scale for _ in range(n)]
    if kind < 0.1 and n >= 2:
        pts[1] = pts[0]
    elif kind < 0.2 and n >= 3:   # collinear
        d = complex(r.uniform(-1, 1), r.uniform(-1, 1)) * scale
        pts = [pts[0] + d * r.uniform(-1, 2) for _ in range(n)]
    elif kind < 0.3:
        pts = [complex(round(p.real / scale * 8), round(p.imag / scale * 8)) * scale for p in pts]
    return pts, scale


def sample(ctx, budget=1.0, hint=None, broken=None):
    spt = ctx.spt
    bz, pt = spt.bezier, spt.polytools
    r = ctx.rng('sample%s' % ('' if budget == 1.0 else '-search'))
    fails = []
    n_eval = 0
    nontriv = set()
    samples = []

    def fail(sig, what, inp, obs, exp, repro):
        if len(fails) < 12:
            fails.append(Failure(signature=sig, what=what, input=inp, observed=obs, expected=exp, repro=repro))

    N = int(ctx.n(150, 1500) * budget)
    for it in range(N):
        n = r.randint(0, 8)
        ps, scale = _rand_pts(r, n + 1)
        t = r.choice([0.0, 1.0, 0.5, r.uniform(0, 1), r.uniform(-0.1, 1.1)])
        tol = 64 * 2.0 ** -52 * max(abs(p) for p in ps) * (1 + abs(t)) ** n * (n + 1) * 4 + 1e-300
        hexps = [common.hexf(p) for p in ps]
        n_eval += 1
        nontriv.add(('deg', n, scale))
        # (a) bezier_point
        want = _bern_exact_c(ps, t)
        got = bz.bezier_point(ps, t)
        if not abs(got - want) <= tol:
            fail('bezier_point/degree=%d' % n, 'bezier_point is not the Bernstein curve', {'p': hexps, 't': t.hex()},
                 repr(got), repr(want), 'svgpathtools.bezier.bezier_point(%r, %r)' % (ps, t))
        # (a') the same evaluation with t given as a numpy array / numpy scalar (the documented vectorised use), and bernstein itself
        if it % 3 == 0 and n >= 1:
            ts_ = [t, 0.0, 1.0, r.uniform(0, 1), 0.25]
            form_ = r.choice(['ndarray', 'ndarray', 'np.float64', 'list->array'])
            try:
                if form_ == 'np.float64':
                    gots_ = [bz.bezier_point(ps, np.float64(x_)) for x_ in ts_]
                else:
                    arr_ = np.array(ts_)
                    keep_ = arr_.copy()
                    gots_ = list(bz.bezier_point(ps, arr_))
                    if not np.array_equal(arr_, keep_):
                        fail('bezier_point/modifies its argument', 'bezier_point changed the array of parameters it was given', {'p': hexps, 't': ts_}, repr(arr_), repr(keep_),
                             '(lambda a: (svgpathtools.bezier.bezier_point(%r, a), a)[-1])(numpy.array(%r))' % (ps, ts_))
                for x_, g_ in zip(ts_, gots_):
                    w_ = _bern_exact_c(ps, x_)
                    if not abs(g_ - w_) <= 64 * 2.0 ** -52 * max(abs(p) for p in ps) * (1 + abs(x_)) ** n * (n + 1) * 4 + 1e-300:
                        fail('bezier_point/%s t/degree=%d' % (form_, n), 'bezier_point with a numpy-typed parameter is not the Bernstein curve', {'p': hexps, 't': ts_, 'form': form_},
                             repr(g_), repr(w_), 'svgpathtools.bezier.bezier_point(%r, numpy.array(%r))' % (ps, ts_) if form_ != 'np.float64'
                             else 'svgpathtools.bezier.bezier_point(%r, numpy.float64(%r))' % (ps, x_))
                        break
                nontriv.add(('t-type', form_, n))
                if n >= 1:
                    bs_ = bz.bernstein(n, np.array(ts_))
                    tot_ = sum(bs_)
                    if not np.allclose(tot_, 1.0, rtol=0, atol=1e-9 * 2 ** n):
                        fail('bernstein/ndarray t/n=%d' % n, 'the Bernstein basis evaluated at an array of parameters does not sum to 1', {'n': n, 't': ts_}, repr(tot_), 'ones',
                             'sum(svgpathtools.bezier.bernstein(%d, numpy.array(%r)))' % (n, ts_))
            except Exception as e:
                fail('bezier_point/%s t raises' % form_, 'bezier_point / bernstein raised for a numpy-typed parameter', {'p': hexps, 't': ts_}, repr(e)[:200], 'points',
                     'svgpathtools.bezier.bezier_point(%r, numpy.array(%r))' % (ps, ts_))
        # (b) bezier2polynomial, both orderings
        co = list(bz.bezier2polynomial(ps))
        co2 = list(bz.bezier2polynomial(ps, numpy_ordering=False))
        px = np.polyval(co, t)
        # coefficient sizes grow like 2^n*max|p|; evaluate residual at t
        tolc = tol * 4 ** n * 16
        if not abs(px - want) <= tolc:
            fail('bezier2polynomial/degree=%d' % n, 'bezier2polynomial (numpy order) does not describe the curve',
                 {'p': hexps, 't': t.hex()}, repr(px), repr(want),
                 'numpy.polyval(svgpathtools.bezier.bezier2polynomial(%r), %r)' % (ps, t))
        if len(co2) != len(co) or any(a != b for a, b in zip(co2, co[::-1])):
            fail('bezier2polynomial/ordering/degree=%d' % n, 'numpy_ordering=False is not the reverse of the numpy ordering',
                 {'p': hexps}, repr(co2), repr(co[::-1]),
                 'svgpathtools.bezier.bezier2polynomial(%r, numpy_ordering=False)' % (ps,))
        rp = bz.bezier2polynomial(ps, return_poly1d=True)
        if n >= 1 and rp.order <= n and not abs(rp(t) - want) <= tolc:
            fail('bezier2polynomial/poly1d', 'return_poly1d polynomial differs from the curve', {'p': hexps, 't': t.hex()},
                 repr(rp(t)), repr(want), '')
        # (c) polynomial2bezier inverse
        if 1 <= n <= 3:
            back = bz.polynomial2bezier(co)
            if any(abs(a - b) > tol * 64 for a, b in zip(back, ps)):
                fail('polynomial2bezier/inverse/order=%d' % n, 'polynomial2bezier(bezier2polynomial(p)) != p', {'p': hexps},
                     repr(back), repr(ps), 'svgpathtools.bezier.polynomial2bezier(svgpathtools.bezier.bezier2polynomial(%r))' % (ps,))
            co3 = list(bz.bezier2polynomial(list(bz.polynomial2bezier(co))))
            if any(abs(a - b) > tolc * 64 for a, b in zip(co3, co)):
                fail('polynomial2bezier/inverse2', 'bezier2polynomial(polynomial2bezier(c)) != c', {'c': [common.hexf(x) for x in co]},
                     repr(co3), repr(co), '')
        # (d) split / halve
        if n >= 1:
            ts = r.choice([0.5, 0.25, r.uniform(0.05, 0.95)])
            L, Rr = bz.split_bezier(ps, ts)
            hl, hr = bz.halve_bezier(ps)
            for u in (0.0, 0.3, 1.0):
                wl = _bern_exact_c(ps, Fr(u) * Fr(ts))
                wr = _bern_exact_c(ps, Fr(ts) + Fr(u) * (1 - Fr(ts)))
                gl = _bern_exact_c(list(L), u)
                gr = _bern_exact_c(list(Rr), u)
                if not (abs(gl - wl) <= tol * 16 and abs(gr - wr) <= tol * 16):
                    fail('split_bezier/degree=%d' % n, 'split_bezier pieces are not the two restrictions',
                         {'p': hexps, 't': ts.hex(), 'u': u}, repr((gl, gr)), repr((wl, wr)),
                         'svgpathtools.bezier.split_bezier(%r, %r)' % (ps, ts))
                    break
                wl = _bern_exact_c(ps, Fr(u) / 2)
                wr = _bern_exact_c(ps, Fr(1, 2) + Fr(u) / 2)
                gl = _bern_exact_c(list(hl), u)
                gr = _bern_exact_c(list(hr), u)
                if not (abs(gl - wl) <= tol * 16 and abs(gr - wr) <= tol * 16):
                    fail('halve_bezier/degree=%d' % n, 'halve_bezier pieces are not the two halves',
                         {'p': hexps, 'u': u}, repr((gl, gr)), repr((wl, wr)),
                         'svgpathtools.bezier.halve_bezier(%r)' % (ps,))
                    break
        if len(samples) < 2:
            samples.append({'kind': 'bezier helpers', 'degree': n, 'p': hexps, 't': t})

    # (e) polyroots01 with the real np.roots: simple separated roots reported exactly once
    M = int(ctx.n(200, 2000) * budget)
    for it in range(M):
        k = r.randint(1, 4)
        simple = []
        tries = 0
        while len(simple) < k and tries < 100:
            tries += 1
            x = round(r.uniform(0.03, 0.97), 3)
            if all(abs(x - y) >= 0.08 for y in simple):
                simple.append(x)
        extras = []
        deg = len(simple)
        kinds = []
        while deg < 8 and r.random() < 0.6:
            kind = r.choice(['out', 'complex', 'cluster2', 'near'])
            if False:
                pass
            elif kind == 'out':
                extras.append(r.choice([-1, 1]) * r.uniform(1.2, 3)); deg += 1
            elif kind == 'complex' and deg <= 6:
                z = complex(r.uniform(-0.5, 1.5), r.uniform(0.2, 1)); extras += [z, z.conjugate()]; deg += 2
            elif kind == 'cluster2' and deg <= 6:
                x = round(r.uniform(0.03, 0.97), 3)
                if all(abs(x - y) >= 0.08 for y in simple + [e.real for e in extras if isinstance(e, float)]):
                    extras += [x, x + r.choice([0.0, 1e-9, 2e-6])]; deg += 2
            elif kind == 'near':
                x = round(r.uniform(0.03, 0.97), 3)
                if all(abs(x - y) >= 0.08 for y in simple):
                    extras.append(x); simple.append(x); deg += 1
            else:
                continue
            kinds.append(kind)
        allroots = simple + [e for e in extras if e not in simple]
        r.shuffle(allroots)
        coeffs = np.real(np.poly(allroots)) * r.choice([1.0, -2.5, 1e3, 1e-9, -3e-12, 5e-9, 1e-15, 1e12])      # the roots do not depend on an overall factor
        n_eval += 1
        nontriv.add(('roots', len(simple), tuple(sorted(kinds))))
        try:
            got = list(pt.polyroots01(coeffs))
        except Exception as e:
            fail('polyroots01/raises', 'polyroots01 raised %s' % type(e).__name__, {'coeffs': [float(c).hex() for c in coeffs]},
                 repr(e), 'a list of roots', '')
            continue
        # clustered extras within 0.08 of a simple root would make it non-simple: generator avoids that
        cl = [e.real for e in extras if isinstance(e, float) and 0 <= e <= 1]
        for x in simple:
            if any(abs(x - y) < 0.05 for y in cl if y != x) or sum(1 for y in allroots if y == x) != 1:
                continue
            cnt = sum(1 for g in got if abs(g - x) < 1e-5)
            if cnt != 1:
                fail('polyroots01/simple-root-count', 'a simple, well separated real root in [0,1] is reported %d times' % cnt,
                     {'coeffs': [float(c).hex() for c in coeffs], 'root': x, 'prescribed_roots': [repr(q) for q in allroots]},
                     repr(got), 'exactly one value within 1e-5 of %r' % x,
                     'svgpathtools.polytools.polyroots01(%r)' % ([float(c) for c in coeffs],))
                break
        if it == 0:
            samples.append({'kind': 'polyroots01', 'prescribed_roots': [repr(q) for q in allroots], 'returned': [float(g) for g in got]})

    # (e') a simple root just inside [0,1] whose nearest neighbour lies just OUTSIDE (rejected by the condition), in a polynomial
    # of degree <= 4 with no other cluster (so that np.roots resolves the pair to ~1e-9): the inside root must be returned once
    for it in range(int(ctx.n(40, 400) * budget)):
        dlt = r.choice([2e-6, 3e-6, 4.5e-6])      # 2*dlt is below isclose's relative 1e-5
        end_ = r.choice([0.0, 1.0])
        x = end_ + (dlt if end_ == 0.0 else -dlt)
        others = []
        for _ in range(r.randint(0, 2)):
            y = round(r.uniform(-0.5, 1.5), 2)
            if abs(y - end_) > 0.2 and all(abs(y - o) > 0.2 for o in others):
                others.append(y)
        allroots = [x, 2 * end_ - x] + others
        r.shuffle(allroots)
        coeffs = np.real(np.poly(allroots)) * r.choice([1.0, -2.5, 1e3])
        n_eval += 1
        nontriv.add(('straddle', end_, dlt, len(others)))
        try:
            got = list(pt.polyroots01(coeffs))
            cnt = sum(1 for g in got if abs(g - x) < 1e-6)
        except Exception as e:
            got, cnt = repr(e), -1
        if cnt != 1:
            fail('polyroots01/simple-root-next-to-a-rejected-root', 'a simple real root in [0,1] whose close neighbour lies outside [0,1] is reported %d times' % cnt,
                 {'coeffs': [float(c).hex() for c in coeffs], 'root': x, 'prescribed_roots': [repr(q) for q in allroots]},
                 repr(got), 'exactly one value within 1e-6 of %r' % x, 'svgpathtools.polytools.polyroots01(%r)' % ([float(c) for c in coeffs],))

    # (f) rational_limit on float polynomials with common zeros
    for it in range(int(ctx.n(100, 1000) * budget)):
        t0 = r.choice([0.0, 1.0, 0.5, 0.25, -1.0, 2.0])
        m = r.randint(0, 3)
        extra_f = r.randint(0, 1)
        f1 = [r.randint(-3, 3) for _ in range(r.randint(1, 3))]
        g1 = [r.randint(-3, 3) for _ in range(r.randint(1, 3))]
        pf1, pg1 = np.poly1d(f1), np.poly1d(g1)
        if pg1(t0) == 0 or not np.any(pg1.coeffs):
            continue
        fac = np.poly1d([1.0, -t0])
        pf = pf1 * fac ** (m + extra_f)
        pg = pg1 * fac ** m
        if not np.any(pg.coeffs):
            continue
        want = (pf1(t0) * (0.0 if extra_f else 1.0)) / pg1(t0)
        n_eval += 1
        nontriv.add(('ratlim', m, extra_f))
        try:
            got = pt.rational_limit(pf, pg, t0)
        except Exception as e:
            got = e
        ok = (not isinstance(got, Exception)) and abs(got - want) <= 1e-9 * (1 + abs(want))
        if not ok:
            fail('rational_limit/common-zero-multiplicity=%d' % m, 'rational_limit is not the limit of f/g at a common zero',
                 {'f': [float(x) for x in pf.coeffs], 'g': [float(x) for x in pg.coeffs], 't0': t0}, repr(got), repr(want),
                 'svgpathtools.polytools.rational_limit(numpy.poly1d(%r), numpy.poly1d(%r), %r)' % (
                     [float(x) for x in pf.coeffs], [float(x) for x in pg.coeffs], t0))
    return {'evaluations': n_eval, 'distinct_nontrivial': len(nontriv), 'failures': fails, 'samples': samples,
            'rule': 'random control points (degree 0..8, scales 1e-3..1e6, coincident/collinear/integer classes) and t; '
                    'polynomials with prescribed simple/clustered/complex/out-of-range roots; rational functions with common zeros. '
                    'distinct = distinct (kind, degree/scale or root-class signature)'}


def replay(spt, f):
    """re-execute a recorded failing input; True if it still fails"""
    import svgpathtools  # noqa
    import numpy  # noqa
    rep = f.get('repro')
    if not rep:
        print('no one-line reproduction recorded; input:', f.get('input'))
        return True
    val = eval(rep, {'svgpathtools': spt, 'numpy': np, 'np': np, 'inf': float('inf'), 'nan': float('nan')})
    print('observed now :', repr(val))
    print('observed then:', f.get('observed'))
    print('expected     :', f.get('expected'))
    return repr(val) == f.get('observed')
