"""C13: radialrange / closest / farthest point return the global extremes of distance."""
from __future__ import annotations
import math
import cmath
from fractions import Fraction as Fr
import numpy as np
from ..tracejobs import *
from .. import symtrace as st, common
from ..gen_lean import Def
from ..runner import Corr, Failure
from .c10 import cxvars
from .c03 import KINDS, _mk

LEAN_MODULES = ['SvgVerif.Props.C13']


def gen_defs(spt, salt=0):
    P = spt.path
    defs = []

    # Line.radialrange: the projection parameter and the three squared distances
    def job(r):
        # make the projection parameter land inside (0,1) on the shadows so that all three distances are evaluated
        env = {}
        env.update({'p0x': Fr(0), 'p0y': Fr(0), 'p1x': Fr(4), 'p1y': Fr(2) + Fr(salt % 5, 7), 'zx': Fr(1), 'zy': Fr(3)})
        p0 = st.Cx.var('p0', env['p0x'], env['p0y']); p1 = st.Cx.var('p1', env['p1x'], env['p1y']); z = st.Cx.var('z', env['zx'], env['zy'])
        seg = P.Line(p0, p1)
        (dmin, tmin), (dmax, tmax) = seg.radialrange(z)
        args = ['p0x', 'p0y', 'p1x', 'p1y', 'zx', 'zy']
        assert dmin.n.op == 'fn' and dmax.n.op == 'fn'
        out = [Def('line_t', args, node(tmin), 'Line.radialrange: projection parameter t = numerator/denominator'),
               Def('line_dt_sq', args, dmin.n.args[1], 'Line.radialrange: radicand of abs(self.point(t) - origin)'),
               Def('line_dend_sq', args, dmax.n.args[1], 'Line.radialrange: radicand of the distance to the farther end point (here p1)')]
        return out
    defs += retry(job, 'c13/line' + ('/%d' % salt if salt else ''))

    # bezier_radialrange: the polynomial handed to polyroots01 is d/dt |B(t) - z|^2
    for kind, k in KINDS[1:]:
        names = ['p%d' % i for i in range(k)]
        cn = []
        for n_ in names:
            cn += [n_ + 'x', n_ + 'y']

        def job2(r, kind=kind, k=k, names=names, cn=cn):
            ps, env = cxvars(names, r)
            (z,), e1 = cxvars(['z'], r)
            env.update(e1)
            (t,), e2 = realvars(['t'], r)
            env.update(e2)
            seg = _mk(spt, kind, ps)
            rec = {}
            saved = P.polyroots01

            def my_roots(p):
                rec['p'] = p
                return []
            try:
                P.polyroots01 = my_roots
                P.bezier_radialrange(seg, z)
            finally:
                P.polyroots01 = saved
            poly = rec['p']
            deg = 2 * (k - 1) - 1
            assert poly.order == deg, (poly.order, deg)
            out = []
            for j, cj in enumerate(poly.coeffs):
                out.append(Def('%s_dr2_%d' % (kind, j), cn + ['zx', 'zy'], node(cj),
                               'bezier_radialrange(%s): coefficient %d (highest power first) of the polynomial handed to polyroots01' % (kind, j), env))
            pt = seg.point(t) - z
            out.append(Def('%s_dx' % kind, cn + ['zx', 'zy', 't'], node(pt.real), '(%s.point(t) - origin).real' % kind, env))
            out.append(Def('%s_dy' % kind, cn + ['zx', 'zy', 't'], node(pt.imag), '(%s.point(t) - origin).imag' % kind, env))
            dv = seg.derivative(t)
            out.append(Def('%s_vx' % kind, cn + ['t'], node(dv.real), '%s.derivative(t).real' % kind, env))
            out.append(Def('%s_vy' % kind, cn + ['t'], node(dv.imag), '%s.derivative(t).imag' % kind, env))
            return out
        defs += retry(job2, 'c13/%s' % kind + ('/%d' % salt if salt else ''))
    return defs


GEN = {'C13': gen_defs}

ASSUMPTIONS = [
    'np.roots (through polyroots01) is an oracle: the global-optimality theorem for quadratics/cubics assumes the returned list lies in [0,1] and contains every zero of d/dt|B(t)-z|^2 in (0,1)',
    'abs() / math.sqrt are monotone oracles; statements are over R, float rounding is sampled',
]


def _fr(x):
    x = Fr(x)
    return str(x.numerator) if x.denominator == 1 else '%d/%d' % (x.numerator, x.denominator)


def correspond(ctx):
    spt = ctx.spt
    P = spt.path
    r = ctx.rng('corr')
    # ---- candidate selection of bezier_radialrange on a 1-D stub ------------------------------
    c = Corr('bezier_radialrange/selection')
    lines, impl = [], []

    class Stub1D(object):
        def __init__(self, co):
            self.co = co

        def point(self, t):
            t = Fr(t)
            return self.co[0] + self.co[1] * t + self.co[2] * t * t

        def poly(self):
            return np.poly1d([1.0, 0.0])
    saved = P.polyroots01
    try:
        for it in range(ctx.n(300, 3000)):
            co = [Fr(r.randint(-6, 6), r.choice([1, 2])) for _ in range(3)]
            roots = [Fr(r.randint(0, 8), 8) for _ in range(r.randint(0, 3))]
            P.polyroots01 = lambda p, roots=roots: list(roots)
            lines.append('bezradial %s | %s' % (' '.join(_fr(x) for x in co), ' '.join(_fr(x) for x in roots)))
            (dmin, tmin), (dmax, tmax) = P.bezier_radialrange(Stub1D(co), Fr(0))
            impl.append('%s %s %s %s' % (_fr(dmin), _fr(tmin), _fr(dmax), _fr(tmax)))
            c.count('roots=%d' % len(roots))
    finally:
        P.polyroots01 = saved
    c.compare(lines, [m.strip() for m in common.driver(lines)], impl)

    # ---- Path.radialrange reduction on stub segments -------------------------------------------
    c2 = Corr('Path.radialrange/reduction')
    lines, impl = [], []

    class StubSeg(object):
        def __init__(self, res):
            self.res = res
            self.start = self.end = 0j

        def radialrange(self, origin, **kw):
            return self.res
    for it in range(ctx.n(300, 3000)):
        n = r.randint(1, 6)
        vals = []
        segs = []
        pool = [Fr(r.randint(0, 6), r.choice([1, 2])) for _ in range(3)]
        for i in range(n):
            dmin = r.choice(pool); dmax = dmin + r.choice(pool)
            if r.random() < 0.1:
                dmin = dmax = Fr(0)
            tmin, tmax = Fr(r.randint(0, 4), 4), Fr(r.randint(0, 4), 4)
            vals += [dmin, tmin, dmax, tmax]
            segs.append(StubSeg(((dmin, tmin), (dmax, tmax))))
        path = P.Path(*segs)
        mn, mx = path.radialrange(0j)
        sh = lambda g: 'none' if g[1] is None else '%s %s %d' % (_fr(g[0]), _fr(g[1]), g[2])
        lines.append('pathradial ' + ' '.join(_fr(x) for x in vals))
        impl.append(sh(mn) + ' | ' + sh(mx))
        c2.count('n=%d' % n)
    c2.compare(lines, [m.strip() for m in common.driver(lines)], impl)

    # ---- Line.radialrange, the real method on exact rationals (abs -> exact sqrt where rational, else (x+1)/2) ------------
    from ..exactnum import Q, QC, qstr
    c3 = Corr('Line.radialrange')
    lines, impl = [], []
    for it in range(ctx.n(300, 4000)):
        g = lambda: Fr(r.randint(-6, 6), r.choice([1, 1, 2]))
        p0, p1 = (g(), g()), (g(), g())
        if p0 == p1:
            continue
        cls = r.choice(['generic', 'generic', 'on-normal-at-start', 'on-normal-at-end', 'at-start', 'at-end', 'equidistant', 'beyond'])
        d = (p1[0] - p0[0], p1[1] - p0[1])
        nrm = (-d[1], d[0])
        k = Fr(r.randint(-3, 3), 2)
        if cls == 'generic':
            z = (g(), g())
        elif cls == 'on-normal-at-start':
            z = (p0[0] + k * nrm[0], p0[1] + k * nrm[1])
        elif cls == 'on-normal-at-end':
            z = (p1[0] + k * nrm[0], p1[1] + k * nrm[1])
        elif cls == 'at-start':
            z = p0
        elif cls == 'at-end':
            z = p1
        elif cls == 'equidistant':
            z = ((p0[0] + p1[0]) / 2 + k * nrm[0], (p0[1] + p1[1]) / 2 + k * nrm[1])
        else:
            t = r.choice([Fr(-1, 2), Fr(3, 2), Fr(2)])
            z = (p0[0] + t * d[0] + k * nrm[0], p0[1] + t * d[1] + k * nrm[1])
        (dmin, tmin), (dmax, tmax) = P.Line(QC(*p0), QC(*p1)).radialrange(QC(*z))
        lines.append('lineradial ' + ' '.join(qstr(Q(v)) for v in p0 + p1 + z))
        impl.append(' '.join(qstr(Q(v) if not isinstance(v, Q) else v) for v in (dmin, tmin, dmax, tmax)))
        c3.count(cls)
    c3.compare(lines, [m.strip() for m in common.driver(lines)], impl)
    return [c, c2, c3]


def sample(ctx, budget=1.0, hint=None, broken=None):
    spt = ctx.spt
    P = spt.path
    from .c19 import _rand_pts
    r = ctx.rng('sample' + ('' if budget == 1.0 else '-search'))
    fails, samples = [], []
    nontriv = set()
    n_eval = 0
    ts = np.linspace(0, 1, 4001)

    def fail(sig, what, inp, obs, exp, repro=''):
        if len(fails) < 40 and sum(1 for f in fails if f['signature'] == sig) < 2:
            fails.append(Failure(signature=sig, what=what, input=inp, observed=obs, expected=exp, repro=repro))

    def ztyped(z):
        # the query point as the caller may well have it: a numpy scalar or 0-d array (a coordinate taken out of an array)
        c_ = r.random()
        if c_ < 0.12:
            return np.complex128(z), 'numpy.complex128(%r)' % (complex(z),)
        if c_ < 0.24:
            return np.array(complex(z)), 'numpy.array(%r)' % (complex(z),)
        if c_ < 0.30 and complex(z).imag == 0:
            return np.float64(complex(z).real), 'numpy.float64(%r)' % (complex(z).real,)
        return z, repr(z)

    def check_seg(seg, z, kind, where):
        desc = repr(seg)
        z, zrep = ztyped(z)
        rep = 'svgpathtools.%s.radialrange(%s)' % (desc, zrep)
        try:
            (dmin, tmin), (dmax, tmax) = seg.radialrange(z)
        except Exception as e:
            fail('%s.radialrange/raises' % kind, 'radialrange raised', {'seg': desc, 'z': repr(z)}, repr(e), 'a result', rep)
            return None
        pts = np.array([seg.point(t) for t in ts])
        d = np.abs(pts - z)
        size = np.abs(pts - pts[0]).max() + 1e-300
        tol = 1e-6 * size + 1e-9 * abs(z)
        if not (0 <= tmin <= 1 and 0 <= tmax <= 1):
            fail('%s.radialrange/t-range' % kind, 't out of [0,1]', {'seg': desc, 'z': repr(z)}, repr((tmin, tmax)), 'in [0,1]', rep)
        if abs(abs(seg.point(tmin) - z) - dmin) > tol or abs(abs(seg.point(tmax) - z) - dmax) > tol:
            fail('%s.radialrange/d-is-distance' % kind, 'd != |point(t) - z|', {'seg': desc, 'z': repr(z)}, repr((dmin, dmax)),
                 repr((abs(seg.point(tmin) - z), abs(seg.point(tmax) - z))), rep)
        if d.min() < dmin - tol:
            fail('%s.radialrange/not-global-min (%s)' % (kind, where), 'a point of the segment is closer than dmin', {'seg': desc, 'z': repr(z)},
                 repr((dmin, tmin)), repr((float(d.min()), float(ts[d.argmin()]))), rep)
        if d.max() > dmax + tol:
            fail('%s.radialrange/not-global-max (%s)' % (kind, where), 'a point of the segment is farther than dmax', {'seg': desc, 'z': repr(z)},
                 repr((dmax, tmax)), repr((float(d.max()), float(ts[d.argmax()]))), rep)
        return (dmin, tmin), (dmax, tmax), d

    for it in range(int(ctx.n(150, 2000) * budget)):
        kind = r.choice(['line', 'quad', 'cubic', 'cubic'])
        k = {'line': 2, 'quad': 3, 'cubic': 4}[kind]
        ps, scale = _rand_pts(r, k)
        if r.random() < 0.2:
            scale = r.choice([1e-6, 1e-4])
            ps = [complex(r.uniform(-1, 1), r.uniform(-1, 1)) * scale for _ in range(k)]
        if all(q == ps[0] for q in ps) or (kind == 'line' and ps[0] == ps[1]):
            continue
        seg = _mk(spt, kind, ps)
        where = r.choice(['far', 'near', 'on-curve', 'beyond-end', 'centre-of-curvature'])
        mid = seg.point(r.random())
        size = max(abs(p - ps[0]) for p in ps) + 1e-300
        if where == 'far':
            z = mid + complex(r.uniform(-1, 1), r.uniform(-1, 1)) * size * 50
        elif where == 'near':
            z = mid + complex(r.uniform(-1, 1), r.uniform(-1, 1)) * size * 0.05
        elif where == 'on-curve':
            z = r.choice([mid, ps[0], ps[-1], seg.point(0.5)])
        elif where == 'beyond-end':
            e = r.choice([0, 1])
            d_ = (seg.point(1) - seg.point(0.9)) if e else (seg.point(0) - seg.point(0.1))
            z = seg.point(e) + d_ * r.uniform(1, 20)
        else:
            z = mid + complex(0, 1) * (seg.point(min(1, 0.51)) - seg.point(0.49)) * 50 * r.choice([-1, 1])
        n_eval += 1
        nontriv.add((kind, where, scale))
        check_seg(seg, z, kind, where)
        if len(samples) < 3:
            samples.append({'seg': repr(seg), 'z': repr(z)})
    # paths
    from .c05 import _rand_seg
    for it in range(int(ctx.n(60, 600) * budget)):
        n = r.randint(1, 5)
        long_ = r.random() < 0.25
        if long_:
            n = r.randint(33, 45)        # long outlines (any shortcut that only switches on for many segments)
        cur = complex(r.uniform(-3, 3), r.uniform(-3, 3))
        segs = []
        for i in range(n):
            if long_ and r.random() < 0.35:
                # unevenly parametrised: both handles bunched at one end, the other end far away (point(0.5) is nowhere near the middle)
                d_ = cmath.exp(1j * r.uniform(0, 6.28)) * r.choice([12.0, 40.0, 100.0])
                e_ = r.choice([0, 1])
                segs.append(P.CubicBezier(cur, cur + d_ * (0.001 if e_ == 0 else 0.998), cur + d_ * (0.002 if e_ == 0 else 0.999), cur + d_))
            else:
                segs.append(_rand_seg(spt, r, cur, r.choice([1.0, 3.0, 12.0]), r.choice(['line', 'line', 'quad', 'cubic'])))
            cur = segs[-1].end
            if long_ and r.random() < 0.1:
                cur = cur + complex(r.uniform(20, 60), r.uniform(-30, 30))       # a detached stroke far away
        if long_:
            far_ = cur + complex(r.choice([400, -350]), r.choice([300, -250]))
            segs.append(P.Line(far_, far_ + complex(20, 0)))                     # ... and one very far away
            n = len(segs)
        if r.random() < 0.25:
            # a segment that is itself a closed loop (start == end): a teardrop cubic or an out-and-back quadratic
            k_ = r.randrange(len(segs) + 1)
            at = segs[k_].start if k_ < len(segs) else segs[-1].end
            w_ = complex(r.uniform(1, 6), r.uniform(1, 6))
            loop = P.CubicBezier(at, at + w_, at + complex(-w_.real, w_.imag), at) if r.random() < 0.6 else P.QuadraticBezier(at, at + w_, at)
            segs.insert(k_, loop)
            n = len(segs)
        path = P.Path(*segs)
        desc = repr(path).replace('\n', ' ')
        where = r.choice(['far', 'near', 'start', 'joint', 'interior', 'beside', 'beside'])
        kb = r.randrange(n)
        chord = segs[kb].end - segs[kb].start
        bunched_ = [i_ for i_, sg_ in enumerate(segs) if isinstance(sg_, P.CubicBezier) and (abs(sg_.control2 - sg_.start) < 0.01 * abs(sg_.end - sg_.start)
                                                                                              or abs(sg_.control1 - sg_.end) < 0.01 * abs(sg_.end - sg_.start))]
        if bunched_ and r.random() < 0.6:
            where = 'beside-uneven'
            kb = r.choice(bunched_)
            chord = segs[kb].end - segs[kb].start
        # 'beside': next to the middle of some (possibly late, possibly long) segment, much closer to it than to the corners
        # of its bounding box
        z = {'far': complex(50, -70), 'near': segs[0].point(0.3) + 0.01, 'start': segs[0].start,
             'joint': segs[r.randrange(n)].end, 'interior': segs[r.randrange(n)].point(0.37),
             'beside': segs[kb].point(r.uniform(0.35, 0.65)) + 1j * chord * r.choice([0.02, -0.02, 0.1, -0.005]),
             # next to the sparsely parametrised stretch of an unevenly parametrised cubic (far from its point(0.5))
             'beside-uneven': None}[where]
        if where == 'beside-uneven':
            sparse_end = abs(segs[kb].control2 - segs[kb].start) < abs(segs[kb].control1 - segs[kb].end)
            z = (segs[kb].start + chord * (r.uniform(0.86, 0.97) if sparse_end else r.uniform(0.03, 0.14))) + 1j * chord * r.choice([0.004, -0.004, 0.001])
        n_eval += 1
        nontriv.add(('path', n, where))
        z, zrep_ = ztyped(z)
        if not isinstance(z, complex):
            nontriv.add(('path', n, where, type(z).__name__))
        try:
            gmin, gmax = path.radialrange(z)
            cl = P.closest_point_in_path(z, path)
            fa = P.farthest_point_in_path(z, path)
        except Exception as e:
            fail('Path.radialrange/raises', 'raised', {'path': desc, 'z': repr(z)}, repr(e), 'a result')
            continue
        per = []
        for sg in segs:
            pts = np.array([sg.point(t) for t in ts[::4]])
            per.append(np.abs(pts - z))
        allmin = min(float(p.min()) for p in per)
        allmax = max(float(p.max()) for p in per)
        L = path.length()
        tol = 1e-5 * (L + abs(z))
        rep = 'svgpathtools.%s.radialrange(%s)' % (desc, zrep_)
        if tuple(cl) != tuple(gmin) or tuple(fa) != tuple(gmax):
            fail('closest/farthest_point_in_path', 'closest/farthest_point_in_path disagree with radialrange', {'path': desc, 'z': repr(z)}, repr((cl, fa)), repr((gmin, gmax)), rep)
        if gmin[0] > allmin + tol:
            fail('Path.radialrange/not-global-min', 'a point of the path is closer than the reported minimum', {'path': desc, 'z': repr(z)}, repr(gmin), repr(allmin), rep)
        if gmax[2] is None or gmax[0] < allmax - tol:
            fail('Path.radialrange/not-global-max', 'a point of the path is farther than the reported maximum', {'path': desc, 'z': repr(z), 'where': where},
                 repr(gmax), repr(allmax), rep)
        for g, nm in ((gmin, 'min'), (gmax, 'max')):
            if g[2] is not None and (not (0 <= g[2] < n) or abs(abs(segs[g[2]].point(g[1]) - z) - g[0]) > tol):
                fail('Path.radialrange/index-' + nm, 'the reported segment index / parameter does not attain the reported distance', {'path': desc, 'z': repr(z)},
                     repr(g), 'distance attained on that segment', rep)
    return {'evaluations': n_eval, 'distinct_nontrivial': len(nontriv), 'failures': fails, 'samples': samples,
            'rule': 'random Line/Quadratic/Cubic (incl. very small curves), query points far / near / on the curve / beyond an end / near a centre of curvature; '
                    'random paths with query points far, near, at the start, at joints, on the interior; 4001-point dense evaluation as reference. '
                    'distinct = distinct (kind, query class, scale)'}


def replay(spt, f):
    from .c19 import replay as rp
    return rp(spt, f)
