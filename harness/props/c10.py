"""C10: translated / rotated / scaled / transform commute with point evaluation."""
from __future__ import annotations
import cmath
import math
from fractions import Fraction as Fr
import numpy as np
from ..tracejobs import *
from .. import symtrace as st, common
from ..gen_lean import Def
from ..runner import Corr, Failure
from .c03 import KINDS, _mk

LEAN_MODULES = ['SvgVerif.Props.C10', 'SvgVerif.Props.C04RoundTrip']


class _Ang:
    """what the patched `radians` returns; `1j*_Ang` is the argument handed to the patched `exp`"""

    def __init__(self, d):
        self.d = d

    def __rmul__(self, o):
        assert o == 1j
        return self

    __mul__ = __rmul__


def cxvars(names, r):
    env, out = {}, []
    for n in names:
        env[n + 'x'], env[n + 'y'] = rfrac(r), rfrac(r)
        out.append(st.Cx.var(n, env[n + 'x'], env[n + 'y']))
    return out, env


def gen_defs(spt, salt=0):
    P = spt.path
    defs = []
    for kind, k in KINDS:
        names = ['p%d' % i for i in range(k)]

        # ---- ring mode: translate, rotate, uniform scale -------------------------
        def job(r, kind=kind, k=k, names=names):
            ps, env = ringvars(names, r)
            (t, z, w, o, sx), e2 = ringvars(['t', 'z', 'w', 'o', 'sx'], r)
            env.update(e2)
            seg = _mk(spt, kind, ps)
            out = []
            A = lambda nm, args, val, doc: out.append(Def('%s_%s' % (kind, nm), args, node(val), '%s: %s' % (kind, doc), env))
            tr = seg.translated(z)
            assert type(tr) is type(seg)
            A('translated_point', names + ['z', 't'], tr.point(t), 'translated(z).point(t)')
            saved = (P.exp, P.radians)
            try:
                P.radians = lambda d: _Ang(d)
                P.exp = lambda a: w
                ro = seg.rotated(30, origin=o)
                ro2 = seg.rotated(30)
            finally:
                P.exp, P.radians = saved
            assert type(ro) is type(seg) and type(ro2) is type(seg)
            A('rotated_point', names + ['w', 'o', 't'], ro.point(t), 'rotated(deg, origin=o).point(t), w = exp(i*radians(deg))')
            A('rotated_default_point', names + ['w', 't'], ro2.point(t), 'rotated(deg).point(t), default origin, w = exp(i*radians(deg))')
            sc = seg.scaled(sx, origin=o)
            sc0 = seg.scaled(sx)
            assert type(sc) is type(seg) and type(sc0) is type(seg)
            A('scaled_point', names + ['sx', 'o', 't'], sc.point(t), 'scaled(sx, origin=o).point(t)')
            A('scaled_default_point', names + ['sx', 't'], sc0.point(t), 'scaled(sx).point(t) (origin 0)')
            return out
        defs += retry(job, 'c10/ring/%s' % kind + ('/%d' % salt if salt else ''))

        # ---- coordinate mode: non-uniform scale, 3x3 matrix ----------------------
        cn = []
        for n_ in names:
            cn += [n_ + 'x', n_ + 'y']

        def job2(r, kind=kind, k=k, names=names, cn=cn):
            ps, env = cxvars(names, r)
            (o,), e1 = cxvars(['o'], r)
            (t, sx, sy, a, b, c, d, e, f), e2 = realvars(['t', 'sx', 'sy', 'a', 'b', 'c', 'd', 'e', 'f'], r)
            env.update(e1); env.update(e2)
            seg = _mk(spt, kind, ps)
            out = []
            A = lambda nm, args, val, doc: out.append(Def('%s_%s' % (kind, nm), args, node(val), '%s: %s' % (kind, doc), env))
            sc = seg.scaled(sx, sy, origin=o)
            assert type(sc) is type(seg)
            pt = sc.point(t)
            A('scaled2_x', cn + ['sx', 'sy', 'ox', 'oy', 't'], pt.real, 'scaled(sx, sy, origin=o).point(t).real')
            A('scaled2_y', cn + ['sx', 'sy', 'ox', 'oy', 't'], pt.imag, 'scaled(sx, sy, origin=o).point(t).imag')
            tf = np.array([[a, c, e], [b, d, f], [0, 0, 1]], dtype=object)
            tseg = P.transform(seg, tf)
            assert type(tseg) is type(seg)
            pt = tseg.point(t)
            A('transform_x', cn + ['a', 'b', 'c', 'd', 'e', 'f', 't'], pt.real, 'transform(seg, [[a,c,e],[b,d,f],[0,0,1]]).point(t).real')
            A('transform_y', cn + ['a', 'b', 'c', 'd', 'e', 'f', 't'], pt.imag, 'transform(seg, [[a,c,e],[b,d,f],[0,0,1]]).point(t).imag')
            pt0 = seg.point(t)
            A('point_x', cn + ['t'], pt0.real, 'point(t).real on coordinate-wise symbolic control points')
            A('point_y', cn + ['t'], pt0.imag, 'point(t).imag on coordinate-wise symbolic control points')
            return out
        defs += retry(job2, 'c10/cx/%s' % kind + ('/%d' % salt if salt else ''))

    # ---- arcs: the defining data handed to the Arc constructor ---------------------
    def job3(r):
        rec = {}

        class Rec(spt.path.Arc):
            def __init__(self, start, radius, rotation, large_arc, sweep, end, autoscale_radius=True):
                rec.update(start=start, radius=radius, rotation=rotation, large_arc=large_arc, sweep=sweep, end=end)

        (s, e_, z, w, o, sx, cen, rad, rot), env = ringvars(['s', 'e', 'z', 'w', 'o', 'sx', 'cen', 'rad', 'rot'], r)
        arc = Rec.__new__(Rec)
        arc.start, arc.end, arc.radius, arc.rotation, arc.large_arc, arc.sweep, arc.center = s, e_, rad, rot, True, False, cen
        saved = (P.Arc, P.exp, P.radians)
        out = []
        A = lambda nm, args, val, doc: out.append(Def('arc_%s' % nm, args, node(val), 'Arc: ' + doc, env))
        try:
            P.Arc = Rec
            P.radians = lambda d: _Ang(d)
            P.exp = lambda a: w
            P.translate(arc, z)
            assert rec['large_arc'] is True and rec['sweep'] is False
            A('translated_start', ['s', 'z'], rec['start'], 'translated(z): new start')
            A('translated_end', ['e', 'z'], rec['end'], 'translated(z): new end')
            A('translated_radius', ['rad'], rec['radius'], 'translated(z): radius')
            A('translated_rotation', ['rot'], rec['rotation'], 'translated(z): rotation')
            P.rotate(arc, 30, origin=o)
            assert rec['large_arc'] is True and rec['sweep'] is False and rec['radius'] is rad
            A('rotated_start', ['s', 'w', 'o'], rec['start'], 'rotated(deg, o): new start')
            A('rotated_end', ['e', 'w', 'o'], rec['end'], 'rotated(deg, o): new end')
            rot30 = rec['rotation']
            A('rotated_rotation_minus_deg', ['rot'], rot30 - 30, 'rotated(deg, o): new rotation minus deg')
            P.rotate(arc, 30)
            A('rotated_default_start', ['s', 'w', 'cen'], rec['start'], 'rotated(deg): new start (default origin = center)')
            P.scale(arc, sx, origin=o)
            assert rec['large_arc'] is True and rec['sweep'] is False and rec['rotation'] is rot
            A('scaled_start', ['s', 'sx', 'o'], rec['start'], 'scaled(sx, origin=o): new start')
            A('scaled_end', ['e', 'sx', 'o'], rec['end'], 'scaled(sx, origin=o): new end')
            A('scaled_radius', ['rad', 'sx'], rec['radius'], 'scaled(sx, origin=o): radius handed to Arc()')
        finally:
            P.Arc, P.exp, P.radians = saved
        return out
    defs += retry(job3, 'c10/arc' + ('/%d' % salt if salt else ''))
    return defs


from . import c04 as _c04
GEN = {'C10': gen_defs, 'C04': _c04.gen_defs}     # C04RoundTrip (arcs) uses C04's traced Arc.point
ASSUMPTIONS = [
    'rotation: exp(1j*radians(deg)) enters the traces as an opaque unit complex w (numpy.exp/radians are library oracles)',
    'arcs: the traces cover the defining data handed to Arc(); that an Arc is the F.6.5 arc of its data is C04; transform() on arcs is a known finding (raises for every matrix under the installed numpy) and is not claimed',
    'float rounding is sampled, not proved; exact preservation of coinciding joints is law-free (assignment) and proved on the model',
]


# ---------------------------------------------------------------------------
def correspond(ctx):
    """transform_segments_together: which joints are re-welded (exact, integer points)"""
    spt = ctx.spt
    P = spt.path
    r = ctx.rng('corr')
    c = Corr('transform_segments_together')
    lines, impl = [], []
    for it in range(ctx.n(300, 3000)):
        n = r.randint(1, 6)
        pts = []
        cur = r.randint(0, 3)
        first = cur
        for i in range(n):
            if r.random() < 0.3:
                cur = r.randint(0, 5)
            nxt = r.randint(0, 5)
            if i == n - 1 and r.random() < 0.6:
                nxt = first
            pts.append((cur, nxt))
            cur = nxt
        # the model sees labels; the real code sees coordinates. In `near` mode distinct labels are distinct points that are
        # close together compared with their size (1e6 + k/1024), so only exact equality may weld them
        near = r.random() < 0.4
        co = (lambda k: complex(1048576.0 + k / 1024.0, 0)) if near else (lambda k: complex(k, 0))
        segs = [P.Line(co(a), co(b)) for a, b in pts]
        c.count('near-equal coordinates' if near else 'small integers')
        path = P.Path(*segs)
        cnt = [0]

        def tfm(seg):   # gives every transformed segment fresh, distinct endpoints
            cnt[0] += 1
            return P.Line(complex(100 * cnt[0], 1), complex(100 * cnt[0], 2))
        out = P.transform_segments_together(path, tfm)
        lines.append('tst ' + ' '.join('%d %d' % ab for ab in pts))
        # report, for each cyclic joint i -> i+1, whether end_i == start_{i+1} afterwards
        impl.append(' '.join('1' if out[i].end == out[(i + 1) % n].start else '0' for i in range(n)))
        c.count('n=%d' % n)
    model = common.driver(lines)
    c.compare(lines, [m.strip() for m in model], impl)
    return [c]


# ---------------------------------------------------------------------------
def _apply(M, z):
    v = M.dot(np.array([z.real, z.imag, 1.0]))
    return complex(v[0], v[1])


def sample(ctx, budget=1.0, hint=None, broken=None):
    spt = ctx.spt
    P = spt.path
    from .c05 import _rand_seg
    r = ctx.rng('sample' + ('' if budget == 1.0 else '-search'))
    fails, samples = [], []
    nontriv = set()
    n_eval = 0
    ts = [0.0, 0.1, 0.2, 0.3, 0.4, 0.5, 0.6, 0.7, 0.8, 0.9, 1.0]

    def fail(sig, what, inp, obs, exp, repro=''):
        if len(fails) < 40 and sum(1 for f in fails if f['signature'] == sig) < 3:
            fails.append(Failure(signature=sig, what=what, input=inp, observed=obs, expected=exp, repro=repro))

    def rand_matrix():
        kind = r.choice(['rot', 'uscale', 'nscale', 'refl', 'shear', 'prod', 'near-id', 'translate'])
        th = r.uniform(-3, 3)
        R = np.array([[math.cos(th), -math.sin(th), 0], [math.sin(th), math.cos(th), 0], [0, 0, 1.0]])
        s = r.choice([-2.5, 0.3, 1.7])
        mats = {'rot': R, 'uscale': np.diag([s, s, 1.0]), 'nscale': np.diag([r.uniform(0.2, 3), -r.uniform(0.2, 3), 1.0]),
                'refl': np.diag([1.0, -1.0, 1.0]), 'shear': np.array([[1, r.uniform(-2, 2), 0], [0, 1, 0], [0, 0, 1.0]]),
                'near-id': np.array([[1 + 5e-6, 0, 0], [1e-9, 1 + 5e-6, 5e-9], [0, 0, 1.0]]),
                'translate': np.array([[1, 0, r.uniform(-5, 5)], [0, 1, r.uniform(-5, 5)], [0, 0, 1.0]])}
        if kind == 'prod':
            M = R.dot(mats['nscale']).dot(mats['shear'])
        else:
            M = mats[kind]
        M = M.copy()
        if kind not in ('near-id',):
            M[0, 2] += r.uniform(-3, 3); M[1, 2] += r.uniform(-3, 3)
        if r.random() < 0.15:
            # the same kinds of maps written with whole numbers: an integer-typed array (what `np.array([[1, 0, 5], ...])` gives), a
            # list of lists of ints, or single precision
            Mi = {'rot': [[0, -1, 0], [1, 0, 0], [0, 0, 1]], 'refl': [[1, 0, 0], [0, -1, 0], [0, 0, 1]], 'uscale': [[2, 0, 0], [0, 2, 0], [0, 0, 1]],
                  'nscale': [[3, 0, 0], [0, -2, 0], [0, 0, 1]], 'shear': [[1, 2, 0], [0, 1, 0], [0, 0, 1]]}.get(kind, [[1, 0, 0], [0, 1, 0], [0, 0, 1]])
            Mi = [row[:] for row in Mi]
            Mi[0][2], Mi[1][2] = r.randint(-7, 7), r.randint(-7, 7)
            form = r.choice(['int-array', 'int-array', 'float32'])
            M = np.array(Mi) if form == 'int-array' else np.array(Mi, dtype=np.float32)
            kind = kind + '/' + form
        return kind, M

    for it in range(int(ctx.n(200, 2500) * budget)):
        kind = r.choice(['line', 'quad', 'cubic', 'arc'])
        scale = r.choice([1.0, 1.0, 1e3])
        seg = _rand_seg(spt, r, complex(r.uniform(-3, 3), r.uniform(-3, 3)) * scale, scale, kind)
        desc = repr(seg)
        size = max(abs(seg.point(x)) for x in ts) + 1e-300
        tol = 1e-9 * size
        n_eval += 1
        z = complex(r.uniform(-5, 5), r.uniform(-5, 5)) * scale
        tr = seg.translated(z)
        if any(abs(tr.point(t) - (seg.point(t) + z)) > tol + 1e-9 * abs(z) for t in ts):
            fail('%s.translated' % kind, 'translated(z).point(t) != point(t)+z', {'seg': desc, 'z': repr(z)}, repr(tr), 'shifted curve',
                 'svgpathtools.%s.translated(%r).point(0.3)' % (desc, z))
        deg = r.choice([90, 180, -45, 30.5, 725.0, r.uniform(-360, 360)])
        if kind == 'arc' and r.random() < 0.25:
            deg = r.choice([-seg.rotation, -seg.rotation, 360 - seg.rotation, 180 - seg.rotation])      # turns the arc's own axes onto the coordinate axes
        org = r.choice([None, complex(r.uniform(-3, 3), r.uniform(-3, 3)) * scale])
        ro = seg.rotated(deg, origin=org)
        o_eff = org if org is not None else (seg.center if kind == 'arc' else seg.point(0.5))
        w = cmath.exp(1j * math.radians(deg))
        nontriv.add((kind, scale, org is None))
        if any(abs(ro.point(t) - (w * (seg.point(t) - o_eff) + o_eff)) > 1e-8 * (size + abs(o_eff)) for t in ts):
            fail('%s.rotated%s' % (kind, '/default-origin' if org is None else ''), 'rotated(deg, origin).point(t) is not point(t) rotated about origin',
                 {'seg': desc, 'deg': deg, 'origin': repr(org)}, repr(ro.point(0.3)), repr(w * (seg.point(0.3) - o_eff) + o_eff),
                 'svgpathtools.%s.rotated(%r, origin=%r).point(0.3)' % (desc, deg, org))
        sx = r.choice([2.0, 0.5, -1.5, 0.1, r.uniform(-3, 3)])
        org2 = r.choice([0j, complex(r.uniform(-3, 3), r.uniform(-3, 3)) * scale])
        sc = seg.scaled(sx, origin=org2)
        if any(abs(sc.point(t) - ((seg.point(t) - org2) * sx + org2)) > 1e-8 * (size * abs(sx) + abs(org2) + size) for t in ts):
            fail('%s.scaled/uniform' % kind, 'scaled(sx, origin).point(t) is not the scaled point', {'seg': desc, 'sx': sx, 'origin': repr(org2)},
                 repr(sc.point(0.3)), repr((seg.point(0.3) - org2) * sx + org2), 'svgpathtools.%s.scaled(%r, origin=%r).point(0.3)' % (desc, sx, org2))
        sy = r.choice([3.0, -0.5, 0.25])
        if kind == 'arc':
            mk, M = rand_matrix()
            try:
                tfa = P.transform(seg, M)
                if any(abs(tfa.point(t) - _apply(M, seg.point(t))) > 1e-6 * (size * 10 + abs(M[0, 2]) + abs(M[1, 2])) for t in ts):
                    fail('arc.transform/wrong-curve/%s' % mk, 'transform(Arc, M).point(t) != M applied to point(t)', {'seg': desc, 'M': M.tolist()},
                         repr(tfa.point(0.3)), repr(_apply(M, seg.point(0.3))),
                         'svgpathtools.path.transform(svgpathtools.%s, numpy.array(%r)).point(0.3)' % (desc, M.tolist()))
            except TypeError as ex:
                fail('arc.transform/raises-TypeError', 'transform(Arc, M) raises TypeError', {'seg': desc, 'M': M.tolist()}, repr(ex), 'the transformed arc',
                     'svgpathtools.path.transform(svgpathtools.%s, numpy.array(%r))' % (desc, M.tolist()))
            except Exception as ex:
                fail('arc.transform/raises-%s' % type(ex).__name__, 'transform(Arc, M) raises', {'seg': desc, 'M': M.tolist()}, repr(ex), 'the transformed arc',
                     'svgpathtools.path.transform(svgpathtools.%s, numpy.array(%r))' % (desc, M.tolist()))
            if sy != sx:
                try:
                    seg.scaled(sx, sy)
                    fail('arc.scaled/non-uniform-not-refused', 'non-uniform scaled() of an Arc did not raise', {'seg': desc, 'sx': sx, 'sy': sy},
                         'returned a value', 'an exception', 'svgpathtools.%s.scaled(%r, %r)' % (desc, sx, sy))
                except Exception:
                    pass
        else:
            sc2 = seg.scaled(sx, sy, origin=org2)
            def S(p):
                q = p - org2
                return complex(q.real * sx, q.imag * sy) + org2
            if any(abs(sc2.point(t) - S(seg.point(t))) > 1e-8 * (size * (abs(sx) + abs(sy)) + abs(org2) + size) for t in ts):
                fail('%s.scaled/non-uniform' % kind, 'scaled(sx, sy, origin).point(t) is not the scaled point', {'seg': desc, 'sx': sx, 'sy': sy, 'origin': repr(org2)},
                     repr(sc2.point(0.3)), repr(S(seg.point(0.3))), 'svgpathtools.%s.scaled(%r, %r, origin=%r).point(0.3)' % (desc, sx, sy, org2))
            mk, M = rand_matrix()
            tf = P.transform(seg, M)
            nrm = max(abs(M[0, 0]) + abs(M[0, 1]), abs(M[1, 0]) + abs(M[1, 1]), 1.0)
            if any(abs(tf.point(t) - _apply(M, seg.point(t))) > 1e-9 * (size * nrm + abs(M[0, 2]) + abs(M[1, 2])) * 10
                   + (1e-12 * size if mk == 'near-id' else 0) for t in ts):
                fail('%s.transform/%s' % (kind, mk), 'transform(seg, M).point(t) != M applied to point(t)', {'seg': desc, 'M': M.tolist()},
                     repr(tf.point(0.3)), repr(_apply(M, seg.point(0.3))),
                     'svgpathtools.path.transform(svgpathtools.%s, numpy.array(%r)).point(0.3)' % (desc, M.tolist()))
        if len(samples) < 3:
            samples.append({'seg': desc, 'z': repr(z), 'deg': deg, 'sx': sx})

    # paths: joints that coincided exactly (incl. the closing joint) still coincide exactly
    for it in range(int(ctx.n(120, 1500) * budget)):
        n = r.randint(1, 5)
        closed = r.random() < 0.6
        gaps = r.random() < 0.5
        tiny = gaps and r.random() < 0.5       # gaps that are real but small compared with the coordinates
        big = r.choice([1.0, 1.0, 1e3, 1e6]) if tiny else 1.0
        cur = complex(r.uniform(-3, 3), r.uniform(-3, 3)) * big
        first = cur
        segs = []
        for i in range(n):
            segs.append(_rand_seg(spt, r, cur, 1.0, r.choice(['line', 'quad', 'cubic'])))
            cur = segs[-1].end
            if gaps and r.random() < 0.5:
                cur += (complex(1.5, 0.25) if not tiny else complex(1, -1) * (abs(cur) + 1e-3) * 10.0 ** -r.randint(6, 11))
        if closed and cur != first:
            segs.append(P.Line(cur, first))
        path = P.Path(*segs)
        desc = repr(path).replace('\n', ' ')
        n = len(segs)
        hist = ''
        if r.random() < 0.35:
            # the path was queried and then changed behind its back - on the segment objects, through a Path that shares them, or on a
            # shallow copy - so that what the Path object remembers about its ends no longer describes its segments
            import copy as _copy
            if r.random() < 0.7:
                path.start, path.end, path.iscontinuous() and path.isclosed(), path.length()
                hist += ' after start/end/isclosed()/length() queries,'
            how = r.choice(['seg-start', 'seg-end', 'close-by-seg', 'subpath-start', 'copy-append'])
            dz = complex(0.75, -0.5)
            if how == 'seg-start':
                path[0].start = path[0].start + dz; hist += ' then p[0].start += %r' % dz
            elif how == 'seg-end':
                path[-1].end = path[-1].end + dz; hist += ' then p[-1].end += %r' % dz
            elif how == 'close-by-seg':
                path[-1].end = path[0].start; hist += ' then p[-1].end = p[0].start'
            elif how == 'subpath-start':
                try:
                    sub = path.continuous_subpaths()[0]
                    sub.start = sub.start + dz; hist += ' then p.continuous_subpaths()[0].start += %r' % dz
                except Exception:
                    pass
            else:
                q_ = _copy.copy(path)
                extra = P.Line(q_[-1].end, q_[-1].end + dz)
                q_.append(extra); hist += ' then copy.copy(p).append(%r)' % extra
            segs = list(path)
            n = len(segs)
            desc += hist
        n_eval += 1
        nontriv.add(('path', n, closed, gaps, tiny, hist.split(' then ')[-1].split(' ')[0] if hist else ''))
        before = [segs[i].end == segs[(i + 1) % n].start for i in range(n)]
        z_ = complex(r.uniform(-5, 5), 0.1)
        deg_ = r.uniform(-180, 180)
        sf_ = r.choice([0.3, 1.7, -2.1])
        M_ = rand_matrix()[1]
        # every operation below applies to a Path and to a single segment alike
        ops = [('translated', lambda p: p.translated(z_)),
               ('rotated', lambda p: p.rotated(deg_, origin=complex(0.3, -1.7))),
               ('scaled', lambda p: p.scaled(sf_, origin=complex(1.7, 2.9))),
               ('scaled2', lambda p: p.scaled(0.3, 1.9)),
               ('transform', lambda p: P.transform(p, M_))]
        for nm, op in ops:
            q = op(path)
            if len(q) != n or any(type(a) is not type(b) for a, b in zip(q, path)):
                fail('Path.%s/segmentwise' % nm, 'operation does not act segment-wise', {'path': desc}, repr(q), 'same kinds, same count')
                continue
            after = [q[i].end == q[(i + 1) % n].start for i in range(n)]
            # segment-wise: every segment of the result traces the image of the corresponding segment (interior points; the ends may be
            # re-welded onto an exactly coinciding neighbour, which moves them by rounding only)
            for i in range(n):
                a_ = op(path[i])
                sz_ = abs(a_.point(0.5)) + abs(a_.end - a_.start) + 1e-300
                if any(abs(q[i].point(t_) - a_.point(t_)) > 1e-9 * sz_ for t_ in (0.0, 0.5, 1.0)):
                    fail('Path.%s/segment image' % nm, 'a segment of the transformed path is not the transformed segment', {'path': desc, 'op': nm, 'segment': i},
                         repr([q[i].point(t_) for t_ in (0.0, 0.5, 1.0)]), repr([a_.point(t_) for t_ in (0.0, 0.5, 1.0)]))
                    break
            # segment-wise: where two consecutive segments did NOT touch, both ends are exactly what the operation gives for
            # the segment alone (only joints that coincided are re-welded)
            for i in range(n):
                j = (i + 1) % n
                if not before[i] and n > 1:
                    a, b = op(path[i]), op(path[j])
                    if q[i].end != a.end or q[j].start != b.start:
                        fail('Path.%s/non-joint moved' % nm, 'two segments that did not touch were changed beyond the segment-wise operation (glued together)',
                             {'path': desc, 'op': nm, 'between': [i, j], 'gap_before': repr(segs[j].start - segs[i].end)},
                             repr((q[i].end, q[j].start)), repr((a.end, b.start)))
                        break
            for i in range(n):
                if before[i] and not after[i]:
                    sig = 'Path.%s/joint-lost/%s' % (nm, 'closing' if i == n - 1 else 'interior')
                    fail(sig, 'a joint that coincided exactly before the operation no longer coincides', {'path': desc, 'op': nm, 'joint': i},
                         repr((q[i].end, q[(i + 1) % n].start)), 'equal points', '')
                    break
    return {'evaluations': n_eval, 'distinct_nontrivial': len(nontriv), 'failures': fails, 'samples': samples,
            'rule': 'random segments of all four kinds, translation vectors, angles (incl. multiples of 90, >360), explicit/default origins, scale factors '
                    '(negative, <1), matrices (rotation, uniform/non-uniform scale, reflection, shear, products, near-identity); random open/closed paths with '
                    'and without gaps under every operation; 35% of the paths were queried and then changed on their segment objects / through a sharing Path / a shallow copy first. distinct = distinct (kind, scale, default origin?) / (path, n, closed, gaps)'}


def replay(spt, f):
    from .c19 import replay as rp
    return rp(spt, f)
