"""Shared input generators and independent references for C11 / C12 (intersections)."""
from __future__ import annotations
import cmath
import math
from fractions import Fraction as Fr
import numpy as np

KINDS4 = ['line', 'quad', 'cubic', 'arc']


class Timeout(Exception):
    pass


class time_limit:
    """with time_limit(sec): ... raises Timeout inside the block after sec seconds (main thread only).
    The subdivision solver needs exponential time on touching / nearly touching curves; such calls are skipped
    (counted), never judged."""

    def __init__(self, sec):
        self.sec = sec

    def _h(self, *a):
        raise Timeout()

    def __enter__(self):
        import signal
        self.old = signal.signal(signal.SIGALRM, self._h)
        signal.setitimer(signal.ITIMER_REAL, self.sec)

    def __exit__(self, *a):
        import signal
        signal.setitimer(signal.ITIMER_REAL, 0)
        signal.signal(signal.SIGALRM, self.old)
        return False


def rand_seg(spt, r, kind, scale=1.0, arc_class=None):
    """a random segment of the given kind, size ~ scale, somewhere near the origin.
    arc_class: 'circ0' (circular, unrotated), 'ell0' (elliptic, unrotated), 'rot' (elliptic, rotated) or None (random)"""
    P = spt.path

    def pt():
        return complex(r.uniform(-1, 1), r.uniform(-1, 1)) * scale
    a = pt()
    b = pt()
    while abs(b - a) < 0.2 * scale:
        b = pt()
    if kind == 'line':
        return P.Line(a, b)
    if kind == 'quad':
        return P.QuadraticBezier(a, pt(), b)
    if kind == 'cubic':
        return P.CubicBezier(a, pt(), pt(), b)
    cls = arc_class or r.choice(['circ0', 'ell0', 'rot'])
    if cls == 'circ0':
        rr = r.uniform(0.3, 1.5) * scale
        rad, rot = complex(rr, rr), 0
    elif cls == 'ell0':
        rad, rot = complex(r.uniform(0.3, 1.5), r.uniform(0.3, 1.5)) * scale, 0
    else:
        rad, rot = complex(r.uniform(0.3, 1.5), r.uniform(0.3, 1.5)) * scale, r.choice([30, 90, -45.5, 117.25, r.uniform(-180, 180), 180, -180, 540, 360, 270])
    return P.Arc(a, rad, rot, r.random() < 0.5, r.random() < 0.5, b)


def arc_class(seg):
    if seg.rotation == 0 and seg.radius.real == seg.radius.imag:
        return 'circ0'
    if seg.rotation == 0:
        return 'ell0'
    return 'rot'


def kind_of(spt, seg):
    P = spt.path
    if isinstance(seg, P.Line):
        return 'line'
    if isinstance(seg, P.QuadraticBezier):
        return 'quad'
    if isinstance(seg, P.CubicBezier):
        return 'cubic'
    return 'arc'


def similarity(spt, seg, rot, scale, shift):
    """image of seg under z -> rot*scale*z + shift (rot a unit complex, scale > 0); arcs stay arcs"""
    P = spt.path
    f = lambda z: rot * scale * z + shift
    if isinstance(seg, P.Arc):
        ang = math.degrees(cmath.phase(rot))
        return P.Arc(f(seg.start), seg.radius * scale, seg.rotation + ang, seg.large_arc, seg.sweep, f(seg.end))
    return type(seg)(*[f(p) for p in seg.bpoints()])


def through_common_point(spt, r, ka, kb, angle_deg=None, scale=1.0, arc_classes=(None, None), keep_arc_unrotated=False):
    """two segments a, b with a(ta) = b(tb), tangents at the given angle (None: random in [6, 174] with random sign).
    returns (a, b, ta, tb, angle)"""
    a = rand_seg(spt, r, ka, scale, arc_classes[0])
    b = rand_seg(spt, r, kb, scale, arc_classes[1])
    ta = r.uniform(0.12, 0.88)
    tb = r.uniform(0.12, 0.88)
    da = a.derivative(ta)
    db = b.derivative(tb)
    if abs(da) < 1e-3 * scale or abs(db) < 1e-3 * scale:
        return None
    if angle_deg is None:
        angle_deg = r.uniform(6, 174) * r.choice([-1, 1])
    want = cmath.phase(da) + math.radians(angle_deg)
    rot = cmath.exp(1j * (want - cmath.phase(db)))
    if keep_arc_unrotated and kb == 'arc':
        # rotate a instead (b's rotation must stay as generated)
        rot_a = 1 / rot
        a = similarity(spt, a, rot_a, 1.0, 0)
        rot = 1
    b0 = similarity(spt, b, rot, 1.0, 0)
    shift = a.point(ta) - b0.point(tb)
    b1 = similarity(spt, b, rot, 1.0, shift)
    return a, b1, ta, tb, angle_deg


def sample_pts(seg, n=400):
    ts = np.linspace(0, 1, n + 1)
    try:
        pts = seg.points(ts)
        pts = np.asarray(pts, dtype=complex)
    except Exception:
        pts = np.array([seg.point(t) for t in ts], dtype=complex)
    return ts, pts


def seg_size(seg, n=64):
    _, pts = sample_pts(seg, n)
    return float(np.abs(pts[:, None] - pts[None, :]).max())


def polyline_crossings(a, b, n=400):
    """approximate crossings of two segments from their n-chord polylines: list of (ta, tb)"""
    ta, pa = sample_pts(a, n)
    tb, pb = sample_pts(b, n)
    A0, A1 = pa[:-1, None], pa[1:, None]
    B0, B1 = pb[None, :-1], pb[None, 1:]
    da = A1 - A0
    db = B1 - B0

    def cross(u, v):
        return u.real * v.imag - u.imag * v.real
    den = cross(da, db)
    with np.errstate(divide='ignore', invalid='ignore'):
        s = cross(B0 - A0, db) / den
        u = cross(B0 - A0, da) / den
    ok = (den != 0) & (s >= 0) & (s < 1) & (u >= 0) & (u < 1)
    ii, jj = np.nonzero(ok)
    h = 1.0 / n
    return [(float(ta[i] + s[i, j] * h), float(tb[j] + u[i, j] * h)) for i, j in zip(ii, jj)]


# ---------------------------------------------------------------------------------------------
# exact real-root counting (Sturm) over Fractions, for Line/Bezier crossing counts

def _ptrim(p):
    p = list(p)
    while p and p[-1] == 0:
        p.pop()
    return p


def _peval(p, x):
    acc = Fr(0)
    for c in reversed(p):
        acc = acc * x + c
    return acc


def _pderiv(p):
    return _ptrim([c * i for i, c in enumerate(p)][1:])


def _prem(a, b):
    a = _ptrim(a)
    b = _ptrim(b)
    while a and len(a) >= len(b):
        k = a[-1] / b[-1]
        sh = len(a) - len(b)
        for i, c in enumerate(b):
            a[i + sh] -= k * c
        a = _ptrim(a)
    return a


def _pmul(a, b):
    out = [Fr(0)] * (len(a) + len(b) - 1)
    for i, x in enumerate(a):
        for j, y in enumerate(b):
            out[i + j] += x * y
    return out


def sturm_chain(p):
    p = _ptrim(p)
    ch = [p, _pderiv(p)]
    while ch[-1]:
        rem = _prem(ch[-2], ch[-1])
        ch.append([-c for c in rem])
    ch.pop()
    return ch


def _variations(ch, x):
    signs = []
    for q in ch:
        v = _peval(q, x)
        if v != 0:
            signs.append(v > 0)
    return sum(1 for i in range(len(signs) - 1) if signs[i] != signs[i + 1])


def count_roots(p, lo, hi):
    """number of distinct real roots of p in (lo, hi]; p coefficients low degree first (Fractions)"""
    ch = sturm_chain(p)
    return _variations(ch, Fr(lo)) - _variations(ch, Fr(hi))


def isolate_roots(p, lo, hi, max_depth=80):
    """disjoint intervals (a, b] each containing exactly one distinct root of p within (lo, hi]"""
    ch = sturm_chain(p)
    out = []
    todo = [(Fr(lo), Fr(hi), 0)]
    while todo:
        a, b, d = todo.pop()
        k = _variations(ch, a) - _variations(ch, b)
        if k == 0:
            continue
        if k == 1:
            out.append((a, b))
            continue
        if d > max_depth:
            raise ArithmeticError('root isolation too deep')
        m = (a + b) / 2
        todo += [(a, m, d + 1), (m, b, d + 1)]
    return sorted(out)


def bern_to_mono(bs):
    """Bernstein control values (Fractions) -> monomial coefficients, low degree first"""
    n = len(bs) - 1
    out = []
    for j in range(n + 1):
        c = Fr(0)
        for i in range(j + 1):
            c += (-1) ** (i + j) * math.comb(j, i) * bs[i]
        out.append(c * math.comb(n, j))
    return out


def exact_line_bezier_crossings(bpts, l0, l1):
    """exact crossings of the Bezier with control points bpts (complex floats) and the line segment l0-l1.
    returns None if not in general position (tangency, crossing at an end point of either), else
    a list of (t_lo, t_hi) isolating intervals of the bezier parameter (each one crossing)."""
    fx = lambda z: (Fr(z.real), Fr(z.imag))
    (ax, ay), (bx, by) = fx(l0), fx(l1)
    dx, dy = bx - ax, by - ay
    n2 = dx * dx + dy * dy
    if n2 == 0:
        return None
    # g(t) = cross(B(t) - l0, d); u(t) = dot(B(t) - l0, d)/|d|^2
    g = bern_to_mono([(Fr(p.real) - ax) * dy - (Fr(p.imag) - ay) * dx for p in bpts])
    u = bern_to_mono([((Fr(p.real) - ax) * dx + (Fr(p.imag) - ay) * dy) / n2 for p in bpts])
    g = _ptrim(g)
    if not g:
        return None      # the Bezier lies on the line
    if _peval(g, Fr(0)) == 0 or _peval(g, Fr(1)) == 0:
        return None
    # tangency <=> g has a repeated root in [0,1]: gcd(g, g') has a root there
    ch = sturm_chain(g)
    gcd = ch[-1]
    if len(gcd) > 1 and count_roots(gcd, Fr(-1, 10 ** 6), Fr(1)) > 0:
        return None
    ivs = isolate_roots(g, Fr(0), Fr(1))
    u1 = list(u)
    u1[0] = u1[0] - 1 if u1 else Fr(-1)
    res = []
    for a, b in ivs:
        # refine until u and u-1 have constant sign on [a, b]
        for _ in range(200):
            ua = count_roots(_ptrim(u), a, b) if _ptrim(u) else 0
            ub = count_roots(_ptrim(u1), a, b) if _ptrim(u1) else 0
            if ua == 0 and ub == 0:
                break
            m = (a + b) / 2
            chg = sturm_chain(g)
            if _variations(chg, a) - _variations(chg, m) == 1:
                b = m
            else:
                a = m
        else:
            return None     # u = 0 or 1 at the root: crossing at an end of the line
        ub_ = _peval(u, b)
        if 0 < ub_ < 1:
            res.append((a, b))
    return res


# ---------------------------------------------------------------------------------------------
# exact complex numbers (Fractions) on which the real control logic runs unchanged

def _exact_sqrt(fr):
    fr = Fr(fr)
    rn, rd = math.isqrt(fr.numerator), math.isqrt(fr.denominator)
    if fr < 0 or rn * rn != fr.numerator or rd * rd != fr.denominator:
        raise ArithmeticError('sqrt of a non-square rational %s' % fr)
    return Fr(rn, rd)


class FC(object):
    """complex number with Fraction parts"""
    __slots__ = ('real', 'imag')

    def __init__(self, re, im=0):
        self.real, self.imag = Fr(re), Fr(im)

    @staticmethod
    def lift(x):
        if isinstance(x, FC):
            return x
        if isinstance(x, complex):
            return FC(Fr(x.real), Fr(x.imag))
        return FC(Fr(x), 0)

    def __eq__(self, o):
        try:
            o = FC.lift(o)
        except Exception:
            return NotImplemented
        return self.real == o.real and self.imag == o.imag

    def __ne__(self, o):
        r = self.__eq__(o)
        return r if r is NotImplemented else not r

    def __hash__(self):
        return hash((self.real, self.imag))

    def __add__(self, o):
        o = FC.lift(o)
        return FC(self.real + o.real, self.imag + o.imag)
    __radd__ = __add__

    def __sub__(self, o):
        o = FC.lift(o)
        return FC(self.real - o.real, self.imag - o.imag)

    def __rsub__(self, o):
        return FC.lift(o) - self

    def __neg__(self):
        return FC(-self.real, -self.imag)

    def __mul__(self, o):
        o = FC.lift(o)
        return FC(self.real * o.real - self.imag * o.imag, self.real * o.imag + self.imag * o.real)
    __rmul__ = __mul__

    def __truediv__(self, o):
        o = FC.lift(o)
        n = o.real * o.real + o.imag * o.imag
        return FC((self.real * o.real + self.imag * o.imag) / n, (self.imag * o.real - self.real * o.imag) / n)

    def __rtruediv__(self, o):
        return FC.lift(o) / self

    def __abs__(self):
        return _exact_sqrt(self.real * self.real + self.imag * self.imag)

    def __repr__(self):
        return 'FC(%s, %s)' % (self.real, self.imag)


def fr_str(x):
    x = Fr(x)
    return str(x.numerator) if x.denominator == 1 else '%d/%d' % (x.numerator, x.denominator)
