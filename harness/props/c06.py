"""C06: length() is the true arc length: bracketed, additive, finite, scipy-independent."""
from __future__ import annotations
import math
import warnings
from fractions import Fraction as Fr
import numpy as np
from ..tracejobs import *
from .. import symtrace as st, common
from ..gen_lean import Def
from ..runner import Corr, Failure
from .c10 import cxvars
from .c03 import allow_eq

LEAN_MODULES = ['SvgVerif.Props.C06', 'SvgVerif.Props.C06SegLen']
QA = ['p0x', 'p0y', 'p1x', 'p1y', 'p2x', 'p2y']


def _patched(P, isnan):
    """the float devices of QuadraticBezier.length: sqrt/log become traced real functions; the test that sends
    the code into the collinear fallback (isnan before the repair, `not isfinite` after it) is forced"""
    d = dict(sqrt=st.sqrt_approx, log=lambda x: st.fn_approx('log', x, math.log), isnan=(lambda x: isnan))
    if hasattr(P, 'isfinite'):
        d['isfinite'] = lambda x: not isnan
    return d


class _Patch(object):
    def __init__(self, P, **kw):
        self.P, self.kw = P, kw

    def __enter__(self):
        self.saved = {k: getattr(self.P, k) for k in self.kw}
        for k, v in self.kw.items():
            setattr(self.P, k, v)

    def __exit__(self, *a):
        for k, v in self.saved.items():
            setattr(self.P, k, v)


def gen_defs(spt, salt=0):
    P = spt.path
    defs = []
    tag = ('/%d' % salt) if salt else ''

    def line_job(r):
        ps, env = cxvars(['p0', 'p1'], r)
        (t0, t1, t), e2 = realvars(['t0', 't1', 't'], r)
        env.update(e2)
        seg = P.Line(*ps)
        args = ['p0x', 'p0y', 'p1x', 'p1y']
        d = seg.derivative(t)
        return [Def('line_length', args + ['t0', 't1'], node(seg.length(t0, t1)), 'Line.length(t0, t1)'),
                Def('line_dx', args + ['t'], node(d.real), 'Line.derivative(t).real'),
                Def('line_dy', args + ['t'], node(d.imag), 'Line.derivative(t).imag')]
    defs += retry(line_job, 'c06/line' + tag)

    def quad_job(r):
        ps, env = cxvars(['p0', 'p1', 'p2'], r)
        (t0, t1, t), e2 = realvars(['t0', 't1', 't'], r)
        env.update(e2)
        seg = P.QuadraticBezier(*ps)
        with _Patch(P, **_patched(P, False)):
            s = seg.length(t0, t1)
        d = seg.derivative(t)
        return [Def('quad_length', QA + ['t0', 't1'], node(s), 'QuadraticBezier.length(t0, t1): the closed form (abs(a) >= 1e-12, result not NaN)'),
                Def('quad_dx', QA + ['t'], node(d.real), 'QuadraticBezier.derivative(t).real'),
                Def('quad_dy', QA + ['t'], node(d.imag), 'QuadraticBezier.derivative(t).imag')]
    defs += retry(quad_job, 'c06/quad' + tag)

    def straight_job(r):
        # shadows with start - 2*control + end == 0: the branch abs(a) < 1e-12
        (p0, p2), env = cxvars(['p0', 'p2'], r)
        env['p1x'] = (env['p0x'] + env['p2x']) / 2
        env['p1y'] = (env['p0y'] + env['p2y']) / 2
        p1 = st.Cx.var('p1', env['p1x'], env['p1y'])
        (t0, t1), e2 = realvars(['t0', 't1'], r)
        seg = P.QuadraticBezier(p0, p1, p2)
        with allow_eq():
            with _Patch(P, **_patched(P, False)):
                s = seg.length(t0, t1)
        return [Def('quad_length_straight', QA + ['t0', 't1'], node(s), 'QuadraticBezier.length(t0, t1): the branch abs(a) < 1e-12')]
    defs += retry(straight_job, 'c06/quad-straight' + tag)

    def fold_job(which):
        def job(r):
            ps, env = cxvars(['p0', 'p1', 'p2'], r)
            a = env['p0x'] - 2 * env['p1x'] + env['p2x'], env['p0y'] - 2 * env['p1y'] + env['p2y']
            b = 2 * (env['p1x'] - env['p0x']), 2 * (env['p1y'] - env['p0y'])
            tstar = math.hypot(float(b[0]), float(b[1])) / (2 * math.hypot(float(a[0]), float(a[1])))
            ts = Fr(tstar).limit_denominator(64)
            if ts <= 0:
                raise st.Degenerate('tstar')
            v0, v1 = {'before': (ts / 4, ts / 2), 'after': (ts * 2, ts * 3), 'across': (ts / 2, ts * 2)}[which]
            t0 = st.R.var('t0', v0)
            t1 = st.R.var('t1', v1)
            seg = P.QuadraticBezier(*ps)
            with _Patch(P, **_patched(P, True)):
                s = seg.length(t0, t1)
            return [Def('quad_fold_' + which, QA + ['t0', 't1'], node(s),
                        'QuadraticBezier.length(t0, t1): the isnan fallback, case %s' % {'before': 't1 < tstar', 'after': 'tstar < t0', 'across': 't0 <= tstar <= t1'}[which])]
        return job
    for which in ('before', 'after', 'across'):
        defs += retry(fold_job(which), 'c06/quad-fold-%s' % which + tag)
    return defs


GEN = {'C06': gen_defs}

ASSUMPTIONS = [
    'scipy.integrate.quad is an oracle: with scipy, CubicBezier/Arc.length return quad(f, t0, t1)[0] for f = abs(derivative(.)) (the hand-over is checked on every run by a recorder); its accuracy is sampled against an independent Gauss-Legendre rule and the chord/control-polygon bracket',
    'the closed form of QuadraticBezier.length is proved equal to the integral of the speed over R for non-collinear control points; that the float evaluation gives NaN exactly on the fold-back set (so that the proved fallback formulae are the ones used there) is IEEE behaviour, sampled',
    'segment_length is modelled with a fuel argument; Python raises RecursionError where the model returns none; wall-clock time of the fallback at large coordinate scale is not modelled',
]


def _fr(x):
    x = Fr(x)
    return str(x.numerator) if x.denominator == 1 else '%d/%d' % (x.numerator, x.denominator)


def correspond(ctx):
    spt = ctx.spt
    P = spt.path
    r = ctx.rng('corr')
    out = []
    # ---- segment_length on exact 1-D polynomial curves --------------------------------------------------
    c = Corr('segment_length/1-D exact')

    class Poly1D(object):
        def __init__(self, co):
            self.co = co

        def point(self, t):
            acc = Fr(0)
            for cf in reversed(self.co):
                acc = cf + t * acc
            return acc
    lines, impl = [], []
    for it in range(ctx.n(150, 1500)):
        deg = r.choice([1, 2, 2, 3, 3])
        co = [Fr(r.randint(-8, 8), r.choice([1, 2, 3])) for _ in range(deg + 1)]
        if r.random() < 0.2:
            co[-1] = Fr(0)
        err = r.choice([Fr(1, 10), Fr(1, 100), Fr(1, 1000), Fr(1, 10 ** 6), Fr(0)]) if deg > 1 or r.random() < 0.5 else Fr(1, 10 ** 9)
        if err == 0 and deg > 1:
            err = Fr(1, 10 ** 5)
        md = r.choice([0, 1, 2, 3, 5])
        a = Fr(r.randint(0, 4), 8)
        b = a + Fr(r.randint(0, 8), 8) if r.random() < 0.9 else a - Fr(1, 8)
        fuel = 60
        lines.append('seglen %s %d %d %s %s | %s' % (_fr(err), md, fuel, _fr(a), _fr(b), ' '.join(_fr(x) for x in co)))
        cv = Poly1D(co)
        calls = [0]
        pt = cv.point

        def counting(t, pt=pt, calls=calls):
            calls[0] += 1
            return pt(t)
        cv.point = counting
        try:
            v = P.segment_length(cv, a, b, pt(a), pt(b), err, md, 0)
            # every call of curve.point adds one cut; leaves = calls, cuts listed = 2 per leaf
            impl.append('value %s cuts %d' % (_fr(v), _cuts(calls[0])))
        except RecursionError:
            impl.append('recursion')
        c.count('deg=%d md=%d err=%s' % (deg, md, 'tiny' if err < Fr(1, 10 ** 4) else 'coarse'))
    c.compare(lines, [m.strip() for m in common.driver(lines)], impl)
    out.append(c)

    # ---- Path.length(T0, T1) on stub segments ---------------------------------------------------------------
    c2 = Corr('Path.length/decomposition')

    class Stub(object):
        def __init__(self, idx, a, b):
            self.idx, self.a, self.b = idx, a, b
            self.start, self.end = complex(idx, 0), complex(idx + 1, 0)

        def length(self, t0=0, t1=1, error=None, min_depth=None):
            return self.a * (t1 - t0) + self.b * (t1 * t1 - t0 * t0)
    lines, impl = [], []
    for it in range(ctx.n(300, 3000)):
        n = r.randint(1, 6) if r.random() < 0.95 else 0
        ab = [(Fr(r.randint(1, 9), r.choice([1, 2, 3])), Fr(r.randint(0, 5), r.choice([1, 2]))) for _ in range(n)]
        if n and r.random() < 0.3:
            ab = [ab[0]] * n
        tot = sum(a + b for a, b in ab)
        cls = r.choice(['generic', 'joint', 'ends', 'reversed', 'same'])
        if cls == 'joint' and n > 1:
            k = r.randint(1, n - 1)
            T0 = sum(a + b for a, b in ab[:k]) / tot
            T1 = Fr(r.randint(0, 16), 16)
            if r.random() < 0.5:
                T0, T1 = T1, T0
        elif cls == 'ends':
            T0, T1 = r.choice([(Fr(0), Fr(1)), (Fr(0), Fr(r.randint(0, 16), 16)), (Fr(r.randint(0, 16), 16), Fr(1)), (Fr(1), Fr(0))])
        elif cls == 'same':
            T0 = T1 = Fr(r.randint(0, 16), 16)
        else:
            T0, T1 = sorted([Fr(r.randint(0, 64), 64), Fr(r.randint(0, 64), 64)])
            if cls == 'reversed':
                T0, T1 = T1, T0
        path = P.Path(*[Stub(i, a, b) for i, (a, b) in enumerate(ab)])
        lines.append('pathlen %s | %s %s' % (' '.join('%s %s' % (_fr(a), _fr(b)) for a, b in ab), _fr(T0), _fr(T1)))
        try:
            v = path.length(T0, T1)
            impl.append('value %s' % _fr(v))
        except (IndexError, ZeroDivisionError):
            impl.append('bug')
        except Exception as e:
            if e is not P.BugException:
                raise
            impl.append('bug')
        c2.count('n=%d %s' % (min(n, 3), cls))
    c2.compare(lines, [m.strip() for m in common.driver(lines)], impl)
    out.append(c2)
    return out


def _cuts(calls):
    """segCuts lists two parameters per leaf; there is one curve.point call per node of the recursion
    tree (internal nodes + leaves = 2*leaves - 1)"""
    leaves = (calls + 1) // 2
    return 2 * leaves


# ------------------------------------------------------------------------------------------------------------------
# sampler: the property as stated, on the real float code

def _decast(ps, t):
    ps = list(ps)
    left, right = [ps[0]], [ps[-1]]
    while len(ps) > 1:
        ps = [(1 - t) * a + t * b for a, b in zip(ps, ps[1:])]
        left.append(ps[0])
        right.append(ps[-1])
    return left, right[::-1]


def _restrict(ps, t0, t1):
    if t0 > 0:
        ps = _decast(ps, t0)[1]
        t1 = (t1 - t0) / (1 - t0) if t0 < 1 else 1.0
    if t1 < 1:
        ps = _decast(ps, t1)[0]
    return ps


def bracket(ps, t0, t1, depth=10):
    """rigorous [sum of chords, sum of control polygon lengths] over 2^depth pieces of the Bezier on [t0,t1]"""
    pieces = [_restrict(ps, t0, t1)]
    for _ in range(depth):
        nxt = []
        for q in pieces:
            l, rr = _decast(q, 0.5)
            nxt += [l, rr]
        pieces = nxt
    lo = math.fsum(abs(q[-1] - q[0]) for q in pieces)
    hi = math.fsum(sum(abs(b - a) for a, b in zip(q, q[1:])) for q in pieces)
    return lo, hi


_GL = np.polynomial.legendre.leggauss(24)


def gauss(speed, t0, t1, panels=64):
    tot = 0.0
    xs, ws = _GL
    edges = np.linspace(t0, t1, panels + 1)
    for a, b in zip(edges, edges[1:]):
        h = (b - a) / 2
        m = (a + b) / 2
        tot += h * math.fsum(w * speed(m + h * x) for x, w in zip(xs, ws))
    return tot


def _rand_seg(P, r, scale):
    z = lambda: complex(r.uniform(-1, 1), r.uniform(-1, 1)) * scale
    kind = r.choice(['line', 'quad', 'quad', 'cubic', 'cubic', 'arc'])
    shape = r.choice(['generic', 'generic', 'collinear', 'foldback', 'repeated', 'axis', 'loop'])
    if kind == 'line':
        a, b = z(), z()
        if shape == 'axis':
            b = complex(b.real, a.imag)
        return kind, shape, P.Line(a, b), [a, b]
    if kind == 'arc':
        a, b = z(), z()
        rad = complex(r.uniform(0.2, 3), r.uniform(0.2, 3)) * scale
        if shape in ('collinear', 'repeated'):
            rad = complex(rad.real, rad.real)
        if shape in ('axis', 'loop'):     # nearly circular: the radii differ by a relative 1e-9 .. 1e-5
            rad = complex(rad.real, rad.real * (1 + r.choice([1, -1]) * r.choice([1e-9, 2e-6, 9e-6])))
        if shape == 'foldback':
            rad = complex(rad.real, rad.real * r.choice([1e-2, 30]))
        rot = r.choice([0, 0, r.uniform(-180, 180)])
        return kind, shape, P.Arc(a, rad, rot, r.random() < 0.5, r.random() < 0.5, b), None
    n = 3 if kind == 'quad' else 4
    if shape == 'generic':
        ps = [z() for _ in range(n)]
    elif shape == 'loop':     # a closed loop: end == start exactly (zero chord, positive length)
        ps = [z() for _ in range(n)]
        ps[-1] = ps[0]
        if n == 4 and r.random() < 0.3:   # mirror-symmetric teardrop: point(t) and point(1-t) share a coordinate
            ps = [ps[0], ps[0] + complex(1, 1) * scale, ps[0] + complex(-1, 1) * scale, ps[0]]
    else:
        a = z()
        d = z()
        if shape == 'axis':
            d = complex(d.real, 0) if r.random() < 0.5 else complex(0, d.imag)
        if shape in ('collinear', 'axis'):
            lam = sorted(r.uniform(0, 1) for _ in range(n - 2))
            ps = [a] + [a + l * d for l in lam] + [a + d]
        elif shape == 'foldback':
            lam = [r.uniform(-1.5, 2.5) for _ in range(n - 2)]
            ps = [a] + [a + l * d for l in lam] + [a + d * r.choice([1, 1, 0.3, 0])]
        else:  # repeated control points
            ps = [z() for _ in range(n)]
            i = r.randrange(n - 1)
            ps[i + 1] = ps[i]
            if r.random() < 0.3:
                ps = [ps[0]] * (n - 1) + [z()]
    seg = P.QuadraticBezier(*ps) if n == 3 else P.CubicBezier(*ps)
    return kind, shape, seg, ps


def sample(ctx, budget=1.0, hint=None, broken=None):
    spt = ctx.spt
    P = spt.path
    r = ctx.rng('sample' + ('' if budget == 1.0 else '-search'))
    fails, samples = [], []
    nontriv = set()
    n_eval = 0

    def fail(sig, what, inp, obs, exp, repro=''):
        if len(fails) < 40 and sum(1 for f in fails if f['signature'] == sig) < 2:
            fails.append(Failure(signature=sig, what=what, input=inp, observed=obs, expected=exp, repro=repro))

    had_quad = P._quad_available
    # --- the hand-over to quad / segment_length (what the oracles are asked) -------------------------------------
    try:
        for kind in ('cubic', 'arc'):
            seg = P.CubicBezier(0j, 1 + 2j, 3 - 1j, 4 + 0.5j) if kind == 'cubic' else P.Arc(0j, 2 + 1j, 20, False, True, 2 + 1j)
            for t0, t1 in ((0.125, 0.75), (0, 1)):
                rec = {}

                def fake_quad(f, a, b, **kw):
                    rec['q'] = (f, a, b, kw)
                    return (123.0, 0.0)

                def fake_sl(curve, a, b, pa, pb, error, min_depth, depth):
                    rec['s'] = (curve, a, b, pa, pb, error, min_depth, depth)
                    return 321.0
                saved = (P.quad if hasattr(P, 'quad') else None, P.segment_length, P._quad_available)
                try:
                    P.segment_length = fake_sl
                    if saved[0] is not None:
                        P.quad = fake_quad
                        P._quad_available = True
                        seg2 = seg.reversed().reversed() if kind == 'arc' else P.CubicBezier(*seg.bpoints())
                        got = seg2.length(t0, t1, error=1e-7)
                        f, a, b, kw = rec.get('q', (None, None, None, None))
                        ok = got == 123.0 and f is not None and (a, b) == (t0, t1) and kw.get('epsabs') == 1e-7 and all(
                            f(tau) == abs(seg2.derivative(tau)) for tau in (0.0, 0.3, 1.0))
                        n_eval += 1
                        if not ok:
                            fail('%s.length/quad hand-over' % kind, 'length does not return quad(abs(derivative), t0, t1, epsabs=error)[0]', {'seg': repr(seg), 't0': t0, 't1': t1},
                                 repr((got, a, b, kw)), 'quad(|derivative|, %r, %r, epsabs=1e-7)' % (t0, t1))
                    P._quad_available = False
                    seg2 = seg.reversed().reversed() if kind == 'arc' else P.CubicBezier(*seg.bpoints())
                    got = seg2.length(t0, t1, error=1e-7, min_depth=4)
                    s = rec.get('s')
                    ok = got == 321.0 and s is not None and s[0] is seg2 and s[1:3] == (t0, t1) and s[3] == seg2.point(t0) and s[4] == seg2.point(t1) and s[5:] == (1e-7, 4, 0)
                    n_eval += 1
                    if not ok:
                        fail('%s.length/segment_length hand-over' % kind, 'without scipy length does not return segment_length(self, t0, t1, point(t0), point(t1), error, min_depth, 0)',
                             {'seg': repr(seg), 't0': t0, 't1': t1}, repr((got, s and s[1:])), 'segment_length(seg, %r, %r, ..., 1e-7, 4, 0)' % (t0, t1))
                finally:
                    if saved[0] is not None:
                        P.quad = saved[0]
                    P.segment_length, P._quad_available = saved[1], saved[2]
    except Exception as e:  # a changed signature shows up here
        fail('length/hand-over probe raised', 'the probe of the quad / segment_length hand-over raised', {}, repr(e), 'no exception')

    modes = [True, False] if had_quad else [False]
    N = int(ctx.n(140, 1500) * budget)
    try:
        for it in range(N):
            mode = modes[it % len(modes)]
            P._quad_available = mode
            scale = r.choice([1e-2, 1, 1, 30]) if not mode else r.choice([1e-3, 1, 1, 100, 1e4])
            try:
                with warnings.catch_warnings():
                    warnings.simplefilter('ignore')
                    kind, shape, seg, ps = _rand_seg(P, r, scale)
            except Exception:
                continue
            t0, t1 = sorted([r.choice([0.0, r.uniform(0, 1)]), r.choice([1.0, r.uniform(0, 1)])])
            if shape == 'loop' and r.random() < 0.6:
                t0, t1 = 0.0, 1.0
            if shape in ('foldback', 'repeated', 'collinear') and kind in ('quad', 'cubic') and r.random() < 0.4:
                # a NARROW interval placed (off-centre) around the parameter where the speed is smallest: for a fold-back that is the
                # turning point, where the chord of the interval says nothing about its length
                try:
                    g_ = np.linspace(0, 1, 2049)
                    tstar = float(g_[int(np.argmin([abs(seg.derivative(x_)) for x_ in g_]))])
                    w_ = r.choice([1 / 40, 1 / 100, 1 / 400, 1 / 2000, 1 / 10000])
                    t0 = min(max(tstar - w_ * r.uniform(0.1, 0.9), 0.0), 1.0 - w_)
                    t1 = t0 + w_
                    shape = shape + '/narrow'
                except Exception:
                    pass
            rep = 'svgpathtools.%r' % (seg,)
            tag = '%s scipy=%s' % (kind, mode)
            pre = None
            if r.random() < 0.3:
                # the same object after another query that measures it on the way (with its own accuracy needs): whatever that query
                # left behind must not leak into the answer at the accuracy asked for now
                pre = r.choice(['length(error=1e-1)', 'length(error=1e-3, min_depth=1)', 'area', 'reversed-length', 'bbox'])
                try:
                    with warnings.catch_warnings():
                        warnings.simplefilter('ignore')
                        if pre == 'length(error=1e-1)':
                            seg.length(error=1e-1); pre_src = 's.length(error=1e-1)'
                        elif pre.startswith('length'):
                            seg.length(error=1e-3, min_depth=1); pre_src = 's.length(error=1e-3, min_depth=1)'
                        elif pre == 'area':
                            # (the default chord_length of 1e-4 makes area() build millions of chords for an arc of size 100)
                            cl_ = 0.02 * max(abs(seg.point(0.5) - seg.start), abs(seg.end - seg.start))
                            P.Path(seg, P.Line(seg.end, seg.start)).area(chord_length=cl_)
                            pre_src = 'svgpathtools.Path(s, svgpathtools.Line(s.end, s.start)).area(chord_length=%r)' % cl_
                        elif pre == 'bbox':
                            seg.bbox(); pre_src = 's.bbox()'
                        else:
                            seg.reversed().length(error=1e-2); pre_src = 's.reversed().length(error=1e-2)'
                except Exception:
                    pre = None
                if pre is not None:
                    if r.random() < 0.75:
                        t0, t1 = 0.0, 1.0
                    tag += ' after ' + pre.split('(')[0]
            def mkrep(call, pre=pre, rep=rep, pre_src=(pre_src if pre is not None else None)):
                return call(rep) if pre is None else '(lambda s: (%s, %s)[-1])(%s)' % (pre_src, call('s'), rep)
            n_eval += 1
            nontriv.add((kind, shape, mode, t0 == 0, t1 == 1, pre))
            try:
                with warnings.catch_warnings():
                    warnings.simplefilter('ignore')
                    L = seg.length(t0, t1)
            except RecursionError:
                continue
            except Exception as e:
                fail('length raises (%s)' % tag, 'length(t0, t1) raised', {'seg': repr(seg), 't0': t0, 't1': t1, 'scipy': mode}, repr(e), 'a length',
                     mkrep(lambda o: '%s.length(%r, %r)' % (o, t0, t1)))
                continue
            size = max(abs(seg.point(0.5) - seg.point(0)), abs(seg.point(1) - seg.point(0)), abs(seg.point(0.25) - seg.point(0.75)), 1e-300) if kind != 'line' else abs(seg.end - seg.start) + 1e-300
            if not (isinstance(L, (float, int, np.floating)) and math.isfinite(L) and L >= -1e-12 * size):
                fail('length not finite/non-negative (%s)' % tag, 'length(t0, t1) is NaN, infinite, complex or negative', {'seg': repr(seg), 't0': t0, 't1': t1, 'shape': shape, 'scipy': mode},
                     repr(L), '>= 0, finite', mkrep(lambda o: '%s.length(%r, %r)' % (o, t0, t1)))
                continue
            speed = lambda tau: abs(seg.derivative(tau))
            # does the speed vanish (nearly) inside the interval?
            taus = np.linspace(t0, t1, 257)
            sp = [speed(x) for x in taus]
            singular = min(sp) < 1e-3 * (max(sp) + 1e-300)
            if not singular and min(sp) < 0.05 * max(sp) and t1 > t0:
                # refine the smallest sample by ternary search: a cusp between two samples
                i = int(np.argmin(sp))
                lo_, hi_ = taus[max(i - 1, 0)], taus[min(i + 1, 256)]
                for _ in range(60):
                    m1, m2 = lo_ + (hi_ - lo_) / 3, hi_ - (hi_ - lo_) / 3
                    if speed(m1) < speed(m2):
                        hi_ = m2
                    else:
                        lo_ = m1
                singular = speed((lo_ + hi_) / 2) < 1e-3 * max(sp)
            rel = 5e-3 if singular else 1e-6
            if ps is not None:
                lo, hi = bracket(ps, t0, t1)
                slack = rel * max(hi, 1e-300)
                if not mode:
                    slack += 1e-9 * size    # the fallback's own error parameter is absolute (1e-12 per leaf)
                if not (lo - slack <= L <= hi + slack):
                    fail('length outside chord/control-polygon bracket (%s)' % tag, 'length(t0,t1) is outside the rigorous bracket of a 2^10 subdivision',
                         {'seg': repr(seg), 't0': t0, 't1': t1, 'shape': shape, 'scipy': mode}, repr(L), '[%r, %r]' % (lo, hi), mkrep(lambda o: '%s.length(%r, %r)' % (o, t0, t1)))
            else:
                g = gauss(speed, t0, t1)
                if abs(L - g) > rel * max(g, 1e-300) + 1e-9 * size:
                    fail('length differs from quadrature (%s)' % tag, 'length(t0,t1) differs from composite Gauss-Legendre quadrature of |derivative|',
                         {'seg': repr(seg), 't0': t0, 't1': t1, 'scipy': mode}, repr(L), repr(g), mkrep(lambda o: '%s.length(%r, %r)' % (o, t0, t1)))
                # chord lower bound
                cl = math.fsum(abs(seg.point(b) - seg.point(a)) for a, b in zip(taus, taus[1:]))
                if L < cl - rel * cl - 1e-9 * size:
                    fail('length below inscribed polygon (%s)' % tag, 'length(t0,t1) is shorter than an inscribed polygon', {'seg': repr(seg), 't0': t0, 't1': t1, 'scipy': mode},
                         repr(L), '>= %r' % cl, mkrep(lambda o: '%s.length(%r, %r)' % (o, t0, t1)))
            # additivity
            tm = r.uniform(t0, t1)
            with warnings.catch_warnings():
                warnings.simplefilter('ignore')
                try:
                    L1, L2 = seg.length(t0, tm), seg.length(tm, t1)
                except RecursionError:
                    continue
            if abs(L1 + L2 - L) > rel * max(L, 1e-300) + 1e-9 * size:
                fail('length not additive (%s)' % tag, 'length(t0,tm) + length(tm,t1) != length(t0,t1)', {'seg': repr(seg), 't0': t0, 'tm': tm, 't1': t1, 'shape': shape, 'scipy': mode},
                     repr(L1 + L2), repr(L), mkrep(lambda o: '(%s.length(%r, %r), %s.length(%r, %r), %s.length(%r, %r))' % (o, t0, tm, o, tm, t1, o, t0, t1)))
            if len(samples) < 3:
                samples.append({'seg': repr(seg), 't0': t0, 't1': t1, 'length': float(L), 'scipy': mode})
        # --- the same segment object asked again at the default accuracy after it was measured coarsely -------------------
        for it in range(int(ctx.n(24, 200) * budget)):
            mode = modes[-1] if it % 4 else modes[0]          # mostly the pure-Python fallback, where `error` really matters
            P._quad_available = mode
            a, b = complex(r.uniform(-1, 1), r.uniform(-1, 1)), complex(r.uniform(-1, 1), r.uniform(-1, 1))
            if it % 3 == 0:
                seg = P.CubicBezier(a, a + complex(r.uniform(-2, 2), r.uniform(-2, 2)), b + complex(r.uniform(-2, 2), r.uniform(-2, 2)), b)
            else:
                seg = P.Arc(a, complex(r.uniform(1.5, 4), r.uniform(0.6, 4)), r.choice([0, 20, -75.5]), r.random() < 0.5, r.random() < 0.5, b)
            kindc = type(seg).__name__
            pre = r.choice(['s.length(error=1e-1)', 's.length(error=1e-2, min_depth=0)', 'svgpathtools.Path(s, svgpathtools.Line(s.end, s.start)).area(chord_length=0.05)',
                            's.reversed().length(error=1e-1)', 'svgpathtools.Path(s).length(error=1e-1)', 's.length()', 's.length()'])
            src = '(lambda s: (%s, s.length())[-1])(svgpathtools.%r)' % (pre, seg)
            if pre == 's.length()':
                # a copy made by a similarity AFTER the original was measured (negative and fractional uniform factors, a turn, a shift):
                # the copy's length is |factor| times the original's
                op_, fac_ = r.choice([('scaled(-1)', 1.0), ('scaled(-2.5, origin=(1+2j))', 2.5), ('scaled(0.5)', 0.5), ('rotated(123.0)', 1.0), ('translated((3-4j))', 1.0),
                                      ('scaled(-1).scaled(-1)', 1.0)])
                src = '(lambda s: (s.length(), s.%s.length())[-1])(svgpathtools.%r)' % (op_, seg)
                pre = 'measured, then ' + op_
            n_eval += 1
            nontriv.add(('coarse-first', kindc, mode, pre.split('(')[0]))
            with warnings.catch_warnings():
                warnings.simplefilter('ignore')
                try:
                    L = eval(src, {'svgpathtools': spt})
                except Exception as e:
                    fail('length raises (%s scipy=%s)' % (kindc, mode), 'length() raised after a coarse measurement', {'seg': repr(seg), 'first': pre, 'scipy': mode}, repr(e)[:200], 'a length', src)
                    continue
            g = gauss(lambda tau: abs(seg.derivative(tau)), 0.0, 1.0)
            if pre.startswith('measured, then'):
                g = g * fac_
            if not (abs(L - g) <= 1e-6 * g):
                fail('length after a coarser measurement (%s scipy=%s)' % (kindc, mode), 'length() at the default accuracy returns what an earlier, coarser measurement of the same object left behind',
                     {'seg': repr(seg), 'first': pre, 'scipy': mode}, repr(L), repr(g), src)
        # --- recorded witnesses of repaired defects, re-examined on every run (a fixed entry suppresses nothing) ---------------
        if had_quad:
            P._quad_available = True
            wsrc = ('svgpathtools.Arc(start=(-0.6187631941751703+0.028796888197383685j), radius=(0.46382648581069774+2.7077844523193573j), '
                    'rotation=-126.35661885741143, large_arc=True, sweep=False, end=(0.30607711070810684+0.18859482386243198j))')
            warc = eval(wsrc, {'svgpathtools': spt})
            wt0, wt1 = 0.18711591687310503, 0.7881591469624175
            n_eval += 1
            with warnings.catch_warnings():
                warnings.simplefilter('ignore')
                Lw = warc.length(wt0, wt1)
            gw = gauss(lambda tau: abs(warc.derivative(tau)), wt0, wt1)
            wsrc2 = ('svgpathtools.CubicBezier(start=(-0.08405880819010325-0.49192067969558617j), control1=(-0.4878000128764848-0.05636492154796846j), '
                     'control2=(-0.658840809700296-0.3786111144539426j), end=(-0.08075308200005171-0.23238462662476178j))')
            wcub = eval(wsrc2, {'svgpathtools': spt})
            n_eval += 1
            with warnings.catch_warnings():
                warnings.simplefilter('ignore')
                Lc = wcub.length()
            lo_c, hi_c = bracket(list(wcub.bpoints()), 0.0, 1.0)
            if not (lo_c * (1 - 1e-6) <= Lc <= hi_c * (1 + 1e-6)):
                fail('length outside chord/control-polygon bracket (cubic scipy=True)', 'length() is outside the rigorous bracket of a 2^10 subdivision (a cubic with a sharp speed minimum: '
                     'quad\'s default relative tolerance accepts a first estimate that is off by 5e-4)', {'seg': repr(wcub), 't0': 0.0, 't1': 1.0, 'scipy': True}, repr(Lc),
                     '[%r, %r]' % (lo_c, hi_c), wsrc2 + '.length()')
            if abs(Lw - gw) > 1e-6 * gw:
                fail('length differs from quadrature (arc scipy=True)', 'length(t0,t1) differs from composite Gauss-Legendre quadrature of |derivative| (eccentric arc: quad\'s '
                     'default relative tolerance accepts a first estimate that is off by 4e-5)', {'seg': repr(warc), 't0': wt0, 't1': wt1, 'scipy': True},
                     repr(Lw), repr(gw), '%s.length(%r, %r)' % (wsrc, wt0, wt1))
        # --- paths: sum of segments, with and without scipy -------------------------------------------------
        for it in range(int(ctx.n(30, 300) * budget)):
            mode = modes[it % len(modes)]
            P._quad_available = mode
            segs = []
            cur = complex(r.uniform(-1, 1), r.uniform(-1, 1))
            for k in range(r.randint(1, 5)):
                with warnings.catch_warnings():
                    warnings.simplefilter('ignore')
                    kind, shape, seg, ps = _rand_seg(P, r, 1)
                segs.append(seg)
            if r.random() < 0.35:
                # two DIFFERENT segments with EQUAL hash in one path (CPython: hash(-1.0) == hash(-2.0)), on a small lattice:
                # a legal input on which anything keyed by hash(segment) goes wrong
                a_, b_ = complex(r.randint(-2, 2), r.randint(-2, 2)), complex(r.randint(0, 2), -1)
                tw = lambda z: complex(z.real, -2) if z.imag == -1 else z
                mk_ = r.choice([lambda *q: P.Line(q[0], q[1]), lambda *q: P.QuadraticBezier(q[0], q[2], q[1]),
                                lambda *q: P.CubicBezier(q[0], q[2], q[3], q[1])])
                c1_, c2_ = complex(r.randint(-2, 2), r.randint(1, 2)), complex(r.randint(-2, 2), 2)
                if a_ != b_ and a_ != tw(b_):
                    segs += [mk_(a_, b_, c1_, c2_), mk_(a_, tw(b_), c1_, c2_)]
                    r.shuffle(segs)
            path = P.Path(*segs)
            n_eval += 1
            with warnings.catch_warnings():
                warnings.simplefilter('ignore')
                tot = path.length()
                parts = [s.length() for s in segs]
            nontriv.add(('path', len(segs), mode))
            if not all(math.isfinite(x) for x in parts):
                bad = [sg for sg, x in zip(segs, parts) if not math.isfinite(x)][0]
                fail('length not finite/non-negative (%s scipy=%s)' % (type(bad).__name__, mode), 'length() is NaN or infinite', {'seg': repr(bad), 'scipy': mode},
                     repr(bad.length()), '>= 0, finite', 'svgpathtools.%r.length()' % (bad,))
                continue
            if abs(tot - math.fsum(parts)) > 1e-9 * max(tot, 1e-300):
                fail('Path.length != sum of segments (scipy=%s)' % mode, 'a path\'s length is not the sum of its segments\' lengths', {'path': repr(path), 'scipy': mode}, repr(tot),
                     repr(math.fsum(parts)), 'svgpathtools.%r.length()' % (path,))
            T0, T1 = sorted([r.uniform(0, 1), r.uniform(0, 1)])
            with warnings.catch_warnings():
                warnings.simplefilter('ignore')
                part = path.length(T0, T1)
                k0, u0 = path.T2t(T0)
                k1, u1 = path.T2t(T1)
                if k0 == k1:
                    want = segs[k0].length(u0, u1)
                else:
                    want = segs[k0].length(u0, 1) + math.fsum(s.length() for s in segs[k0 + 1:k1]) + segs[k1].length(0, u1)
            if abs(part - want) > 1e-9 * max(tot, 1e-300) or not (-1e-9 * tot <= part <= tot * (1 + 1e-9)):
                fail('Path.length(T0,T1) (scipy=%s)' % mode, 'partial path length is not first-partial + whole-middle + last-partial', {'path': repr(path), 'T0': T0, 'T1': T1, 'scipy': mode},
                     repr(part), repr(want), 'svgpathtools.%r.length(%r, %r)' % (path, T0, T1))
    finally:
        P._quad_available = had_quad
    return {'evaluations': n_eval, 'distinct_nontrivial': len(nontriv), 'failures': fails, 'samples': samples,
            'rule': 'random Line/Quadratic/Cubic/Arc at scales 1e-3..1e4 (1e-2..30 without scipy): generic, collinear, collinear with fold-back, repeated control points, axis-aligned, '
                    'eccentric and rotated arcs; sub-intervals incl. [0,1]; both values of svgpathtools.path._quad_available; checks: finite and >= 0, inside the rigorous '
                    '[chords, control polygons] bracket of a 2^10 de Casteljau subdivision (Beziers) or against 64x24-point Gauss-Legendre and an inscribed polygon (arcs), '
                    '30% of the segments are measured after another query on the same object (length at a coarser accuracy, Path.area() of the closed-up segment, bbox, reversed().length()); additivity at a random split, Path.length() = sum, Path.length(T0,T1) decomposition; plus recorder probes of what quad / segment_length are handed. '
                    'distinct = distinct (kind, shape, scipy?, t0==0, t1==1)'}


def replay(spt, f):
    from .c19 import replay as rp
    P = spt.path
    saved = P._quad_available
    inp = f.get('input') if isinstance(f.get('input'), dict) else {}
    try:
        if 'scipy' in inp or 'scipy_quad' in inp:
            P._quad_available = bool(inp.get('scipy', inp.get('scipy_quad'))) and saved
            print('svgpathtools.path._quad_available =', P._quad_available)
        return rp(spt, f)
    finally:
        P._quad_available = saved
