"""C07: ilength inverts length on [0, L], is monotone, total and terminates."""
from __future__ import annotations
import math
import cmath
import struct
import warnings
import numpy as np
from fractions import Fraction as Fr
from .. import common
from ..runner import Corr, Failure

LEAN_MODULES = ['SvgVerif.Props.C07', 'SvgVerif.Props.C07Mono', 'SvgVerif.Props.C07Path']
ASSUMPTIONS = [
    'curve.length(t1=t) is an input of the model (its correctness is C06); exact-arithmetic theorems assume nothing about it, the tolerance-exit theorem holds for any length function',
    'the grid totality theorem bounds the iterations by the number of grid points between the ends; that IEEE halving reaches adjacent doubles within ~1100 < maxits=10000 iterations is exercised bit-exactly by the stall correspondence stream, not proved',
    'monotonicity in s is proved for Lines and sampled for curves (numerical length() is not exactly monotone)',
]


def _fr(x):
    x = Fr(x)
    return str(x.numerator) if x.denominator == 1 else '%d/%d' % (x.numerator, x.denominator)


def _stubs(spt):
    P = spt.path

    class StubCurve(P.CubicBezier):
        def __init__(self, L, a):
            P.CubicBezier.__init__(self, 0j, 1 + 1j, 2 - 1j, 3 + 0j)
            self.L, self.a = Fr(L), Fr(a)

        def _f(self, t):
            t = Fr(t)
            return self.L * (self.a * t + (1 - self.a) * t * t)

        def length(self, t0=0, t1=1, error=None, min_depth=None):
            return self._f(t1) - self._f(t0)

    class StubQuad(P.QuadraticBezier):
        def __init__(self, L, a):
            P.QuadraticBezier.__init__(self, 0j, 1 + 1j, 3 + 0j)
            self.L, self.a = Fr(L), Fr(a)
        _f = StubCurve._f
        length = StubCurve.length

    class StubArc(P.Arc):
        """an Arc (isinstance) whose length is prescribed; its geometric attributes are decoys: the search in
        inv_arclength must not depend on them"""
        def __init__(self, L, a, radius):
            self.L, self.a = Fr(L), Fr(a)
            self.start, self.end = 0j, 2 + 0j
            self.radius, self.rotation, self.large_arc, self.sweep = radius, 0.0, False, True
            self.center, self.theta, self.delta = 1 + 0j, 180.0, 180.0
        _f = StubCurve._f
        length = StubCurve.length

    class StubLine(P.Line):
        def __init__(self, L):
            P.Line.__init__(self, 0j, 1 + 0j)
            self.L = Fr(L)

        def length(self, t0=0, t1=1, error=None, min_depth=None):
            return self.L * (Fr(t1) - Fr(t0))

    class StepCurve(P.CubicBezier):
        """float length that is never within tolerance of the target 0.5"""

        def __init__(self, c):
            P.CubicBezier.__init__(self, 0j, 1 + 1j, 2 - 1j, 3 + 0j)
            self.c = c

        def length(self, t0=0, t1=1, error=None, min_depth=None):
            return 0.0 if t1 < self.c else 1.0
    StubCurve.variants = (StubCurve, StubQuad, StubArc)
    return StubCurve, StubLine, StepCurve


def _run(spt, curve, s, s_tol, maxits):
    P = spt.path
    with warnings.catch_warnings(record=True) as w:
        warnings.simplefilter('always')
        try:
            t = P.inv_arclength(curve, s, s_tol=s_tol, maxits=maxits)
        except ValueError:
            return 'valueerror'
        except AssertionError:
            return 'assert'
        except Exception as e:
            if 'Maximum iterations' in str(e):
                return 'maxits'
            return 'raise ' + type(e).__name__
    stalled = any('as close as a float' in str(x.message) for x in w)
    return ('stalled ' if stalled else 'value ') + _fr(Fr(t))


def correspond(ctx):
    spt = ctx.spt
    P = spt.path
    StubCurve, StubLine, StepCurve = _stubs(spt)
    r = ctx.rng('corr')
    out = []
    # ---- segments (exact) ------------------------------------------------------------
    c = Corr('inv_arclength/segment')
    lines, impl = [], []
    for it in range(ctx.n(300, 3000)):
        L = Fr(r.randint(1, 40), r.choice([1, 2, 4]))
        a = Fr(r.randint(0, 8), 8)
        k = r.choice([2, 4, 6, 8])
        s_tol = L * Fr(1, 2 ** k)
        maxits = r.choice([50, 50, 50, 3, 1])
        q = r.random()
        if q < 0.1:
            s = r.choice([Fr(0), L, -Fr(1, 8), L + Fr(1, 8)])
        else:
            s = L * Fr(r.randint(0, 256), 256)
        if r.random() < 0.2:
            lines.append('invline %s %s' % (_fr(L), _fr(s)))
            impl.append(_run(spt, StubLine(L), s, s_tol, maxits))
            c.count('line')
        else:
            lines.append('invseg %s %s %s %d %s' % (_fr(L), _fr(a), _fr(s_tol), maxits, _fr(s)))
            cls = r.choice(StubCurve.variants)
            if cls.__name__ == 'StubArc':
                rr = r.choice([1.0, 2.5])
                curve = cls(L, a, complex(rr, rr * r.choice([1.0, 1.0, 1 + 1e-9, 1 + 5e-6, 1.5])))
            else:
                curve = cls(L, a)
            impl.append(_run(spt, curve, s, s_tol, maxits))
            c.count('%s maxits=%d' % (cls.__name__, maxits))
    c.compare(lines, [m.strip() for m in common.driver(lines)], impl)
    out.append(c)
    # ---- paths (exact; dyadic fractions so that t2T's float product is exact) ---------------
    c2 = Corr('inv_arclength/path')
    lines, impl = [], []
    for it in range(ctx.n(200, 2000)):
        n = r.randint(1, 5)
        total = 64
        cuts = sorted(r.sample(range(1, total), n - 1)) if n > 1 else []
        parts = [b - a for a, b in zip([0] + cuts, cuts + [total])]
        lens = [Fr(p, 8) for p in parts]
        kinds, segs, spec = [], [], []
        for l in lens:
            if r.random() < 0.4:
                segs.append(StubLine(l)); spec += ['line', _fr(l), '0']
            else:
                a = Fr(r.randint(0, 8), 8)
                segs.append(StubCurve(l, a)); spec += ['cubic', _fr(l), _fr(a)]
        path = P.Path(*segs)
        Ltot = sum(lens)
        q = r.random()
        if q < 0.3:
            k = r.randint(0, n)
            s = sum(lens[:k])           # exactly on a segment boundary
            c2.count('s on a boundary')
        elif q < 0.4:
            s = r.choice([Fr(0), Ltot, Ltot + 1, Fr(-1)])
        else:
            s = Fr(r.randint(0, 512), 64)
            if s > Ltot:
                s = Ltot - Fr(1, 64)
        s_tol = Fr(1, 2 ** r.choice([3, 6, 9]))
        lines.append('invpath %s 60 %s | %s' % (_fr(s_tol), _fr(s), ' '.join(spec)))
        impl.append(_run(spt, path, s, s_tol, 60))
        c2.count('n=%d' % n)
    c2.compare(lines, [m.strip() for m in common.driver(lines)], impl)
    out.append(c2)
    # ---- float resolution: the stall regime, bit for bit --------------------------------------
    c3 = Corr('inv_arclength/stall (IEEE grid, bit-exact)')
    lines, impl = [], []
    for it in range(ctx.n(40, 400)):
        cval = r.choice([1 / 3, 0.1, 0.7, r.random(), r.random() * 1e-3, 1 - r.random() * 1e-6, 2.0 ** -r.randint(1, 60), 5e-324 * r.randint(1, 9)])
        bits = struct.unpack('<Q', struct.pack('<d', cval))[0]
        maxits = r.choice([3000, 3000, 40])
        lines.append('stall %d %d' % (bits, maxits))
        res = _run(spt, StepCurve(cval), 0.5, 1e-12, maxits)
        if res.startswith(('stalled ', 'value ')):
            kind, val = res.split(' ')
            tb = struct.unpack('<Q', struct.pack('<d', float(Fr(val))))[0]
            res = ('stall %d' if kind == 'stalled' else 'ret %d') % tb
        impl.append(res)
        c3.count('maxits=%d' % maxits)
    c3.compare(lines, [m.strip() for m in common.driver(lines)], impl)
    out.append(c3)
    return out


# ---------------------------------------------------------------------------
def _ulp(x):
    return math.ulp(x)


CUSP_SIG = 'ilength/not-inverse/length-from-0-to-just-beyond-a-cusp-misjudged-by-quad'


def sample(ctx, budget=1.0, hint=None, broken=None):
    spt = ctx.spt
    P = spt.path
    from .c05 import _rand_seg
    r = ctx.rng('sample' + ('' if budget == 1.0 else '-search'))
    fails, samples = [], []
    nontriv = set()
    n_eval = 0

    def fail(sig, what, inp, obs, exp, repro=''):
        if len(fails) < 40 and sum(1 for f in fails if f['signature'] == sig) < 2:
            fails.append(Failure(signature=sig, what=what, input=inp, observed=obs, expected=exp, repro=repro))

    def arclen(curve, t):
        """length(0, t) measured without Path.length's T2t rounding pitfalls"""
        if isinstance(curve, P.Path):
            k, tt = curve.T2t(t)
            tt = min(max(tt, 0.0), 1.0)
            return sum(curve[i].length() for i in range(k)) + curve[k].length(0, tt)
        return curve.length(0, t)

    def cusp_explains(curve, t):
        """is a failing ilength answer explained by finding F37: the LENGTH the library computes from 0 to t is itself wrong because the
        interval ends just beyond a cusp of a cubic (checked against a quadrature that is told where the cusp is)?"""
        try:
            if not P._quad_available:
                return False
            seg, tt, before = curve, t, 0.0
            if isinstance(curve, P.Path):
                k, tt = curve.T2t(t)
                seg = curve[k]
                before = sum(curve[i].length() for i in range(k))
            if not isinstance(seg, P.CubicBezier):
                return False
            g = np.linspace(0, 1, 4097)
            sp = np.array([abs(seg.derivative(x_)) for x_ in g])
            i = int(np.argmin(sp))
            if sp[i] > 1e-6 * sp.max() or not (0 < g[i] < tt) or tt - g[i] > 0.02:
                return False
            # refine the cusp parameter and integrate with the kink as a break point
            lo_, hi_ = g[max(i - 1, 0)], g[min(i + 1, 4096)]
            for _ in range(80):
                m1, m2 = lo_ + (hi_ - lo_) / 3, hi_ - (hi_ - lo_) / 3
                if abs(seg.derivative(m1)) < abs(seg.derivative(m2)):
                    hi_ = m2
                else:
                    lo_ = m1
            tstar = (lo_ + hi_) / 2
            from scipy.integrate import quad as _quad
            f_ = lambda x_: abs(seg.derivative(x_))
            # the returned parameter is where the bisection ended up; the defect is that the library's length(0, x) is wrong for SOME x
            # just beyond the cusp (and right for others), which is what sends the bisection astray: probe a few of them
            base_ = _quad(f_, 0, tstar, epsabs=1e-13, epsrel=1e-13, limit=2000)[0]
            for x_ in [tt] + [tstar + d_ for d_ in (1e-5, 3e-5, 1e-4, 3e-4, 5e-4, 1e-3, 1.1e-3, 2e-3, 5e-3, 1e-2)]:
                if x_ >= 1:
                    continue
                ref = base_ + _quad(f_, tstar, x_, epsabs=1e-13, epsrel=1e-13, limit=2000)[0]
                lib = seg.length(0, x_)
                if abs(lib - ref) > 1e-9 * (abs(ref) + 1e-300):
                    return True
            return False
        except Exception:
            return False

    for it in range(int(ctx.n(60, 400) * budget) + 1):
        scale = r.choice([1e-3, 1.0, 1.0, 1e2, 1e4, 1e6])
        kind = r.choice(['line', 'quad', 'cubic', 'arc', 'arc', 'path', 'path', 'cusp', 'flat-arc'])
        z0 = complex(r.uniform(-1, 1), r.uniform(-1, 1)) * scale
        if it == int(ctx.n(60, 400) * budget):
            kind = 'cusp-witness'       # the recorded witness of finding F37, re-examined on every run
        if kind == 'path':
            segs, cur = [], z0
            for i in range(r.randint(2, 4)):
                segs.append(_rand_seg(spt, r, cur, scale, r.choice(['line', 'quad', 'cubic', 'arc'])))
                cur = segs[-1].end
            if r.random() < 0.3:     # an outline traversed twice: equal segments
                segs = segs + [P.Line(cur, z0)] + [type(s)(*s.bpoints()) if not isinstance(s, P.Arc) else s for s in segs]
            curve = P.Path(*segs)
        elif kind == 'cusp-witness':
            curve = P.CubicBezier((5317.461327265119+5692.732455532132j), (6523.7063277330935+19783.331200753928j), (-1124.7155451117915+13341.154328377017j),
                                  (12965.883200110004+12134.909327909041j))
        elif kind in ('cusp', 'flat-arc'):
            # small curves whose speed is hard to integrate: a cubic with a cusp (or a retracted handle), a very flat elliptical arc
            k_ = scale * r.choice([1.0, 1.0, 0.3])
            w_ = cmath.exp(1j * r.choice([0.0, 0.0, 0.7, 2.1]))
            if kind == 'cusp':
                if r.random() < 0.7:
                    curve = P.CubicBezier(z0, z0 + k_ * (1 + 1j) * w_, z0 + k_ * 1j * w_, z0 + k_ * w_)
                else:
                    curve = P.CubicBezier(z0, z0, z0 + k_ * w_, z0 + k_ * 1j * w_)
                if r.random() < 0.3:
                    curve = P.Path(P.Line(curve.start - k_, curve.start), curve, P.Line(curve.end, curve.end - k_ * 1j))
            else:
                curve = P.Arc(z0, complex(k_, k_ * r.choice([1e-3, 3e-3, 1e-2])), 0, True, True, z0 + k_ * complex(0.5, 2e-4))
        else:
            curve = _rand_seg(spt, r, z0, scale, kind)
            if kind == 'arc' and r.random() < 0.5:
                # circular and nearly circular arcs: constant speed holds only for exactly equal radii
                r0 = r.uniform(0.3, 2) * scale
                curve = P.Arc(curve.start, complex(r0, r0 * r.choice([1.0, 1 + 1e-9, 1 - 1e-9, 1 + 2e-6, 1 - 2e-6, 1 + 9e-6, 1 - 9e-6, 1 - 5e-6, 1 + 1e-4, 1 - 1e-4])),
                              r.choice([0, 30, -45.5]), r.random() < 0.5, r.random() < 0.5, curve.end)
                kind = 'arc~circle'
        desc = repr(curve).replace('\n', ' ')
        L = curve.length()
        if not (L > 0) or not math.isfinite(L):
            continue
        n_eval += 1
        nontriv.add((kind, scale))
        ss = sorted(set([0.0, L, L * 0.5, L * 1e-9, L * (1 - 1e-9)] + [L * r.random() for _ in range(4)]))
        if kind == 'path':
            acc = 0.0
            for sg in curve[:-1]:
                acc += sg.length()
                if acc < L:
                    ss.append(acc)
            ss = sorted(set(ss))
        prev_t = None
        res_tol = max(1e-12, 8 * _ulp(L)) * 4
        # 35%: the same object was asked before, with a much looser s_tol (whatever those calls leave behind - warm starts, memoised
        # answers - must not degrade a later query at the default tolerance); the loose answers must meet their own tolerance
        hist_src = ''
        loose_s = []
        if r.random() < 0.35:
            for _ in range(r.randint(1, 3)):
                s0 = float(L * r.uniform(0.05, 0.95))
                st0 = float(L * r.choice([1e-1, 1e-2, 1e-3]))
                try:
                    with warnings.catch_warnings():
                        warnings.simplefilter('ignore')
                        tc = curve.ilength(s0, s_tol=st0)
                    bk = arclen(curve, tc)
                except Exception:
                    continue
                hist_src += 'c.ilength(%r, s_tol=%r), ' % (s0, st0)
                loose_s.append(s0)
                if abs(bk - s0) > st0 + res_tol:
                    fail('ilength/not-inverse (loose s_tol)', 'length(0, ilength(s, s_tol)) differs from s by more than s_tol', {'curve': desc, 's': s0, 's_tol': st0, 'L': L},
                         repr(bk), repr(s0), '(lambda c: c.length(0, c.ilength(%r, s_tol=%r)))(svgpathtools.%s)' % (s0, st0, desc))
            # queries close to the loosely answered ones are the ones a warm start would serve
            ss = sorted(set(ss + [min(L, max(0.0, x * (1 + d_))) for x in loose_s for d_ in (1e-3, -1e-3, 3e-2)]))
            nontriv.add((kind, scale, 'after-loose'))
        for s in ss:
            rep = 'svgpathtools.%s.ilength(%r)' % (desc, s) if not hist_src else '(lambda c: (%sc.ilength(%r))[-1])(svgpathtools.%s)' % (hist_src, s, desc)
            try:
                with warnings.catch_warnings():
                    warnings.simplefilter('ignore')
                    t = curve.ilength(s)
            except Exception as e:
                msg = str(e)
                if 'Maximum iterations' in msg:
                    sig = 'ilength/maximum-iterations'
                elif isinstance(e, ValueError):
                    sig = 'ilength/ValueError-inside-range' + ('/segment-boundary' if kind == 'path' else '')
                else:
                    sig = 'ilength/raises-' + type(e).__name__
                fail(sig, 'ilength(s) raised for 0 <= s <= L', {'curve': desc, 's': s, 'L': L, 'scale': scale}, repr(e)[:200], 'a parameter in [0,1]', rep)
                continue
            if not (0 <= t <= 1):
                fail('ilength/out-of-range', 'ilength(s) not in [0,1]', {'curve': desc, 's': s}, repr(t), '[0,1]', rep)
                continue
            if s == 0.0 and t != 0:
                fail('ilength(0)', 'ilength(0) != 0', {'curve': desc}, repr(t), '0', rep)
            if s == L and t != 1:
                fail('ilength(L)', 'ilength(L) != 1', {'curve': desc}, repr(t), '1', rep)
            try:
                back = arclen(curve, t)
            except AssertionError:
                back = None
            if back is not None and abs(back - s) > res_tol + 1e-9 * L * 0:
                if cusp_explains(curve, t):
                    fail(CUSP_SIG, 'with scipy, CubicBezier.length(0, t) is wrong (and not monotone in t) for t just beyond a cusp: the speed has a kink there and '
                         'quad accepts a first estimate that integrates the smooth continuation of the speed through zero; the bisection of ilength then converges to '
                         'the parameter where the computed length jumps', {'curve': desc, 's': s, 'L': L}, repr(back), repr(s), rep)
                else:
                    fail('ilength/not-inverse', 'length(0, ilength(s)) differs from s by more than max(s_tol, resolution of L)',
                         {'curve': desc, 's': s, 'L': L}, repr(back), repr(s), rep)
            if prev_t is not None and t < prev_t - 1e-12:
                fail('ilength/not-monotone', 'ilength is decreasing', {'curve': desc, 's': s}, repr((prev_t, t)), 'non-decreasing', rep)
            prev_t = t
        for bad in (-1e-3 * L - 1e-300, L * (1 + 1e-6) + 1e-300):
            try:
                with warnings.catch_warnings():
                    warnings.simplefilter('ignore')
                    t = curve.ilength(bad)
                fail('ilength/no-ValueError', 'ilength(s) for s outside [0,L] did not raise ValueError', {'curve': desc, 's': bad, 'L': L}, repr(t), 'ValueError',
                     'svgpathtools.%s.ilength(%r)' % (desc, bad))
            except ValueError:
                pass
            except Exception as e:
                fail('ilength/wrong-exception', 'ilength(s) outside [0,L] raised something else', {'curve': desc, 's': bad}, repr(e)[:100], 'ValueError')
        if len(samples) < 3:
            samples.append({'curve': desc[:200], 'L': L, 's': ss[:4]})
    return {'evaluations': n_eval, 'distinct_nontrivial': len(nontriv), 'failures': fails, 'samples': samples,
            'rule': 'random Line/Quadratic/Cubic/Arc segments and mixed paths (some traversing equal segments twice) at coordinate scales 1e-3..1e6; '
                    's in {0, L, L/2, near the ends, random, segment boundaries} and just outside [0,L]; 35% of the curves are first asked 1-3 times with a loose s_tol (1e-1..1e-3 of L), then at the default tolerance at and around those arc lengths. distinct = distinct (kind, scale)'}


def replay(spt, f):
    from .c19 import replay as rp
    return rp(spt, f)
