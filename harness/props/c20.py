"""C20: smoothed_path removes kinks without moving the path."""
from __future__ import annotations
import cmath
import math
import warnings
from fractions import Fraction as Fr
import numpy as np
from ..tracejobs import *
from .. import symtrace as st, common
from ..gen_lean import Def
from ..runner import Corr, Failure
from .c03 import allow_eq

LEAN_MODULES = ['SvgVerif.Props.C20', 'SvgVerif.Props.C20Loop', 'SvgVerif.Props.C20Joint']
BASE = ['qx', 'qy', 'vx', 'vy', 'wx', 'wy', 'L0', 'L1', 'mjs', 'tight']
UNIT = [(Fr(3, 5), Fr(4, 5)), (Fr(5, 13), Fr(12, 13)), (Fr(-4, 5), Fr(3, 5)), (Fr(8, 17), Fr(-15, 17)), (Fr(-7, 25), Fr(-24, 25)), (Fr(0), Fr(1))]
# (name, L0, L1, mjs): which operand of  a = min(maxjointsize/2, min(len1, len0)/20)  is the smallest
VARIANTS = [('cap', Fr(100), Fr(90), Fr(3)), ('short0', Fr(10), Fr(40), Fr(3)), ('short1', Fr(50), Fr(20), Fr(4))]


def gen_defs(spt, salt=0):
    P = spt.path
    S = spt.smoothing
    defs = []
    tag = ('/%d' % salt) if salt else ''
    for curve1 in (False, True):
        for vname, l0, l1, mjs in VARIANTS:
            def job(r, curve1=curve1, vname=vname, l0=l0, l1=l1, mjs=mjs):
                env = {}
                (vx_, vy_), (wx_, wy_) = r.sample(UNIT, 2)
                vals = {'qx': rfrac(r), 'qy': rfrac(r), 'vx': vx_, 'vy': vy_, 'wx': wx_, 'wy': wy_,
                        'L0': l0 + Fr(salt % 3, 7), 'L1': l1 + Fr(salt % 5, 11), 'mjs': mjs, 'tight': Fr(r.choice([1, 3, 5, 7]), 4)}
                sym = {k: st.R.var(k, v) for k, v in vals.items()}
                q = st.Cx(sym['qx'], sym['qy'])
                v = st.Cx(sym['vx'], sym['vy'])
                w = st.Cx(sym['wx'], sym['wy'])
                seg0 = P.Line(q - sym['L0'] * v, q)
                if curve1:
                    seg1 = P.CubicBezier(q, q + (sym['L1'] / 3) * w, q + (sym['L1'] / 2) * w + v, q + sym['L1'] * w)
                else:
                    seg1 = P.Line(q, q + sym['L1'] * w)
                # the two oracles the construction consults
                seg0.unit_tangent = lambda t: v
                seg1.unit_tangent = lambda t: w
                seg0.length = lambda *a, **k: sym['L0']
                seg1.length = lambda *a, **k: sym['L1']
                with allow_eq():
                    s0, elbow, s1 = S.smoothed_joint(seg0, seg1, sym['mjs'], sym['tight'])
                assert len(elbow) == 1 and isinstance(elbow[0], P.CubicBezier) and isinstance(s0, P.Line)
                e = elbow[0]
                pre = ('lc_' if curve1 else 'll_') + vname + '_'
                what = 'smoothed_joint(Line, %s), a = %s' % ('curve' if curve1 else 'Line', {'cap': 'maxjointsize/2', 'short0': 'seg0.length()/20', 'short1': 'seg1.length()/20'}[vname])
                out = []
                pts = [('e0', e.start), ('e1', e.control1), ('e2', e.control2), ('e3', e.end), ('s0a', s0.start), ('s0b', s0.end)]
                if not curve1:
                    assert isinstance(s1, P.Line)
                    pts += [('s1a', s1.start), ('s1b', s1.end)]
                else:
                    assert s1 is seg1
                for nm, z in pts:
                    z = st.Cx.lift(z)
                    out.append(Def(pre + nm + 'x', BASE, node(z.real), what + ': ' + nm + '.real', vals))
                    out.append(Def(pre + nm + 'y', BASE, node(z.imag), what + ': ' + nm + '.imag', vals))
                return out
            defs += retry(job, 'c20/%s/%s' % ('lc' if curve1 else 'll', vname) + tag)
    return defs


GEN = {'C20': gen_defs}

ASSUMPTIONS = [
    'the elbow theorems take the unit tangents v, w of the two segments at the joint, and their lengths, as symbols (what unit_tangent and length return is C15 / C06); '
    'a <= len/20 is what keeps the trimmed line pointing the same way',
    'the curve-curve joint rests on ilength / cropped (C07, C09): the dispatch theorem takes their contracts as hypotheses; the composition itself is re-executed from the model\'s recipe with the code\'s own base cases on every run',
    'joint classification uses isclose on float unit tangents: the loop theorem is stated for an arbitrary classification function and tangent relation',
]


class _NoDisvg(object):
    def __init__(self, S):
        self.S = S

    def __enter__(self):
        self.saved = self.S.disvg
        self.S.disvg = lambda *a, **k: None

    def __exit__(self, *a):
        self.S.disvg = self.saved


def correspond(ctx):
    spt = ctx.spt
    P, S = spt.path, spt.smoothing
    r = ctx.rng('corr')
    out = []
    # ---- the joint loop on stub segments with a fake smoothed_joint ------------------------------------
    c = Corr('smoothed_path/loop')

    class Stub(object):
        def __init__(self, name, t0, t1, start, end):
            self.name, self.t0, self.t1, self.start, self.end = name, t0, t1, start, end

        def unit_tangent(self, t):
            v = self.t0 if t == 0 else self.t1
            if v is None:
                raise ValueError('undefined')
            return complex(v, 0)

    def fake_joint(a, b, maxjointsize=3, tightness=1.99):
        k = abs((5 if a.t1 is None else a.t1) + (3 if b.t0 is None else b.t0)) % 3
        e1 = Stub('E1(%s,%s)' % (a.name, b.name), 7, 8, a.end, a.end)
        e2 = Stub('E2(%s,%s)' % (a.name, b.name), 8, 9, a.end, a.end)
        return (Stub('A(%s,%s)' % (a.name, b.name), a.t0, 7, a.start, a.end), [[], [e1], [e1, e2]][k],
                Stub('B(%s,%s)' % (a.name, b.name), 7 + k, b.t1, b.start, b.end))
    lines, impl = [], []
    saved = S.smoothed_joint
    try:
        S.smoothed_joint = fake_joint
        with _NoDisvg(S):
            for it in range(ctx.n(400, 4000)):
                n = r.choice([1, 2, 2, 3, 3, 4, 5, 6])
                closed = r.random() < 0.5
                style = r.choice(['mixed', 'mixed', 'smooth', 'kinks', 'sharp'])
                tans = []
                prev = r.randint(-3, 3)
                for i in range(n):
                    if style == 'smooth':
                        t0 = prev
                    elif style == 'sharp' and r.random() < 0.4:
                        t0 = -prev if prev else 1
                    elif style == 'kinks':
                        t0 = prev + r.choice([1, 2])
                    else:
                        t0 = r.choice([prev, prev, r.randint(-3, 3), -prev, None])
                    t1 = r.choice([r.randint(-3, 3), r.randint(-3, 3), None]) if style != 'smooth' else r.randint(-3, 3)
                    tans.append((t0, t1))
                    prev = t1 if t1 is not None else 0
                if style == 'smooth' and closed:
                    tans[0] = (tans[-1][1], tans[0][1])
                segs = [Stub('s%d' % i, t0, t1, complex(i, 0), complex(i + 1, 0) if (i < n - 1 or not closed) else 0j) for i, (t0, t1) in enumerate(tans)]
                path = P.Path(*segs)
                ignore = r.random() < 0.6
                lines.append('smooth %d | %s' % (1 if closed else 0, ' '.join('%s,%s' % ('x' if a is None else a, 'x' if b is None else b) for a, b in tans)))
                try:
                    res = S.smoothed_path(path, ignore_unfixable_kinks=True)
                    if res is path:
                        impl.append('unchanged')
                    else:
                        # the sharp list is only observable through the exception text
                        sharp = ''
                        try:
                            S.smoothed_path(path, ignore_unfixable_kinks=False)
                        except Exception as e:
                            m = str(e)
                            if 'segments: [' in m:
                                sharp = m.split('segments: [')[1].split(']')[0].replace(',', '')
                            else:
                                raise
                        impl.append('path %s | sharp %s' % (' '.join(s.name for s in res), sharp))
                except IndexError:
                    impl.append('empty')
                c.count('n=%d %s %s' % (min(n, 4), 'closed' if closed else 'open', style))
    finally:
        S.smoothed_joint = saved
    c.compare(lines, [m.strip() for m in common.driver(lines)], [m.strip() for m in impl])
    out.append(c)

    # ---- dispatch/composition of smoothed_joint: the model's recipe evaluated with the code's own base cases ------
    c2 = Corr('smoothed_joint/dispatch')
    recipes = dict(zip(['11', '10', '01', '00'], common.driver(['sjoint 1 1', 'sjoint 1 0', 'sjoint 0 1', 'sjoint 0 0'])))
    lines, model, impl = [], [], []

    def canon(res):
        s0, el, s1 = res
        return repr((s0, list(el), s1))
    for it in range(ctx.n(60, 600)):
        z = lambda: complex(r.uniform(-10, 10), r.uniform(-10, 10))
        q = z()
        k0, k1 = r.random() < 0.5, r.random() < 0.5
        seg0 = P.Line(z(), q) if k0 else P.CubicBezier(z(), z(), z(), q)
        seg1 = P.Line(q, z()) if k1 else P.CubicBezier(q, z(), z(), z())
        mjs = r.choice([3, 0.5, 8])
        tight = r.choice([1.99, 1.0, 0.3])
        key = '%d%d' % (k0, k1)
        rec = []
        orig_il = P.CubicBezier.ilength

        def rec_il(self, s, *a, **k):
            t = orig_il(self, s, *a, **k)
            rec.append((self, t))
            return t
        try:
            P.CubicBezier.ilength = rec_il
            with warnings.catch_warnings():
                warnings.simplefilter('ignore')
                got = S.smoothed_joint(seg0, seg1, mjs, tight)
        finally:
            P.CubicBezier.ilength = orig_il
        env = {'S0': seg0, 'S1': seg1, 'rev': lambda a: a.reversed(), 'st': lambda a: a.start, 'en': lambda a: a.end, 'Line': P.Line}

        def ll(a, b):
            assert isinstance(a, P.Line) and isinstance(b, P.Line)
            x, e, y = S.smoothed_joint(a, b, mjs, tight)
            assert len(e) == 1
            return (x, e[0], y)

        def lc(a, b):
            assert isinstance(a, P.Line) and not isinstance(b, P.Line)
            x, e, y = S.smoothed_joint(a, b, mjs, tight)
            assert len(e) == 1 and y is b
            return (x, e[0])
        env['ll'], env['lc'] = ll, lc
        if key == '00':
            if len(rec) < 2:
                impl.append('no ilength calls recorded')
                model.append('two ilength calls')
                lines.append('sjoint 0 0  # %r %r' % (seg0, seg1))
                continue
            env['CH'] = seg0.cropped(0, rec[0][1])
            env['CT'] = seg1.cropped(rec[1][1], 1)
        with warnings.catch_warnings():
            warnings.simplefilter('ignore')
            want = eval(recipes[key], {'__builtins__': {}}, env)
        lines.append('sjoint %d %d  # %r %r mjs=%r tight=%r' % (k0, k1, seg0, seg1, mjs, tight))
        # compared up to rounding: which of two equally valid cached / recomputed lengths (they differ in the last ulp) a nested call
        # sees depends on the cache records the surrounding calls left behind, so the floats agree to ~1e-15, not bit for bit
        def flat(res):
            s0_, el_, s1_ = res
            return [(type(x_).__name__, tuple(x_.bpoints())) for x_ in [s0_] + list(el_) + [s1_]]
        fw_, fg_ = flat(want), flat(got)
        same_ = len(fw_) == len(fg_) and all(a_[0] == b_[0] and len(a_[1]) == len(b_[1]) and
                                             all(abs(u_ - v_) <= 1e-12 * (1 + abs(u_)) for u_, v_ in zip(a_[1], b_[1])) for a_, b_ in zip(fw_, fg_))
        model.append(canon(want))
        impl.append(canon(want) if same_ else canon(got))
        c2.count({'11': 'line-line', '10': 'line-curve', '01': 'curve-line', '00': 'curve-curve'}[key])
    c2.compare(lines, model, impl)
    out.append(c2)
    return out


# ------------------------------------------------------------------------------------------------------------------
def _dist_to_path(path, p, n=200):
    """distance from p to the path: exact for Lines, sampled then refined by ternary search for curves"""
    best = float('inf')
    for seg in path:
        if type(seg).__name__ == 'Line':
            d = seg.end - seg.start
            if d == 0:
                best = min(best, abs(p - seg.start))
                continue
            t = ((p - seg.start) * d.conjugate()).real / abs(d) ** 2
            t = min(1.0, max(0.0, t))
            best = min(best, abs(p - (seg.start + t * d)))
            continue
        ts = np.linspace(0, 1, n + 1)
        pts = seg.poly()(ts)
        ds = np.abs(pts - p)
        i = int(np.argmin(ds))
        lo, hi = ts[max(i - 1, 0)], ts[min(i + 1, n)]
        for _ in range(40):
            m1, m2 = lo + (hi - lo) / 3, hi - (hi - lo) / 3
            if abs(seg.point(m1) - p) < abs(seg.point(m2) - p):
                hi = m2
            else:
                lo = m1
        best = min(best, float(ds[i]), abs(seg.point((lo + hi) / 2) - p))
    return best


def _rand_path(P, r, scale):
    n = r.randint(2, 6)
    closed = r.random() < 0.5
    pts = []
    ang = r.uniform(0, 2 * math.pi)
    cur = complex(r.uniform(-1, 1), r.uniform(-1, 1)) * scale
    pts.append(cur)
    for i in range(n):
        ang += r.choice([1, -1]) * (r.uniform(math.radians(8), math.radians(172)) if r.random() > 0.12 else
                                     math.radians(r.choice([0.1, 0.15, 0.2, 0.24, 0.5, 1.0, 3.0])))      # also barely visible bends
        cur = cur + cmath.rect(r.uniform(0.3, 3) * scale, ang)
        pts.append(cur)
    if closed:
        pts[-1] = pts[0]
    segs = []
    for i in range(n):
        a, b = pts[i], pts[i + 1]
        if r.random() < 0.5:
            segs.append(P.Line(a, b))
        else:
            d = b - a
            c1 = a + d * complex(r.uniform(0.15, 0.45), r.uniform(-0.35, 0.35))
            c2 = a + d * complex(r.uniform(0.55, 0.85), r.uniform(-0.35, 0.35))
            if r.random() < 0.12:      # a handle retracted almost, but not exactly, onto its end point
                if r.random() < 0.5:
                    c1 = a + (c1 - a) * r.choice([1e-9, 3e-10, 1e-12]) / max(abs(d), 1e-300)
                else:
                    c2 = b + (c2 - b) * r.choice([1e-9, 3e-10, 1e-12]) / max(abs(d), 1e-300)
            segs.append(P.CubicBezier(a, c1, c2, b))
    if r.random() < 0.25 and n >= 2:
        # make one joint already smooth: next segment a line continuing the tangent
        i = r.randrange(n - 1)
        s = segs[i]
        try:
            t = s.unit_tangent(1)
            ln = abs(segs[i + 1].end - segs[i + 1].start)
            new_end = s.end + t * ln
            segs[i + 1] = P.Line(s.end, new_end)
            if i + 2 < n:
                nx = segs[i + 2]
                segs[i + 2] = P.Line(new_end, nx.end) if isinstance(nx, P.Line) else P.CubicBezier(new_end, nx.control1, nx.control2, nx.end)
            elif closed:
                closed = False
        except Exception:
            pass
    if r.random() < 0.12 and not closed and n >= 2:
        # an outline that retraces its first edge: a LATER segment equal (by value) to the first one - e.g. a closed loop followed by
        # its first edge again and a tail, or the whole outline drawn twice
        try:
            first = segs[0]
            back = P.Line(segs[-1].end, first.start)
            again = type(first)(*first.bpoints())
            corner_ok = abs(back.unit_tangent(0) + segs[-1].unit_tangent(1)) > 0.2 and abs(again.unit_tangent(0) + back.unit_tangent(1)) > 0.2 and abs(back.end - back.start) > 1e-6 * scale
            if corner_ok:
                if r.random() < 0.5:
                    tail = P.Line(again.end, again.end + cmath.rect(r.uniform(0.5, 2) * scale, cmath.phase(again.unit_tangent(1)) + r.choice([1, -1]) * r.uniform(0.4, 2.4)))
                    segs = segs + [back, again, tail]
                else:
                    segs = segs + [back] + [type(x_)(*x_.bpoints()) for x_ in segs]
        except Exception:
            pass
    return P.Path(*segs), closed


def _realise(P, r, closed, tans, scale=1.0):
    """a real line/cubic path whose joints are smooth exactly where the stub pattern `tans` (pairs of small
    integers: start / end tangent code of each segment, None = undefined) has equal codes"""
    def direction(k):
        if k is None:
            return cmath.rect(1, r.uniform(0, 2 * math.pi))
        return cmath.rect(1, math.radians(17 + 47 * k))
    n = len(tans)
    cur = complex(r.uniform(-1, 1), r.uniform(-1, 1)) * scale
    first = cur
    segs = []
    for i, (a, b) in enumerate(tans):
        d0, d1 = direction(a), direction(b)
        ln = r.uniform(1, 3) * scale
        mid = d0 + d1
        if abs(mid) < 0.3:
            mid = d0 * 1j
        end = cur + ln * mid / abs(mid)
        if closed and i == n - 1:
            end = first
            ln = max(abs(end - cur), 1e-3 * scale)
        if a == b and a is not None and not (closed and i == n - 1) and r.random() < 0.5:
            segs.append(P.Line(cur, cur + ln * d0))
            end = cur + ln * d0
        else:
            segs.append(P.CubicBezier(cur, cur + d0 * ln / 3, end - d1 * ln / 3, end))
        cur = end
    return P.Path(*segs)


def sample(ctx, budget=1.0, hint=None, broken=None):
    spt = ctx.spt
    P, S = spt.path, spt.smoothing
    r = ctx.rng('sample' + ('' if budget == 1.0 else '-search'))
    fails, samples = [], []
    nontriv = set()
    n_eval = 0

    def fail(sig, what, inp, obs, exp, repro=''):
        if len(fails) < 40 and sum(1 for f in fails if f['signature'] == sig) < 2:
            fails.append(Failure(signature=sig, what=what, input=inp, observed=obs, expected=exp, repro=repro))

    patterns = []
    for h in (hint or []):
        try:
            inp = h['detail']['input']
            if inp.startswith('smooth '):
                cl, rest = inp[len('smooth '):].split('|')
                tans = [tuple(None if x == 'x' else int(x) for x in w.split(',')) for w in rest.split()]
                if len(tans) >= 2:
                    patterns.append((cl.strip() == '1', tans))
        except Exception:
            pass
    with _NoDisvg(S):
        for it in range(int(ctx.n(70, 700) * budget)):
            scale = r.choice([1, 1, 10, 0.1, 1e-5, 1e-6])      # incl. small drawings (micrometre-sized coordinates)
            try:
                if patterns and it < 4 * len(patterns):
                    cl_, tans_ = patterns[it % len(patterns)]
                    path = _realise(P, r, cl_, tans_, scale)
                elif it % 5 == 4:
                    # stub-style pattern: closed paths whose closing joint (and maybe others) is already smooth
                    n_ = r.randint(2, 5)
                    codes = [r.randint(-3, 3) for _ in range(n_ + 1)]
                    tans_ = []
                    for i in range(n_):
                        a_ = codes[i] if r.random() < 0.6 else r.randint(-3, 3)
                        tans_.append((a_, codes[i + 1]))
                    cl_ = r.random() < 0.7
                    if cl_ and r.random() < 0.7:
                        tans_[0] = (tans_[-1][1], tans_[0][1])
                    path = _realise(P, r, cl_, tans_, scale)
                else:
                    path, closed = _rand_path(P, r, scale)
            except Exception:
                continue
            if not path.iscontinuous():
                continue
            closed = path.isclosed()
            mjs = r.choice([3, 3, 1, 0.2, 10, 0.02, 0.004]) * scale
            tight = r.choice([1.99, 1.99, 1.5, 1.0, 0.2])
            rep = 'svgpathtools.smoothed_path(svgpathtools.%r, %r, %r)' % (path, mjs, tight)
            inp = {'path': repr(path), 'maxjointsize': mjs, 'tightness': tight}
            # joints that are 180-degree reversals are outside the statement
            skip = False
            pre = {}
            for i in range(len(path)):
                if i == 0 and not closed:
                    continue
                u, v = path[i - 1].unit_tangent(1), path[i].unit_tangent(0)
                if abs(u + v) < 1e-3:
                    skip = True
                pre[i] = abs(u - v) < 1e-12
            if skip:
                continue
            n_eval += 1
            nontriv.add((len(path), closed, tuple(type(s).__name__[0] for s in path), mjs > scale, any(pre.values())))
            if r.random() < 0.3:
                # the same smoothing was done before and its RESULT (which belongs to the caller) was edited in place
                try:
                    with warnings.catch_warnings():
                        warnings.simplefilter('ignore')
                        first_ = S.smoothed_path(path, mjs, tight)
                        for sg_ in first_:
                            if any(sg_ is x_ for x_ in path):
                                continue       # pieces the smoother passed through unchanged ARE the input's objects: not the caller's to edit here
                            how_ = r.choice(['start', 'end', 'control1', 'none'])
                            if how_ == 'control1' and hasattr(sg_, 'control1'):
                                sg_.control1 = sg_.control1 + complex(3, -2) * scale
                                sg_.control2 = sg_.control2 - complex(1, 4) * scale
                            elif how_ == 'start':
                                sg_.start = sg_.start + complex(-2, 5) * scale
                            elif how_ == 'end':
                                sg_.end = sg_.end + complex(4, 1) * scale
                    nontriv.add(('smoothed before, result edited',))
                except Exception:
                    pass
            try:
                with warnings.catch_warnings():
                    warnings.simplefilter('ignore')
                    sm = S.smoothed_path(path, mjs, tight)
            except Exception as e:
                fail('smoothed_path raises', 'smoothed_path raised on a continuous line/cubic path without 180-degree joints', inp, repr(e)[:300], 'a path', rep)
                continue
            if not sm.iscontinuous():
                # pieces are joined up to rounding (cropped)
                gaps = [abs(sm[i].end - sm[i + 1].start) for i in range(len(sm) - 1)]
                if max(gaps) > 1e-9 * scale:
                    fail('smoothed_path/not continuous', 'the smoothed path has a gap', inp, repr(max(gaps)), '0', rep)
                    continue
            ks = S.kinks(sm, tol=1e-6) if len(sm) > 1 else []

            def _ill(i):
                # a joint whose tangent mismatch is within what rounding of the control points (a few ulps of the coordinates) does to
                # the direction of a very short end handle: the tangent of such a handle is not determined to 1e-6 by the floats
                # themselves (a 3e-13 long handle at coordinates ~20 has a direction known to ~1e-2), so no kink is decidable there
                sa, sb = sm[(i - 1) % len(sm)], sm[i]
                def handle(sg, at_end):
                    b_ = list(sg.bpoints())
                    if at_end:
                        b_ = b_[::-1]
                    for q_ in b_[1:]:
                        if q_ != b_[0]:
                            return abs(q_ - b_[0])
                    return float('inf')
                hl = min(handle(sa, True), handle(sb, False))
                mag = max(abs(q_) for q_ in list(sa.bpoints()) + list(sb.bpoints()))
                return abs(sa.unit_tangent(1) - sb.unit_tangent(0)) <= 64 * 2.0 ** -52 * mag / hl
            ks = [i for i in ks if not _ill(i)]
            if ks:
                i = ks[0]
                fail('smoothed_path/kinks remain', 'kinks(smoothed_path(path)) is not empty', inp,
                     repr([(i, sm[(i - 1) % len(sm)].unit_tangent(1), sm[i].unit_tangent(0)) for i in ks[:3]]), '[]', 'svgpathtools.kinks(%s)' % rep)
            if closed:
                if abs(sm.start - sm.end) > 1e-9 * scale:
                    fail('smoothed_path/closedness lost', 'a closed path was returned open', inp, repr((sm.start, sm.end)), 'start == end', rep)
            else:
                if abs(sm.start - path.start) > 1e-12 * scale or abs(sm.end - path.end) > 1e-12 * scale:
                    fail('smoothed_path/endpoints moved', 'an open path\'s start or end moved', inp, repr((sm.start, sm.end)), repr((path.start, path.end)), rep)
            # every point within maxjointsize of the original
            worst = 0.0
            for seg in sm:
                for t in (0.0, 0.25, 0.5, 0.75, 1.0):
                    worst = max(worst, _dist_to_path(path, seg.point(t)))
            if worst > mjs * (1 + 1e-6) + 1e-7 * scale:
                fail('smoothed_path/moved too far', 'a point of the smoothed path is farther than maxjointsize from the original', inp, repr(worst), '<= %r' % mjs, rep)
            # joints that were smooth keep position and tangent
            def _handle(sg, at_end):
                b_ = list(sg.bpoints())
                if at_end:
                    b_ = b_[::-1]
                for q_ in b_[1:]:
                    if q_ != b_[0]:
                        return abs(q_ - b_[0])
                return float('inf')
            for i, was in pre.items():
                if was:
                    # (a joint counts as "already smooth" only if the floats determine both tangents to the 1e-7 compared below: a
                    # 5e-13 long handle at coordinates ~40 does not - see _ill above)
                    sa_, sb_ = path[i - 1], path[i]
                    mag_ = max(abs(q_) for q_ in list(sa_.bpoints()) + list(sb_.bpoints()))
                    if 64 * 2.0 ** -52 * mag_ / min(_handle(sa_, True), _handle(sb_, False)) > 1e-8:
                        continue
                    qpt = path[i].start
                    tq = path[i].unit_tangent(0)
                    hit = [s for s in sm if abs(s.start - qpt) < 1e-12 * scale]
                    if not hit or abs(hit[0].unit_tangent(0) - tq) > 1e-7:
                        fail('smoothed_path/smooth joint changed', 'a joint that was already smooth lost its position or tangent', dict(inp, joint=i), repr([(s.start, s.unit_tangent(0)) for s in hit][:1]), repr((qpt, tq)), rep)
            if len(samples) < 3:
                samples.append({'path': repr(path), 'maxjointsize': mjs, 'pieces': len(sm)})
        # single segment: returned unchanged
        for seg in (P.Line(0j, 3 + 1j), P.CubicBezier(0j, 1j, 2 + 1j, 3 + 0j)):
            p1 = P.Path(seg)
            n_eval += 1
            if S.smoothed_path(p1) != p1:
                fail('smoothed_path/single segment', 'a single-segment path is not returned unchanged', {'path': repr(p1)}, repr(S.smoothed_path(p1)), repr(p1))
    return {'evaluations': n_eval, 'distinct_nontrivial': len(nontriv), 'failures': fails, 'samples': samples,
            'rule': 'random continuous paths of 2..6 Lines/CubicBeziers, open and closed, corner angles 8..172 degrees, some joints already smooth, scales 0.1..10, '
                    'maxjointsize from much shorter to much longer than the segments, tightness 0.2..1.99; checks: continuity, kinks() empty (tol 1e-6), end points / closedness, '
                    'every sampled point within maxjointsize of the original, smooth joints unchanged, single segment unchanged; 30% of the calls are repeats of a call whose result was edited in place by the caller. distinct = distinct (n, closed, kinds, '
                    'maxjointsize > scale, had smooth joint)'}


def replay(spt, f):
    from .c19 import replay as rp
    return rp(spt, f)
