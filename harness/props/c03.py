"""C03: Line/Quadratic/Cubic point, poly, points, derivative are the Bernstein curve."""
from __future__ import annotations
import math
from fractions import Fraction as Fr
import numpy as np
from ..tracejobs import *
from .. import symtrace as st, common
from ..gen_lean import Def
from ..runner import Corr, Failure

KINDS = [('line', 2), ('quad', 3), ('cubic', 4)]


def _mk(spt, kind, ps):
    P = spt.path
    return {'line': P.Line, 'quad': P.QuadraticBezier, 'cubic': P.CubicBezier}[kind](*ps)


def gen_defs(spt, salt=0):
    P = spt.path
    defs = []
    for kind, k in KINDS:
        names = ['p%d' % i for i in range(k)]

        def job(r, kind=kind, k=k, names=names):
            ps, env = ringvars(names, r)
            (t,), e2 = ringvars(['t'], r)
            env.update(e2)
            seg = _mk(spt, kind, ps)
            out = [Def('%s_point' % kind, names + ['t'], node(seg.point(t)), '%s.point(t)' % kind, env)]
            co = seg.poly(return_coeffs=True)
            assert len(co) == k
            for j in range(k):
                out.append(Def('%s_poly_%d' % (kind, j), names, node(co[j]),
                               '%s.poly(return_coeffs=True)[%d] (highest power first)' % (kind, j), env))
            p1 = seg.poly()
            assert p1.order == k - 1, 'poly1d trimmed'
            out.append(Def('%s_poly1d_call' % kind, names + ['t'], node(p1(t)), '%s.poly()(t) through numpy.poly1d' % kind, env))
            pts = seg.points([t])
            out.append(Def('%s_points' % kind, names + ['t'], node(pts[0]), '%s.points([t])[0]' % kind, env))
            for n in range(1, 6):
                out.append(Def('%s_derivative_%d' % (kind, n), names + ['t'], node(seg.derivative(t, n)),
                               '%s.derivative(t, n=%d)' % (kind, n), env))
            bp = P.poly2bez(seg.poly(), return_bpoints=True)
            assert len(bp) == k
            seg2 = P.poly2bez(seg.poly())
            assert type(seg2) is type(seg)
            bp2 = seg2.bpoints()
            seg3 = P.bpoints2bezier(list(ps))
            assert type(seg3) is type(seg)
            bp3 = seg3.bpoints()
            co2 = P.bez2poly(seg)
            for j in range(k):
                out.append(Def('%s_poly2bez_%d' % (kind, j), names, node(bp[j]),
                               'poly2bez(%s.poly(), return_bpoints=True)[%d]' % (kind, j), env))
                out.append(Def('%s_poly2bez_seg_%d' % (kind, j), names, node(bp2[j]),
                               'poly2bez(%s.poly()).bpoints()[%d]' % (kind, j), env))
                out.append(Def('%s_bpoints2bezier_%d' % (kind, j), names, node(bp3[j]),
                               'bpoints2bezier(bpoints).bpoints()[%d] (%s)' % (j, kind), env))
                out.append(Def('%s_bez2poly_%d' % (kind, j), names, node(co2[j]),
                               'bez2poly(%s)[%d]' % (kind, j), env))
            return out
        defs += retry(job, 'c03/%s' % kind + ('/%d' % salt if salt else ''))
    # degenerate configurations traced deliberately: coincident control points.  The same
    # symbolic element is passed twice, so an `==` between them is decided True on the trace.
    for kind, k, pat in DEGENERATE:
        tag = ''.join(map(str, pat))
        nvar = max(pat) + 1
        names = ['q%d' % i for i in range(nvar)]

        def job(r, kind=kind, k=k, pat=pat, tag=tag, names=names):
            qs, env = ringvars(names, r)
            (t,), e2 = ringvars(['t'], r)
            env.update(e2)
            ps = [qs[i] for i in pat]
            seg = _mk(spt, kind, ps)
            out = []
            pre = '%s_d%s' % (kind, tag)
            doc = '%s with control points %s' % (kind, '(' + ', '.join('q%d' % i for i in pat) + ')')
            with allow_eq():
                out.append(Def(pre + '_point', names + ['t'], node(seg.point(t)), doc + ': point(t)', env))
                out.append(Def(pre + '_poly1d_call', names + ['t'], node(seg.poly()(t)), doc + ': poly()(t)', env))
                out.append(Def(pre + '_points', names + ['t'], node(seg.points([t])[0]), doc + ': points([t])[0]', env))
                out.append(Def(pre + '_poly2bez_point', names + ['t'], node(P.poly2bez(seg.poly()).point(t)),
                               doc + ': poly2bez(poly()).point(t)', env))
                out.append(Def(pre + '_bpoints2bezier_point', names + ['t'], node(P.bpoints2bezier(list(ps)).point(t)),
                               doc + ': bpoints2bezier(bpoints).point(t)', env))
                out.append(Def(pre + '_derivative_1', names + ['t'], node(seg.derivative(t, 1)), doc + ': derivative(t,1)', env))
            return out
        defs += retry(job, 'c03/deg/%s/%s' % (kind, tag) + ('/%d' % salt if salt else ''))
    return defs


DEGENERATE = [('cubic', 4, (0, 0, 1, 2)), ('cubic', 4, (0, 1, 2, 2)), ('cubic', 4, (0, 0, 1, 1)),
              ('cubic', 4, (0, 1, 1, 2)), ('cubic', 4, (0, 1, 1, 0)), ('cubic', 4, (0, 1, 2, 0)),
              ('quad', 3, (0, 0, 1)), ('quad', 3, (0, 1, 1)), ('quad', 3, (0, 1, 0))]


class allow_eq:
    def __enter__(self):
        self.c = st.TraceCtx.current
        self.old = self.c.allow_eq
        self.c.allow_eq = True

    def __exit__(self, *a):
        self.c.allow_eq = self.old


LEAN_MODULES = ['SvgVerif.Props.C03']
GEN = {'C03': gen_defs}
ASSUMPTIONS = [
    'identities are exact-arithmetic statements over every field of characteristic 0 (and analysis over ℝ/ℂ); float evaluation is covered by the sampler with an error budget of a few ulps of the largest control point',
    'numpy.poly1d evaluation on object arrays performs the same Horner recurrence as on float arrays',
]


def _bern_exact_c(ps, t):
    n = len(ps) - 1
    t = Fr(t)
    xs = sum(math.comb(n, i) * (1 - t) ** (n - i) * t ** i * Fr(p.real) for i, p in enumerate(ps))
    ys = sum(math.comb(n, i) * (1 - t) ** (n - i) * t ** i * Fr(p.imag) for i, p in enumerate(ps))
    return xs, ys


def _deriv_exact_c(ps, t, n):
    """n-th derivative of the Bernstein curve, exactly: n!/(k-n)!... via forward differences"""
    pts = [(Fr(p.real), Fr(p.imag)) for p in ps]
    deg = len(ps) - 1
    if n > deg:
        return Fr(0), Fr(0)
    fac = 1
    for i in range(n):
        pts = [(b[0] - a[0], b[1] - a[1]) for a, b in zip(pts, pts[1:])]
        fac *= (deg - i)
    m = len(pts) - 1
    t = Fr(t)
    xs = sum(math.comb(m, i) * (1 - t) ** (m - i) * t ** i * p[0] for i, p in enumerate(pts)) * fac
    ys = sum(math.comb(m, i) * (1 - t) ** (m - i) * t ** i * p[1] for i, p in enumerate(pts)) * fac
    return xs, ys


def _close(z, ex, tol):
    return abs(complex(z) - complex(float(ex[0]), float(ex[1]))) <= tol


def sample(ctx, budget=1.0, hint=None, broken=None):
    spt = ctx.spt
    P = spt.path
    r = ctx.rng('sample' + ('' if budget == 1.0 else '-search'))
    fails, samples = [], []
    nontriv = set()
    n_eval = 0

    def fail(sig, what, inp, obs, exp, repro):
        if len(fails) < 12:
            fails.append(Failure(signature=sig, what=what, input=inp, observed=obs, expected=exp, repro=repro))

    from .c19 import _rand_pts as _rand_pts0

    def _rand_pts(r, k):
        # 20%: a curve of ordinary size placed far from the origin (coordinates 1e4..1e7 times its size): shape-relative and
        # position-relative magnitudes differ, which is where "is this coefficient negligible" shortcuts go wrong
        ps, scale = _rand_pts0(r, k)
        c_ = r.random()
        if c_ < 0.08 and k == 4:
            # nearly, but not exactly, of lower degree: a quadratic written as a cubic with its control points rounded to three decimals
            # (what an editor that only knows cubics saves), or with one handle nudged by 1e-6 of the size
            q_, _ = _rand_pts0(r, 3)
            sc_ = max(abs(x_) for x_ in q_) or 1.0
            q_ = [x_ / sc_ * 300 for x_ in q_]
            ps = [q_[0], q_[0] + 2 * (q_[1] - q_[0]) / 3, q_[2] + 2 * (q_[1] - q_[2]) / 3, q_[2]]
            if r.random() < 0.6:
                ps = [complex(round(x_.real, 3), round(x_.imag, 3)) for x_ in ps]
            else:
                ps[1] = ps[1] + complex(3e-4, -2e-4)
            scale = 300.0
        elif c_ < 0.14 and k == 3:
            # a very flat quadratic: control point 1e-4 .. 1e-6 of the chord off the chord's midpoint
            a_, b_ = ps[0], ps[2]
            if a_ != b_:
                ps = [a_, (a_ + b_) / 2 + 1j * (b_ - a_) * r.choice([1e-4, 3e-5, 1e-6]), b_]
        elif c_ < 0.20:
            # ordinary shapes drawn at a very small scale
            f_ = r.choice([1e-8, 1e-9, 1e-11]) / (max(abs(x_) for x_ in ps) or 1.0)
            ps = [x_ * f_ for x_ in ps]
            scale = 1e-9
        if r.random() < 0.2 and c_ >= 0.20:
            off = complex(r.choice([-1, 1, 1, 0]) * 10.0 ** r.randint(4, 7), r.choice([-1, 1, 1]) * 10.0 ** r.randint(4, 7)) * max(scale, 1e-3)
            ps = [p + off for p in ps]
        return ps, scale
    for it in range(int(ctx.n(300, 4000) * budget)):
        kind, k = r.choice(KINDS)
        ps, scale = _rand_pts(r, k)
        if r.random() < 0.25 and k >= 3:      # coincident control points (the usual result of S/T after a non-curve)
            pat = r.choice([d[2] for d in DEGENERATE if d[1] == k])
            ps = [ps[i] for i in pat]
        if all(q == ps[0] for q in ps):
            continue   # a point, not a curve
        seg = _mk(spt, kind, ps)
        t = r.choice([0.0, 1.0, 0.5, r.uniform(0, 1), r.uniform(-0.1, 1.1), 1 - 10.0 ** -r.randint(3, 12), 10.0 ** -r.randint(3, 12),
                      1 + 10.0 ** -r.randint(4, 9)])
        mx = max(abs(p) for p in ps)
        tol = 64 * 2.0 ** -52 * mx * (1 + abs(t)) ** (k - 1) * k + 1e-300
        ctor = '%s(%s)' % (type(seg).__name__, ', '.join(repr(p) for p in ps))
        n_eval += 1
        nontriv.add((kind, scale, t in (0.0, 1.0)))
        ex = _bern_exact_c(ps, t)
        got = seg.point(t)
        if not _close(got, ex, tol):
            fail('%s.point' % kind, 'point(t) is not the Bernstein curve', {'seg': ctor, 't': t}, repr(got), repr(complex(*map(float, ex))),
                 'svgpathtools.%s.point(%r)' % (ctor, t))
        if t == 0.0 and seg.point(0) != ps[0]:
            fail('%s.point(0)' % kind, 'point(0) is not exactly start', {'seg': ctor}, repr(seg.point(0)), repr(ps[0]), 'svgpathtools.%s.point(0)' % ctor)
        if not _close(seg.point(1), (Fr(ps[-1].real), Fr(ps[-1].imag)), tol):
            fail('%s.point(1)' % kind, 'point(1) is not end', {'seg': ctor}, repr(seg.point(1)), repr(ps[-1]), 'svgpathtools.%s.point(1)' % ctor)
        pol = seg.poly()
        tolp = tol * 16
        if not _close(pol(t), ex, tolp):
            fail('%s.poly' % kind, 'poly()(t) differs from the curve', {'seg': ctor, 't': t}, repr(pol(t)), repr(complex(*map(float, ex))),
                 'svgpathtools.%s.poly()(%r)' % (ctor, t))
        co = seg.poly(return_coeffs=True)
        if not _close(np.polyval(list(co), t), ex, tolp):
            fail('%s.poly/coeffs' % kind, 'poly(return_coeffs=True) differs from the curve', {'seg': ctor, 't': t}, repr(np.polyval(list(co), t)),
                 repr(complex(*map(float, ex))), 'numpy.polyval(list(svgpathtools.%s.poly(return_coeffs=True)), %r)' % (ctor, t))
        t2 = r.uniform(0, 1)
        if r.random() < 0.2:
            # the parameters as a single-precision array (a float32 linspace): the points must still be those of the curve AT THOSE
            # parameters, to double precision
            ta_ = np.array([t, r.uniform(0, 1), 0.25], dtype=np.float32)
            try:
                pa_ = seg.points(ta_)
                for x_, g_ in zip(ta_, pa_):
                    if not _close(g_, _bern_exact_c(ps, float(x_)), tolp):
                        fail('%s.points/float32 parameters' % kind, 'points(ts) with a float32 array of parameters is not the curve at those parameters (to double precision)',
                             {'seg': ctor, 't': [float(v_) for v_ in ta_]}, repr(g_), repr(complex(*map(float, _bern_exact_c(ps, float(x_))))),
                             'list(svgpathtools.%s.points(numpy.array(%r, dtype=numpy.float32)))' % (ctor, [float(v_) for v_ in ta_]))
                        break
            except Exception as e:
                fail('%s.points/float32 raises' % kind, 'points(ts) raised for a float32 array', {'seg': ctor}, repr(e)[:200], 'points',
                     'list(svgpathtools.%s.points(numpy.array([0.25], dtype=numpy.float32)))' % ctor)
        pts = seg.points([t, t2])
        ex2 = _bern_exact_c(ps, t2)
        if not (_close(pts[0], ex, tolp) and _close(pts[1], ex2, tolp)):
            fail('%s.points' % kind, 'points([t,..]) differs from the curve', {'seg': ctor, 't': [t, t2]}, repr(list(pts)),
                 repr([complex(*map(float, ex)), complex(*map(float, ex2))]), 'list(svgpathtools.%s.points([%r, %r]))' % (ctor, t, t2))
        try:
            back = P.poly2bez(seg.poly(), return_bpoints=True)
            seg2 = P.poly2bez(seg.poly())
            seg3 = P.bpoints2bezier(list(ps))
        except Exception as e:
            fail('poly2bez/%s/raises' % kind, 'poly2bez(seg.poly()) / bpoints2bezier raises %s' % type(e).__name__, {'seg': ctor}, repr(e)[:200], repr(tuple(ps)),
                 'svgpathtools.poly2bez(svgpathtools.%s.poly())' % ctor)
            continue
        for nm, b in (('poly2bez', back), ('poly2bez-seg', seg2.bpoints() if hasattr(seg2, 'bpoints') else ()),
                      ('bpoints2bezier', seg3.bpoints() if hasattr(seg3, 'bpoints') else ())):
            if len(b) != k:
                continue   # exactly vanishing leading coefficient: lower-order segment; the curve test below decides
            if any(abs(x - y) > tol * 64 for x, y in zip(b, ps)):
                fail('%s/%s' % (nm, kind), '%s does not recover the control points' % nm, {'seg': ctor}, repr(b), repr(tuple(ps)),
                     {'poly2bez': 'svgpathtools.poly2bez(svgpathtools.%s.poly(), return_bpoints=True)' % ctor,
                      'poly2bez-seg': 'svgpathtools.poly2bez(svgpathtools.%s.poly())' % ctor,
                      'bpoints2bezier': 'svgpathtools.bpoints2bezier(%r)' % (list(ps),)}[nm])
        for sg in (seg2, seg3):   # same parametrised curve, not only same point set
          for tq in (0.3, -0.1, 0.8):
            if hasattr(sg, 'point') and not _close(sg.point(tq), _bern_exact_c(ps, tq), tol * 64):
                fail('rebuilt-curve/%s' % kind, 'segment rebuilt from poly/bpoints is a different parametrised curve', {'seg': ctor},
                     repr(sg), ctor, 'svgpathtools.bpoints2bezier(%r)' % (list(ps),) if sg is seg3 else 'svgpathtools.poly2bez(svgpathtools.%s.poly())' % ctor)
        for n in range(1, 6):
            exd = _deriv_exact_c(ps, t, n)
            try:
                got = seg.derivative(t, n)
            except Exception as e:
                got = e
            told = tol * 8 * 4 ** n
            if isinstance(got, Exception) or not _close(got, exd, told):
                fail('%s.derivative/n=%d' % (kind, n), 'derivative(t,n) is not the n-th derivative', {'seg': ctor, 't': t, 'n': n}, repr(got),
                     repr(complex(*map(float, exd))), 'svgpathtools.%s.derivative(%r, %d)' % (ctor, t, n))
        if len(samples) < 3:
            samples.append({'seg': ctor, 't': t})
    # mutate-then-query: a segment must answer for its CURRENT control points
    for it in range(int(ctx.n(60, 600) * budget)):
        kind, k = r.choice(KINDS)
        ps, scale = _rand_pts(r, k)
        qs, _ = _rand_pts(r, k)
        if kind == 'line' and (ps[0] == ps[1] or qs[0] == qs[1]):
            continue
        seg = _mk(spt, kind, ps)
        ts = [0.0, 0.37, 1.0]
        seg.points(ts); seg.poly(); seg.point(0.5); seg.derivative(0.5)
        attrs = {'line': ['start', 'end'], 'quad': ['start', 'control', 'end'], 'cubic': ['start', 'control1', 'control2', 'end']}[kind]
        which = r.randrange(k)
        setattr(seg, attrs[which], qs[which])
        cur = list(ps); cur[which] = qs[which]
        n_eval += 1
        nontriv.add(('mutate', kind, which))
        tol = 64 * 2.0 ** -52 * max(abs(p) for p in cur) * 16 * k
        for nm, val in (('point', seg.point(0.37)), ('points', seg.points(ts)[1]), ('poly', seg.poly()(0.37))):
            if not _close(val, _bern_exact_c(cur, 0.37), tol):
                fail('%s.%s/after-reassignment' % (kind, nm), '%s answers for stale control points after %s was reassigned' % (nm, attrs[which]),
                     {'kind': kind, 'initial': [repr(p) for p in ps], 'assign': [attrs[which], repr(qs[which])]}, repr(val),
                     repr(complex(*map(float, _bern_exact_c(cur, 0.37)))), '')
    # derived segments: reversed / cropped / split / transformed copies made AFTER the original was measured and evaluated
    # (whatever the original cached must not leak into the copy): every representation of the copy describes the copy
    for it in range(int(ctx.n(80, 800) * budget)):
        kind, k = r.choice(KINDS)
        ps, scale = _rand_pts(r, k)
        if all(q == ps[0] for q in ps):
            continue
        seg = _mk(spt, kind, ps)
        warm = r.sample(['length', 'length-rev', 'poly', 'points', 'derivative'], r.randint(0, 3))
        try:
            for w in warm:
                if w == 'length':
                    seg.length()
                elif w == 'length-rev':
                    seg.length(t0=1, t1=0) if kind != 'line' else seg.length()
                elif w == 'poly':
                    seg.poly()
                elif w == 'points':
                    seg.points([0.25, 0.5])
                else:
                    seg.derivative(0.3)
            how = r.choice(['reversed', 'reversed', 'cropped', 'split', 'translated', 'rotated', 'scaled'])
            if how == 'reversed':
                der = seg.reversed()
            elif how == 'cropped':
                der = seg.cropped(0.25, 0.75)
            elif how == 'split':
                der = seg.split(0.5)[1]
            elif how == 'translated':
                der = seg.translated(complex(1.5, -2.25) * scale)
            elif how == 'rotated':
                der = seg.rotated(33.5)
            else:
                der = seg.scaled(-1.5)
        except Exception:
            continue
        n_eval += 1
        nontriv.add(('derived', kind, how, tuple(sorted(warm))))
        cur = list(der.bpoints())
        tol = 64 * 2.0 ** -52 * max(abs(p) for p in cur) * 16 * k + 1e-300
        ts = [0.0, 0.37, 1.0]
        for nm, val in (('point', der.point(0.37)), ('points', der.points(ts)[1]), ('poly', der.poly()(0.37)),
                        ('poly/coeffs', np.polyval(list(der.poly(return_coeffs=True)), 0.37))):
            if not _close(val, _bern_exact_c(cur, 0.37), tol):
                fail('%s.%s/derived copy' % (kind, nm), '%s of a %s copy does not describe the copy (made after %s on the original)' % (nm, how, warm),
                     {'kind': kind, 'original': [repr(p) for p in ps], 'operation': how, 'queries_before': warm}, repr(val),
                     repr(complex(*map(float, _bern_exact_c(cur, 0.37)))), '')
                break
    return {'evaluations': n_eval, 'distinct_nontrivial': len(nontriv), 'failures': fails, 'samples': samples,
            'rule': 'random Line/Quadratic/Cubic (scales 1e-3..1e6; coincident, collinear, integer classes; 20% placed 1e4..1e7 sizes away from the origin), t in and slightly outside [0,1], '
                    'n = 1..5; plus mutate-then-query sequences and copies derived (reversed/cropped/split/translated/rotated/scaled) after the original was measured/evaluated. distinct = distinct (kind, scale, endpoint?) / (mutate, kind, field)'}


def replay(spt, f):
    from .c19 import replay as rp
    return rp(spt, f)
