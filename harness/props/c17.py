"""C17: SVG flattening applies shape conversion and nested transforms per the SVG spec."""
from __future__ import annotations
import cmath
import io
import math
import warnings
from fractions import Fraction as Fr
import numpy as np
from ..tracejobs import *
from .. import symtrace as st, common
from ..gen_lean import Def
from ..runner import Corr, Failure

LEAN_MODULES = ['SvgVerif.Props.C17', 'SvgVerif.Props.C17Flatten']
SVGNS = 'http://www.w3.org/2000/svg'
KINDS = ['path', 'circle', 'ellipse', 'line', 'polyline', 'polygon', 'rect']   # order of document.CONVERSIONS


# ------------------------------------------------------------------------------------------------------------------
# translator: the matrix built by _parse_transform_substr for every transform kind and admissible arity

class _NpShim(object):
    """numpy as seen by svgpathtools.parser during a trace: object arrays, symbolic pi / cos / sin / tan"""

    def __init__(self, pi, fns):
        self.pi = pi
        self.cos, self.sin, self.tan = fns

    def identity(self, n):
        m = np.empty((n, n), dtype=object)
        for i in range(n):
            for j in range(n):
                m[i, j] = 1 if i == j else 0
        return m

    def array(self, x):
        return np.array(x, dtype=object)


OPS = [('matrix', 6), ('translate', 1), ('translate', 2), ('scale', 1), ('scale', 2), ('rotate', 1), ('rotate', 3), ('skewX', 1), ('skewY', 1)]
VNAMES = ['v0', 'v1', 'v2', 'v3', 'v4', 'v5']


def gen_defs(spt, salt=0):
    PR = spt.parser
    defs = []
    for op, ar in OPS:
        def job(r, op=op, ar=ar):
            vals, env = realvars(VNAMES[:ar] + ['pi'], r)
            sym = dict(zip(VNAMES[:ar], vals[:ar]))
            PI = vals[-1]
            shim = _NpShim(PI, (lambda x: st.fn_approx('cos', x, math.cos), lambda x: st.fn_approx('sin', x, math.sin), lambda x: st.fn_approx('tan', x, math.tan)))
            saved_np = PR.np
            try:
                PR.np = shim
                PR.float = lambda tok: sym[tok]
                m = PR._parse_transform_substr('%s(%s' % (op, ' '.join(VNAMES[:ar])))
            finally:
                PR.np = saved_np
                del PR.float
            assert m.shape == (3, 3)
            last = [st.R.lift(m[2, j]) for j in range(3)]
            assert [x.val for x in last] == [0, 0, 1] and all(x.n.op == 'const' for x in last), 'last row is not the constant row 0 0 1'
            out = []
            for nm, (i, j) in zip('abcdef', [(0, 0), (1, 0), (0, 1), (1, 1), (0, 2), (1, 2)]):
                out.append(Def('%s%d_%s' % (op, ar, nm), VNAMES[:ar] + ['pi'], node(m[i, j]),
                               '_parse_transform_substr("%s(...)") with %d value(s): entry %s of matrix(a b c d e f), i.e. [%d,%d]' % (op, ar, nm, i, j)))
            return out
        defs += retry(job, 'c17/%s%d' % (op, ar) + ('/%d' % salt if salt else ''))
    return defs


GEN = {'C17': gen_defs}

ASSUMPTIONS = [
    'xml.etree / minidom parsing and Element.iterfind are trusted: the models start from the element tree',
    'the shape converters are tied by exact correspondence (dyadic attribute values, through the real parser) to a command list written from SVG 1.1 section 9; zero-length segments are dropped on both sides before comparing',
    'transform() of Bezier segments is C10; transform() of arcs raises TypeError under the installed numpy (known finding F8), so circles, ellipses and rounded rects are compared only under the identity',
    'cos, sin, tan are real functions in the matrix theorems and table functions in the exact correspondence',
]


def _fr(x):
    x = Fr(x)
    return str(x.numerator) if x.denominator == 1 else '%d/%d' % (x.numerator, x.denominator)


def _aff(m):
    return ','.join(_fr(Fr(float(v))) for v in (m[0][0], m[1][0], m[0][1], m[1][1], m[0][2], m[1][2]))


def _canon_path(path):
    out = []
    for s in path:
        nm = type(s).__name__
        pts = s.bpoints() if nm != 'Arc' else None
        if nm == 'Arc':
            if s.start == s.end:
                continue
            out.append('A %s %s %s %s %s %d %d %s %s' % (_fr(s.start.real), _fr(s.start.imag), _fr(s.radius.real), _fr(s.radius.imag), _fr(s.rotation),
                                                          1 if s.large_arc else 0, 1 if s.sweep else 0, _fr(s.end.real), _fr(s.end.imag)))
            continue
        if all(p == pts[0] for p in pts):
            continue
        out.append({'Line': 'L', 'QuadraticBezier': 'Q', 'CubicBezier': 'C'}[nm] + ' ' + ' '.join('%s %s' % (_fr(p.real), _fr(p.imag)) for p in pts))
    return ('ok %s ' % ('true' if path._closed else 'false') + ' ; '.join(out)).strip()


def _dy(r, lo=-8, hi=8, den=(1, 2, 4)):
    return r.randint(lo * 4, hi * 4) / 4.0 if 4 in den else float(r.randint(lo, hi))


def _num_str(r, v):
    """a spelling of the dyadic float v"""
    if v == int(v) and r.random() < 0.6:
        return str(int(v))
    return r.choice([repr(v), '%.10f' % v, ('%.12e' % v)])


class _TabNp(object):
    """numpy as seen by svgpathtools.parser in the exact correspondence: pi = 180 so that the 'radian' argument is
    the number of degrees, and cos/sin/tan are the same table functions as in Driver.lean"""
    pi = 180.0

    def __getattr__(self, k):
        return getattr(np, k)

    @staticmethod
    def _idx(a, shift):
        return (math.floor(a * 4) + shift) % 8

    def cos(self, a):
        return self._idx(a, 0) / 8.0

    def sin(self, a):
        return self._idx(a, 3) / 8.0 - 0.5

    def tan(self, a):
        return self._idx(a, 5) / 4.0


def _rand_tf_str(r, simple=False):
    """(string, is_integer_affine) ; simple: only matrix/translate/scale with integer values"""
    n = r.choice([0, 1, 1, 1, 2, 2, 3])
    parts = []
    for _ in range(n):
        op = r.choice(['matrix', 'translate', 'translate', 'scale', 'scale'] + ([] if simple else ['rotate', 'rotate', 'skewX', 'skewY']))
        ar = {'matrix': [6], 'translate': [1, 2], 'scale': [1, 2], 'rotate': [1, 3], 'skewX': [1], 'skewY': [1]}[op]
        k = r.choice(ar)
        if not simple and r.random() < 0.12:
            k = r.choice([0, 2, 3, 4, 5, 7])          # wrong arity: identity + warning
        if not simple and r.random() < 0.06:
            op = r.choice(['foo', 'Matrix', 'skewZ', 'translatex', 'xscale'])
        vals = [float(r.randint(-3, 3)) if simple else r.randint(-12, 12) / 4.0 for _ in range(k)]
        if simple and op == 'scale':
            vals = [float(r.choice([-2, -1, 1, 2, 3])) for _ in range(k)]
        if simple and op == 'matrix':
            vals = [float(r.randint(-2, 2)) for _ in range(6)]
        sep = r.choice([' ', ',', ', ', '  ']) if not simple else r.choice([' ', ','])
        body = sep.join(_num_str(r, v) if not simple else str(int(v)) for v in vals)
        if not simple and r.random() < 0.05:
            body = r.choice(['a', '1 b', '1..2', '--1', '1,,2']) if r.random() < 0.7 else body + ' ('
        parts.append('%s(%s)' % (op, body))
    s = r.choice(['', ' ', ', ']).join(parts) if not simple else ' '.join(parts)
    if not simple and r.random() < 0.05:
        s = s[:-1] if s else s        # missing final parenthesis: the last transform is skipped
    return s


# ---- element trees -----------------------------------------------------------------------------------------------
def _shape_elem(ET, r, kind, sid, tf):
    q = lambda tag: '{%s}%s' % (SVGNS, tag)
    at = {'id': 's%d' % sid}
    if tf:
        at['transform'] = tf
    if kind == 'path':
        at['d'] = 'M%d 0L1 %d' % (sid, sid)
    elif kind == 'line':
        at.update(x1='0', y1=str(sid), x2='2', y2='1')
    elif kind == 'polyline':
        at['points'] = '0,0 1,%d 2,0' % sid
    elif kind == 'polygon':
        at['points'] = '0,0 1,%d 2,0' % sid
    elif kind == 'rect':
        at.update(x='1', y='2', width=str(sid + 1), height='3')
    elif kind == 'circle':
        at.update(cx='1', cy='2', r=str(sid + 1))
    elif kind == 'ellipse':
        at.update(cx='1', cy='2', rx=str(sid + 1), ry='2')
    return ET.Element(q(kind), at)


def _rand_tree(spt, r, kinds, depth=3, max_kids=3):
    """returns (root Element, protocol words, list of group elements by id)"""
    import xml.etree.ElementTree as ET
    PR = spt.parser
    counter = {'g': 0, 's': 100}
    groups = {}

    def build(level, is_root):
        gid = counter['g']
        counter['g'] += 1
        tf = _rand_tf_str(r, simple=True) if r.random() < 0.8 else ''
        at = {'id': 'g%d' % gid}
        if tf:
            at['transform'] = tf
        el = ET.Element('{%s}%s' % (SVGNS, 'svg' if is_root else 'g'), at)
        groups[gid] = el
        words = ['G', str(gid)] + _aff(PR.parse_transform(tf)).split(',')
        # interleave shapes and groups in the document; the protocol keeps the two document orders
        n_s = r.randint(0, 3)
        n_k = r.randint(0, max_kids) if level < depth else 0
        items = ['s'] * n_s + ['k'] * n_k
        r.shuffle(items)
        sw, kw = [], []
        for it in items:
            if it == 's':
                kind = r.choice(kinds)
                sid = counter['s']
                counter['s'] += 1
                stf = _rand_tf_str(r, simple=True) if r.random() < 0.5 else ''
                el.append(_shape_elem(ET, r, kind, sid, stf))
                sw += [str(KINDS.index(kind)), str(sid)] + _aff(PR.parse_transform(stf)).split(',')
            else:
                child, cw = build(level + 1, False)
                el.append(child)
                kw += cw
        words += [str(n_s)] + sw + [str(n_k)] + kw
        return el, words
    root, words = build(0, True)
    return root, words, groups


def correspond(ctx):
    spt = ctx.spt
    PR, D, S2P = spt.parser, spt.document, spt.svg_to_paths
    r = ctx.rng('corr')
    out = []
    # ---- parse_transform at string level ----------------------------------------------------------------------
    c = Corr('parse_transform/strings')
    lines, impl = [], []
    saved = PR.np
    try:
        PR.np = _TabNp()
        for it in range(ctx.n(500, 5000)):
            s = _rand_tf_str(r)
            lines.append(('ptf ' + s.replace(' ', '~')).strip())
            try:
                with warnings.catch_warnings():
                    warnings.simplefilter('ignore')
                    m = PR.parse_transform(s)
                impl.append('ok ' + _aff(m))
            except ValueError:
                impl.append('valueerror')
            c.count('ops=%d%s' % (min(s.count('('), 3), ' err' if impl[-1] == 'valueerror' else ''))
    finally:
        PR.np = saved
    c.compare(lines, [m.strip() for m in common.driver(lines)], impl)
    out.append(c)

    # ---- flattened_paths / flattened_paths_from_group on element trees ----------------------------------------
    c2 = Corr('flattened_paths/trees')
    c3 = Corr('flattened_paths_from_group/trees')
    l2, i2, l3, i3 = [], [], [], []
    line_kinds = ['path', 'line', 'polyline', 'polygon', 'rect']
    for it in range(ctx.n(200, 2000)):
        root, words, groups = _rand_tree(spt, r, line_kinds, depth=r.choice([1, 2, 3, 4]))
        with warnings.catch_warnings():
            warnings.simplefilter('ignore')
            ps = D.flattened_paths(root)
        l2.append('flat ' + ' '.join(words))
        i2.append(('ok ' + ' '.join('%s:%s' % (p.element.get('id')[1:], _aff(p.transform)) for p in ps)).strip())
        c2.count('groups=%d shapes=%d' % (min(len(groups), 6), min(len(ps), 8)))
        tgt = r.choice(sorted(groups))
        rec = r.random() < 0.6
        with warnings.catch_warnings():
            warnings.simplefilter('ignore')
            try:
                ps = D.flattened_paths_from_group(groups[tgt], root, recursive=rec)
                i3.append(('ok ' + ' '.join('%s:%s' % (p.element.get('id')[1:], _aff(p.transform)) for p in ps)).strip())
            except ValueError:
                i3.append('notdescendant')
        l3.append('fromgroup %d %d | %s' % (tgt, 1 if rec else 0, ' '.join(words)))
        c3.count('target=%s rec=%s' % ('root' if tgt == 0 else 'inner', rec))
    c2.compare(l2, [m.strip() for m in common.driver(l2)], i2)
    c3.compare(l3, [m.strip() for m in common.driver(l3)], i3)
    out += [c2, c3]

    # ---- shape converters through the real parser vs SVG 1.1 section 9 -----------------------------------------------
    c4 = Corr('shape converters')
    import xml.etree.ElementTree as ET
    l4, i4 = [], []
    for it in range(ctx.n(300, 3000)):
        kind = r.choice(['rect', 'rect', 'rrect', 'rrect', 'circle', 'ellipse', 'line', 'polyline', 'polygon', 'polygon'])
        d = lambda lo=-8, hi=8: r.randint(lo * 4, hi * 4) / 4.0
        if kind in ('rect', 'rrect'):
            x, y, w, h = d(), d(), r.randint(1, 40) / 4.0, r.randint(1, 40) / 4.0
            attrs = {'x': x, 'y': y, 'width': w, 'height': h}
            rx = ry = None
            if kind == 'rrect':
                rx = r.choice([None, r.randint(1, 8) / 8.0 * w / 2])
                ry = r.choice([None, r.randint(1, 8) / 8.0 * h / 2]) if rx is not None else r.randint(1, 8) / 8.0 * h / 2
                if rx is not None and ry is None and rx > h / 2:
                    rx = h / 2      # over-large radii are not clamped by the code (finding F22): stay inside
                if ry is not None and rx is None and ry > w / 2:
                    ry = w / 2
                if rx is not None:
                    attrs['rx'] = rx
                if ry is not None:
                    attrs['ry'] = ry
            line = 'shape rect %s %s %s %s %s %s' % (_fr(Fr(x)), _fr(Fr(y)), _fr(Fr(w)), _fr(Fr(h)), '-' if rx is None else _fr(Fr(rx)), '-' if ry is None else _fr(Fr(ry)))
            conv, tag = S2P.rect2pathd, 'rect'
        elif kind in ('circle', 'ellipse'):
            cx, cy, rx = d(), d(), r.randint(1, 32) / 4.0
            ry = rx if kind == 'circle' else r.randint(1, 32) / 4.0
            attrs = {'cx': cx, 'cy': cy, 'r': rx} if kind == 'circle' else {'cx': cx, 'cy': cy, 'rx': rx, 'ry': ry}
            line = 'shape ellipse %s %s %s %s' % (_fr(Fr(cx)), _fr(Fr(cy)), _fr(Fr(rx)), _fr(Fr(ry)))
            conv, tag = S2P.ellipse2pathd, kind
        elif kind == 'line':
            vals = [d() for _ in range(4)]
            attrs = dict(zip(['x1', 'y1', 'x2', 'y2'], vals))
            line = 'shape line ' + ' '.join(_fr(Fr(v)) for v in vals)
            conv, tag = S2P.line2pathd, 'line'
        else:
            n = r.randint(2, 6)
            pts = [(d(), d()) for _ in range(n)]
            if r.random() < 0.3:
                pts[-1] = pts[0]
            if r.random() < 0.15:
                pts[1] = pts[0]
            sep = r.choice([(',', ' '), (' ', ' '), (',', ','), (', ', '  ')])
            attrs = {'points': sep[1].join('%s%s%s' % (_num_str(r, a), sep[0], _num_str(r, b)) for a, b in pts)}
            line = 'shape %s ' % kind + ' '.join('%s %s' % (_fr(Fr(a)), _fr(Fr(b))) for a, b in pts)
            conv, tag = (S2P.polyline2pathd if kind == 'polyline' else S2P.polygon2pathd), kind
        sattrs = {k: (v if isinstance(v, str) else _num_str(r, v)) for k, v in attrs.items()}
        for form in ('dict', 'element'):
            arg = dict(sattrs) if form == 'dict' else ET.Element('{%s}%s' % (SVGNS, tag), sattrs)
            if form == 'dict' and tag == 'line':
                # svg2paths inlines the line conversion; line2pathd itself needs .attrib
                class _A(dict):
                    pass
                arg = _A(sattrs)
                arg.attrib = sattrs
            try:
                with warnings.catch_warnings():
                    warnings.simplefilter('ignore')
                    path = PR.parse_path(conv(arg))
                cp = _canon_path(path)
                if kind == 'polyline':
                    cp = cp.replace('ok true', 'ok -', 1).replace('ok false', 'ok -', 1)
                i4.append(cp)
            except Exception as e:
                i4.append('raise %s' % type(e).__name__)
            l4.append(line + '  # %s %s %r' % (form, tag, sattrs))
            c4.count('%s/%s' % (kind, form))
    model = [m.strip() for m in common.driver([x.split('  #')[0] for x in l4])]
    # a polyline has no closepath in SVG; the code marks it closed when its first and last points coincide, which
    # changes the Path's _closed flag only, not its segments: the flag is not compared for polylines
    model = [(m.replace('ok true', 'ok -', 1).replace('ok false', 'ok -', 1) if x.startswith('shape polyline') else m) for m, x in zip(model, l4)]
    c4.compare(l4, model, i4)
    out.append(c4)
    return out


# ------------------------------------------------------------------------------------------------------------------
# sampler: whole documents through the four entry points vs an independent reference flattener

def ref_matrix(s):
    """SVG 1.1 section 7.6, written from the specification (numbers separated by whitespace and/or commas)"""
    import re
    m = np.identity(3)
    for name, body in re.findall(r'([A-Za-z]+)\s*\(([^)]*)\)', s or ''):
        v = [float(x) for x in re.split(r'[\s,]+', body.strip()) if x]
        t = np.identity(3)
        if name == 'matrix':
            t = np.array([[v[0], v[2], v[4]], [v[1], v[3], v[5]], [0, 0, 1]])
        elif name == 'translate':
            t[0, 2] = v[0]
            t[1, 2] = v[1] if len(v) > 1 else 0.0
        elif name == 'scale':
            t[0, 0] = v[0]
            t[1, 1] = v[1] if len(v) > 1 else v[0]
        elif name == 'rotate':
            a = math.radians(v[0])
            rot = np.array([[math.cos(a), -math.sin(a), 0], [math.sin(a), math.cos(a), 0], [0, 0, 1]])
            if len(v) == 3:
                t1, t2 = np.identity(3), np.identity(3)
                t1[0, 2], t1[1, 2] = v[1], v[2]
                t2[0, 2], t2[1, 2] = -v[1], -v[2]
                t = t1 @ rot @ t2
            else:
                t = rot
        elif name == 'skewX':
            t[0, 1] = math.tan(math.radians(v[0]))
        elif name == 'skewY':
            t[1, 0] = math.tan(math.radians(v[0]))
        m = m @ t
    return m


def ref_outline(kind, at):
    """sample points of the shape's outline in its own coordinates (list of complex), from SVG 1.1 section 9"""
    f = lambda k, dflt=0.0: float(at.get(k, dflt))
    if kind == 'line':
        a, b = complex(f('x1'), f('y1')), complex(f('x2'), f('y2'))
        return [a + (b - a) * t for t in (0, 0.5, 1)]
    if kind in ('polyline', 'polygon'):
        import re
        nums = [float(x) for x in re.findall(r'[-+]?(?:\d+\.?\d*|\.\d+)(?:[eE][-+]?\d+)?', at['points'])]
        pts = [complex(a, b) for a, b in zip(nums[0::2], nums[1::2])]
        if kind == 'polygon':
            pts = pts + [pts[0]]
        out = []
        for a, b in zip(pts, pts[1:]):
            out += [a, (a + b) / 2]
        return out + [pts[-1]]
    if kind in ('circle', 'ellipse'):
        rx = f('r') if kind == 'circle' else f('rx')
        ry = f('r') if kind == 'circle' else f('ry')
        c = complex(f('cx'), f('cy'))
        return [c + complex(rx * math.cos(a), ry * math.sin(a)) for a in np.linspace(0, 2 * math.pi, 13)]
    if kind == 'rect':
        x, y, w, h = f('x'), f('y'), f('width'), f('height')
        rx, ry = at.get('rx'), at.get('ry')
        if rx is None and ry is None:
            pts = [complex(x, y), complex(x + w, y), complex(x + w, y + h), complex(x, y + h), complex(x, y)]
            out = []
            for a, b in zip(pts, pts[1:]):
                out += [a, (a + b) / 2]
            return out
        rx = float(rx if rx is not None else ry)
        ry = float(ry if ry is not None else rx)
        out = []
        # straight parts and the four corner quarter-ellipses
        for (a, b) in [((x + rx, y), (x + w - rx, y)), ((x + w, y + ry), (x + w, y + h - ry)), ((x + w - rx, y + h), (x + rx, y + h)), ((x, y + h - ry), (x, y + ry))]:
            out += [complex(*a), (complex(*a) + complex(*b)) / 2, complex(*b)]
        for (cx, cy, a0) in [(x + w - rx, y + ry, -90), (x + w - rx, y + h - ry, 0), (x + rx, y + h - ry, 90), (x + rx, y + ry, 180)]:
            a = math.radians(a0 + 45)
            out.append(complex(cx + rx * math.cos(a), cy + ry * math.sin(a)))
        return out
    raise KeyError(kind)


def ref_polyline(kind, at, dense=180):
    """the outline as a dense closed/open polygon (list of complex) in the shape's own coordinates: the reference for
    'nothing but the outline is returned'"""
    f = lambda k, dflt=0.0: float(at.get(k, dflt))
    if kind in ('line', 'polyline', 'polygon'):
        pts = ref_outline(kind, at)
        return pts
    if kind in ('circle', 'ellipse'):
        rx = f('r') if kind == 'circle' else f('rx')
        ry = f('r') if kind == 'circle' else f('ry')
        c = complex(f('cx'), f('cy'))
        return [c + complex(rx * math.cos(a), ry * math.sin(a)) for a in np.linspace(0, 2 * math.pi, 4 * dense + 1)]
    if kind == 'rect':
        x, y, w, h = f('x'), f('y'), f('width'), f('height')
        rx, ry = at.get('rx'), at.get('ry')
        if rx is None and ry is None:
            return [complex(x, y), complex(x + w, y), complex(x + w, y + h), complex(x, y + h), complex(x, y)]
        rx = float(rx if rx is not None else ry)
        ry = float(ry if ry is not None else rx)
        out = []
        for (cx, cy, a0) in [(x + w - rx, y + ry, -90), (x + w - rx, y + h - ry, 0), (x + rx, y + h - ry, 90), (x + rx, y + ry, 180)]:
            out += [complex(cx + rx * math.cos(math.radians(a)), cy + ry * math.sin(math.radians(a))) for a in np.linspace(a0, a0 + 90, dense // 2 + 1)]
        return out + [out[0]]
    raise KeyError(kind)


def _dist_pts_to_polyline(poly, pts):
    """largest distance from the points to the polygonal line"""
    a = np.array(poly[:-1]); b = np.array(poly[1:])
    d = b - a
    L2 = np.abs(d) ** 2
    worst = 0.0
    for p in pts:
        with np.errstate(divide='ignore', invalid='ignore'):
            t = np.where(L2 > 0, ((p - a) * np.conj(d)).real / np.where(L2 > 0, L2, 1), 0.0)
        t = np.clip(t, 0, 1)
        worst = max(worst, float(np.min(np.abs(a + t * d - p))))
    return worst


def _dist_pts_to_path(path, pts, n=200):
    """largest distance from the points to the path (sampled, then refined by ternary search)"""
    ts = np.linspace(0, 1, n + 1)
    segpts = [np.array([seg.point(t) for t in ts]) for seg in path]
    worst = 0.0
    for p in pts:
        best = float('inf')
        for seg, sp in zip(path, segpts):
            ds = np.abs(sp - p)
            # every local minimum of the sampled distance is refined (a curve with a loop or a cusp passes close to the point on one
            # branch and through it on another)
            cand = [i_ for i_ in range(n + 1) if (i_ == 0 or ds[i_] <= ds[i_ - 1]) and (i_ == n or ds[i_] <= ds[i_ + 1])]
            cand.sort(key=lambda i_: ds[i_])
            for i in cand[:4]:
                if ds[i] > best + 0.5 * (1 + abs(p)) :
                    continue
                lo, hi = ts[max(i - 1, 0)], ts[min(i + 1, n)]
                for _ in range(40):
                    m1, m2 = lo + (hi - lo) / 3, hi - (hi - lo) / 3
                    if abs(seg.point(m1) - p) < abs(seg.point(m2) - p):
                        hi = m2
                    else:
                        lo = m1
                best = min(best, float(ds[i]), abs(seg.point((lo + hi) / 2) - p))
        worst = max(worst, best)
    return worst


def _doc_text(r, arcs_under_tf):
    """random SVG document text + reference list [(id, kind, attrs, matrix)] in document order"""
    counter = {'n': 0}
    ref = []

    def tfs():
        if r.random() < 0.35:
            return ''
        parts = []
        if r.random() < 0.12:
            # transforms that are close to, but not, the identity (a zoom of 1.000005, a turn of 2e-7 degrees): they still move a point
            # at 1e6 by several units
            return r.choice(['scale(1.000005)', 'matrix(1.000004 0 0 0.999996 0 0)', 'rotate(0.0002)', 'skewX(0.0003)', 'scale(0.999992 1.000007)', 'translate(0.000004,0)',
                             'scale(2) scale(0.5000021)', 'rotate(0.00001)'])
        for _ in range(r.randint(1, 2)):
            op = r.choice(['translate', 'scale', 'rotate', 'matrix', 'skewX', 'skewY', 'rotate3', 'translate1', 'scale1'])
            v = lambda: round(r.uniform(-3, 3), 2)
            parts.append({'translate': 'translate(%s,%s)' % (v(), v()), 'translate1': 'translate(%s)' % v(), 'scale': 'scale(%s %s)' % (r.choice([0.5, 2, -1, 1.5]), r.choice([0.5, 2, 1.5])),
                          'scale1': 'scale(%s)' % r.choice([0.5, 2, 3]), 'rotate': 'rotate(%s)' % round(r.uniform(-180, 180), 1),
                          'rotate3': 'rotate(%s %s %s)' % (round(r.uniform(-180, 180), 1), v(), v()), 'matrix': 'matrix(%s %s %s %s %s %s)' % (v(), v(), v(), v(), v(), v()),
                          'skewX': 'skewX(%s)' % round(r.uniform(-60, 60), 1), 'skewY': 'skewY(%s)' % round(r.uniform(-60, 60), 1)}[op])
        return r.choice([' ', ' ', ', ', ',', '  ']).join(parts)     # the SVG grammar separates transforms by whitespace and/or a comma

    def shape(m, identity_so_far):
        counter['n'] += 1
        sid = 'e%d' % counter['n']
        kinds = ['path', 'line', 'polyline', 'polygon', 'rect']
        own = tfs() if r.random() < 0.5 else ''
        arc_ok = arcs_under_tf or (identity_so_far and not own)
        if arc_ok:
            kinds += ['circle', 'ellipse', 'rrect']
        kind = r.choice(kinds)
        v = lambda lo=-5, hi=5: round(r.uniform(lo, hi), 2)
        if kind == 'path' and r.random() < 0.3:
            # map / CAD scale: coordinates of 1e5 .. 1e6 with several sub-paths that lie a few units apart (real gaps, small only
            # compared with the coordinates), and an open outline that ends a couple of units from where it started
            X, Y = r.choice([2e5, 5e5, 1e6]) + round(r.uniform(-50, 50), 1), r.choice([1e5, 3e5, 1e6]) + round(r.uniform(-50, 50), 1)
            z = lambda dx, dy: '%s,%s' % (round(X + dx, 2), round(Y + dy, 2))
            g1, g2 = r.choice([1.5, 3, 5]), r.choice([2, 4])
            at = {'d': 'M%s L%s M%s L%s Q%s %s M%s L%s L%s L%s' % (z(0, 0), z(40, 0), z(40 + g1, 0), z(80, 5), z(90, 20), z(100, 5 + v()),
                                                                     z(0, 30), z(30, 30), z(30, 60), z(g2, 30 + g2))}
        elif kind == 'path':
            at = {'d': 'M%s,%s L%s,%s Q%s,%s %s,%s C%s,%s %s,%s %s,%s' % tuple(v() for _ in range(14))}
        elif kind == 'line':
            at = {'x1': v(), 'y1': v(), 'x2': v(), 'y2': v()}
        elif kind in ('polyline', 'polygon'):
            at = {'points': ' '.join('%s,%s' % (v(), v()) for _ in range(r.randint(2, 5)))}
        elif kind == 'rect':
            at = {'x': v(), 'y': v(), 'width': v(0.5, 5), 'height': v(0.5, 5)}
        elif kind == 'rrect':
            w, h = v(1, 5), v(1, 5)
            at = {'x': v(), 'y': v(), 'width': w, 'height': h}
            which = r.choice(['rx', 'ry', 'both'])
            lim = min(w, h)
            if which in ('rx', 'both'):
                at['rx'] = round((w if which == 'both' else lim) * r.uniform(0.05, 0.45), 2)
            if which in ('ry', 'both'):
                at['ry'] = round((h if which == 'both' else lim) * r.uniform(0.05, 0.45), 2)
            kind = 'rect'
        elif kind == 'circle':
            at = {'cx': v(), 'cy': v(), 'r': v(0.5, 3)}
        else:
            at = {'cx': v(), 'cy': v(), 'rx': v(0.5, 3), 'ry': v(0.5, 3)}
        at = {k: str(x) for k, x in at.items()}
        mm = m @ ref_matrix(own)
        ref.append((sid, kind, at, mm))
        extra = (' transform="%s"' % own) if own else ''
        return '<%s id="%s"%s %s/>' % (kind, sid, extra, ' '.join('%s="%s"' % kv for kv in at.items()))

    def group(m, level, ident):
        counter['n'] += 1
        gid = 'g%d' % counter['n']
        own = tfs()
        mm = m @ ref_matrix(own)
        ident2 = ident and not own
        body = []
        for _ in range(r.randint(1, 3)):
            if level < 3 and r.random() < 0.45:
                body.append(group(mm, level + 1, ident2))
            else:
                body.append(shape(mm, ident2))
        return '<g id="%s"%s>%s</g>' % (gid, (' transform="%s"' % own) if own else '', ''.join(body))
    body = []
    for _ in range(r.randint(1, 3)):
        body.append(group(np.identity(3), 1, True) if r.random() < 0.7 else shape(np.identity(3), True))
    text = '<?xml version="1.0"?><svg xmlns="%s" width="10" height="10" id="root">%s</svg>' % (SVGNS, ''.join(body))
    return text, ref


def sample(ctx, budget=1.0, hint=None, broken=None):
    spt = ctx.spt
    P = spt.path
    r = ctx.rng('sample' + ('' if budget == 1.0 else '-search'))
    fails, samples = [], []
    nontriv = set()
    n_eval = 0

    def fail(sig, what, inp, obs, exp, repro=''):
        if len(fails) < 40 and sum(1 for f in fails if f['signature'] == sig) < 2:
            fails.append(Failure(signature=sig, what=what, input=inp, observed=obs, expected=exp, repro=repro))

    def compare(api, text, sid, kind, at, m, path):
        pts = ref_outline(kind, at) if kind != 'path' else None
        if kind == 'path':
            base = P.Path(at['d'])
            pts = [seg.point(t) for seg in base for t in (0, 0.3, 0.7, 1)]
        want = [complex(*(m @ np.array([p.real, p.imag, 1.0]))[:2]) for p in pts]
        # tolerance: relative to the SIZE of the shape, plus rounding of the coordinates themselves (a shape at 1e6 is known to ~1e-9 * 1e6)
        size = max(1.0, max(abs(w - want[0]) for w in want)) + 1e-3 * max(abs(w) for w in want)
        d = _dist_pts_to_path(path, want)
        if d > 1e-6 * size:
            fail('%s/%s geometry' % (api, kind), 'the path returned for an element is not the SVG geometry of that element under the product of its ancestors\' and its own transforms',
                 {'svg': text, 'element': sid}, 'outline point off by %r' % d, 'on the returned path',
                 'svgpathtools.%s' % {'Document.paths': 'Document.from_svg_string(%r).paths()' % text, 'svg2paths': 'svg2paths(io.StringIO(%r))' % text,
                                      'SaxDocument': 'SaxDocument(<file with %r>).flatten_all_paths()' % text, 'paths_from_group': 'Document.from_svg_string(%r).paths_from_group(...)' % text}[api])
            return False
        # ... and nothing but that geometry: the end points and interior points of every returned segment, mapped back by the inverse
        # matrix, lie on the element's own outline
        try:
            minv = np.linalg.inv(m)
        except Exception:
            return True
        own = [seg.point(t) for seg in path for t in (0, 0.03, 0.25, 0.5, 0.75, 0.97, 1)]
        back = [complex(*(minv @ np.array([q.real, q.imag, 1.0]))[:2]) for q in own]
        if kind == 'path':
            d2 = _dist_pts_to_path(base, back, n=60)
            ssz = max(1.0, max(abs(q - pts[0]) for q in pts)) + 1e-3 * max(abs(q) for q in pts)
        else:
            poly = ref_polyline(kind, at)
            d2 = _dist_pts_to_polyline(poly, back)
            ssz = max(1.0, max(abs(q - poly[0]) for q in poly)) + 1e-3 * max(abs(q) for q in poly)
        if d2 > 2e-4 * ssz * max(1.0, float(np.abs(minv[:2, :2]).max())):
            fail('%s/%s excess geometry' % (api, kind), 'the path returned for an element contains points that are not on the element\'s outline',
                 {'svg': text, 'element': sid}, 'a returned point is off the outline by %r (in the element\'s own coordinates)' % d2, 'on the outline',
                 'svgpathtools.%s' % {'Document.paths': 'Document.from_svg_string(%r).paths()' % text, 'svg2paths': 'svg2paths(io.StringIO(%r))' % text,
                                      'SaxDocument': 'SaxDocument(<file with %r>).flatten_all_paths()' % text, 'paths_from_group': 'Document.from_svg_string(%r).paths_from_group(...)' % text}[api])
            return False
        return True

    import tempfile, os
    for it in range(int(ctx.n(60, 600) * budget)):
        arcs_tf = (it % 6 == 5)
        text, ref = _doc_text(r, arcs_tf)
        n_eval += 1
        nontriv.add((len(ref), tuple(sorted(set(k for _, k, _, _ in ref))), arcs_tf))
        byid = {sid: (kind, at, m) for sid, kind, at, m in ref}
        # -- Document.paths ------------------------------------------------------------------
        def _scribble(paths_):
            # what a caller may do with results it owns: edit the returned Path objects in place
            P_ = spt.path
            for p_ in paths_:
                try:
                    how_ = r.choice(['append', 'insert', 'del', 'seg-start', 'setitem', 'none'])
                    if how_ == 'append':
                        p_.append(P_.Line(p_[-1].end, p_[-1].end + (7 + 3j)))
                    elif how_ == 'insert':
                        p_.insert(0, P_.Line(p_[0].start - (5 + 1j), p_[0].start))
                    elif how_ == 'del' and len(p_) > 1:
                        del p_[0]
                    elif how_ == 'seg-start':
                        p_[0].start = p_[0].start + (2 - 4j)
                    elif how_ == 'setitem':
                        p_[-1] = P_.Line(p_[-1].start, p_[-1].start + (1 + 9j))
                except Exception:
                    pass
        earlier = ''
        if r.random() < 0.4:
            # an earlier, unrelated flattening of the same text whose results were edited by their owner
            try:
                with warnings.catch_warnings():
                    warnings.simplefilter('ignore')
                    _scribble(spt.Document.from_svg_string(text).paths())
                earlier = ' [after an earlier Document of the same text was flattened and its result paths edited in place]'
                nontriv.add(('earlier-flattening-edited', len(ref)))
            except Exception:
                pass
        try:
            with warnings.catch_warnings():
                warnings.simplefilter('ignore')
                doc = spt.Document.from_svg_string(text)
                got = doc.paths()
                if r.random() < 0.4:
                    # the same document asked twice, the first answer edited by the caller in between
                    _scribble(got)
                    got = doc.paths()
                    earlier += ' [second paths() call on the document after the first result was edited in place]'
            segs_seen = [id(sg) for p_ in got for sg in p_]
            if len(set(id(p_) for p_ in got)) != len(got) or len(set(segs_seen)) != len(segs_seen):
                fail('Document.paths/shared objects', 'two elements are returned as one shared Path / share segment objects', {'svg': text + earlier}, 'shared', 'one object per element')
            ids = sorted(p.element.get('id') for p in got)
            if ids != sorted(byid):
                fail('Document.paths/element set', 'Document.paths() does not return exactly one path per supported element', {'svg': text}, repr(ids), repr(sorted(byid)))
            else:
                for p in got:
                    kind, at, m = byid[p.element.get('id')]
                    if not compare('Document.paths', text, p.element.get('id'), kind, at, m, p):
                        break
        except TypeError as e:
            if arcs_tf and 'ufunc' in str(e):
                fail('Document.paths/arc under a transform raises TypeError', 'transform(Arc, M) raises TypeError (finding F8), so a circle / ellipse / rounded rect below a transform aborts Document.paths()',
                     {'svg': text}, repr(e)[:200], 'paths')
            else:
                fail('Document.paths raises', 'Document.paths() raised', {'svg': text}, repr(e)[:300], 'paths')
        except Exception as e:
            fail('Document.paths raises', 'Document.paths() raised', {'svg': text}, repr(e)[:300], 'paths')
        # -- paths_from_group on the first nested group, recursive -------------------------------------------------------
        try:
            with warnings.catch_warnings():
                warnings.simplefilter('ignore')
                doc = spt.Document.from_svg_string(text)
                groups = [g for g in doc.tree.getroot().iter('{%s}g' % SVGNS)]
                if groups and not arcs_tf:
                    g = r.choice(groups)
                    inside = sorted(e.get('id') for e in g.iter() if e.get('id') in byid)
                    got = doc.paths_from_group(g)
                    ids = sorted(p.element.get('id') for p in got)
                    if ids != inside:
                        fail('paths_from_group/element set', 'paths_from_group(g) does not return exactly the supported elements below g', {'svg': text, 'group': g.get('id')}, repr(ids), repr(inside))
                    else:
                        for p in got:
                            kind, at, m = byid[p.element.get('id')]
                            if not compare('paths_from_group', text, p.element.get('id'), kind, at, m, p):
                                break
        except Exception as e:
            fail('paths_from_group raises', 'paths_from_group raised', {'svg': text}, repr(e)[:300], 'paths')
        # -- svg2paths: ignores transforms by design ---------------------------------------------------------
        try:
            with warnings.catch_warnings():
                warnings.simplefilter('ignore')
                paths, attrs = spt.svg2paths(io.StringIO(text))
            ids = sorted(a.get('id') for a in attrs)
            if ids != sorted(byid) or len(paths) != len(attrs):
                fail('svg2paths/element set', 'svg2paths does not return exactly one path per supported element', {'svg': text}, repr(ids), repr(sorted(byid)))
            else:
                for p, a in zip(paths, attrs):
                    kind, at, m = byid[a['id']]
                    if not compare('svg2paths', text, a['id'], kind, at, np.identity(3), p):
                        break
        except Exception as e:
            fail('svg2paths raises', 'svg2paths raised', {'svg': text}, repr(e)[:300], 'paths')
        # -- SaxDocument ----------------------------------------------------------------------
        fd, fn = tempfile.mkstemp(suffix='.svg')
        try:
            with os.fdopen(fd, 'w') as f:
                f.write(text)
            with warnings.catch_warnings():
                warnings.simplefilter('ignore')
                sd = spt.SaxDocument(fn)
                flat = sd.flatten_all_paths()
            ids = [v.get('id') for v in sd.tree]
            if sorted(ids) != sorted(byid) or len(flat) != len(ids):
                fail('SaxDocument/element set', 'SaxDocument does not hold exactly one entry per supported element', {'svg': text}, repr(ids), repr(sorted(byid)))
            else:
                for p, sid in zip(flat, ids):
                    kind, at, m = byid[sid]
                    if not compare('SaxDocument', text, sid, kind, at, m, p):
                        break
        except TypeError as e:
            if arcs_tf and 'ufunc' in str(e):
                fail('Document.paths/arc under a transform raises TypeError', 'transform(Arc, M) raises TypeError (finding F8)', {'svg': text}, repr(e)[:200], 'paths')
            else:
                fail('SaxDocument raises', 'SaxDocument raised', {'svg': text}, repr(e)[:300], 'paths')
        except Exception as e:
            fail('SaxDocument raises', 'SaxDocument raised', {'svg': text}, repr(e)[:300], 'paths')
        finally:
            try:
                os.unlink(fn)
            except OSError:
                pass
        if len(samples) < 2:
            samples.append({'svg': text[:400], 'elements': len(ref)})
    return {'evaluations': n_eval, 'distinct_nontrivial': len(nontriv), 'failures': fails, 'samples': samples,
            'rule': 'random SVG documents: groups nested to depth 3 with transform lists of 1-2 operations over all six kinds (1/2/3-argument forms), leaves of all 7 supported element '
                    'kinds incl. rounded rects, own transforms on leaves; read by Document.paths, Document.paths_from_group, svg2paths (identity expected) and SaxDocument.flatten_all_paths; '
                    'each returned path must pass through outline points computed by an independent reference (SVG 1.1 sections 7.6 and 9) within 1e-6 of the size; arcs below a '
                    'non-identity transform only in every 6th document (known finding F8). distinct = distinct (number of elements, kinds present, arcs under transform)'}


def replay(spt, f):
    from .c19 import replay as rp
    return rp(spt, f)
