"""C16: observations after any mutation history equal those of a freshly built object."""
from __future__ import annotations
import itertools
import math
import warnings
from fractions import Fraction as Fr
from .. import common
from ..runner import Corr, Failure

LEAN_MODULES = ['SvgVerif.Props.C16', 'SvgVerif.Props.C16Heap']
ASSUMPTIONS = [
    'segment lengths are uninterpreted in the theorem (law-free); the correspondence instantiates them with exact |end-start| on 1-D stub segments',
    'aliasing of one segment object inside two paths (or twice in one path) is not modelled',
    'operations that raise (slice assignment emptying the path; start/end assignment on an empty path) are outside the theorem; their partial effect is modelled and compared',
    'known finding F12: Path.__eq__ ignores _closed while __hash__ includes it',
]


def _fr(x):
    x = Fr(x)
    return str(x.numerator) if x.denominator == 1 else '%d/%d' % (x.numerator, x.denominator)


class Stub(object):
    """1-D duck-typed segment with exact length"""

    def __init__(self, s, e):
        self.start, self.end = complex(s, 0), complex(e, 0)

    def length(self, t0=0, t1=1, error=1e-12, min_depth=5):
        a = int(round(-math.log10(error)))      # accuracy class; the 'computed' length depends on it
        return Fr(abs(int(self.end.real) - int(self.start.real))) * (1 + Fr(1, 10 ** a)) * (t1 - t0)

    def point(self, t):
        return ('P', self, t)


def _pt(z):
    if z is None:
        return 'pt none'
    return 'pt %d' % int(complex(z).real)


def _segs_str(path):
    return '[' + ' '.join('%d,%d' % (int(s.start.real), int(s.end.real)) for s in path._segments) + ']'


def _apply(path, op):
    """apply one op of the line protocol to the real Path; returns the canonical outcome"""
    k = op[0]
    try:
        if k == 'set':
            path[op[1]] = Stub(op[2], op[3]); return 'u'
        if k == 'slice':
            path[op[1]:op[2]] = [Stub(a, b) for a, b in op[3]]; return 'u'
        if k == 'del':
            del path[op[1]]; return 'u'
        if k == 'ins':
            path.insert(op[1], Stub(op[2], op[3])); return 'u'
        if k == 'app':
            path.append(Stub(op[1], op[2])); return 'u'
        if k == 'ext':
            path.extend([Stub(a, b) for a, b in op[1]]); return 'u'
        if k == 'pop':
            s = path.pop(op[1]); return 'seg %d %d' % (int(s.start.real), int(s.end.real))
        if k == 'rev':
            path.reverse(); return 'u'
        if k == 'sstart':
            path.start = complex(op[1], 0); return 'u'
        if k == 'send':
            path.end = complex(op[1], 0); return 'u'
        if k == 'qlen':
            return 'len ' + _fr(path.length())
        if k == 'qlenat':
            return 'len ' + _fr(path.length(error=10.0 ** -op[1]))
        if k in ('qT2t', 'qpt'):
            T = op[1]
            try:
                if k == 'qT2t':
                    i, t = path.T2t(T)
                else:
                    _, seg, t = path.point(T)
                    i = [j for j, s in enumerate(path._segments) if s is seg][0]
                return 'it %d %s' % (i, _fr(t))
            except IndexError:
                raise
            except Exception:
                return 'it none'
        if k == 'qstart':
            return _pt(path.start)
        if k == 'qend':
            return _pt(path.end)
    except IndexError:
        return 'ie'
    raise AssertionError(op)


def _op_text(op):
    k = op[0]
    if k in ('slice',):
        return 'slice %d %d %s' % (op[1], op[2], ' '.join('%d %d' % ab for ab in op[3]))
    if k == 'ext':
        return 'ext ' + ' '.join('%d %d' % ab for ab in op[1])
    if k in ('qT2t', 'qpt'):
        return '%s %s' % (k, _fr(op[1]))
    return ' '.join([k] + [str(x) for x in op[1:]])


def _rand_op(r, n):
    k = r.choice(['set', 'slice', 'del', 'ins', 'app', 'ext', 'pop', 'rev', 'sstart', 'send',
                  'qlen', 'qlen', 'qlenat', 'qT2t', 'qpt', 'qstart', 'qend'])
    seg = lambda: (r.randint(-3, 6), r.randint(-3, 6))
    idx = lambda: r.randint(-n - 1, n + 1)
    if k == 'set':
        return ('set', idx()) + seg()
    if k == 'slice':
        return ('slice', idx(), idx(), [seg() for _ in range(r.randint(0, 2))])
    if k == 'del':
        return ('del', idx())
    if k == 'ins':
        return ('ins', idx()) + seg()
    if k == 'app':
        return ('app',) + seg()
    if k == 'ext':
        return ('ext', [seg() for _ in range(r.randint(0, 2))])
    if k == 'pop':
        return ('pop', r.choice([-1, -1, idx()]))
    if k in ('sstart', 'send'):
        return (k, r.randint(-3, 6))
    if k == 'qlenat':
        return (k, r.choice([3, 3, 12, 14]))
    if k in ('qT2t', 'qpt'):
        return (k, r.choice([Fr(0), Fr(1), Fr(1, 2), Fr(1, 4), Fr(r.randint(1, 15), 16)]))
    return (k,)


ALPHABET = [('set', 0, 1, 4), ('set', -1, 2, 0), ('del', 0), ('ins', 1, 3, 3), ('app', 0, 5), ('pop', -1), ('rev',),
            ('sstart', 4), ('send', 0), ('slice', 0, 1, [(2, 6)]), ('ext', [(1, 2)]),
            ('qlen',), ('qlenat', 3), ('qT2t', Fr(1, 2)), ('qpt', Fr(1, 4)), ('qstart',), ('qend',)]


def correspond(ctx):
    spt = ctx.spt
    P = spt.path
    r = ctx.rng('corr')
    c = Corr('mutation-history')
    hists = []
    for it in range(ctx.n(300, 3000)):
        n0 = r.randint(0, 4)
        init = [(r.randint(-3, 6), r.randint(-3, 6)) for _ in range(n0)]
        ops = []
        n = n0
        for _ in range(r.randint(1, ctx.n(25, 60))):
            ops.append(_rand_op(r, n))
            n = max(0, n + {'app': 1, 'ins': 1, 'del': -1, 'pop': -1}.get(ops[-1][0], 0))
        hists.append((init, ops))
    # exhaustive bounded enumeration over a fixed alphabet (validation of the model, not the proof)
    depth = 3 if ctx.thorough else 2
    init3 = [(0, 2), (2, 5), (5, 6)]
    for combo in itertools.product(ALPHABET, repeat=depth):
        hists.append((init3, list(combo) + [('qlen',), ('qpt', Fr(1, 2)), ('qstart',), ('qend',)]))
    lines, impl = [], []
    for init, ops in hists:
        lines.append('hist init ' + ' '.join('%d %d' % ab for ab in init) + ' ; ' + ' ; '.join(_op_text(o) for o in ops))
        path = P.Path(*[Stub(a, b) for a, b in init])
        outs = []
        for o in ops:
            res = _apply(path, o)
            outs.append(res + ' ' + _segs_str(path))
            c.count(o[0])
            if res == 'ie':
                c.count('raised IndexError')
        impl.append(' ; '.join(outs))
    model = common.driver(lines)
    c.compare(lines, [m.strip() for m in model], impl)
    c.exhaustive_depth = depth

    # ---- stream 2: CubicBezier length cache with an identity integrator -------------------
    c2 = Corr('cubic-length-cache')
    r = ctx.rng('corr-cub')
    lines, impl = [], []
    saved = (P._quad_available, P.segment_length)
    bps = [(0j, 1 + 1j, 2 - 1j, 3 + 0j), (0j, 1 + 2j, 2 - 1j, 3 + 0j), (1j, 1 + 1j, 2 - 1j, 3 + 0j)]
    try:
        P._quad_available = False
        cur = {}

        def fake_segment_length(curve, start, end, start_point, end_point, error, min_depth, depth):
            return (cur['bp'], error, min_depth)
        P.segment_length = fake_segment_length
        for it in range(ctx.n(150, 1500)):
            seg = P.CubicBezier(*bps[0])
            ops, outs = [], []
            for _ in range(r.randint(1, 8)):
                b = r.choice([0, 0, 0, 1, 2])
                k = r.choice([3, 6, 12, 12, 14])
                d = r.choice([0, 5, 5, 7])
                seg.start, seg.control1, seg.control2, seg.end = bps[b]
                cur['bp'] = b
                e = Fr(1, 10 ** k)
                ops.append('req %d %s %d' % (b, _fr(e), d))
                v = seg.length(error=e, min_depth=d)
                outs.append('%d:%s:%d' % (v[0], _fr(v[1]), v[2]))
                c2.count('accuracy 1e-%d depth %d' % (k, d))
            lines.append('cubcache ' + ' ; '.join(ops))
            impl.append(' ; '.join(outs))
    finally:
        P._quad_available, P.segment_length = saved
    model = common.driver(lines)
    c2.compare(lines, [m.strip() for m in model], impl)

    # ---- stream 3: Arc length cache (key = (hash(self), error, min_depth)) with an identity integrator -------------------
    c3 = Corr('arc-length-cache')
    r = ctx.rng('corr-arc')
    lines, impl = [], []
    saved = (P._quad_available, P.segment_length)
    arcs = [(0j, 3 + 2j, 0, False, True, 2 + 1j), (0.5j, 3 + 2j, 0, False, True, 2 + 1j), (0j, 3 + 2j, 30, False, True, 2 + 1j), (0j, 3 + 2j, 0, True, True, 2 + 1j)]
    assert len(set(hash(P.Arc(*a)) for a in arcs)) == len(arcs)      # the model's hash is injective on these
    try:
        P._quad_available = False
        cur = {}

        def fake_segment_length2(curve, start, end, start_point, end_point, error, min_depth, depth):
            return (cur['f'], error, min_depth)
        P.segment_length = fake_segment_length2
        for it in range(ctx.n(150, 1500)):
            seg = P.Arc(*arcs[0])
            ops, outs = [], []
            for _ in range(r.randint(1, 8)):
                b = r.choice([0, 0, 0, 1, 2, 3])
                k = r.choice([3, 6, 12, 12, 14])
                d = r.choice([0, 5, 5, 7])
                seg.start, seg.radius, seg.rotation, seg.large_arc, seg.sweep, seg.end = arcs[b]
                seg._parameterize()
                cur['f'] = b
                e = Fr(1, 10 ** k)
                ops.append('req %d %s %d' % (b, _fr(e), d))
                v = seg.length(error=e, min_depth=d)
                outs.append('%d:%s:%d' % (v[0], _fr(v[1]), v[2]))
                c3.count('accuracy 1e-%d depth %d' % (k, d))
            lines.append('arccache ' + ' ; '.join(ops))
            impl.append(' ; '.join(outs))
    finally:
        P._quad_available, P.segment_length = saved
    model = common.driver(lines)
    c3.compare(lines, [m.strip() for m in model], impl)
    # ---- stream 4: a heap of CubicBezier objects sharing length records (reversed(), copy.copy) ------------------------------
    import copy as _copy
    c4 = Corr('segment-heap')
    r = ctx.rng('corr-heap')
    lines, impl = [], []
    saved = (P._quad_available, P.segment_length)
    base = [(0j, 0j, 0j, 0j + 0), (0j, 1 + 1j, 2 - 1j, 3 + 0j), (0j, 1 + 2j, 2 - 1j, 3 + 0j), (1j, 1 + 1j, 2 - 1j, 3 + 0.5j), (2j, 1 + 1j, 5 - 1j, 3 + 0j)]
    tab = {}
    for i_, bp_ in enumerate(base):
        tab[i_] = bp_
        tab[i_ + 100] = bp_[::-1]
    index_of = {}
    for k_, v_ in tab.items():
        index_of.setdefault(v_, k_)       # the all-zero tuple is its own reversal: index 0 (and 100, same falsy length)
    try:
        P._quad_available = False

        def fake_segment_length3(curve, start, end, start_point, end_point, error, min_depth, depth):
            b_ = index_of[curve.bpoints()]
            return 0 if b_ % 100 == 0 else (b_, error, min_depth)
        P.segment_length = fake_segment_length3
        for it in range(ctx.n(250, 2500)):
            objs, ops, outs = [], [], []
            for _ in range(r.randint(2, 14)):
                kinds = ['new'] if not objs else ['new', 'set', 'set', 'len', 'len', 'len', 'len', 'rev', 'rev', 'copy', 'deep']
                k = r.choice(kinds)
                o = r.randrange(len(objs)) if objs else 0
                if k == 'new':
                    b = r.choice([0, 1, 1, 2, 3, 4, 101])
                    objs.append(P.CubicBezier(*tab[b])); ops.append('new %d' % b); outs.append('-')
                elif k == 'set':
                    b = r.choice([0, 1, 2, 3, 4, 101, 102, 103])
                    objs[o].start, objs[o].control1, objs[o].control2, objs[o].end = tab[b]
                    ops.append('set %d %d' % (o, b)); outs.append('-')
                elif k == 'len':
                    e = Fr(1, 10 ** r.choice([3, 6, 12, 12, 14])); d = r.choice([0, 5, 5, 7])
                    v = objs[o].length(error=e, min_depth=d)
                    ops.append('len %d %s %d' % (o, _fr(e), d))
                    outs.append('0' if v == 0 else '%d:%s:%d' % (v[0] if index_of[tab[v[0]]] == v[0] else index_of[tab[v[0]]], _fr(v[1]), v[2]))
                elif k == 'rev':
                    objs.append(objs[o].reversed()); ops.append('rev %d' % o); outs.append('-')
                elif k == 'copy':
                    objs.append(_copy.copy(objs[o])); ops.append('copy %d' % o); outs.append('-')
                else:
                    objs.append(_copy.deepcopy(objs[o])); ops.append('deep %d' % o); outs.append('-')
                c4.count(k)
            lines.append('segheap 1 ' + ' ; '.join(ops))
            impl.append(' ; '.join(outs))
    finally:
        P._quad_available, P.segment_length = saved
    model = common.driver(lines)
    c4.compare(lines, [m.strip() for m in model], impl)
    # ---- stream 5: a path and its shallow copy (copy.copy) under interleaved histories ---------------------------------------
    c5 = Corr('path-and-shallow-copy')
    r = ctx.rng('corr-twin')
    lines, impl = [], []
    for it in range(ctx.n(200, 2000)):
        n0 = r.randint(1, 4)
        init = [(r.randint(-3, 6), r.randint(-3, 6)) for _ in range(n0)]
        path = P.Path(*[Stub(a, b) for a, b in init])
        parts, outs = ['init ' + ' '.join('%d %d' % ab for ab in init)], []
        n = n0
        for _ in range(r.randint(0, 4)):
            o = _rand_op(r, n)
            res = _apply(path, o)
            parts.append(_op_text(o)); outs.append(res + ' ' + _segs_str(path))
            n = len(path._segments)
        twin = _copy.copy(path)
        parts.append('copy'); outs.append('copied ' + _segs_str(path))
        for _ in range(r.randint(1, 12)):
            who = r.choice(['o', 't'])
            tgt = path if who == 'o' else twin
            o = _rand_op(r, len(tgt._segments))
            while o[0] in ('sstart', 'send'):
                # the start / end setters edit a SEGMENT object in place, and a shallow copy shares its segment objects with the
                # original (as the shallow copy of any container does): visible through both, by design; segments are values in the model
                o = _rand_op(r, len(tgt._segments))
            res = _apply(tgt, o)
            parts.append(who + ' ' + _op_text(o)); outs.append('%s %s %s' % (res, _segs_str(path), _segs_str(twin)))
            c5.count(who + ':' + o[0])
        lines.append('twinhist ' + ' ; '.join(parts))
        impl.append(' ; '.join(outs))
    model = common.driver(lines)
    c5.compare(lines, [m.strip() for m in model], impl)
    return [c, c2, c3, c4, c5]


# ---------------------------------------------------------------------------
def _queries(spt, path):
    """every public query of the statement, as a comparable tuple (exceptions included)"""
    out = []

    def q(name, f):
        try:
            with warnings.catch_warnings():
                warnings.simplefilter('ignore')
                out.append((name, f()))
        except Exception as e:
            out.append((name, 'raise ' + type(e).__name__))
    q('len', lambda: len(path))
    q('length', lambda: path.length())
    q('start', lambda: path.start)
    q('end', lambda: path.end)
    for T in (0, 0.25, 0.5, 0.8125, 1):
        q('point(%r)' % T, lambda T=T: path.point(T))
        q('T2t(%r)' % T, lambda T=T: tuple(path.T2t(T)))
    q('bbox', lambda: tuple(path.bbox()))
    q('d', lambda: path.d())
    q('d(closed)', lambda: path.d(use_closed_attrib=True))
    q('iscontinuous', lambda: path.iscontinuous())
    q('isclosed', lambda: path.isclosed() if path.iscontinuous() and len(path) else None)
    return out


def _same(a, b):
    if a == b:
        return True
    try:
        if isinstance(a, tuple) and isinstance(b, tuple) and len(a) == len(b):
            return all(_same(x, y) for x, y in zip(a, b))
        return abs(a - b) <= 1e-12 * (1 + abs(b))
    except Exception:
        return False


def sample(ctx, budget=1.0, hint=None, broken=None):
    spt = ctx.spt
    P = spt.path
    from .c05 import _rand_seg
    r = ctx.rng('sample' + ('' if budget == 1.0 else '-search'))
    fails, samples = [], []
    nontriv = set()
    n_eval = 0

    def fail(sig, what, inp, obs, exp, repro=''):
        if len(fails) < 40 and sum(1 for f in fails if f['signature'] == sig) < 2:
            fails.append(Failure(signature=sig, what=what, input=inp, observed=obs, expected=exp, repro=repro))

    def seg(kind=None):
        z = complex(r.randint(-4, 4), r.randint(-4, 4)) + r.choice([0, 0.5, 0.25j])
        s = _rand_seg(spt, r, z, 1.0, kind or r.choice(['line', 'line', 'quad', 'cubic', 'arc']))
        return s

    for quad_avail in ([True, False] if ctx.thorough or budget > 1 else [True]):
        saved_q = P._quad_available
        P._quad_available = quad_avail and saved_q
        try:
            for it in range(int(ctx.n(120, 800) * budget)):
                n0 = r.randint(1, 4)
                path = P.Path(*[seg(r.choice(['line', 'cubic', 'quad'])) for _ in range(n0)])
                hist = []
                n_eval += 1
                for stepi in range(r.randint(1, 12)):
                    n = len(path)
                    k = r.choice(['set', 'setneg', 'slice', 'del', 'ins', 'app', 'ext', 'pop', 'rev', 'sstart', 'send', 'iadd',
                                  'alias', 'twin', 'hashtwin', 'q', 'q', 'qlen-loose'])
                    try:
                        if k == 'set' and n:
                            i = r.randrange(n); path[i] = seg('line'); hist.append('p[%d]=seg' % i)
                        elif k == 'setneg' and n:
                            i = -r.randint(1, n); path[i] = seg('cubic'); hist.append('p[%d]=seg' % i)
                        elif k == 'slice' and n:
                            i = r.randrange(n); j = r.randint(i, n)
                            new = [seg('line') for _ in range(r.randint(1, 2))]
                            path[i:j] = new; hist.append('p[%d:%d]=%d segs' % (i, j, len(new)))
                        elif k == 'del' and n > 1:
                            i = r.randrange(n); del path[i]; hist.append('del p[%d]' % i)
                        elif k == 'ins':
                            i = r.choice([r.randint(0, n), r.randint(-n - 3, n + 3), -n, -n - 1, -1]); path.insert(i, seg()); hist.append('insert(%d)' % i)
                        elif k == 'alias' and n:
                            # the SAME segment object in a second slot (p.append(p[0]), p.insert(0, p[-1]), p.extend([p[i]])):
                            # assigning start/end afterwards moves both slots at once
                            i = r.choice([0, n - 1, r.randrange(n)])
                            how = r.choice(['append', 'insert0', 'extend', 'set'])
                            if how == 'append':
                                path.append(path[i]); hist.append('append(p[%d])' % i)
                            elif how == 'insert0':
                                path.insert(0, path[i]); hist.append('insert(0, p[%d])' % i)
                            elif how == 'extend':
                                path.extend([path[i]]); hist.append('extend([p[%d]])' % i)
                            else:
                                j = r.randrange(n); path[j] = path[i]; hist.append('p[%d]=p[%d]' % (j, i))
                        elif k == 'twin':
                            # a shallow copy of the path is edited / measured: the original must not notice
                            tw_ = __import__('copy').copy(path)
                            what_ = r.choice(['append', 'pop', 'set', 'insert', 'length'])
                            if what_ == 'append':
                                tw_.append(seg())
                            elif what_ == 'pop' and len(tw_) > 1:
                                tw_.pop()
                            elif what_ == 'set' and len(tw_):
                                tw_[0] = seg('line')
                            elif what_ == 'insert':
                                tw_.insert(0, seg('line'))
                            else:
                                tw_.length(error=1e-3, min_depth=1)
                            hist.append('copy.copy(p).%s' % what_)
                        elif k == 'app':
                            path.append(seg()); hist.append('append')
                        elif k == 'ext':
                            path.extend([seg('line'), seg('quad')]); hist.append('extend(2)')
                        elif k == 'iadd':
                            path += [seg('line')]; hist.append('+= [seg]')
                        elif k == 'pop' and n > 1:
                            path.pop(); hist.append('pop()')
                        elif k == 'rev':
                            path.reverse(); hist.append('reverse()')
                        elif k == 'sstart' and n and not isinstance(path[0], P.Arc):
                            z = complex(r.randint(-4, 4), r.randint(-4, 4)) + 0.5
                            if z != path[0].end:
                                path.start = z; hist.append('start=%r' % z)
                        elif k == 'send' and n and not isinstance(path[-1], P.Arc):
                            z = complex(r.randint(-4, 4), r.randint(-4, 4)) + 0.25
                            if z != path[-1].start:
                                path.end = z; hist.append('end=%r' % z)
                        elif k == 'hashtwin' and n and not isinstance(path[0], P.Arc) and not isinstance(path[-1], P.Arc):
                            # two DIFFERENT values with EQUAL hash (CPython: hash(-1.0) == hash(-2.0), also inside a complex): set one,
                            # let every cache fill, then set the other - anything keyed on hash(...) believes nothing changed
                            a_ = float(r.randint(-4, 4))
                            how_ = r.choice(['start', 'end', 'item'])
                            v1_, v2_ = r.choice([(complex(a_, -1.0), complex(a_, -2.0)), (complex(-2.0, a_), complex(-1.0, a_))])
                            if how_ == 'start' and v1_ != path[0].end and v2_ != path[0].end:
                                path.start = v1_; _queries(spt, path); path.start = v2_; hist.append('start=%r; queries; start=%r' % (v1_, v2_))
                            elif how_ == 'end' and v1_ != path[-1].start and v2_ != path[-1].start:
                                path.end = v1_; _queries(spt, path); path.end = v2_; hist.append('end=%r; queries; end=%r' % (v1_, v2_))
                            else:
                                i = r.randrange(n)
                                p0_ = complex(r.randint(3, 6), 0.5)
                                mk_ = r.choice([lambda e_: P.Line(p0_, e_), lambda e_: P.CubicBezier(p0_, p0_ + 1j, e_ - 1, e_), lambda e_: P.QuadraticBezier(p0_, p0_ - 2j, e_)])
                                path[i] = mk_(v1_); _queries(spt, path); path[i] = mk_(v2_); hist.append('p[%d]=seg ending %r; queries; p[%d]=same ending %r' % (i, v1_, i, v2_))
                        elif k == 'qlen-loose':
                            hist.append('length(error=1e-3,min_depth=1)')
                            path.length(error=1e-3, min_depth=1)
                            fq = P.Path(*list(path))
                            fq.length()
                            if not (path == fq) or (path != fq) or not (fq == path):
                                fail('Path.__eq__ after length(error=...)', 'equality depends on which accuracy the cached lengths were computed with',
                                     {'history': hist[-8:]}, 'unequal', 'equal')
                        else:
                            hist.append('queries')
                    except IndexError:
                        continue
                    if len(path) == 0:
                        break
                    nontriv.add((k, quad_avail))
                    got = _queries(spt, path)
                    ref = _queries(spt, P.Path(*list(path)))
                    for (nm, a), (_, b) in zip(got, ref):
                        if not _same(a, b):
                            lastmut = [h for h in hist if h not in ('queries',)][-1:] or ['(construction)']
                            mut = lastmut[0].split('=')[0].split('(')[0].split('[')[0]
                            fail('Path.%s after %s' % (nm.split('(')[0], {'p': 'item/slice assignment', 'start': 'start assignment',
                                                                         'end': 'end assignment'}.get(mut, mut)),
                                 'query differs from a freshly built Path of the same segments',
                                 {'history': hist[-8:], 'scipy_quad': bool(P._quad_available)}, repr(a), repr(b))
                            break
                    # equality with an equal path made of SEPARATE, newly constructed segment objects that has its own measuring history
                    # (never measured / measured at the default accuracy / measured loosely / both): == must look at the segments only
                    def _clone(sg):
                        if isinstance(sg, P.Arc):
                            return P.Arc(sg.start, sg.radius, sg.rotation, sg.large_arc, sg.sweep, sg.end, autoscale_radius=False)
                        return type(sg)(*sg.bpoints())
                    try:
                        dp = P.Path(*[_clone(sg) for sg in path])
                    except Exception:
                        dp = None
                    if dp is not None and list(dp) == list(path):
                        how_ = r.choice(['unmeasured', 'default', 'loose', 'loose-then-default', 'default-then-loose'])
                        mine_ = r.choice(['as is', 'default', 'loose', 'loose-then-default', 'default-then-loose'])
                        for pth_, hw_ in ((dp, how_), (path, mine_)):
                            for step_ in hw_.split('-then-'):
                                if step_ == 'default':
                                    pth_.length()
                                elif step_ == 'loose':
                                    pth_.length(error=1e-3, min_depth=1)
                        if not (path == dp) or (path != dp) or not (dp == path):
                            fail('Path.__eq__ depends on measuring history', 'two paths with equal segments compare unequal after they were measured differently',
                                 {'history': hist[-8:] + ['this path measured: ' + mine_, 'equal path of new segment objects measured: ' + how_],
                                  'scipy_quad': bool(P._quad_available), 'path': repr(dp)}, 'unequal', 'equal')
                        elif hash(path) != hash(dp) and getattr(path, '_closed', None) == getattr(dp, '_closed', None):
                            fail('Path.__hash__ depends on measuring history', 'equal paths with different hashes', {'history': hist[-8:]}, 'hash differs', 'hash equal')
                    # equality with a fresh copy, and with itself after queries
                    fp = P.Path(*list(path))
                    if r.random() < 0.5:
                        fp.length()      # equality must not depend on which caches happen to be filled
                    if not (path == fp) or (path != fp) or not (fp == path):
                        fail('Path.__eq__ after history', 'path != a fresh Path of its own segments', {'history': hist[-8:]}, 'unequal', 'equal')
                    if path == fp and hash(path) != hash(fp):
                        fail('Path.__hash__ after history', 'equal paths (same _closed) with different hashes', {'history': hist[-8:]}, 'hash differs', 'hash equal')
                if len(samples) < 2:
                    samples.append({'history': hist[:10]})
        finally:
            P._quad_available = saved_q

        # segments: reassigned control points and lengths requested with other error/min_depth first
        P._quad_available = quad_avail and saved_q
        try:
            for it in range(int(ctx.n(60, 600) * budget)):
                kind = r.choice(['line', 'quad', 'cubic', 'cubic'])
                s = seg(kind)
                if kind == 'cubic' and r.random() < 0.4:
                    # an S-shaped cubic whose midpoint lies on its chord: the pure-Python length recursion accepts the chord at depth 0, so what
                    # a record says about the DEPTH it was computed at matters here (and only here)
                    a_ = complex(r.randint(-4, 4), r.randint(-4, 4)) + 0.5
                    d_ = complex(r.choice([3, -3, 2]), r.choice([0, 1, -2]))
                    h_ = r.choice([1, -1, 0.5]) * 1j
                    s = P.CubicBezier(a_, a_ + d_ * (1 / 3 + h_ / 3), a_ + d_ * (2 / 3 - h_ / 3), a_ + d_)
                n_eval += 1
                nontriv.add(('segcache', kind, quad_avail))
                hist = []
                first = r.choice([None, (1e-3, 1), (1e-3, 5), (1e-2, 5), (1e-1, 0), (1e-12, 5), (1e-14, 8), (1e-12, 0), (1e-12, 2), (1e-13, 1)])
                if first:
                    s.length(error=first[0], min_depth=first[1]); hist.append('length(error=%g,min_depth=%d)' % first)
                    if kind == 'quad':
                        s.length(1, 0); hist.append('length(1,0)')
                if r.random() < 0.5:
                    rv = s.reversed(); rv.length(); hist.append('reversed().length()')
                if r.random() < 0.6:
                    attr = r.choice({'line': ['start', 'end'], 'quad': ['start', 'control', 'end'], 'cubic': ['start', 'control1', 'control2', 'end']}[kind])
                    z = getattr(s, attr) + complex(r.randint(1, 3), r.randint(-3, 3))
                    if r.random() < 0.35:
                        # the reassignment moves exactly one coordinate between -1 and -2, two values with equal hash
                        a_ = float(r.randint(-4, 4))
                        v1_, z = r.choice([(complex(a_, -1.0), complex(a_, -2.0)), (complex(-2.0, a_), complex(-1.0, a_))])
                        setattr(s, attr, v1_); s.length(); hist.append('%s=%r; length()' % (attr, v1_))
                        if kind == 'quad':
                            s.length(1, 0)
                    setattr(s, attr, z); hist.append('%s=%r' % (attr, z))
                if kind == 'line' and s.start == s.end:
                    continue
                if r.random() < 0.5:
                    # the object asked is a copy taken AFTER the measurement and the reassignment (reversed() hands its cache record on)
                    how_ = r.choice(['reversed()', 'reversed()', 'reversed().reversed()', 'copy.copy'])
                    s = {'reversed()': lambda x: x.reversed(), 'reversed().reversed()': lambda x: x.reversed().reversed(),
                         'copy.copy': lambda x: __import__('copy').copy(x)}[how_](s)
                    hist.append(how_)
                freshs = type(s)(*s.bpoints())
                if kind == 'quad' and first:
                    # QuadraticBezier keeps a record only for the (odd) request length(1, 0)
                    qa, qb = s.length(1, 0), freshs.length(1, 0)
                    if abs(qa - qb) > 1e-9 * (1 + abs(qb)):
                        fail('quad.length(1,0) after reassignment', 'length(1, 0) differs from a fresh segment with the same control points',
                             {'segment': repr(freshs), 'history': hist, 'scipy_quad': bool(P._quad_available)}, repr(qa), repr(qb))
                for args in [(), (1e-12, 5)]:
                    a = s.length(*((0, 1) + args)) if args else s.length()
                    b = freshs.length(*((0, 1) + args)) if args else freshs.length()
                    tol = (1e-9 if P._quad_available else 1e-8) * (1 + abs(b))
                    if abs(a - b) > tol:
                        sig = '%s.length after %s' % (kind, 'reassignment' if any('=' in h and 'error' not in h for h in hist) else 'looser first request')
                        fail(sig, 'length() differs from a fresh segment with the same control points',
                             {'segment': repr(freshs), 'history': hist, 'scipy_quad': bool(P._quad_available)}, repr(a), repr(b))
                        break
                for t in (0.0, 0.3, 1.0):
                    if s.point(t) != freshs.point(t) or s.poly()(t) != freshs.poly()(t):
                        fail('%s.point after reassignment' % kind, 'point/poly differ from a fresh segment', {'segment': repr(freshs), 'history': hist},
                             repr(s.point(t)), repr(freshs.point(t)))
                        break
                if s == freshs and hash(s) != hash(freshs):
                    fail('%s.__hash__' % kind, 'equal segments with different hashes', {'segment': repr(freshs)}, 'hash differs', 'hash equal')
            # a record computed at a SHALLOW depth must not answer a deeper request, also after it was handed to a reversed / copied object
            for it in range(int(ctx.n(16, 160) * budget)):
                a_ = complex(r.randint(-4, 4), r.randint(-4, 4)) + 0.5
                d_ = complex(r.choice([3, -3, 2]), r.choice([0, 1, -2]))
                h_ = r.choice([1, -1, 0.5]) * 1j
                s = P.CubicBezier(a_, a_ + d_ * (1 / 3 + h_ / 3), a_ + d_ * (2 / 3 - h_ / 3), a_ + d_)
                e_, dp_ = r.choice([(1e-12, 0), (1e-12, 2), (1e-9, 1), (1e-12, 4)])
                hist = ['length(error=%g,min_depth=%d)' % (e_, dp_)]
                s.length(error=e_, min_depth=dp_)
                how_ = r.choice(['reversed()', 'reversed()', 'reversed().reversed()', 'copy.copy', 'itself'])
                o = {'reversed()': lambda x: x.reversed(), 'reversed().reversed()': lambda x: x.reversed().reversed(),
                     'copy.copy': lambda x: __import__('copy').copy(x), 'itself': lambda x: x}[how_](s)
                hist.append(how_)
                fr_ = P.CubicBezier(*o.bpoints())
                n_eval += 1
                nontriv.add(('shallow-record', how_, quad_avail))
                for args in [(), (e_, 5), (e_, dp_ + 1)]:
                    a = o.length(*((0, 1) + args)) if args else o.length()
                    b = fr_.length(*((0, 1) + args)) if args else fr_.length()
                    if abs(a - b) > (1e-9 if P._quad_available else 1e-8) * (1 + abs(b)):
                        fail('cubic.length after a shallower first request', 'length() at a deeper min_depth returns what a shallower measurement left behind (also through reversed()/copies)',
                             {'segment': repr(fr_), 'history': hist + ['length%r' % (args,)], 'scipy_quad': bool(P._quad_available)}, repr(a), repr(b))
                        break
        finally:
            P._quad_available = saved_q

    # equal objects must hash equal: paths that differ only in how they were closed (finding F12)
    n_eval += 1
    p1 = spt.parse_path('M 0,0 L 1,1 L 1,0 Z')
    p2 = P.Path(*list(p1))
    if p1 == p2 and hash(p1) != hash(p2):
        fail('Path.__hash__: equal segments, _closed differs', 'two Paths compare equal but hash differently',
             {'p1': "parse_path('M 0,0 L 1,1 L 1,0 Z')", 'p2': 'Path(*p1)'}, 'hash(p1) != hash(p2)', 'equal hashes',
             "(lambda p: hash(p) == hash(svgpathtools.Path(*p)))(svgpathtools.parse_path('M 0,0 L 1,1 L 1,0 Z'))")
    return {'evaluations': n_eval, 'distinct_nontrivial': len(nontriv), 'failures': fails, 'samples': samples,
            'rule': 'random mutation/query histories (depth <= 12) over real Line/Quadratic/Cubic/Arc segments with every query compared against a '
                    'freshly constructed Path after every operation; segment-level histories (length with other error/min_depth first, reversed(), '
                    'control point reassignment); equality and hash against an equal path of newly constructed segment objects with its own measuring history (unmeasured / default / loose / both orders); scipy on/off in the thorough tier. distinct = distinct (operation kind, scipy?)'}


def replay(spt, f):
    from .c19 import replay as rp
    return rp(spt, f)
