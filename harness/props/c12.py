"""C12: every transversal crossing is reported, exactly once."""
from __future__ import annotations
import math
import warnings
from fractions import Fraction as Fr
import numpy as np
from ..tracejobs import *
from .. import symtrace as st, common
from ..gen_lean import Def
from ..runner import Corr, Failure
from . import isect_common as ic

LEAN_MODULES = ['SvgVerif.Props.C12', 'SvgVerif.Props.C12Subdiv']

ASSUMPTIONS = [
    'np.roots is an oracle: completeness of bezier_by_line_intersections is proved relative to "the list returned by polyroots01 contains the '
    'curve parameter of the crossing" (the filter half of that contract is C19); exact crossing counts are sampled against Sturm sequences',
    'bezier_intersections: completeness is proved in the form target_handled (a chain of cells with overlapping boxes ends reported, suppressed by a '
    'reported point within tol, or shadowed by a handled pair sharing a sub-curve); that the cells around a transversal crossing HAVE overlapping '
    'boxes of positive width is geometry that is assumed (it fails for axis-parallel straight Beziers: F9), and exactly-once is false (F33)',
    'Arc.intersect(Line) closed forms, point_to_t and the circle-circle case split: sampled on constructed crossings only',
]


def gen_defs(spt, salt=0):
    from . import c11
    return c11.gen_defs(spt, salt)


def _gen_c04(spt, salt=0):
    from . import c04
    return c04.gen_defs(spt, salt)


GEN = {'C11': gen_defs, 'C04': _gen_c04}


def correspond(ctx):
    """the same exact streams as C11 (drawn with C12's own PRNG stream): the models the completeness theorems are about"""
    from . import c11
    from . import c19
    out = [c11.corr_lineline(ctx), c11.corr_hull(ctx), c11.corr_bezline(ctx), c11.corr_bezint(ctx), c11.corr_pathint(ctx)]
    return out


DUP_SIG = 'bezier-bezier/crossing-reported-more-than-once'
AXIS_SIG = 'bezier-bezier/zero-width-box: crossing of an axis-parallel straight Bezier lost'

MARGIN = Fr(1, 10 ** 4)    # exact counts are compared only when all crossings are this far (in parameter) from each other and from the ends


def exact_count_line_line(a, b):
    """exact crossing of two Lines; None if not in general position, else list of (t1, t2) Fractions (0 or 1 entries)"""
    fx = lambda z: (Fr(z.real), Fr(z.imag))
    (ax, ay), (bx, by) = fx(a.start), fx(a.end)
    (cx, cy), (dx, dy) = fx(b.start), fx(b.end)
    den = (bx - ax) * (dy - cy) - (by - ay) * (dx - cx)
    if den == 0:
        return None
    t1 = ((cx - ax) * (dy - cy) - (cy - ay) * (dx - cx)) / den
    t2 = ((cx - ax) * (by - ay) - (cy - ay) * (bx - ax)) / den
    for t in (t1, t2):
        if abs(t) < MARGIN or abs(t - 1) < MARGIN:
            return None
    if 0 < t1 < 1 and 0 < t2 < 1:
        return [(t1, t2)]
    return []


def exact_crossings(spt, a, b):
    """for Line/Line, Line/Bezier, Bezier/Line: list of (lo, hi) intervals for a's parameter... returns
    (count, locate) where locate is a list of ((t1lo, t1hi), (t2lo, t2hi)) boxes (Fractions or None), or None when
    the pair is not in general position with margin"""
    P = spt.path
    if isinstance(a, P.Line) and isinstance(b, P.Line):
        res = exact_count_line_line(a, b)
        if res is None:
            return None
        return [((t1, t1), (t2, t2)) for t1, t2 in res]
    if isinstance(a, P.Line):
        res = exact_crossings(spt, b, a)
        return None if res is None else [(y, x) for x, y in res]
    # a Bezier, b Line
    try:
        ivs = ic.exact_line_bezier_crossings(a.bpoints(), b.start, b.end)
    except ArithmeticError:
        return None
    if ivs is None:
        return None
    # margin: all roots of g (also those outside the segment) well separated and away from the ends; u away from 0 and 1
    out = []
    for lo, hi in ivs:
        # refine to width < MARGIN/4
        out.append((lo, hi))
    return _with_margin(a, b, out)


def _with_margin(bez, line, ivs):
    """re-derive everything with margins: returns boxes or None"""
    fx = lambda z: (Fr(z.real), Fr(z.imag))
    (ax, ay), (bx, by) = fx(line.start), fx(line.end)
    dx, dy = bx - ax, by - ay
    n2 = dx * dx + dy * dy
    bp = bez.bpoints()
    # not in general position: every control point within 1e-6 of the Bezier's size of the line's carrier - the curve lies along
    # the line (decimal lattice points such as 0.02-0.03j are collinear only up to binary rounding, which leaves an exact but
    # meaningless ~1e-18 polynomial with "one root"); a crossing of two coincident curves is not a transversal crossing
    dist_ = [abs((Fr(p.real) - ax) * dy - (Fr(p.imag) - ay) * dx) for p in bp]
    size2_ = max((Fr(p.real) - Fr(q.real)) ** 2 + (Fr(p.imag) - Fr(q.imag)) ** 2 for p in bp for q in bp)
    if max(dist_) ** 2 <= Fr(1, 10 ** 12) * size2_ * n2:
        return None
    g = ic._ptrim(ic.bern_to_mono([(Fr(p.real) - ax) * dy - (Fr(p.imag) - ay) * dx for p in bp]))
    u = ic.bern_to_mono([((Fr(p.real) - ax) * dx + (Fr(p.imag) - ay) * dy) / n2 for p in bp])
    # all real roots of g in a neighbourhood of [0,1]
    allr = ic.isolate_roots(g, -MARGIN * 2, 1 + MARGIN * 2)
    ch = ic.sturm_chain(g)
    ref = []
    for a, b in allr:
        while b - a > MARGIN / 8:
            m = (a + b) / 2
            if ic._variations(ch, a) - ic._variations(ch, m) == 1:
                b = m
            else:
                a = m
        ref.append((a, b))
    for i in range(len(ref) - 1):
        if ref[i + 1][0] - ref[i][1] < MARGIN:
            return None
    boxes = []
    for a, b in ref:
        if b < MARGIN or a > 1 - MARGIN:
            if b > -MARGIN and a < 1 + MARGIN and not (b < -MARGIN / 2 or a > 1 + MARGIN / 2):
                return None     # a root of g too close to an end of the Bezier
            continue
        # u on [a,b]: evaluate at both ends (u is a polynomial of degree <= 3; the interval is 1e-5 wide)
        ua, ub = ic._peval(u, a), ic._peval(u, b)
        lo, hi = min(ua, ub), max(ua, ub)
        if hi < -MARGIN or lo > 1 + MARGIN:
            continue
        if lo > MARGIN and hi < 1 - MARGIN:
            boxes.append(((a, b), (lo, hi)))
            continue
        return None
    return boxes


def sample(ctx, budget=1.0, hint=None, broken=None):
    spt = ctx.spt
    P = spt.path
    r = ctx.rng('sample' + ('' if budget == 1.0 else '-search'))
    fails, samples = [], []
    nontriv = set()
    n_eval = n_skip = n_timeout = n_constructed = n_counted = n_paths = 0

    def fail(sig, what, inp, obs, exp, repro=''):
        if len(fails) < 40 and sum(1 for f in fails if f['signature'] == sig) < 2:
            fails.append(Failure(signature=sig, what=what, input=inp, observed=obs, expected=exp, repro=repro))

    warnings.simplefilter('ignore')
    # ---- 1. constructed transversal crossings, all type pairs ---------------------------------------------
    for it in range(int(ctx.n(220, 3500) * budget)):
        ka, kb = r.choice(ic.KINDS4), r.choice(ic.KINDS4)
        scale = r.choice([1.0, 1.0, 1.0, 30.0])
        classes = ('circ0', 'circ0') if (ka == 'arc' and kb == 'arc') else (None, None)
        keep = kb == 'arc' and (ka == 'arc' or r.random() < 0.5)
        res = ic.through_common_point(spt, r, ka, kb, None, scale, classes, keep_arc_unrotated=keep)
        if res is None:
            continue
        a, b, ta, tb, ang = res
        if ka == 'arc' and kb == 'arc' and ic.arc_class(a) != 'circ0':
            continue
        size = max(ic.seg_size(a), ic.seg_size(b))
        others = [(x, y) for x, y in ic.polyline_crossings(a, b, 300)
                  if not (abs(x - ta) < 4e-3 and abs(y - tb) < 4e-3)]
        pa = a.point(ta)
        if any(abs(a.point(x) - pa) < 0.03 * size for x, y in others):
            n_skip += 1
            continue
        # passing twice through the common point (loops, nearly closed arcs) is "another crossing" too
        _, ptsa = ic.sample_pts(a, 300)
        _, ptsb = ic.sample_pts(b, 300)
        tsa = np.linspace(0, 1, 301)
        if np.any((np.abs(ptsa - pa) < 0.03 * size) & (np.abs(tsa - ta) > 0.15)) or \
                np.any((np.abs(ptsb - pa) < 0.03 * size) & (np.abs(tsa - tb) > 0.15)):
            n_skip += 1
            continue
        info = {'a': repr(a), 'b': repr(b), 'ta': ta, 'tb': tb, 'angle_deg': ang}
        rep = 'svgpathtools.%r.intersect(svgpathtools.%r)' % (a, b)
        kk = '%s-%s' % (ka, kb)
        n_eval += 1
        try:
            with ic.time_limit(3.0):
                got = a.intersect(b)
        except ic.Timeout:
            n_timeout += 1
            continue
        except Exception as e:
            fail('%s/raises %s' % (kk, type(e).__name__), 'intersect raised on a transversal crossing', info, repr(e)[:200], 'the crossing', rep)
            continue
        n_constructed += 1
        near = [(t1, t2) for t1, t2 in got if abs(t1 - ta) < 1e-4 and abs(t2 - tb) < 1e-4]
        nontriv.add((ka, kb, ic.arc_class(a) if ka == 'arc' else '', ic.arc_class(b) if kb == 'arc' else '', int(abs(ang) // 30), scale))
        bez2 = ka in ('quad', 'cubic') and kb in ('quad', 'cubic')
        if len(near) > 1 and bez2:
            fail(DUP_SIG, 'bezier_intersections reports one transversal crossing several times: neighbouring cell pairs all pass the '
                 'area test, and the de-duplication compares points with tol = 1e-12 while cells are ~1e-6 wide', info, repr(got),
                 'one pair near (%r, %r)' % (ta, tb), rep)
        elif len(near) == 0:
            fail('%s/crossing-missed' % kk, 'a transversal interior crossing is not reported', info, repr(got),
                 'a pair within 1e-4 of (%r, %r)' % (ta, tb), rep)
        elif len(near) > 1:
            fail('%s/crossing-reported-twice' % kk, 'a transversal interior crossing is reported more than once', info, repr(got),
                 'one pair near (%r, %r)' % (ta, tb), rep)
        if len(samples) < 2:
            samples.append({'a': repr(a), 'b': repr(b), 'constructed': [ta, tb], 'reported': repr(got)})

    # ---- 1b. the known zero-width-box configuration (F9), re-confirmed on every run -------------------------------
    for a, b in [(P.CubicBezier(0, 1, 2, 3), P.CubicBezier(1.3 - 1j, 1.5 - 0.3j, 1.1 + 0.4j, 1.2 + 1j)),
                 (P.QuadraticBezier(1j, 1 + 1j, 3 + 1j), P.CubicBezier(1 - 1j, 2 + 0.5j, 0.5 + 1.5j, 1.5 + 3j))]:
        n_eval += 1
        try:
            got = a.intersect(b)
        except Exception as e:
            got = None
        others = ic.polyline_crossings(a, b, 400)
        if others and not got:
            fail(AXIS_SIG, 'a Bezier whose control points share a coordinate has a bounding box of zero width; boxes_intersect treats a '
                 'zero-width overlap as no overlap, so every crossing with it is lost', {'a': repr(a), 'b': repr(b)}, repr(got),
                 'a crossing near %r' % (others[0],), 'svgpathtools.%r.intersect(svgpathtools.%r)' % (a, b))

    # ---- 2. exact counts for Line/Line, Line/Bezier, Bezier/Line ------------------------------------------------
    def wiggly(kind, scale):
        # Beziers that a line can cross several times
        z = lambda: complex(r.uniform(-1, 1), r.uniform(-1, 1)) * scale
        if kind == 'quad':
            return P.QuadraticBezier(z(), z(), z())
        c = r.random()
        if c < 0.5:
            x0 = r.uniform(-1, -0.5) * scale
            return P.CubicBezier(complex(x0, r.uniform(-0.2, 0.2) * scale), complex(x0 / 3, r.uniform(1, 3) * scale),
                                 complex(-x0 / 3, r.uniform(-3, -1) * scale), complex(-x0, r.uniform(-0.2, 0.2) * scale))
        return P.CubicBezier(z(), z(), z(), z())

    for it in range(int(ctx.n(300, 5000) * budget)):
        ka, kb = r.choice([('line', 'line'), ('line', 'quad'), ('line', 'cubic'), ('quad', 'line'), ('cubic', 'line'), ('cubic', 'line'), ('line', 'cubic')])
        scale = r.choice([1.0, 1.0, 50.0, 0.02])
        mk = lambda k: (P.Line(complex(r.uniform(-1, 1), r.uniform(-1, 1)) * scale, complex(r.uniform(-1, 1), r.uniform(-1, 1)) * scale)
                        if k == 'line' else wiggly(k, scale))
        a, b = mk(ka), mk(kb)
        lattice = r.random() < 0.3
        if lattice:
            # control points on a coarse lattice and (half of the time) axis-parallel lines: coefficients of the polynomial
            # handed to the root finder vanish EXACTLY (e.g. a quadratic leaving its start parallel to the line)
            lz = lambda: complex(r.randint(-4, 4), r.randint(-4, 4)) * scale / 2

            def lmk(k):
                if k == 'line':
                    p0 = lz()
                    if r.random() < 0.5:
                        d = r.choice([1, -1]) * r.randint(2, 8) * scale / 2
                        p0 = p0 + (complex(0.25, 0.25) * scale if r.random() < 0.7 else 0)
                        return P.Line(p0, p0 + (d if r.random() < 0.5 else 1j * d))
                    return P.Line(p0, lz())
                return P.QuadraticBezier(lz(), lz(), lz()) if k == 'quad' else P.CubicBezier(lz(), lz(), lz(), lz())
            a, b = lmk(ka), lmk(kb)
            if r.random() < 0.5 and (ka == 'line') != (kb == 'line'):
                # a Bezier whose start tangent, end tangent or leading difference is exactly parallel to the line: one
                # coefficient of the polynomial handed to the root finder is exactly zero
                ln, bz_ = (a, b) if ka == 'line' else (b, a)
                d = ln.end - ln.start
                bp = list(bz_.bpoints())
                lam = r.choice([0.5, -0.5, 1.0, 0.25, -1.5])
                which = r.choice(['start-tangent', 'end-tangent', 'leading'])
                if which == 'start-tangent':
                    bp[1] = bp[0] + lam * d
                elif which == 'end-tangent':
                    bp[-2] = bp[-1] + lam * d
                elif len(bp) == 3:
                    bp[1] = (bp[0] + bp[2] - lam * d) / 2          # p0 - 2 p1 + p2 = lam d
                else:
                    bp[3] = bp[0] - 3 * bp[1] + 3 * bp[2] + lam * d   # -p0 + 3p1 - 3p2 + p3 = lam d
                bz_ = P.QuadraticBezier(*bp) if len(bp) == 3 else P.CubicBezier(*bp)
                a, b = (ln, bz_) if ka == 'line' else (bz_, ln)
        if not lattice and 'quad' in (ka, kb) and r.random() < 0.35:
            # a quadratic whose equation along the line is ALMOST linear (tiny but nonzero leading coefficient) with generic float
            # coordinates: control point at the chord midpoint up to 0 .. 1e-9 of the chord, or the parabola's axis parallel to the line
            ln, bz_ = (a, b) if ka == 'line' else (b, a)
            p0_, p2_ = bz_.start, bz_.end
            how_ = r.choice(['midpoint', 'midpoint', 'axis'])
            if how_ == 'midpoint':
                p1_ = (p0_ + p2_) / 2 + 1j * (p2_ - p0_) * r.choice([0.0, 1e-13, 1e-12, -3e-12, 1e-10, 1e-9])
            else:
                d_ = ln.end - ln.start
                p1_ = (p0_ + p2_ - r.choice([0.5, -0.7, 1.3]) * d_) / 2
            bz_ = P.QuadraticBezier(p0_, p1_, p2_)
            a, b = (ln, bz_) if ka == 'line' else (bz_, ln)
        if r.random() < 0.3 and not lattice:
            # a long chord through the wiggle
            ln = P.Line(complex(-1.2 * scale, r.uniform(-0.15, 0.15) * scale), complex(1.2 * scale, r.uniform(-0.15, 0.15) * scale))
            if ka == 'line':
                a = ln
            elif kb == 'line':
                b = ln
        if a.start == a.end or b.start == b.end:
            continue
        ex = exact_crossings(spt, a, b)
        if ex is None:
            n_skip += 1
            continue
        info = {'a': repr(a), 'b': repr(b), 'exact_count': len(ex)}
        rep = 'svgpathtools.%r.intersect(svgpathtools.%r)' % (a, b)
        kk = '%s-%s' % (ka, kb)
        n_eval += 1
        n_counted += 1
        try:
            got = a.intersect(b)
        except Exception as e:
            fail('%s/raises %s' % (kk, type(e).__name__), 'intersect raised on a pair in general position', info, repr(e)[:200], '%d pairs' % len(ex), rep)
            continue
        nontriv.add(('count', ka, kb, len(ex), scale, lattice))
        if len(got) != len(ex):
            fail('%s/count' % kk, 'number of reported pairs differs from the exact number of crossings (Sturm count over the rationals)', info,
                 repr(got), '%d crossings, at %s' % (len(ex), [(float(x[0]), float(y[0])) for x, y in ex]), rep)
            continue
        for (x, y) in ex:
            m = [g for g in got if float(x[0]) - 1e-4 <= g[0] <= float(x[1]) + 1e-4 and float(y[0]) - 1e-4 <= g[1] <= float(y[1]) + 1e-4]
            if len(m) != 1:
                fail('%s/location' % kk, 'an exact crossing has no (or more than one) reported pair within 1e-4', info, repr(got),
                     'one pair near %r' % ((float(x[0]), float(y[0])),), rep)
        if len(samples) < 4 and len(ex) >= 2:
            samples.append({'a': repr(a), 'b': repr(b), 'exact_count': len(ex), 'reported': repr(got)})

    # ---- 3. paths: every crossing strictly inside a segment of each, once ----------------------------------------
    for it in range(int(ctx.n(40, 600) * budget)):
        def poly(n, kinds, sc):
            cur = complex(r.uniform(-1, 1), r.uniform(-1, 1)) * sc
            segs = []
            for i in range(n):
                k = r.choice(kinds)
                z = lambda: cur + complex(r.uniform(-1, 1), r.uniform(-1, 1)) * sc
                if k == 'line':
                    s = P.Line(cur, z())
                elif k == 'quad':
                    s = P.QuadraticBezier(cur, z(), z())
                else:
                    s = P.CubicBezier(cur, z(), z(), z())
                segs.append(s)
                cur = s.end
            return segs
        sc = r.choice([1.0, 10.0])
        s1 = poly(r.randint(1, 5), ['line'], sc)
        s2 = poly(r.randint(1, 5), r.choice([['line'], ['line', 'quad', 'cubic']]), sc)
        if r.random() < 0.4 and len(s1) > 1:
            s1.append(P.Line(s1[-1].end, s1[0].start))
        tol_kw = {}
        if r.random() < 0.3:
            # a frame of exactly axis-parallel lines (zero-width / zero-height boxes) far from the origin, crossed by the other path;
            # also with a caller-supplied tol below the resolution of the coordinates
            off = complex(r.choice([0, 1000, 16384, 20000, 100000, 1 << 20]), r.choice([0, 30000, 16384, 1 << 18]))
            a_, b_ = r.choice([1.0, 2.5, 4.0]) * sc, r.choice([1.0, 1.5, 3.0]) * sc
            cs_ = [off + complex(-a_, -b_), off + complex(a_, -b_), off + complex(a_, b_), off + complex(-a_, b_)]
            s1 = [P.Line(cs_[i_], cs_[(i_ + 1) % 4]) for i_ in range(4)]
            s2 = [sg_.translated(off) for sg_ in s2]
            if r.random() < 0.5:
                tol_kw = {'tol': r.choice([1e-15, 1e-14, 1e-13])}
        p1, p2 = P.Path(*s1), P.Path(*s2)
        if r.random() < 0.5:
            p1, p2 = p2, p1
        expected = []
        ok = True
        for i, x in enumerate(p1):
            for j, y in enumerate(p2):
                ex = exact_crossings(spt, x, y)
                if ex is None:
                    ok = False
                    break
                expected += [(i, j, bx) for bx in ex]
            if not ok:
                break
        if not ok:
            n_skip += 1
            continue
        info = dict({'path1': repr(p1), 'path2': repr(p2), 'exact_count': len(expected)}, **tol_kw)
        rep = 'svgpathtools.%r.intersect(svgpathtools.%r%s)' % (p1, p2, ''.join(', %s=%r' % kv for kv in tol_kw.items()))
        n_eval += 1
        n_paths += 1
        try:
            got = p1.intersect(p2, **tol_kw)
            if r.random() < 0.3:
                got_again = p1.intersect(p2, **tol_kw)
                if len(got_again) != len(got):
                    fail('Path.intersect/not repeatable', 'the same Path.intersect call, repeated, reports a different number of crossings', info, repr(len(got_again)), repr(len(got)), rep)
        except Exception as e:
            fail('Path.intersect/raises %s' % type(e).__name__, 'Path.intersect raised on paths in general position', info, repr(e)[:200],
                 '%d crossings' % len(expected), rep)
            continue
        nontriv.add(('paths', len(p1), len(p2), min(len(expected), 4)))
        key = []
        for (T1, sg1, t1), (T2, sg2, t2) in got:
            i = [k for k, s in enumerate(p1) if s is sg1]
            j = [k for k, s in enumerate(p2) if s is sg2]
            key.append((i[0] if i else -1, j[0] if j else -1, t1, t2))
        bad = len(got) != len(expected)
        if not bad:
            for (i, j, (x, y)) in expected:
                m = [g for g in key if g[0] == i and g[1] == j and float(x[0]) - 1e-4 <= g[2] <= float(x[1]) + 1e-4
                     and float(y[0]) - 1e-4 <= g[3] <= float(y[1]) + 1e-4]
                if len(m) != 1:
                    bad = True
        if bad:
            fail('Path.intersect/count', 'Path.intersect does not report every interior crossing exactly once', info,
                 repr([(g[0], g[1], g[2], g[3]) for g in key]),
                 repr([(i, j, float(x[0]), float(y[0])) for i, j, (x, y) in expected]), rep)
    return {'evaluations': n_eval, 'distinct_nontrivial': len(nontriv), 'failures': fails, 'samples': samples,
            'rule': '%d pairs constructed through a common interior point with tangents at 6..174 degrees (all 16 kind pairs; arc-arc only circular '
                    'unrotated), another crossing nearer than 3%% of the size -> skipped; exactly one reported pair within 1e-4 required. '
                    '%d generic Line/Line, Line/Bezier, Bezier/Line pairs (incl. chords through S-shaped cubics: 2-3 crossings) with the exact '
                    'crossing count from Sturm sequences over the rationals (pairs with crossings nearer than 1e-4 to each other or to an end are '
                    'skipped as not in general position). %d path pairs (line paths against line/Bezier paths) with exact per-segment counts. '
                    '%d cases skipped (not in general position / not well separated), %d timed out.'
                    % (n_constructed, n_counted, n_paths, n_skip, n_timeout)}


def replay(spt, f):
    from .c19 import replay as rp
    return rp(spt, f)
