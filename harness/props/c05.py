"""C05: Path parameter T, segment parameter t and arc-length fractions are coherent."""
from __future__ import annotations
from fractions import Fraction as Fr
import math
import numpy as np
from .. import common
from ..runner import Corr, Failure

LEAN_MODULES = ['SvgVerif.Props.C05']
ASSUMPTIONS = [
    'arithmetic theorems are over an arbitrary linearly ordered field (exact); in floats the fractions may sum to 1-ulp and t2T(T2t(T)) = T holds up to rounding: sampled, not proved',
    'segment lengths are inputs of the model (their correctness is C06)',
    'continuity theorems are law-free: they use only == on points, so they hold verbatim for floats without NaN',
]


def _fr(x):
    x = Fr(x)
    return str(x.numerator) if x.denominator == 1 else '%d/%d' % (x.numerator, x.denominator)


def _stub_path(spt, lens):
    P = spt.path

    class Stub(object):
        def __init__(self, idx, ln):
            self.idx, self._len = idx, ln
            self.start, self.end = complex(idx, 0), complex(idx + 1, 0)
            if idx % 3 == 1:
                # a loop: ends where it starts, whatever its length (the model - like the code - lets the LENGTH decide what is zero-length)
                self.end = self.start

        def length(self, t0=0, t1=1, error=None, min_depth=None):
            return self._len * (t1 - t0)

        def point(self, t):
            return (self.idx, t)

    return P.Path(*[Stub(i, l) for i, l in enumerate(lens)])


def _show_idx(res):
    k, t = res
    return '%d %s' % (k, _fr(t))


def correspond(ctx):
    spt = ctx.spt
    r = ctx.rng('corr')
    c = Corr('T2t/t2T/point-search')
    lines, impl = [], []
    for it in range(ctx.n(250, 3000)):
        n = r.randint(1, 7)
        cls = r.random()
        lens = []
        for i in range(n):
            if r.random() < 0.25:
                lens.append(Fr(0))
            else:
                lens.append(Fr(r.randint(1, 40), r.choice([1, 1, 3, 7, 10 ** 6])))
        if cls < 0.05:
            lens = [Fr(0)] * n
        tot = sum(lens)
        cums = [sum(lens[:i]) / tot for i in range(n + 1)] if tot else [Fr(0)]
        Ts = [Fr(0), Fr(1), Fr(r.randint(1, 99), 100)]
        Ts += [r.choice(cums)]
        if tot:
            k = r.randrange(n)
            Ts.append(cums[k] + (cums[k + 1] - cums[k]) * Fr(r.randint(0, 8), 8))
        L = ' '.join(_fr(x) for x in lens)
        c.count('n=%d' % n)
        if any(l == 0 for l in lens[1:]):
            c.count('zero-length non-leading')
        for T in Ts:
            if not (0 <= T <= 1):
                continue
            for op in ('T2t', 'pointidx'):
                path = _stub_path(spt, lens)
                lines.append('%s %s | %s' % (op, L, _fr(T)))
                try:
                    res = path.T2t(T) if op == 'T2t' else path.point(T)
                    impl.append(_show_idx(res))
                except ZeroDivisionError:
                    impl.append('raise ZeroDivisionError')
                except Exception:
                    impl.append('none')
            if T in cums:
                c.count('T on a boundary')
        k = r.randrange(n + 1)
        t = Fr(r.randint(0, 8), 8)
        path = _stub_path(spt, lens)
        lines.append('t2T %s | %d %s' % (L, k, _fr(t)))
        try:
            impl.append(_fr(path.t2T(k, t)))
        except IndexError:
            impl.append('none')
        path = _stub_path(spt, lens)
        path._calc_lengths()
        lines.append('calclengths ' + L)
        impl.append(_fr(path._length) + ' | ' + ' '.join(_fr(x) for x in path._lengths))
    model = common.driver(lines)
    c.compare(lines, [m.strip() for m in model], [m.strip() for m in impl])

    c2 = Corr('iscontinuous/isclosed/continuous_subpaths')
    lines, impl = [], []
    P = spt.path
    for it in range(ctx.n(250, 3000)):
        n = r.randint(0, 7)
        pts = []
        cur = r.randint(0, 3)
        first = cur
        for i in range(n):
            if r.random() < 0.3:
                cur = r.randint(0, 5)
            nxt = r.randint(0, 5)
            if i == n - 1 and r.random() < 0.5:
                nxt = first
            pts.append((cur, nxt))
            cur = nxt
        segs = [P.Line(complex(a, 0), complex(b, 0)) for a, b in pts]
        path = P.Path(*segs)
        lines.append('subpaths ' + ' '.join('%d %d' % ab for ab in pts))
        cont = path.iscontinuous()
        try:
            closed = str(bool(path.isclosed())).lower()
        except AssertionError:
            closed = 'assert'
        sp = path.continuous_subpaths()
        ok = all(isinstance(q, P.Path) for q in sp)
        impl.append(('%s %s ' % (str(bool(cont)).lower(), closed) + ' '.join(str(len(q)) for q in sp)).strip() if ok else 'bad')
        c2.count('pieces=%d' % len(sp))
        # concatenation must give back the very same segments
        flat = [s for q in sp for s in q]
        if len(flat) != len(segs) or any(a is not b for a, b in zip(flat, segs)):
            c2.disagreements.append({'stream': c2.stream, 'input': lines[-1], 'model': 'concatenation = original', 'impl': 'differs'})
    model = common.driver(lines)
    c2.compare(lines, [m.strip() for m in model], impl)
    return [c, c2]


# ---------------------------------------------------------------------------

def _rand_seg(spt, r, start, scale, kind=None, derive=True):
    """a random segment that starts exactly at `start`.  One time in four the object handed out is DERIVED from a
    freshly constructed one by the library's own operations (double reversal, rotation or uniform scaling about its
    start point, a crop from 0, each optionally after its length / polynomial caches were filled): every property
    quantifies over all segments, not only over freshly constructed ones, and derived objects carry whatever
    internal state the operation left behind"""
    seg = _fresh_seg(spt, r, start, scale, kind)
    if not derive or r.random() >= 0.25:
        return seg
    P = spt.path
    how = r.choice(['rev2', 'rot', 'scale', 'crop', 'warm-rev2', 'warm-rot'])
    try:
        if how.startswith('warm'):
            seg.length()
            if hasattr(seg, 'poly') and not isinstance(seg, P.Arc):
                seg.poly()
        if how in ('rev2', 'warm-rev2'):
            out = seg.reversed().reversed()
        elif how in ('rot', 'warm-rot'):
            out = seg.rotated(r.choice([30, 90, -45.5, 180, 200.25]), origin=start)
        elif how == 'scale':
            out = seg.scaled(r.choice([0.5, 2.0, -1.5]), origin=start)
        else:
            out = seg.cropped(0, r.choice([0.5, 0.625, 1])) if not isinstance(seg, P.Arc) else seg.reversed().reversed()
    except Exception:
        return seg
    # the callers chain segments by exact end points: keep the derived object only if it still starts exactly at `start`
    return out if (out.start == start and out.start != out.end) else seg


def _fresh_seg(spt, r, start, scale, kind=None):
    P = spt.path
    kind = kind or r.choice(['line', 'line', 'quad', 'cubic', 'arc'])

    def pt():
        return complex(r.uniform(-1, 1), r.uniform(-1, 1)) * scale
    end = start + pt()
    while end == start:
        end = start + pt()
    if kind == 'line':
        return P.Line(start, end)
    if kind == 'quad':
        return P.QuadraticBezier(start, start + pt(), end)
    if kind == 'cubic':
        return P.CubicBezier(start, start + pt(), start + pt(), end)
    rad = complex(r.uniform(0.3, 2), r.uniform(0.3, 2)) * scale
    return P.Arc(start, rad, r.choice([0, 30, 90, -45.5]), r.random() < 0.5, r.random() < 0.5, end)


def sample(ctx, budget=1.0, hint=None, broken=None):
    spt = ctx.spt
    P = spt.path
    r = ctx.rng('sample' + ('' if budget == 1.0 else '-search'))
    fails, samples = [], []
    nontriv = set()
    n_eval = 0

    def fail(sig, what, inp, obs, exp, repro=''):
        if len(fails) < 12:
            fails.append(Failure(signature=sig, what=what, input=inp, observed=obs, expected=exp, repro=repro))

    for it in range(int(ctx.n(120, 1500) * budget)):
        n = r.randint(1, 6)
        cls = r.choice(['float', 'float', 'dyadic', 'unequal'])
        segs = []
        cur = complex(r.uniform(-5, 5), r.uniform(-5, 5))
        cont = r.random() < 0.5
        if cls == 'dyadic':
            cur = complex(r.randint(-4, 4), r.randint(-4, 4))
            for i in range(n):
                ln = r.choice([1, 1, 2, 4, 0]) if i > 0 else r.choice([1, 2, 4])
                d = r.choice([1, -1, 1j, -1j])
                segs.append(P.Line(cur, cur + d * ln))
                cur = cur + d * ln
                if not cont and r.random() < 0.5:
                    cur += complex(r.randint(1, 3), r.randint(1, 3))
            if r.random() < 0.4:
                # a falsy point: some segment ends (or the path starts) exactly at the origin
                z0 = r.choice([s_.end for s_ in segs] + [segs[0].start])
                segs = [P.Line(s_.start - z0, s_.end - z0) for s_ in segs]
        else:
            for i in range(n):
                scale = 1.0 if cls == 'float' else r.choice([1e-6, 1e-3, 1.0, 1e3])
                if i > 0 and r.random() < 0.15:
                    segs.append(P.Line(cur, cur))          # zero-length, non-leading
                elif r.random() < 0.12:
                    # a segment that ends where it starts but is NOT zero-length: a closed cubic loop / an out-and-back quadratic
                    a_, b_ = complex(r.uniform(0.5, 3), r.uniform(0.5, 3)) * scale, complex(r.uniform(-3, -0.5), r.uniform(0.5, 3)) * scale
                    segs.append(P.CubicBezier(cur, cur + a_, cur + b_, cur) if r.random() < 0.7 else P.QuadraticBezier(cur, cur + a_, cur))
                else:
                    segs.append(_rand_seg(spt, r, cur, scale, kind=None if cls == 'float' else r.choice(['line', 'quad', 'cubic'])))
                cur = segs[-1].end
                if not cont and r.random() < 0.4:
                    cur += complex(r.uniform(0.5, 2), r.uniform(0.5, 2))
        if cls == 'dyadic' and r.random() < 0.35:
            # the same kind of path spelt with whole numbers: Lines on the real axis whose end points are Python ints or numpy ints
            # (every length is then an int object too)
            ity = r.choice([int, int, np.int64, np.int32])
            xs_ = [r.randint(-20, 20)]
            for _ in range(n):
                xs_.append(xs_[-1] + r.choice([1, 2, 3, 10, -4, 20]))
            segs = [P.Line(ity(a_), ity(b_)) for a_, b_ in zip(xs_, xs_[1:])]
            cls = 'int-typed'
        path = P.Path(*segs)
        desc = repr(path)
        n_eval += 1
        nontriv.add((cls, n, cont, any(s.start == s.end for s in segs)))
        # light mutation history before the queries (start/end caches must follow)
        if r.random() < 0.3:
            form = r.choice(['pos', 'neg', 'slice', 'twice', 'pop-append', 'edit-reassign'])
            j = r.randrange(n)
            warm = r.random() < 0.6
            if warm:      # fill the length caches first: the edits below must invalidate what they touch
                try:
                    path.length(); path.point(0.3)
                except Exception as e:
                    fail('Path.point/raises', 'length() / point(0.3) raised', {'path': desc, 'T': 0.3}, repr(e)[:200], 'a point',
                         '(lambda p: (p.length(), p.point(0.3)))(svgpathtools.%s)' % desc.replace('\n', ' '))
                    continue
                desc += ' then length(), point(0.3)'
            new = _rand_seg(spt, r, segs[j].start + 0, 1.0, 'line')
            new = P.Line(new.start, new.end + complex(0.5, 7.25))
            if form == 'pos':
                path[j] = new
            elif form == 'neg':
                path[j - n] = new
            elif form == 'slice':
                path[j:j + 1] = [new]
            elif form == 'twice':
                # the same slot assigned twice in a row, the first value dropped at once (its memory is free for the second)
                path[j] = P.Line(new.start, new.end + 3)
                path[j] = P.Line(new.start, new.end)
                new = path[j]
            elif form == 'pop-append':
                # the last segment is removed and a newly created one appended, with no query in between; nothing else refers to the old one
                j = n - 1
                segs[j] = None
                path.pop()
                path.append(P.Line(new.start, new.end))
                new = path[-1]
            else:
                # 'edit-reassign': the segment object is edited in place and then assigned to its own slot again
                if isinstance(segs[j], P.Arc):
                    path[j] = new
                else:
                    same = path[j]
                    same.end = same.end + complex(0.5, 7.25)
                    path[j] = same
                    new = same
            segs[j] = new
            desc += ' then item %s assignment at %d of %r' % (form, j, new)
            if r.random() < 0.5:      # a second edit at the same position, back to back (no query in between)
                ins = P.Line(new.start + complex(3, 0.5), new.start + complex(-1.25, 4))
                path.insert(j, ins)
                segs.insert(j, ins)
                n += 1
                desc += ' then insert(%d, %r)' % (j, ins)
        lens = [s.length() for s in segs]
        tot = sum(lens)
        if tot <= 0 or not all(math.isfinite(l) for l in lens):
            continue
        if path.start != segs[0].start or path.end != segs[-1].end:
            fail('Path.start/end', 'path.start/path.end are not the first start / last end', {'path': desc},
                 repr((path.start, path.end)), repr((segs[0].start, segs[-1].end)))
        if path.point(0) != segs[0].start and not isinstance(segs[0], P.Arc):
            fail('Path.point(0)', 'point(0) is not the start', {'path': desc}, repr(path.point(0)), repr(segs[0].start))
        if abs(path.point(1) - segs[-1].end) > 1e-9 * (1 + abs(segs[-1].end)):
            fail('Path.point(1)', 'point(1) is not the end', {'path': desc}, repr(path.point(1)), repr(segs[-1].end))
        if abs(path.point(1) - path.end) > 1e-9 * (1 + abs(path.end)):
            fail('Path.point(1)-vs-end', 'point(1) differs from path.end', {'path': desc}, repr(path.point(1)), repr(path.end))
        # continuity reports
        joins = [segs[i].end == segs[i + 1].start for i in range(n - 1)]
        if bool(path.iscontinuous()) != all(joins):
            fail('Path.iscontinuous', 'iscontinuous() disagrees with the joints', {'path': desc}, repr(path.iscontinuous()), repr(all(joins)))
        if all(joins):
            if bool(path.isclosed()) != (segs[0].start == segs[-1].end):
                fail('Path.isclosed', 'isclosed() disagrees with start == end', {'path': desc}, repr(path.isclosed()), repr(segs[0].start == segs[-1].end))
        sp = path.continuous_subpaths()
        flat = [s for q in sp for s in q]
        if len(flat) != n or any(a is not b for a, b in zip(flat, segs)):
            fail('continuous_subpaths/concat', 'subpaths do not concatenate back to the path', {'path': desc}, repr(sp), 'the original segments')
        elif len(sp) != 1 + sum(1 for j in joins if not j) or any(not q.iscontinuous() for q in sp):
            fail('continuous_subpaths/maximal', 'subpaths are not the maximal continuous runs', {'path': desc}, repr([len(q) for q in sp]),
                 '%d maximal runs' % (1 + sum(1 for j in joins if not j)))
        # parameter coherence
        cums = [0.0]
        for l in lens:
            cums.append(cums[-1] + l / tot)
        Ts = [r.random() for _ in range(3)] + [0.25, 0.5, 0.75]
        Ts += [c for c in cums[1:-1] if 0 < c < 1]
        for T in Ts:
            try:
                k, t = path.T2t(T)
            except Exception as e:
                # floats: only tolerated at T within rounding of 1 (documented gap)
                if T < 1 - 1e-12:
                    fail('Path.T2t/raises', 'T2t raised for 0<T<1', {'path': desc, 'T': T}, repr(e), 'a (k,t) pair',
                         'svgpathtools.%s.T2t(%r)' % (desc.replace('\n', ' '), T) if 'then' not in desc else '')
                continue
            # rounding: |T - T0| carries an absolute error of a few ulp(1); divided by the segment's fraction
            slack = 1e-12 + (4e-15 / (lens[k] / tot) if 0 <= k < n and lens[k] > 0 else 0.0)
            if not (0 <= k < n) or not math.isfinite(t) or not (-slack <= t <= 1 + slack):
                fail('Path.T2t/range', 'T2t returned an index/parameter out of range', {'path': desc, 'T': T}, repr((k, t)), '0<=k<n, 0<=t<=1')
                continue
            if lens[k] == 0 and k > 0:
                fail('Path.T2t/zero-length-segment', 'a zero-length non-leading segment was selected', {'path': desc, 'T': T}, repr((k, t)), 'a segment of positive length')
            if not (cums[k] - 1e-12 <= T <= cums[k + 1] + 1e-12):
                fail('Path.T2t/interval', 'T is outside the T-interval of the returned segment', {'path': desc, 'T': T}, repr((k, t, cums[k], cums[k + 1])), 'cum_k <= T <= cum_{k+1}')
            if lens[k] > 0:
                # ... and t is the fraction of that interval: the segment is traversed linearly in T
                t_exp = (T - cums[k]) / (lens[k] / tot)
                if abs(t - t_exp) > 1e-9 + 10 * slack:
                    fail('Path.T2t/parameter', 'T2t returns the right segment but not the parameter (T - T_k) / (len_k / L)', {'path': desc, 'T': T}, repr((k, t)), repr((k, t_exp)),
                         'svgpathtools.%s.T2t(%r)' % (desc.replace('\n', ' '), T) if 'then' not in desc else '')
            back = path.t2T(k, t)
            if abs(back - T) > 1e-12:
                fail('Path.t2T/roundtrip', 't2T(T2t(T)) != T', {'path': desc, 'T': T}, repr(back), repr(T))
            try:
                tt = min(max(t, 0.0), 1.0)
                want = segs[k].point(tt)
                got = path.point(T)
            except Exception as e:
                fail('Path.point/raises', 'point(T) raised', {'path': desc, 'T': T}, repr(e), 'a point')
                continue
            if abs(got - want) > 1e-9 * (tot + abs(want)) + 1e-300:
                fail('Path.point-vs-T2t', 'point(T) is not seg_k.point(t) for (k,t)=T2t(T)', {'path': desc, 'T': T, 'k': k, 't': t},
                     repr(got), repr(want), ('svgpathtools.%s.point(%r)' % (desc.replace('\n', ' '), T)) if 'then' not in desc else '')
        if len(samples) < 3:
            samples.append({'path': desc[:300], 'T': Ts[:3]})
    return {'evaluations': n_eval, 'distinct_nontrivial': len(nontriv), 'failures': fails, 'samples': samples,
            'rule': 'random paths of 1..6 segments (float mixes incl. arcs, dyadic axis-aligned lines with exact boundaries, very unequal scales, '
                    'zero-length non-leading segments, closed cubic loops and out-and-back quadratics (start == end, positive length), continuous or with gaps), optional item assignment first; T random, quarter points and '
                    'segment boundaries. distinct = distinct (class, n, continuous?, has zero-length)'}


def replay(spt, f):
    from .c19 import replay as rp
    return rp(spt, f)
