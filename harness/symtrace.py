"""Translator front end: symbolic (concolic) scalars that record an expression
DAG while the *unmodified* svgpathtools code runs on them.

R   real-valued (or opaque commutative-ring) scalar.  Carries an exact shadow
    (fractions.Fraction) used only to decide comparisons; every decided
    comparison is appended to the active trace's path condition.
Cx  complex value whose .real/.imag are R's.

Nothing here edits /repo; numeric library functions are substituted from the
outside by the callers (module attribute assignment on the imported module).
"""
from __future__ import annotations
import math
from fractions import Fraction
import numbers
import numpy as np


class Degenerate(Exception):
    """an equality path condition came out true on generic shadows"""


class TraceCtx:
    current = None

    def __init__(self):
        self.conds = []     # list of (lean_text_of_condition, truth)
        self.allow_eq = False

    def __enter__(self):
        self.prev = TraceCtx.current
        TraceCtx.current = self
        return self

    def __exit__(self, *a):
        TraceCtx.current = self.prev


def _ctx():
    return TraceCtx.current


def _is_int(x):
    return isinstance(x, (int, np.integer)) and not isinstance(x, bool)


class Node:
    __slots__ = ('op', 'args', 'val', 'key')
    _intern = {}

    def __new__(cls, op, args, val):
        key = (op,) + tuple(a.key if isinstance(a, Node) else ('#', a) for a in args)
        n = Node._intern.get(key)
        if n is None:
            n = object.__new__(cls)
            n.op, n.args, n.val = op, tuple(args), val
            n.key = len(Node._intern)
            Node._intern[key] = n
        return n


def reset():
    Node._intern.clear()


def _exact_sqrt(fr):
    if fr < 0:
        raise ValueError("sqrt of negative shadow")
    n, d = fr.numerator, fr.denominator
    rn, rd = math.isqrt(n), math.isqrt(d)
    if rn * rn == n and rd * rd == d:
        return Fraction(rn, rd)
    return None


class Poison:
    """value that may be computed but never used (e.g. `isy = 1j*sx` when sy is None)"""

    def __init__(self, why):
        self.why = why

    def _boom(self, *a, **k):
        raise TypeError("use of a poisoned symbolic value: " + self.why)
    __add__ = __radd__ = __sub__ = __rsub__ = __mul__ = __rmul__ = __truediv__ = __rtruediv__ = _boom
    __neg__ = __abs__ = __pow__ = __bool__ = __float__ = __eq__ = __ne__ = __lt__ = __le__ = __gt__ = __ge__ = _boom
    __hash__ = object.__hash__
    real = property(_boom)
    imag = property(_boom)


class R:
    """real / ring scalar"""
    __slots__ = ('n', 'ring')

    def __init__(self, node, ring=False):
        self.n = node
        self.ring = ring

    # constructors -------------------------------------------------------
    @staticmethod
    def var(name, val, ring=False):
        return R(Node('var', (name,), Fraction(val)), ring)

    @staticmethod
    def const(c):
        c = Fraction(c)
        return R(Node('const', (c,), c))

    @property
    def val(self):
        return self.n.val

    # lifting ------------------------------------------------------------
    @staticmethod
    def lift(x):
        if isinstance(x, R):
            return x
        if isinstance(x, bool):
            return R.const(int(x))
        if _is_int(x):
            return R.const(int(x))
        if isinstance(x, Fraction):
            return R.const(x)
        if isinstance(x, (float, np.floating)):
            f = float(x)
            if f != f or f in (float('inf'), float('-inf')):
                raise TypeError("non-finite float constant in trace")
            return R.const(Fraction(f))
        if isinstance(x, np.ndarray) and x.ndim == 0:
            return R.lift(x.item())
        return None

    def _bin(self, other, op, swap=False):
        if isinstance(other, (complex, np.complexfloating)) and not isinstance(other, (float, int)) and other.imag == 0:
            other = float(other.real)
        if isinstance(other, (complex, np.complexfloating)) and not isinstance(other, (float, int)):
            if self.ring:
                return Poison("non-real complex constant combined with an opaque ring element")
            else:
                c = Cx.lift(other)
                s = Cx(self, R.const(0))
                return getattr(c, op)(s) if swap else getattr(s, op)(c)
        if isinstance(other, Cx):
            return NotImplemented
        o = R.lift(other)
        if o is None:
            return NotImplemented
        a, b = (o, self) if swap else (self, o)
        ring = a.ring or b.ring
        if op == '__add__':
            if a.n.op == 'const' and a.n.val == 0:
                return R(b.n, ring)
            if b.n.op == 'const' and b.n.val == 0:
                return R(a.n, ring)
            return R(Node('add', (a.n, b.n), a.val + b.val), ring)
        if op == '__sub__':
            if b.n.op == 'const' and b.n.val == 0:
                return R(a.n, ring)
            return R(Node('sub', (a.n, b.n), a.val - b.val), ring)
        if op == '__mul__':
            if a.n.op == 'const' and a.n.val == 1:
                return R(b.n, ring)
            if b.n.op == 'const' and b.n.val == 1:
                return R(a.n, ring)
            if (a.n.op == 'const' and a.n.val == 0) or (b.n.op == 'const' and b.n.val == 0):
                return R.const(0)
            return R(Node('mul', (a.n, b.n), a.val * b.val), ring)
        if op == '__truediv__':
            if b.val == 0:
                raise ZeroDivisionError("symbolic division by zero shadow")
            if b.n.op == 'const' and b.n.val == 1:
                return R(a.n, ring)
            if a.n.op == 'const' and a.n.val == 0:
                return R.const(0)
            return R(Node('div', (a.n, b.n), a.val / b.val), ring)
        raise AssertionError(op)

    def __add__(self, o): return self._bin(o, '__add__')
    def __radd__(self, o): return self._bin(o, '__add__', True)
    def __sub__(self, o): return self._bin(o, '__sub__')
    def __rsub__(self, o): return self._bin(o, '__sub__', True)
    def __mul__(self, o): return self._bin(o, '__mul__')
    def __rmul__(self, o): return self._bin(o, '__mul__', True)
    def __truediv__(self, o): return self._bin(o, '__truediv__')
    def __rtruediv__(self, o): return self._bin(o, '__truediv__', True)

    def __neg__(self):
        if self.n.op == 'const':
            return R.const(-self.n.val)
        return R(Node('neg', (self.n,), -self.val), self.ring)

    def __pos__(self):
        return self

    def __pow__(self, k):
        if isinstance(k, (float, np.floating)) and float(k).is_integer():
            k = int(k)
        if not _is_int(k) or k < 0:
            if isinstance(k, (float, Fraction)) and Fraction(k) == Fraction(1, 2):
                return sqrt(self)
            raise TypeError("symbolic power with exponent %r" % (k,))
        k = int(k)
        if k == 0:
            return R.const(1)
        if k == 1:
            return self
        return R(Node('pow', (self.n, k), self.val ** k), self.ring)

    def __abs__(self):
        if self.ring:
            raise TypeError("abs of opaque ring element")
        return R(Node('abs', (self.n,), abs(self.val)))

    # complex protocol ---------------------------------------------------
    @property
    def real(self):
        if self.ring:
            raise TypeError(".real of opaque ring element")
        return self

    @property
    def imag(self):
        if self.ring:
            raise TypeError(".imag of opaque ring element")
        return R.const(0)

    def conjugate(self):
        if self.ring:
            raise TypeError("conjugate of opaque ring element")
        return self

    # comparisons (decided on the shadow, recorded) ------------------------
    def _cmp(self, other, rel):
        if isinstance(other, Cx):
            return NotImplemented
        if isinstance(other, (complex, np.complexfloating)) and not isinstance(other, (float, int)):
            if other.imag != 0:
                if rel == '==':
                    return False
                if rel == '!=':
                    return True
                raise TypeError
            other = other.real
        o = R.lift(other)
        if o is None:
            return NotImplemented
        a, b = self.val, o.val
        res = {'<': a < b, '<=': a <= b, '>': a > b, '>=': a >= b,
               '==': a == b, '!=': a != b}[rel]
        c = _ctx()
        if c is not None:
            c.conds.append((rel, self.n, o.n, res))
            if not c.allow_eq and ((rel == '==' and res) or (rel == '!=' and not res)):
                if not (self.n is o.n):
                    raise Degenerate("equality %s holds on shadows" % rel)
        return res

    def __lt__(self, o): return self._cmp(o, '<')
    def __le__(self, o): return self._cmp(o, '<=')
    def __gt__(self, o): return self._cmp(o, '>')
    def __ge__(self, o): return self._cmp(o, '>=')
    def __eq__(self, o): return self._cmp(o, '==')
    def __ne__(self, o): return self._cmp(o, '!=')
    __hash__ = object.__hash__

    def __bool__(self):
        r = self._cmp(0, '!=')
        return r

    def __float__(self):
        return float(self.val)

    def __repr__(self):
        return 'R<%s>' % to_lean(self.n)

    def item(self, *a):
        return self


# numpy's poly1d tests np.isscalar(other) before dividing by it; isscalar accepts numbers.Number instances
numbers.Number.register(R)


def _fn(name, x, shadow):
    x = R.lift(x)
    return R(Node('fn', (name, x.n), shadow))


def sqrt(x):
    if isinstance(x, Cx):
        raise TypeError("complex sqrt not traced")
    x = R.lift(x) if not isinstance(x, R) else x
    if x is None:
        raise TypeError
    s = _exact_sqrt(x.val)
    if s is None:
        raise Degenerate("sqrt of non-square shadow %s" % x.val)
    return R(Node('fn', ('sqrt', x.n), s))


def sqrt_approx(x):
    """like sqrt, but a radicand whose shadow is not a rational square gets an approximate shadow
    (used only to decide later comparisons; generic inputs stay away from ties)"""
    x = R.lift(x) if not isinstance(x, R) else x
    s = _exact_sqrt(x.val)
    if s is None:
        s = Fraction(math.sqrt(float(x.val)))
    return R(Node('fn', ('sqrt', x.n), s))


class Cx:
    """complex value with symbolic real and imaginary parts"""
    __slots__ = ('re', 'im')

    def __init__(self, re, im):
        self.re = R.lift(re)
        self.im = R.lift(im)

    @staticmethod
    def var(name, vx, vy):
        return Cx(R.var(name + 'x', vx), R.var(name + 'y', vy))

    @staticmethod
    def lift(x):
        if isinstance(x, Cx):
            return x
        if isinstance(x, R):
            if x.ring:
                return None
            return Cx(x, R.const(0))
        if isinstance(x, (complex, np.complexfloating)):
            return Cx(R.lift(float(x.real)), R.lift(float(x.imag)))
        r = R.lift(x)
        if r is None:
            return None
        return Cx(r, R.const(0))

    @property
    def real(self): return self.re
    @property
    def imag(self): return self.im

    def conjugate(self):
        return Cx(self.re, -self.im)

    def _bin(self, other, op, swap=False):
        o = Cx.lift(other)
        if o is None:
            return NotImplemented
        a, b = (o, self) if swap else (self, o)
        if op == 'add':
            return Cx(a.re + b.re, a.im + b.im)
        if op == 'sub':
            return Cx(a.re - b.re, a.im - b.im)
        if op == 'mul':
            return Cx(a.re * b.re - a.im * b.im, a.re * b.im + a.im * b.re)
        if op == 'div':
            if b.im.n.op == 'const' and b.im.val == 0:
                return Cx(a.re / b.re, a.im / b.re)
            d = b.re * b.re + b.im * b.im
            return Cx((a.re * b.re + a.im * b.im) / d, (a.im * b.re - a.re * b.im) / d)
        raise AssertionError

    def __add__(self, o): return self._bin(o, 'add')
    def __radd__(self, o): return self._bin(o, 'add', True)
    def __sub__(self, o): return self._bin(o, 'sub')
    def __rsub__(self, o): return self._bin(o, 'sub', True)
    def __mul__(self, o): return self._bin(o, 'mul')
    def __rmul__(self, o): return self._bin(o, 'mul', True)
    def __truediv__(self, o): return self._bin(o, 'div')
    def __rtruediv__(self, o): return self._bin(o, 'div', True)
    def __neg__(self): return Cx(-self.re, -self.im)
    def __pos__(self): return self

    def __pow__(self, k):
        if not _is_int(k) or k < 0:
            raise TypeError("complex symbolic power %r" % (k,))
        out = Cx(R.const(1), R.const(0))
        for _ in range(int(k)):
            out = out * self
        return out

    def __abs__(self):
        return sqrt_approx(self.re * self.re + self.im * self.im)

    def __eq__(self, o):
        o = Cx.lift(o)
        if o is None:
            return NotImplemented
        return bool(self.re == o.re) and bool(self.im == o.im)

    def __ne__(self, o):
        r = self.__eq__(o)
        return r if r is NotImplemented else not r
    __hash__ = object.__hash__

    def __bool__(self):
        return bool(self.re != 0) or bool(self.im != 0)

    def __repr__(self):
        return 'Cx<%s, %s>' % (to_lean(self.re.n), to_lean(self.im.n))


# ----------------------------------------------------------------------------
# printing

def _const(c):
    c = Fraction(c)
    if c.denominator == 1:
        if c.numerator < 0:
            return '(-%d : K)' % (-c.numerator)
        return '(%d : K)' % c.numerator
    if c.numerator < 0:
        return '(-((%d : K) / (%d : K)))' % (-c.numerator, c.denominator)
    return '((%d : K) / (%d : K))' % (c.numerator, c.denominator)


FN_LEAN = {'sqrt': 'Real.sqrt', 'cos': 'Real.cos', 'sin': 'Real.sin', 'tan': 'Real.tan',
           'exp': 'Real.exp', 'log': 'Real.log', 'acos': 'Real.arccos', 'asin': 'Real.arcsin',
           'atan': 'Real.arctan'}


def to_lean(n, fn_style='generic'):
    """fully parenthesised Lean term for node n"""
    memo = {}

    def go(n):
        k = n.key
        if k in memo:
            return memo[k]
        if n.op == 'var':
            s = n.args[0]
        elif n.op == 'const':
            s = _const(n.args[0])
        elif n.op in ('add', 'sub', 'mul', 'div'):
            sym = {'add': '+', 'sub': '-', 'mul': '*', 'div': '/'}[n.op]
            s = '(%s %s %s)' % (go(n.args[0]), sym, go(n.args[1]))
        elif n.op == 'neg':
            s = '(-%s)' % go(n.args[0])
        elif n.op == 'pow':
            s = '(%s ^ %d)' % (go(n.args[0]), n.args[1])
        elif n.op == 'abs':
            s = '|%s|' % go(n.args[0])
        elif n.op == 'fn':
            nm = n.args[0]
            if fn_style == 'real':
                s = '(%s %s)' % (FN_LEAN[nm], go(n.args[1]))
            else:
                s = '(T.%s %s)' % (nm, go(n.args[1]))
        else:
            raise AssertionError(n.op)
        memo[k] = s
        return s
    return go(n)


def uses(n, pred, seen=None):
    seen = set() if seen is None else seen
    if n.key in seen:
        return False
    seen.add(n.key)
    if pred(n):
        return True
    return any(isinstance(a, Node) and uses(a, pred, seen) for a in n.args)


def variables(n, acc=None, seen=None):
    acc = [] if acc is None else acc
    seen = set() if seen is None else seen
    if n.key in seen:
        return acc
    seen.add(n.key)
    if n.op == 'var':
        if n.args[0] not in acc:
            acc.append(n.args[0])
    for a in n.args:
        if isinstance(a, Node):
            variables(a, acc, seen)
    return acc


def evalnode(n, env):
    """exact re-evaluation over Fractions (self-check of the printer's input)"""
    memo = {}

    def go(n):
        if n.key in memo:
            return memo[n.key]
        if n.op == 'var':
            v = Fraction(env[n.args[0]])
        elif n.op == 'const':
            v = n.args[0]
        elif n.op == 'add':
            v = go(n.args[0]) + go(n.args[1])
        elif n.op == 'sub':
            v = go(n.args[0]) - go(n.args[1])
        elif n.op == 'mul':
            v = go(n.args[0]) * go(n.args[1])
        elif n.op == 'div':
            v = go(n.args[0]) / go(n.args[1])
        elif n.op == 'neg':
            v = -go(n.args[0])
        elif n.op == 'pow':
            v = go(n.args[0]) ** n.args[1]
        elif n.op == 'abs':
            v = abs(go(n.args[0]))
        elif n.op == 'fn' and n.args[0] == 'sqrt':
            v = _exact_sqrt(go(n.args[1]))
        else:
            raise AssertionError(n.op)
        memo[n.key] = v
        return v
    return go(n)


def fn_approx(name, x, pyfunc):
    """uninterpreted real function node (cos, sin, ...) with an approximate shadow"""
    x = R.lift(x) if not isinstance(x, R) else x
    return R(Node('fn', (name, x.n), Fraction(pyfunc(float(x.val)))))
