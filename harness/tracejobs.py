"""Trace jobs: each function returns a list of gen_lean.Def obtained by running
the real svgpathtools code on symbolic scalars."""
from __future__ import annotations
import random
from fractions import Fraction
from . import symtrace as st
from .gen_lean import Def

GEN_SEED = 20260929  # fixed: Gen text must not depend on VERIF_SEED


def shadow_rng(tag, salt=0):
    return random.Random('%d/%s/%d' % (GEN_SEED, tag, salt))


def rfrac(r, lo=-40, hi=40, dens=(1, 2, 3, 5, 7)):
    while True:
        v = Fraction(r.randint(lo, hi), r.choice(dens))
        if v != 0 and v != 1:
            return v


def ringvars(names, r):
    env = {}
    out = []
    for n in names:
        env[n] = rfrac(r)
        out.append(st.R.var(n, env[n], ring=True))
    return out, env


def realvars(names, r):
    env = {}
    out = []
    for n in names:
        env[n] = rfrac(r)
        out.append(st.R.var(n, env[n]))
    return out, env


def node(x):
    """node of an R result (ints/fractions become constants)"""
    x = st.R.lift(x)
    return x.n


def retry(fn, tag, tries=20):
    """run fn(rng) with fresh shadows until the trace is non-degenerate"""
    last = None
    for k in range(tries):
        try:
            st.reset()
            with st.TraceCtx():
                return fn(shadow_rng(tag, k))
        except st.Degenerate as e:
            last = e
    raise RuntimeError('trace %s degenerate on %d shadow draws: %s' % (tag, tries, last))
