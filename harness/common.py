"""Shared plumbing for the /verif checks: paths, PRNG, lake invocation under a
lock, Lean driver pipe, evidence / replay / known-findings handling."""
from __future__ import annotations
import fcntl
import json
import os
import random
import re
import subprocess
import sys
import time

VERIF = os.path.dirname(os.path.dirname(os.path.abspath(__file__)))
REPO = os.environ.get('SVGPATHTOOLS_REPO', '/repo')
LEAN_DIR = os.path.join(VERIF, 'lean')
EVID_DIR = os.path.join(VERIF, 'evidence')
REPLAY_DIR = os.path.join(VERIF, 'replays')
CORPUS_DIR = os.path.join(VERIF, 'corpus')
KNOWN = os.path.join(VERIF, 'known_findings.json')
LOCK = os.path.join(LEAN_DIR, '.lake.lock')

if REPO not in sys.path:
    sys.path.insert(0, REPO)

ALLOWED_AXIOMS = {'propext', 'Classical.choice', 'Quot.sound'}
FORBIDDEN_RE = re.compile(
    r'\b(sorry|admit|native_decide|bv_decide|implemented_by|unsafe)\b|^\s*axiom\s|maxHeartbeats\s+0\b', re.M)

TRUSTED_BASE = [
    "Lean 4.33.0 kernel; Mathlib v4.33.0 as compiled on this image",
    "axioms per theorem audited on every run: subset of {propext, Classical.choice, Quot.sound}; no native_decide/bv_decide/sorry/own axioms",
    "translator /verif/harness/symtrace.py + gen_lean.py: the Lean term printed is the expression Python evaluated (mitigated: kernel re-evaluation on shadow inputs, second trace with fresh shadows)",
    "correspondence runners /verif/harness/props/*.py call the real functions and compare exactly",
    "CPython int/Fraction/float arithmetic, re; numpy poly1d algebra on object arrays",
    "IEEE-754 rounding is NOT modelled: theorems are exact-arithmetic (or law-free) statements; floats are covered only by the sampler",
]


def seed():
    try:
        return int(os.environ.get('VERIF_SEED', '0'))
    except ValueError:
        return 0


def rng(tag=''):
    return random.Random('%d/%s' % (seed(), tag))


class InfraError(Exception):
    pass


# --------------------------------------------------------------------------
# lake / lean

class LakeLock:
    def __enter__(self):
        os.makedirs(LEAN_DIR, exist_ok=True)
        self.f = open(LOCK, 'w')
        fcntl.flock(self.f, fcntl.LOCK_EX)
        return self

    def __exit__(self, *a):
        fcntl.flock(self.f, fcntl.LOCK_UN)
        self.f.close()


def lake_build(targets, timeout=3000):
    """returns (ok, output)"""
    if isinstance(targets, str):
        targets = [targets]
    with LakeLock():
        try:
            p = subprocess.run(['lake', 'build'] + list(targets), cwd=LEAN_DIR,
                               stdout=subprocess.PIPE, stderr=subprocess.STDOUT,
                               text=True, timeout=timeout)
        except FileNotFoundError:
            raise InfraError('lake not found')
        except subprocess.TimeoutExpired:
            raise InfraError('lake build timed out')
    return p.returncode == 0, p.stdout


def lean_run(file, stdin_text=None, timeout=3000, args=()):
    """lake env lean --run <file>; returns stdout"""
    with LakeLock():
        pass  # make sure no build is in flight
    p = subprocess.run(['lake', 'env', 'lean', '--run', file] + list(args), cwd=LEAN_DIR,
                       input=stdin_text, stdout=subprocess.PIPE, stderr=subprocess.PIPE,
                       text=True, timeout=timeout)
    if p.returncode != 0:
        raise InfraError('lean --run %s failed: %s' % (file, (p.stderr or p.stdout)[-2000:]))
    return p.stdout


def lean_check_file(file, timeout=3000):
    """lake env lean <file> (elaborate only); returns (ok, output)"""
    with LakeLock():
        pass
    p = subprocess.run(['lake', 'env', 'lean', file], cwd=LEAN_DIR,
                       stdout=subprocess.PIPE, stderr=subprocess.STDOUT, text=True, timeout=timeout)
    return p.returncode == 0, p.stdout


_driver_built = [False]


def driver_imports():
    out = []
    with open(os.path.join(LEAN_DIR, 'Driver.lean')) as f:
        for ln in f:
            if ln.startswith('import '):
                out.append(ln.split()[1])
    return out


def driver(lines, timeout=3000):
    """feed lines to Driver.lean, return list of output lines"""
    if not _driver_built[0]:
        ok, out = lake_build(driver_imports())
        if not ok:
            raise InfraError('building the model modules imported by Driver.lean failed:\n' + out[-2000:])
        _driver_built[0] = True
    text = '\n'.join(lines) + '\n'
    out = lean_run('Driver.lean', text, timeout=timeout)
    res = out.split('\n')
    if res and res[-1] == '':
        res.pop()
    return res


def audit(module):
    """returns dict theorem -> sorted list of axioms, for every theorem declared
    in the given Lean module (must be built)."""
    src = ('import SvgVerif.Audit\nimport %s\n#audit_module %s\n' % (module, module))
    path = os.path.join(LEAN_DIR, '.audit_%s_%d.lean' % (module.replace('.', '_'), os.getpid()))
    with open(path, 'w') as f:
        f.write(src)
    try:
        ok, out = lean_check_file(path)
    finally:
        os.unlink(path)
    if not ok:
        raise InfraError('audit failed for %s: %s' % (module, out[-2000:]))
    res = {}
    for line in out.split('\n'):
        m = re.match(r'^AUDIT (\S+) :(.*)$', line.strip())
        if m:
            res[m.group(1)] = sorted(x for x in m.group(2).split() if x)
    return res


def forbidden_in_sources(paths):
    """grep the given Lean sources for forbidden constructs outside comments"""
    hits = []
    for p in paths:
        with open(p) as f:
            txt = f.read()
        # strip block comments and line comments
        txt2 = re.sub(r'/-.*?-/', lambda m: '\n' * m.group(0).count('\n'), txt, flags=re.S)
        txt2 = re.sub(r'--.*', '', txt2)
        for m in FORBIDDEN_RE.finditer(txt2):
            line = txt2.count('\n', 0, m.start()) + 1
            hits.append('%s:%d: %s' % (os.path.relpath(p, VERIF), line, m.group(0).strip()))
    return hits


# --------------------------------------------------------------------------
# known findings, replays, evidence

def load_known():
    if not os.path.exists(KNOWN):
        return {'findings': [], 'fixed': []}
    with open(KNOWN) as f:
        return json.load(f)


def write_replay(pid, payload, tag='r'):
    os.makedirs(REPLAY_DIR, exist_ok=True)
    k = 0
    while True:
        path = os.path.join(REPLAY_DIR, '%s-%d-%s%d.json' % (pid, seed(), tag, k))
        if not os.path.exists(path):
            break
        k += 1
    payload = dict(payload)
    payload.setdefault('property', pid)
    payload.setdefault('seed', seed())
    with open(path, 'w') as f:
        json.dump(payload, f, indent=1, default=str)
    return os.path.relpath(path, VERIF)


def write_evidence(pid, tier, coverage, wall_s, violations, assumptions):
    os.makedirs(EVID_DIR, exist_ok=True)
    ev = {
        'property_id': pid, 'tier': tier, 'seed': seed(), 'level': 'proof',
        'coverage': coverage, 'assumptions': assumptions,
        'wall_s': round(wall_s, 2), 'violations': violations,
    }
    path = os.path.join(EVID_DIR, pid + '.json')
    tmp = path + '.tmp'
    with open(tmp, 'w') as f:
        json.dump(ev, f, indent=1, default=str)
    os.replace(tmp, path)
    return path


def hexf(x):
    """canonical text of a float / complex for replays"""
    if isinstance(x, complex):
        return [float(x.real).hex(), float(x.imag).hex()]
    return float(x).hex()


def fresh_svgpathtools():
    """import (or re-import) svgpathtools from REPO's working tree"""
    for k in list(sys.modules):
        if k == 'svgpathtools' or k.startswith('svgpathtools.'):
            del sys.modules[k]
    import svgpathtools  # noqa
    f = os.path.abspath(svgpathtools.__file__)
    if not f.startswith(os.path.abspath(REPO) + os.sep):
        raise InfraError('svgpathtools imported from %s, not from %s' % (f, REPO))
    return svgpathtools
