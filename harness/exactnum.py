"""Exact scalars on which the unmodified svgpathtools control logic and arithmetic can run:
Q  = rational number (wraps fractions.Fraction, closed under + - * /, interoperates with int/float/complex),
QC = complex number with Q parts.  `1j*q`, `q + 1j*r`, `1/z`, `z.real`, comparisons all stay exact."""
from __future__ import annotations
from fractions import Fraction as Fr
import math


def _unwrap(x):
    """numpy wraps scalars handed to polyval etc. into 0-d object arrays"""
    try:
        import numpy as np
        if isinstance(x, np.ndarray) and x.ndim == 0:
            return x.item()
    except Exception:
        pass
    return x


def _fr(x):
    x = _unwrap(x)
    if isinstance(x, Q):
        return x.v
    if isinstance(x, bool):
        return Fr(int(x))
    if isinstance(x, (int, Fr)):
        return Fr(x)
    if isinstance(x, float):
        return Fr(x)
    try:
        import numpy as np
        if isinstance(x, (np.integer,)):
            return Fr(int(x))
        if isinstance(x, (np.floating,)):
            return Fr(float(x))
    except Exception:
        pass
    return None


class Q(object):
    __slots__ = ('v',)

    def __init__(self, v, d=1):
        self.v = Fr(v) / Fr(d) if d != 1 else Fr(v)

    real = property(lambda self: self)
    imag = property(lambda self: Q(0))

    def conjugate(self):
        return self

    def _c(self, o):
        o = _unwrap(o)
        if isinstance(o, QC):
            return o
        if isinstance(o, complex):
            return QC(Q(Fr(o.real)), Q(Fr(o.imag)))
        return None

    def _bin(self, o, f, swap=False):
        c = self._c(o)
        if c is not None:
            me = QC(self, Q(0))
            return f(c, me) if swap else f(me, c)
        r = _fr(o)
        if r is None:
            return NotImplemented
        return Q(f(r, self.v)) if swap else Q(f(self.v, r))

    def __add__(self, o): return self._bin(o, lambda a, b: a + b)
    def __radd__(self, o): return self._bin(o, lambda a, b: a + b, True)
    def __sub__(self, o): return self._bin(o, lambda a, b: a - b)
    def __rsub__(self, o): return self._bin(o, lambda a, b: a - b, True)
    def __mul__(self, o): return self._bin(o, lambda a, b: a * b)
    def __rmul__(self, o): return self._bin(o, lambda a, b: a * b, True)
    def __truediv__(self, o): return self._bin(o, lambda a, b: a / b)
    def __rtruediv__(self, o): return self._bin(o, lambda a, b: a / b, True)
    def __neg__(self): return Q(-self.v)
    def __pos__(self): return self
    def __abs__(self): return Q(abs(self.v))

    def __pow__(self, k):
        if isinstance(k, float) and k.is_integer():
            k = int(k)
        return Q(self.v ** k)

    def _cmp(self, o):
        r = _fr(o)
        if r is None:
            if isinstance(o, complex) and o.imag == 0:
                return Fr(o.real)
            raise TypeError('Q compared with %r' % (o,))
        return r

    def __eq__(self, o):
        try:
            return self.v == self._cmp(o)
        except TypeError:
            return False

    def __ne__(self, o): return not self == o
    def __lt__(self, o): return self.v < self._cmp(o)
    def __le__(self, o): return self.v <= self._cmp(o)
    def __gt__(self, o): return self.v > self._cmp(o)
    def __ge__(self, o): return self.v >= self._cmp(o)
    def __hash__(self): return hash(self.v)
    def __bool__(self): return self.v != 0
    def __float__(self): return float(self.v)
    def __repr__(self): return 'Q(%s)' % self.v


def _q(x):
    x = _unwrap(x)
    if isinstance(x, Q):
        return x
    r = _fr(x)
    if r is None:
        raise TypeError(x)
    return Q(r)


class QC(object):
    __slots__ = ('real', 'imag')

    def __init__(self, re, im=0):
        self.real, self.imag = _q(re), _q(im)

    @staticmethod
    def lift(o):
        o = _unwrap(o)
        if isinstance(o, QC):
            return o
        if isinstance(o, complex):
            return QC(Fr(o.real), Fr(o.imag))
        return QC(_q(o), 0)

    def __add__(self, o):
        o = QC.lift(o)
        return QC(self.real + o.real, self.imag + o.imag)
    __radd__ = __add__

    def __sub__(self, o):
        o = QC.lift(o)
        return QC(self.real - o.real, self.imag - o.imag)

    def __rsub__(self, o):
        return QC.lift(o) - self

    def __neg__(self):
        return QC(-self.real, -self.imag)

    def __mul__(self, o):
        o = QC.lift(o)
        return QC(self.real * o.real - self.imag * o.imag, self.real * o.imag + self.imag * o.real)
    __rmul__ = __mul__

    def __truediv__(self, o):
        if not isinstance(o, (QC, complex)):
            o = _q(o)
            return QC(self.real / o, self.imag / o)
        o = QC.lift(o)
        n = o.real * o.real + o.imag * o.imag
        return QC((self.real * o.real + self.imag * o.imag) / n, (self.imag * o.real - self.real * o.imag) / n)

    def __rtruediv__(self, o):
        return QC.lift(o) / self

    def conjugate(self):
        return QC(self.real, -self.imag)

    def __abs__(self):
        return sqrt_standin(self.real * self.real + self.imag * self.imag)

    def __eq__(self, o):
        try:
            o = QC.lift(o)
        except TypeError:
            return False
        return self.real == o.real and self.imag == o.imag

    def __ne__(self, o): return not self == o
    def __hash__(self): return hash((self.real.v, self.imag.v))
    def __repr__(self): return 'QC(%s, %s)' % (self.real.v, self.imag.v)


def qstr(x):
    v = _q(x).v
    return str(v.numerator) if v.denominator == 1 else '%d/%d' % (v.numerator, v.denominator)


def sqrt_standin(x):
    """exact square root where it is rational, else the fixed rational stand-in (x+1)/2; the Lean driver uses the same"""
    v = _q(x).v
    if v >= 0:
        rn, rd = math.isqrt(v.numerator), math.isqrt(v.denominator)
        if rn * rn == v.numerator and rd * rd == v.denominator:
            return Q(Fr(rn, rd))
    return Q((v + 1) / 2)
