#!/bin/bash
# Builds the whole Lean library once (offline) and byte-compiles the harness.
set -e
cd "$(dirname "$0")"
/venv/bin/python -m compileall -q harness >/dev/null
/venv/bin/python -c "
import sys; sys.path.insert(0,'.')
from harness import setup_gen; setup_gen.main()"
cd lean
lake build SvgVerif
# every module of the library; a module that no longer builds (because /repo changed) is what
# the per-property check reports, so it must not fail the set-up
mods=$(find SvgVerif -name '*.lean' | sed 's/\.lean$//; s#/#.#g' | sort)
lake build $mods || true
