#!/bin/bash
# runs every registered check (quick by default) on the current tree, in sequence; prints one line each
tier="${1:-quick}"
cd /verif
for pid in $(python3 -c "import json; print(' '.join(c['property_id'] for c in json.load(open('MANIFEST.json'))['checks']))"); do
  ./check $pid --tier $tier | tail -3
done
