#!/usr/bin/env python3
"""Writes /verif/MANIFEST.json from the table below (single source of truth)."""
import json, os
V = os.path.dirname(os.path.dirname(os.path.abspath(__file__)))
ALL = ['C%02d' % i for i in range(1, 21)]

CLAIMED = {
 'C01': dict(
   technique='Lean 4 proof: round trip of a command-level model of Path.d through the SVG reference interpreter (induction over the segment list with a state-correspondence invariant), composed with the C02 parser refinement theorem; serializer model tied by token-level correspondence through the real tokenizer',
   text='Proof. d_parse_roundtrip: for EVERY non-empty segment list (any mix of Line/Quadratic/Cubic/Arc, several subpaths, open, closed by a line, closed by a curve, revisiting its start; arcs as Arc objects guarantee them: non-zero radii, distinct ends; closing Line not of zero length) and EVERY option set (useSandT, use_closed_attrib, rel), the parser model applied to the tokens of the Path.d model returns exactly the same segments - same kinds, order, flags and points, nothing dropped or added - and _closed iff Z was written. The absolute form uses no arithmetic law except commutativity of + (so it is a statement about IEEE doubles); the relative form uses exactly a + (b - a) = b. Built from run_dCmds (serializer vs reference interpreter) and C02.parse_refines_spec (parser vs reference interpreter). The model (M emission rule, S/T decision through is_smooth_from, relative lowering, Z) is compared token-by-token with the real Path.d for all 8 option sets on structured dyadic paths every run; a float sampler round-trips random paths incl. huge/tiny/exponent-format numbers, auto-enlarged arcs and mutated paths with the tolerances of the statement.',
   note='Trusted: kernel + standard axioms; CPython repr/float/format; correspondence runner. Relative form in floats (rounding of emitted differences, the extra closing line of rounding-error length) is sampled, not proved. Arc re-normalisation is C04.',
   ref='7 C01'),
 'C02': dict(
   technique='Lean 4 proof: refinement (simulation relation + induction over the command list) of a token-level model of Path._parse_path to a reference interpreter written from SVG 1.1 section 8.3; models tied by exhaustive/random token-level correspondence and an exhaustive tokenizer correspondence',
   text='Proof. parse_refines_spec: for EVERY grammatical program - an initial moveto followed by any number of commands over the 20 letters, any arguments, each letter present or omitted where SVG permits (implicit repetition, lineto after moveto) - the model of the parser loop (command / last_command / absolute state, M->L rewriting, CS/QT tests, reflection, closepath, H/V, zero-radius and zero-length arcs) returns exactly the segments and closed flag of the reference interpreter, whose state is (current point, subpath start, remembered cubic/quadratic control). Law-free except commutativity of +, so it is a statement about floats. The pre-repair parser is refuted by a kernel-checked witness (S after Z). The parser model is executed against parse_path on all programs of <=2 (quick) / <=3 (thorough) commands over the 20 letters, random programs to length 12 and a malformed stream (error kinds compared); the tokenizer model against Path._tokenize_path on every string of length <=4/5 over the 9 characters that matter. A sampler compares parse_path with an independent string-level reference interpreter across number classes and 7 spellings.',
   note='Trusted: kernel + standard axioms; CPython float() and re; correspondence runners. No Lean theorem yet about the tokenizer (tied by exhaustive correspondence only). Arc() internals are C04. Known finding F5 (arc flags without separators) reported as KNOWN-FINDING.',
   ref='7 C02'),
 'C03': dict(
   technique='Lean 4 proof: ring identities + Mathlib calculus on definitions regenerated from path.py by a tracing translator (generic and coincident-control-point traces)',
   text='Proof. point/poly/poly1d call/points/poly2bez/bpoints2bezier/bez2poly/derivative(n=1..5) of Line, QuadraticBezier, CubicBezier are traced from the running code on opaque ring elements every run and proved equal to the Bernstein form, its monomial coefficients and their formal derivatives over every field of characteristic 0; the formal derivative is proved to be the analytic n-th derivative (iteratedDeriv) over R and C, incl. real parameter with complex control points, and to vanish for all n above the degree. Coincident control-point configurations are traced as separate cases. A float sampler with mutate-then-query sequences covers rounding and object state.',
   note='Trusted: Lean kernel + {propext, Classical.choice, Quot.sound}; translator (self-checked); numpy.poly1d object-array algebra; exact-arithmetic reading (IEEE rounding only sampled). derivative(t,n) for n>5 is covered by the all-n theorem on the formal derivative plus the sampler, not by a trace.',
   ref='7 C03'),
 'C05': dict(
   technique='Lean 4 proof: induction over the segment-length list on a hand model of T2t/t2T/Path.point search/_calc_lengths/continuous_subpaths, tied by exact Fraction correspondence with stub segments',
   text='Proof. Over any linearly ordered field: for non-negative fractions summing to 1 and 0<T<1, T2t returns the unique segment whose half-open cumulative interval contains T, that segment has positive length (zero-length non-leading segments are never selected), 0<t<=1, t2T maps (k,t) back to T exactly, Path.point evaluates exactly the (k,t) of T2t, the shortcuts at 0 and 1 are the first/last segment; BugException is unreachable. Law-free (decidable equality only): iscontinuous is the chain of end=start coincidences, continuous_subpaths concatenates back to the path and every piece is continuous. The model is run against the real Path methods on exact Fractions (stub segments) and real Lines every run; a float sampler covers rounding, all segment kinds and item-assignment histories.',
   note='Trusted: Lean kernel + standard axioms; the correspondence runner; segment lengths are inputs (C06). Not proved: float rounding of the partial sums (T within an ulp of 1 can fall through); maximality of the subpaths is checked by correspondence and sampling, the Lean theorem covers concatenation and continuity of the pieces.',
   ref='7 C05'),
 'C07': dict(
   technique='Lean 4 proof: the bisection of inv_arclength modelled over an arbitrary finite grid with uninterpreted midpoint (totality by a strictly decreasing interior count), exact-arithmetic lemmas for the range check/shortcuts/Line branch; model tied by exact Fraction correspondence and a bit-exact IEEE run of the stall regime',
   text='Proof. bisect_total: on ANY finite linear order of parameter values (in particular the doubles), for ANY length function, target and tolerance, if the midpoint stays inside its interval the repaired loop returns by the tolerance or the stall exit and never reaches the raise after maxits (budget > number of grid points between the ends); bisect_ret_close: a tolerance exit has |s(t)-s| < s_tol; bisect_range: the result lies between the ends; the pre-repair loop is refuted (for every n it runs to maxits on a two-point grid). Over any ordered field: s outside [0,L] gives ValueError, ilength(0)=0, ilength(L)=1, on Lines t=s/L is in [0,1], inverts the length exactly and is monotone. The model (segment, Line and Path branches incl. boundary values) is executed against the real inv_arclength on exact Fraction stubs, and the Float instance of the same definition is compared bit-for-bit with the real loop in the regime where the interval shrinks to adjacent doubles.',
   note='Trusted: kernel + standard axioms; correspondence runner; curve.length is an input (C06). Not proved: that IEEE halving needs < maxits iterations (exercised bit-exactly, ~1100 steps); monotonicity and the inverse relation for curves rest on a monotone length function and are sampled on real curves at scales 1e-3..1e6.',
   ref='7 C07'),
 'C08': dict(
   technique='Lean 4 proof: extreme-value + Fermat argument over R on a hand model of bezier_real_minmax whose arithmetic is bridged to definitions traced from bezier.py; list lemmas for Python min/max and Path.bbox; exact rational correspondence with math.sqrt replaced by an exact root',
   text='Proof. For a cubic coordinate with non-vanishing cubic term (the route CubicBezier.bbox takes): the traced denom/delta/tau/r1/r2 are the model\'s (bridges); denom*a\'(t) = -3((denom t - tau)^2 - delta) (ring), hence every interior critical point equals r1 or r2 when delta >= 0 and there is none when delta < 0; by compactness of [0,1] and Fermat, every value a(t), 0<=t<=1, lies between the min and max over the candidates the code evaluates (containment) and both bounds are values at parameters in [0,1] (each side of the box is touched). Path.bbox is proved to be the union of the segment boxes with every side attained by a segment. When the cubic term vanishes the coefficients handed to the root finder are proved to be the derivative\'s. The model is run against the real bezier_real_minmax on exact rationals (two real / complex / out-of-range critical points, degenerate cubics) and Path.bbox; a sampler checks containment (1e-9) and tightness (1e-5) for all four kinds incl. degree-elevated cubics and arcs with nearly full turns.',
   note='Trusted: kernel + standard axioms; translator; math.sqrt. Conditional/sampled only: np.roots route (quadratics, degenerate cubic coordinates) and Arc.bbox; float rounding.',
   ref='7 C08'),
 'C09': dict(
   technique='Lean 4 proof: ring/field identities on reversed/split/cropped traced from path.py (regenerated each run); hand model of Path.cropped index logic tied by exact Fraction correspondence, defect witnesses by kernel evaluation',
   text='Proof. For Line/Quadratic/Cubic: reversed().point(u)=point(1-u) and reversed control points; split(t) pieces are the restrictions to [0,t],[t,1] and meet at point(t); cropped(0,t1), cropped(t0,1) and interior cropped(t0,t1) are point(t0+u(t1-t0)) (field identity, 1-t0 != 0), all as polynomial identities over any field of characteristic 0 on definitions regenerated from the running code. Path.reversed: order/involution/length lemmas. Path.cropped: hand model (T2t lookups, isclose snaps, three assembly branches, wrap-around) executed against the real method on stub segments with exact Fraction lengths (incl. equal segments, joints, T within 1e-10 of joints); the pre-repair behaviour for T1=0 is refuted by a kernel-checked witness. Sampler on real segments/paths of all four kinds incl. arcs.',
   note='Trusted: kernel + standard axioms; translator; correspondence runner. Not yet a theorem: the general statement that the pieces of Path.cropped cover exactly length(T0,T1) (checked by correspondence + sampler; witness theorems only). Arc.reversed/cropped rest on C04 and the sampler.',
   ref='7 C09'),
 'C10': dict(
   technique='Lean 4 proof: ring/field identities on translate/rotate/scale/transform traced from path.py in ring mode and coordinate mode; law-free list theorem for joint preservation on a hand model tied by exact correspondence',
   text='Proof. For Line/Quadratic/Cubic the traced translated/rotated (explicit and default origin, w = exp(i*rad))/scaled (uniform, default origin; non-uniform coordinate-wise)/transform (every 2x3 affine matrix, invertible or not) are proved to commute with point evaluation as polynomial identities over any field of characteristic 0; for arcs the defining data handed to Arc() is proved to be the image of the old data with flags unchanged. transform_segments_together: for any per-segment transformation, every joint that coincided exactly (cyclically, incl. the closing joint) coincides exactly afterwards (law-free theorem on the model; model run against the real function every run). Sampler: all kinds incl. arcs, negative/small scales, reflection/shear/product/near-identity matrices, closed paths; non-uniform scaled() of an arc must raise.',
   note='Trusted: kernel + standard axioms; translator (numpy.exp/radians replaced by an opaque unit w); correspondence runner. Known finding F8 (transform() on arcs raises TypeError for every matrix) is reported as KNOWN-FINDING, not claimed. That an Arc is determined by its defining data is C04.',
   ref='7 C10'),
 'C13': dict(
   technique='Lean 4 proof: convex-quadratic identities for Line.radialrange, extreme-value argument for the Bezier case on polynomials traced from path.py, list lemmas for first-min/first-max selection and the Path reduction; selection and reduction tied by exact correspondence',
   text='Proof. Line.radialrange: with q(t) the squared distance, q(t) = q(t*) + |p1-p0|^2 (t-t*)^2 and q(t) = (1-t)q(0) + t q(1) - t(1-t)|p1-p0|^2 (t* = the traced projection parameter), hence for every non-degenerate line and every z the returned ((dmin,tmin),(dmax,tmax)) has both parameters in [0,1], d = |point(t)-z|, and bounds the distance of every point of the segment (all four return shapes). Quadratic/Cubic: the polynomial the code hands to the root finder is proved to be d/dt|B(t)-z|^2 (bridge on traced coefficients); given the root oracle contract the candidates [0,1]+roots contain a global minimiser and maximiser (compactness + Fermat), and the selection returns a minimum/maximum over the candidates with the parameter it was evaluated at. Path.radialrange: the reported minimum is below every segment minimum and carries the index of the segment it came from. Selection and reduction are run against the real functions on exact rationals; a sampler checks global optimality against 4001-point dense evaluation for query points far/near/on the curve/beyond an end/near a centre of curvature, incl. tiny curves.',
   note='Trusted: kernel + standard axioms; translator; np.roots oracle (contract stated in the theorem); abs/sqrt monotone. Not proved: the dual statement for the Path maximum (modelled and compared, incl. the all-zero case).',
   ref='7 C13'),
 'C14': dict(
   technique='Lean 4 proof: ring identities on Path.area() traced through numpy.poly1d (poly, real/imag, deriv, *, integ) for five closed shapes, incl. reversal/translation/affine-determinant laws; decision-logic theorems for path_encloses_pt / is_contained_by on a hand model tied by correspondence',
   text='Proof. For the traced closed paths triangle, quadrilateral, cubic+line, quadratic+line and cubic+cubic (coordinate-wise symbolic control points): polygons equal the shoelace value; cubic+line equals the closed-form Green value; area(reversed) = -area, area(translated) = area and area(transform(M)) = det(M) * area for every 2x3 affine matrix - all as polynomial identities over any field of characteristic 0; orientation pinned by kernel-evaluated unit squares (+1 counter-clockwise, -1 clockwise). path_encloses_pt is the parity of the reported crossings, is_contained_by is exactly (not crossing) and (start in bbox) and (odd probe crossings); the model is run against the real functions over the full truth table. Sampler: exact rational shoelace for random polygons (incl. self-intersecting), dense-polygon reference for Bezier paths (incl. horizontal chords), circles/ellipses from arcs, reversal/translation/random affine maps, exact even-odd test with the probe in general position, containment on nested/disjoint/crossing squares and a bow-tie.',
   note='Trusted: kernel + standard axioms; translator; numpy.poly1d object algebra. Partial: identities are per traced shape (general n-segment paths sampled); the Green integral is not stated with Mathlib integrals; general orientation (Jordan) not attempted; arc chord approximation sampled; enclosure geometry rests on Path.intersect (C11/C12).',
   ref='7 C14'),
 'C15': dict(
   technique='Lean 4 proof: identities over R on unit_tangent / normal / curvature traced from path.py for Line, QuadraticBezier, CubicBezier (numpy sqrt/abs as Real.sqrt/|.|); sampler for arcs, transformation laws and vanishing derivatives',
   text='Proof (regular points). For each Bezier kind the traced unit_tangent(t) is derivative(t)/|derivative(t)| componentwise and has modulus 1 whenever the derivative does not vanish; normal(t) is the tangent rotated by -90 degrees; curvature(t) is |x\'y\'\' - y\'x\'\'| / |(x\',y\')|^3 in the traced first and second derivatives (which C03 proves to be the derivatives of point). Sampler: all four kinds incl. circular arcs (1/r, finite differences of point), direction of travel by finite differences, rotation/translation/scaling/reversal laws for tangent and curvature, and Bezier segments whose first/last two control points coincide heading into every quadrant.',
   note='Trusted: kernel + standard axioms; translator. Known findings reported as KNOWN-FINDING: F18 (sign of the tangent lost in the left half-plane where the derivative vanishes) and F28 (unit_tangent(1) numerically unstable for float coordinates). Arc formulas and transformation laws are sampled, not proved.',
   ref='7 C15'),
 'C16': dict(
   technique='Lean 4 proof: refinement of the mutable Path (state machine with caches) to the cache-free specification by a representation invariant and induction over the operation history; accuracy-contract theorem for the cubic length cache; models tied by operation-sequence correspondence',
   text='Proof (law-free, so valid verbatim for floats). Model: segment list + _length/_lengths/_length_params/_start/_end caches; mutators __setitem__ (index, slice), __delitem__, insert, and append/extend/pop/reverse derived as collections.abc derives them, start/end setters; queries length (any accuracy), T2t, point, start, end. Theorem history_refines_fresh: from a freshly constructed path, after ANY history of admissible mutations interleaved with queries, every query returns exactly what a newly constructed Path of the current segments returns (invariant + induction over the op list). cubic_cache_accuracy: for any monotone accuracy contract every value returned by CubicBezier.length meets the request for the current control points. Pre-repair setters and hit rule are refuted by kernel-checked witnesses. The models are executed against the real classes on every run (random histories to depth 60 with negative/out-of-range indices and raising ops, exhaustive depth 2/3 over a 17-op alphabet, identity-integrator cache runs); a float sampler compares every public query incl. bbox/d/== with a fresh Path after each operation, with scipy on and off.',
   note='Trusted: kernel + standard axioms; correspondence runner. Not modelled: aliasing of one segment object in two places; operations that raise are compared (partial effect) but outside the theorem. Known finding F12 (Path __eq__/__hash__ disagree on _closed) is reported as KNOWN-FINDING.',
   ref='7 C16'),
 'C19': dict(
   technique='Lean 4 proof: per-degree ring identities on definitions regenerated from bezier.py by a tracing translator; list-induction theorems on a hand model of the polyroots filter tied by exact (rational) correspondence',
   text='Proof. For degrees 0..8 the traced bezier_point / bezier2polynomial / polynomial2bezier / split_bezier / halve_bezier are proved equal to the Bernstein form over every field of characteristic 0 (369 theorems, regenerated definitions, `ring`). The root filter after np.roots is proved to keep every isolated candidate exactly once and to return a pairwise non-close sublist, for all lists and all closeness relations; the model is executed against the real polyroots01/rational_limit on exact rationals every run. A float sampler on the real code backs the clauses proof cannot reach (rounding, np.roots).',
   note='Trusted: Lean kernel + {propext, Classical.choice, Quot.sound}; the translator (self-checked by kernel-independent re-evaluation and a second shadow draw); np.roots as an oracle; exact-arithmetic reading of the identities (IEEE rounding not modelled); rational_limit tied by correspondence only (analytic limit statement not yet proved).',
   ref='7 C19'),
}

REASON_TODO = 'not claimed yet: machinery for this property is still being built (see DESIGN.md section 9, build order); no check is registered rather than registering an unsound one'

def main():
    checks = []
    for pid, c in sorted(CLAIMED.items()):
        checks.append({
            'property_id': pid,
            'quick_cmd': './check %s --tier quick' % pid,
            'thorough_cmd': './check %s --tier thorough' % pid,
            'evidence_file': 'evidence/%s.json' % pid,
            'replay_cmd_template': './check %s --replay {path}' % pid,
            'engine': 'lean-proofs',
            'level_claimed': {'category': 'proof', 'text': c['text'], 'design_ref': 'DESIGN.md section ' + c['ref']},
            'level_note': c['note'],
            'technique': c['technique'],
        })
    man = {
        'version': 1,
        'setup_cmd': './setup.sh',
        'hooks': {
            'guard': 'SVGPATHTOOLS_VERIF',
            'enable': 'no hook is needed: the harness substitutes scalar types, stub segments and module-level numeric functions from outside the package (Python); the guard name is reserved and unused',
            'baseline_off_cmd': 'cd /repo && /venv/bin/python -m pytest -ra -q -p no:cacheprovider --timeout=900 --continue-on-collection-errors',
            'source_commits': [],
            'add_only': True,
        },
        'engines': [
            {'name': 'lean-proofs', 'path': 'lean/', 'serves_properties': sorted(CLAIMED), 'kind_free_text': 'Lean 4.33 + Mathlib library SvgVerif: Spec/Model/Gen/Props; lake build + per-theorem axiom audit'},
            {'name': 'translator', 'path': 'harness/symtrace.py', 'serves_properties': sorted(CLAIMED), 'kind_free_text': 'concolic tracer: runs the real svgpathtools code on symbolic scalars and prints Lean definitions (regenerated every run)'},
            {'name': 'correspondence', 'path': 'harness/props/', 'serves_properties': sorted(CLAIMED), 'kind_free_text': 'runs Lean model (Driver.lean, line protocol) and real code on the same exact inputs and diffs'},
            {'name': 'search', 'path': 'harness/props/', 'serves_properties': sorted(CLAIMED), 'kind_free_text': 'failing-input search / standing float sampler on the real code with the statement\'s tolerances'},
        ],
        'checks': checks,
        'not_applicable': [{'property_id': p, 'reason': REASON_TODO} for p in ALL if p not in CLAIMED],
        'notes': 'All checks: ./check <id> --tier quick|thorough. Exit 0 ok, 1 VIOLATION, 2 infrastructure error. Seeds via VERIF_SEED.',
    }
    with open(os.path.join(V, 'MANIFEST.json'), 'w') as f:
        json.dump(man, f, indent=1)
        f.write('\n')

if __name__ == '__main__':
    main()
