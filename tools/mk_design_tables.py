#!/usr/bin/env python3
"""Regenerates the two machine-derived tables of DESIGN.md (between the BEGIN/END markers):
 * section 8b: disposition of every genuine defect, from known_findings.json
 * section 11: seeded changes and the checks that catch them, from seeded/*/meta.json"""
import json, os, re, glob
V = os.path.dirname(os.path.dirname(os.path.abspath(__file__)))

def esc(s):
    return (s or '').replace('|', '\\|').replace('\n', ' ')

def table_findings():
    k = json.load(open(os.path.join(V, 'known_findings.json')))
    out = ['| property | id | disposition | what fails |', '|---|---|---|---|']
    for f in k['findings']:
        out.append('| %s | %s | KNOWN-FINDING (signature `%s`) | %s |' % (f['property'], f['id'], esc(f['signature']), esc(f['text'])[:420]))
    for line in k['fixed']:
        m = re.match(r'fixed: property=(\S+) (\S+) (.*)', line)
        out.append('| %s | – | fixed in /repo by `%s` | %s |' % (m.group(1), m.group(2), esc(m.group(3))[:420]))
    return '\n'.join(out)

def table_seeds():
    out = ['| seed | breaks | what the change does | needs | caught by (quick tier) | how it shows |', '|---|---|---|---|---|---|']
    for d in sorted(glob.glob(os.path.join(V, 'seeded', '*'))):
        try:
            m = json.load(open(os.path.join(d, 'meta.json')))
        except Exception:
            continue
        how = []
        for pid, r in (m.get('check_results') or {}).items():
            v = [l for l in r.get('output', []) if l.startswith('VIOLATION')]
            s = [l for l in r.get('output', []) if l.startswith(pid)]
            how.append('%s: %s' % (pid, ('failing input' if v and 'no-failing-input-found' not in v[0] else 'broken obligation, no input found') if v else 'not caught')
                       + ((' (' + re.sub(r'^.*?obligations', 'obligations', s[0]) + ')') if s else ''))
        out.append('| %s | %s | %s | %s | %s | %s |' % (m['id'], m.get('breaks_property'), esc(m.get('summary'))[:300], esc(m.get('needs'))[:260],
                                                   ', '.join(m.get('detected_by') or []) or 'NOT CAUGHT', esc('; '.join(how))[:300]))
    return '\n'.join(out)

def main():
    p = os.path.join(V, 'DESIGN.md')
    s = open(p).read()
    for name, txt in (('FINDINGS', table_findings()), ('SEEDS', table_seeds())):
        b, e = '<!-- BEGIN %s -->' % name, '<!-- END %s -->' % name
        i, j = s.index(b), s.index(e)
        s = s[:i + len(b)] + '\n' + txt + '\n' + s[j:]
    open(p, 'w').write(s)

if __name__ == '__main__':
    main()
