"""One-off writer for lean/SvgVerif/Props/C19Identities.lean (the per-degree
statements are mechanical; the file it writes is committed and NOT regenerated
by the checks)."""
N = 8
out = []
w = out.append
w('''import SvgVerif.Gen.C19
import SvgVerif.Spec.Bernstein
import Mathlib.Tactic.Ring
import Mathlib.Tactic.FieldSimp
import Mathlib.Algebra.CharZero.Defs
import Mathlib.Data.Nat.Choose.Basic
/-! # C19, polynomial identities, per degree 0..8

Bridge theorems between the definitions GENERATED from `svgpathtools/bezier.py`
(`SvgVerif.Gen.C19`) and the textbook Bernstein form (`SvgVerif.Spec`).  They hold
for every field of characteristic zero (so for ℚ, ℝ, ℂ) and all values of the
control points and parameters.  A semantic change to `bezier_point`,
`bezier2polynomial`, `polynomial2bezier`, `split_bezier` or `halve_bezier`
regenerates a different `Gen.C19` and the corresponding `ring` call fails. -/
namespace SvgVerif.Props.C19
open SvgVerif SvgVerif.Spec

set_option linter.unusedSectionVars false
set_option linter.unusedSimpArgs false
set_option linter.unusedVariables false
set_option linter.unusedTactic false
set_option linter.unreachableTactic false
set_option linter.unnecessarySeqFocus false

variable {K : Type} [Field K] [CharZero K]

/-- closes goals `[a₀,…] = [b₀,…]` componentwise by `ring` -/
macro "list_ring" : tactic =>
  `(tactic| (first | rfl | (simp only [List.cons.injEq, and_true] <;> (repeat' constructor) <;> ring)))

''')
for n in range(N + 1):
    ps = ['p%d' % i for i in range(n + 1)]
    P = ' '.join(ps)
    Pl = '[' + ', '.join(ps) + ']'
    unf_bern = 'bernstein, bernsteinAux, polyEval, Nat.choose'
    w('/-! ## degree %d -/\n' % n)
    w('theorem bezierPoint_%d (%s t : K) :\n    Gen.C19.bezier_point_%d %s t = bernstein %s t := by\n'
      '  simp [Gen.C19.bezier_point_%d, %s] <;> ring\n\n' % (n, P, n, P, Pl, n, unf_bern))
    w('theorem bezierPoint_%d_zero (%s : K) : Gen.C19.bezier_point_%d %s 0 = p0 := by\n  simp [Gen.C19.bezier_point_%d]\n\n' % (n, P, n, P, n))
    w('theorem bezierPoint_%d_one (%s : K) : Gen.C19.bezier_point_%d %s 1 = p%d := by\n  simp [Gen.C19.bezier_point_%d]%s\n\n' % (n, P, n, P, n, n, ' <;> ring'))
    npl = '[' + ', '.join('Gen.C19.b2p_%d_np_%d %s' % (n, j, P) for j in range(n + 1)) + ']'
    stdl = '[' + ', '.join('Gen.C19.b2p_%d_std_%d %s' % (n, j, P) for j in range(n + 1)) + ']'
    nprev = '[' + ', '.join('Gen.C19.b2p_%d_np_%d %s' % (n, n - j, P) for j in range(n + 1)) + ']'
    unf_np = ', '.join('Gen.C19.b2p_%d_np_%d' % (n, j) for j in range(n + 1))
    unf_std = ', '.join('Gen.C19.b2p_%d_std_%d' % (n, j) for j in range(n + 1))
    w('theorem b2pNp_%d (%s t : K) :\n    polyEval %s t = bernstein %s t := by\n'
      '  simp [%s, %s] <;> ring\n\n' % (n, P, npl, Pl, unf_np, unf_bern))
    w('theorem b2pStd_%d (%s : K) :\n    %s = %s := by\n  simp only [%s, %s] <;> list_ring\n\n' % (n, P, stdl, nprev, unf_np, unf_std))
    if n >= 1:
        Ll = '[' + ', '.join('Gen.C19.split_%d_L_%d %s t' % (n, j, P) for j in range(n + 1)) + ']'
        Rl = '[' + ', '.join('Gen.C19.split_%d_R_%d %s t' % (n, j, P) for j in range(n + 1)) + ']'
        unfL = ', '.join('Gen.C19.split_%d_L_%d' % (n, j) for j in range(n + 1))
        unfR = ', '.join('Gen.C19.split_%d_R_%d' % (n, j) for j in range(n + 1))
        w('theorem splitL_%d (%s t u : K) :\n    bernstein %s u = bernstein %s (u * t) := by\n'
          '  simp [%s, %s] <;> ring\n\n' % (n, P, Ll, Pl, unfL, unf_bern))
        w('theorem splitR_%d (%s t u : K) :\n    bernstein %s u = bernstein %s (t + u * (1 - t)) := by\n'
          '  simp [%s, %s] <;> ring\n\n' % (n, P, Rl, Pl, unfR, unf_bern))
        hL = '[' + ', '.join('Gen.C19.halve_%d_L_%d %s' % (n, j, P) for j in range(n + 1)) + ']'
        hR = '[' + ', '.join('Gen.C19.halve_%d_R_%d %s' % (n, j, P) for j in range(n + 1)) + ']'
        sL = '[' + ', '.join('Gen.C19.split_%d_L_%d %s (1/2)' % (n, j, P) for j in range(n + 1)) + ']'
        sR = '[' + ', '.join('Gen.C19.split_%d_R_%d %s (1/2)' % (n, j, P) for j in range(n + 1)) + ']'
        unfh = ', '.join('Gen.C19.halve_%d_L_%d, Gen.C19.halve_%d_R_%d' % (n, j, n, j) for j in range(n + 1))
        w('theorem halveIsSplit_%d (%s : K) :\n    %s = %s ∧\n    %s = %s := by\n'
          '  simp only [%s, %s, %s] <;> constructor <;> list_ring\n\n' % (n, P, hL, sL, hR, sR, unfh, unfL, unfR))
    if 1 <= n <= 3:
        cs = ['c%d' % i for i in range(n + 1)]
        C = ' '.join(cs)
        Cl = '[' + ', '.join(cs) + ']'
        p2bl = '[' + ', '.join('Gen.C19.p2b_%d_%d %s' % (n, j, C) for j in range(n + 1)) + ']'
        unfp = ', '.join('Gen.C19.p2b_%d_%d' % (n, j) for j in range(n + 1))
        w('theorem p2bCurve_%d (%s t : K) :\n    bernstein %s t = polyEval %s t := by\n'
          '  simp [%s, %s] <;> ring\n\n' % (n, C, p2bl, Cl, unfp, unf_bern))
        # p2b (b2p P) = P
        args = ' '.join('(Gen.C19.b2p_%d_np_%d %s)' % (n, j, P) for j in range(n + 1))
        l1 = '[' + ', '.join('Gen.C19.p2b_%d_%d %s' % (n, j, args) for j in range(n + 1)) + ']'
        w('theorem p2bB2p_%d (%s : K) :\n    %s = %s := by\n  simp only [%s, %s] <;> list_ring\n\n' % (n, P, l1, Pl, unfp, unf_np))
        args2 = ' '.join('(Gen.C19.p2b_%d_%d %s)' % (n, j, C) for j in range(n + 1))
        l2 = '[' + ', '.join('Gen.C19.b2p_%d_np_%d %s' % (n, j, args2) for j in range(n + 1)) + ']'
        w('theorem b2pP2b_%d (%s : K) :\n    %s = %s := by\n  simp only [%s, %s] <;> list_ring\n\n' % (n, C, l2, Cl, unfp, unf_np))
w('end SvgVerif.Props.C19\n')
open('/verif/lean/SvgVerif/Props/C19Identities.lean', 'w').write(''.join(out))
