#!/bin/bash
# usage: tools/try_patch.sh <patch.diff> <property id> [tier]   (applies to /repo, runs the check, always undoes)
set -u
patch="$1"; pid="$2"; tier="${3:-quick}"
cd /repo || exit 3
if ! git diff --quiet; then echo "repo dirty"; exit 3; fi
if ! git apply "$patch" 2>/dev/null; then
  if ! patch -p1 --no-backup-if-mismatch -s < "$patch"; then echo "PATCH DOES NOT APPLY"; git checkout -- .; exit 3; fi
fi
cd /verif && ./check "$pid" --tier "$tier"; rc=$?
cd /repo && git checkout -- . && git clean -fdq svgpathtools
cd /verif && git checkout -- lean/SvgVerif/Gen 2>/dev/null
echo "exit=$rc"
