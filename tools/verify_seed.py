#!/usr/bin/env python3
"""tools/verify_seed.py <seed id> <source dir with patch.diff demo.py meta.json> <property id> [more property ids]

Confirms a candidate seeded change in a scratch worktree of /repo (outside /repo and /verif):
  * the patch applies to the current HEAD, the package imports,
  * the baseline test suite gives exactly the baseline result (91 passed + the one known failure),
  * the demonstration fails with the change and passes without it,
then runs the registered checks against it on /repo itself (apply, check, undo) and stores
/verif/seeded/<id>/{patch.diff, demo.py, meta.json}.  The scratch worktree is removed."""
import json, os, re, shutil, subprocess, sys, tempfile

def sh(cmd, cwd=None, env=None, timeout=1800):
    p = subprocess.run(cmd, shell=True, cwd=cwd, env=env, stdout=subprocess.PIPE, stderr=subprocess.STDOUT, text=True, timeout=timeout)
    return p.returncode, p.stdout

def main():
    sid, src, pids = sys.argv[1], sys.argv[2], sys.argv[3:]
    wt = tempfile.mkdtemp(prefix='seedwt_', dir='/tmp')
    os.rmdir(wt)
    out = {'id': sid, 'properties': pids}
    try:
        rc, o = sh('git -C /repo worktree add -q --detach %s HEAD' % wt)
        assert rc == 0, o
        env = dict(os.environ, PYTHONPATH=wt)
        rc, o = sh('git apply %s/patch.diff' % src, cwd=wt)
        if rc != 0:
            rc, o = sh('patch -p1 --no-backup-if-mismatch < %s/patch.diff' % src, cwd=wt)
        if rc != 0:
            out['status'] = 'patch does not apply to current HEAD'; print(json.dumps(out)); return 1
        rc, diff = sh('git diff', cwd=wt)
        rc, o = sh('/venv/bin/python -c "import svgpathtools,sys; print(svgpathtools.__file__)"', cwd=wt, env=env)
        assert wt in o, o
        # the suite contains randomised tests (test_path.py seeds `random` from the clock): a run that fails anything
        # besides the one known failure is repeated, and the change is accepted when one of three runs is clean
        for attempt in range(3):
            rc, o = sh('/venv/bin/python -m pytest -q -p no:cacheprovider --timeout=900 test 2>&1 | tail -6', cwd=wt, env=env)
            summ = o.strip().split('\n')[-1]
            failed = re.findall(r'FAILED (\S+)', o)
            ok_tests = ('91 passed' in summ and '1 failed' in summ and any('test_group_transform' in f for f in failed))
            out.setdefault('test_runs', []).append({'summary': summ, 'failed': failed})
            if ok_tests:
                break
        out['tests_with_change'] = summ
        rc_mod, o_mod = sh('/venv/bin/python %s/demo.py' % src, cwd='/tmp', env=env, timeout=300)
        sh('git checkout -- .', cwd=wt)
        rc_pri, o_pri = sh('/venv/bin/python %s/demo.py' % src, cwd='/tmp', env=env, timeout=300)
        out['demo_with_change'] = {'exit': rc_mod, 'tail': o_mod.strip()[-300:]}
        out['demo_without_change'] = {'exit': rc_pri, 'tail': o_pri.strip()[-200:]}
        ok = ok_tests and rc_mod != 0 and rc_pri == 0
        out['confirmed'] = ok
        if not ok:
            out['status'] = 'NOT CONFIRMED'; print(json.dumps(out, indent=1)); return 1
    finally:
        sh('git -C /repo worktree remove --force %s' % wt)
        shutil.rmtree(wt, ignore_errors=True)
    # run the checks on /repo itself
    dst = '/verif/seeded/%s' % sid
    os.makedirs(dst, exist_ok=True)
    with open(dst + '/patch.diff', 'w') as f:
        f.write(diff)
    shutil.copy(src + '/demo.py', dst + '/demo.py')
    results = {}
    for pid in pids:
        rc, o = sh('/verif/tools/try_patch.sh %s/patch.diff %s' % (dst, pid), timeout=3600)
        lines = [l for l in o.strip().split('\n') if l.startswith(('VIOLATION', 'KNOWN', 'exit=', pid, 'INFRA'))]
        results[pid] = {'exit': int(re.search(r'exit=(\d+)', o).group(1)) if re.search(r'exit=(\d+)', o) else None, 'output': lines[-4:]}
    meta = {}
    try:
        meta = json.load(open(src + '/meta.json'))
    except Exception:
        pass
    out.update({'breaks_property': meta.get('property', pids[0]), 'summary': meta.get('summary'), 'needs': meta.get('needs'),
                'what_was_run': ['scratch worktree of /repo HEAD: git apply patch.diff; PYTHONPATH=<wt> /venv/bin/python -m pytest -q test',
                                 'PYTHONPATH=<wt> /venv/bin/python demo.py with and without the change',
                                 'git -C /repo apply patch.diff; ./check <pid> --tier quick; git -C /repo checkout -- .'],
                'check_results': results,
                'detected_by': [p for p, r in results.items() if r['exit'] == 1]})
    with open(dst + '/meta.json', 'w') as f:
        json.dump(out, f, indent=1)
    print(json.dumps({'id': sid, 'confirmed': True, 'detected_by': out['detected_by'], 'results': results}, indent=1))
    return 0

sys.exit(main())
