#!/bin/bash
# lake build under the same lock the checks use:  tools/lb.sh <targets...>
cd /verif/lean && flock /verif/lean/.lake.lock lake build "$@"
