#!/bin/bash
# tools/multiseed.sh <first seed> <last seed> [tier]: every registered check under several VERIF_SEED values on the
# current tree (meant for `vp run --with-repo -- tools/multiseed.sh 1 8`); prints only lines that need attention + a summary
first="${1:-1}"; last="${2:-6}"; tier="${3:-quick}"
cd "$(dirname "$0")/.."
[ -n "$VP_RUN_REPO" ] && export SVGPATHTOOLS_REPO="$VP_RUN_REPO"
[ -d lean/.lake ] || ./setup.sh > /dev/null 2>&1
bad=0; n=0
for sd in $(seq "$first" "$last"); do
  for pid in $(python3 -c "import json; print(' '.join(c['property_id'] for c in json.load(open('MANIFEST.json'))['checks']))"); do
    out=$(VERIF_SEED=$sd ./check $pid --tier $tier 2>&1); rc=$?
    n=$((n+1))
    if [ $rc -ne 0 ]; then bad=$((bad+1)); echo "seed=$sd $pid exit=$rc"; echo "$out" | grep -v "^KNOWN" | tail -3; fi
  done
done
echo "multiseed: $n runs, $bad with non-zero exit"
