#!/usr/bin/env python3
"""validate MANIFEST.json and evidence/*.json against the schemas (run with python3-vt)"""
import json, glob, sys, jsonschema
ok = True
man = json.load(open('/verif/MANIFEST.json'))
jsonschema.validate(man, json.load(open('/root/.vp/MANIFEST.schema.json')))
es = json.load(open('/root/.vp/EVIDENCE.schema.json'))
for c in man['checks']:
    try:
        ev = json.load(open('/verif/' + c['evidence_file']))
        jsonschema.validate(ev, es)
        assert ev['coverage']['obligations'] == ev['coverage']['discharged'], 'undischarged'
    except Exception as e:
        ok = False
        print('EVIDENCE PROBLEM', c['property_id'], str(e)[:300])
ids = {c['property_id'] for c in man['checks']} | {n['property_id'] for n in man.get('not_applicable', [])}
assert ids == {'C%02d' % i for i in range(1, 21)}, ids
print('manifest ok;', len(man['checks']), 'checks;', 'evidence ok' if ok else 'EVIDENCE PROBLEMS')
sys.exit(0 if ok else 1)
