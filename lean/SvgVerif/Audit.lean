import Lean
/-! `#audit_module M` prints, for every theorem declared in module `M`, the axioms
its proof depends on, one line each: `AUDIT <name> : <axioms>`.  Used by
/verif/harness/common.py on every check run. -/
open Lean Elab Command

elab "#audit_module " id:ident : command => do
  let env ← getEnv
  let modName := id.getId
  let some idx := env.getModuleIdx? modName
    | throwError "unknown module {modName}"
  let mut lines : Array String := #[]
  for (n, ci) in env.constants.map₁.toList do
    if env.getModuleIdxFor? n == some idx then
      if let .thmInfo _ := ci then
        let axs ← Lean.collectAxioms n
        let axs := axs.qsort Name.lt
        lines := lines.push s!"AUDIT {n} : {" ".intercalate (axs.toList.map toString)}"
  for l in lines.qsort (· < ·) do
    IO.println l
