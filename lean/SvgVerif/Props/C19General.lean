import SvgVerif.Lemmas.DeCasteljau
import SvgVerif.Model.BezierN
import SvgVerif.Spec.Bernstein
import Mathlib.Data.Nat.Choose.Basic
import Mathlib.Data.Nat.Choose.Cast
import Mathlib.Data.Nat.Cast.Field
import Mathlib.Data.Nat.Factorial.Basic
import Mathlib.Algebra.CharZero.Defs
import Mathlib.Tactic.Ring
import Mathlib.Tactic.FieldSimp
import Mathlib.Tactic.Linarith
import Mathlib.Tactic.NormNum
/-! # C19 — the generic helpers for control-point tuples of ANY degree

`Props/C19Identities.lean` proves the polynomial identities degree by degree (0..8) on
definitions traced from the running code.  This file proves them for **every** degree at once,
on the hand-written model `Model/BezierN.lean` (tied to the code by the exact correspondence
stream "general-degree bezier helpers": the real `n_choose_k`, `bernstein`, `bezier_point`,
`bezier2polynomial`, `split_bezier`, `halve_bezier` run on `Fraction`s):

* `nChooseK_eq_choose`            — `fac(n)//fac(k)//fac(n-k)` is the binomial coefficient;
* `bezierPoint_eq_bernstein`      — `bezier_point` (Horner branches and the Bernstein-sum branch)
                                    is the Bernstein curve; `bezierPoint_zero`, `bezierPoint_one`;
* `bezier2polynomial_eval`        — the coefficient list (closed forms and the forward-difference
                                    branch) evaluates to the Bernstein curve; `bezier2polynomial_std`;
* `splitBezier_curves`            — de Casteljau: the two control-point lists describe the curve
                                    on `[0,t]` and `[t,1]`, have the input's length, keep the end
                                    points and meet at `point(t)`; `splitBezier_nil` (IndexError);
* `halveBezier_curves`            — the same for `halve_bezier` (closed form for cubics).

Method: control values as a sequence `f`, one de Casteljau level `D t`, and the linear functional
`phi f : K[X] → K`, `X^i ↦ f i` (`Lemmas/DeCasteljau.lean`); every identity becomes the binomial
theorem in `K[X]`.  Exact arithmetic over any field (characteristic 0 where the code divides by
factorials); float rounding is sampled. -/
namespace SvgVerif.Props.C19General
set_option linter.unusedVariables false
set_option linter.unusedSimpArgs false
open Finset Polynomial SvgVerif SvgVerif.Model.BezierN SvgVerif.Lemmas.DeCasteljau

variable {K : Type} [Field K]

/-! ## n_choose_k -/
theorem fac_eq (n : ℕ) : fac n = n.factorial := by
  induction n with
  | zero => rfl
  | succ n ih => rw [fac, ih, Nat.factorial_succ]

theorem nChooseK_eq_choose (n k : ℕ) (h : k ≤ n) : nChooseK n k = n.choose k := by
  rw [nChooseK, fac_eq, fac_eq, fac_eq, Nat.div_div_eq_div_mul, Nat.choose_eq_factorial_div_factorial h]

theorem npow_eq (x : K) (n : ℕ) : npow x n = x ^ n := by
  induction n with
  | zero => simp [npow]
  | succ n ih => rw [npow, ih, pow_succ]

/-! ## the specification as a finite sum -/
theorem bernsteinAux_eq (n : ℕ) (ps : List K) (i : ℕ) (t : K) :
    Spec.bernsteinAux n i ps t
      = ∑ j ∈ range ps.length, (n.choose (i + j) : K) * (1 - t) ^ (n - (i + j)) * t ^ (i + j) * ps.getD j 0 := by
  induction ps generalizing i with
  | nil => simp [Spec.bernsteinAux]
  | cons p ps ih =>
    rw [Spec.bernsteinAux, ih, List.length_cons, Finset.sum_range_succ']
    simp only [List.getD_cons_succ, List.getD_cons_zero, add_zero]
    rw [add_comm]
    congr 1
    refine Finset.sum_congr rfl fun j _ => ?_
    rw [show i + 1 + j = i + (j + 1) by ring]

theorem bernstein_eq_bernF (P : List K) (t : K) :
    Spec.bernstein P t = bernF (P.length - 1) (fun i => P.getD i 0) t := by
  cases P with
  | nil => simp [Spec.bernstein, Spec.bernsteinAux, bernF]
  | cons p ps =>
    rw [Spec.bernstein, bernsteinAux_eq, bernF]
    simp only [List.length_cons, Nat.add_sub_cancel, zero_add]

/-! ## bezier_point, Bernstein-sum branch -/
theorem foldl_zip_sum (as bs : List K) (acc : K) (h : as.length = bs.length) :
    (as.zip bs).foldl (fun acc bp => acc + bp.1 * bp.2) acc
      = acc + ∑ i ∈ range as.length, as.getD i 0 * bs.getD i 0 := by
  induction as generalizing bs acc with
  | nil => simp
  | cons a as ih =>
    cases bs with
    | nil => simp at h
    | cons b bs =>
      simp only [List.zip_cons_cons, List.foldl_cons, List.length_cons]
      rw [ih bs _ (by simpa using h), Finset.sum_range_succ']
      simp only [List.getD_cons_succ, List.getD_cons_zero]
      ring

theorem bezierPointSum_eq (P : List K) (t : K) : bezierPointSum P t = Spec.bernstein P t := by
  cases P with
  | nil => simp [bezierPointSum, Spec.bernstein, Spec.bernsteinAux]
  | cons p ps =>
    rw [bezierPointSum, foldl_zip_sum _ _ _ (by simp [bernsteinList]), bernstein_eq_bernF, bernF, zero_add]
    simp only [bernsteinList, List.length_map, List.length_range, List.length_cons, Nat.add_sub_cancel]
    refine Finset.sum_congr rfl fun m hm => ?_
    have hm' : m < ps.length + 1 := Finset.mem_range.mp hm
    rw [List.getD_eq_getElem?_getD, List.getElem?_eq_getElem (by simpa using hm'), Option.getD_some]
    simp only [List.getElem_map, List.getElem_range, npow_eq]
    rw [nChooseK_eq_choose _ _ (by omega)]

theorem bezierPoint_eq_bernstein (P : List K) (t : K) : bezierPoint P t = Spec.bernstein P t := by
  match P with
  | [] => exact bezierPointSum_eq [] t
  | [a] => simp [bezierPoint, Spec.bernstein, Spec.bernsteinAux]
  | [a, b] => simp [bezierPoint, Spec.bernstein, Spec.bernsteinAux]; ring
  | [a, b, c] => simp [bezierPoint, Spec.bernstein, Spec.bernsteinAux]; ring
  | [a, b, c, d] => simp [bezierPoint, Spec.bernstein, Spec.bernsteinAux]; ring
  | a :: b :: c :: d :: e :: rest => exact bezierPointSum_eq _ t

theorem bernF_congr (n : ℕ) (f g : ℕ → K) (t : K) (h : ∀ m, m ≤ n → f m = g m) : bernF n f t = bernF n g t := by
  unfold bernF
  refine Finset.sum_congr rfl fun m hm => ?_
  rw [h m (by have := Finset.mem_range.mp hm; omega)]

theorem bernstein_of_getD (Q : List K) (n : ℕ) (g : ℕ → K) (u : K) (hl : Q.length = n + 1)
    (hg : ∀ j, j ≤ n → Q.getD j 0 = g j) : Spec.bernstein Q u = bernF n g u := by
  rw [bernstein_eq_bernF, hl, Nat.add_sub_cancel]
  exact bernF_congr n _ _ u hg

/-! ## split_bezier -/
theorem dcStep_length (t : K) (pts : List K) : (dcStep t pts).length = pts.length - 1 := by
  induction pts with
  | nil => simp [dcStep]
  | cons a rest ih =>
    cases rest with
    | nil => simp [dcStep]
    | cons b rest => simp only [dcStep, List.length_cons, ih]; simp

theorem dcStep_getD (t : K) (pts : List K) (i : ℕ) (h : i + 1 < pts.length) :
    (dcStep t pts).getD i 0 = (1 - t) * pts.getD i 0 + t * pts.getD (i + 1) 0 := by
  induction pts generalizing i with
  | nil => simp at h
  | cons a rest ih =>
    cases rest with
    | nil => simp at h
    | cons b rest =>
      cases i with
      | zero => simp [dcStep]
      | succ i =>
        simp only [dcStep, List.getD_cons_succ]
        exact ih i (by simpa using h)

theorem iter_length (t : K) (k : ℕ) (pts : List K) : ((dcStep t)^[k] pts).length = pts.length - k := by
  induction k with
  | zero => simp
  | succ k ih => rw [Function.iterate_succ_apply', dcStep_length, ih]; omega

theorem iter_getD (t : K) (k : ℕ) (pts : List K) (i : ℕ) (h : i + k < pts.length) :
    ((dcStep t)^[k] pts).getD i 0 = (D t)^[k] (fun j => pts.getD j 0) i := by
  induction k generalizing i with
  | zero => simp
  | succ k ih =>
    rw [Function.iterate_succ_apply', Function.iterate_succ_apply', dcStep_getD _ _ _ (by rw [iter_length]; omega),
      ih i (by omega), ih (i + 1) (by omega)]
    rfl

theorem getLast_eq_getD (l : List K) (h : l ≠ []) : l.getLast h = l.getD (l.length - 1) 0 := by
  rw [List.getLast_eq_getElem, List.getD_eq_getElem?_getD, List.getElem?_eq_getElem, Option.getD_some]

theorem splitRec_eq (t : K) (m : ℕ) (pts l r : List K) (h : pts.length = m + 1) :
    splitRec t (m + 1) l r pts = some
      (l ++ (List.range (m + 1)).map (fun k => ((dcStep t)^[k] pts).getD 0 0),
       r ++ (List.range (m + 1)).map (fun k => ((dcStep t)^[k] pts).getD (m - k) 0)) := by
  induction m generalizing pts l r with
  | zero =>
    match pts, h with
    | [a], _ => simp [splitRec]
  | succ m ih =>
    match pts, h with
    | a :: b :: rest, h =>
      have hl : (dcStep t (a :: b :: rest)).length = m + 1 := by rw [dcStep_length]; simpa using h
      rw [splitRec, ih _ _ _ hl]
      have hlast : (b :: rest).getLast (List.cons_ne_nil b rest) = (a :: b :: rest).getD (m + 1) 0 := by
        rw [getLast_eq_getD, List.getD_cons_succ]
        congr 1
        simp at h; simp; omega
      rw [hlast, List.range_succ_eq_map (n := m + 1)]
      simp only [List.map_cons, List.map_map, Function.iterate_zero, id_eq, List.append_assoc, List.singleton_append,
        Nat.sub_zero, Function.comp_def, Function.iterate_succ_apply, Nat.succ_sub_succ, List.getD_cons_zero]

/-- the two lists `split_bezier` returns, in terms of the de Casteljau levels -/
theorem splitBezier_eq (P : List K) (t : K) (n : ℕ) (h : P.length = n + 1) :
    splitBezier P t = some
      ((List.range (n + 1)).map (fun k => (D t)^[k] (fun j => P.getD j 0) 0),
       ((List.range (n + 1)).map (fun k => (D t)^[k] (fun j => P.getD j 0) (n - k))).reverse) := by
  rw [splitBezier, h, splitRec_eq t n P [] [] h]
  simp only [List.nil_append]
  congr 2
  · refine List.map_congr_left fun k hk => ?_
    exact iter_getD t k P 0 (by have := List.mem_range.mp hk; omega)
  · congr 1
    refine List.map_congr_left fun k hk => ?_
    exact iter_getD t k P (n - k) (by have := List.mem_range.mp hk; omega)

/-! ## end points -/
theorem bernF_zero (n : ℕ) (f : ℕ → K) : bernF n f 0 = f 0 := by
  rw [bernF, Finset.sum_eq_single 0]
  · simp
  · intro m _ hm; simp [hm]
  · intro h; simp at h

theorem bernF_one (n : ℕ) (f : ℕ → K) : bernF n f 1 = f n := by
  rw [bernF, Finset.sum_eq_single n]
  · simp
  · intro m hm hne
    have : m < n + 1 := Finset.mem_range.mp hm
    have : n - m ≠ 0 := by omega
    simp [this]
  · intro h; simp at h

/-! ## bezier2polynomial -/
theorem polyEval_append_single (xs : List K) (c t : K) :
    Spec.polyEval (xs ++ [c]) t = Spec.polyEval xs t * t + c := by
  induction xs with
  | nil => simp [Spec.polyEval]
  | cons x xs ih =>
    simp only [List.cons_append, Spec.polyEval, ih, List.length_append, List.length_singleton]
    ring

theorem polyEval_reverse (l : List K) (t : K) :
    Spec.polyEval l.reverse t = ∑ j ∈ range l.length, l.getD j 0 * t ^ j := by
  induction l with
  | nil => simp [Spec.polyEval]
  | cons c cs ih =>
    rw [List.reverse_cons, polyEval_append_single, ih, List.length_cons, Finset.sum_range_succ', Finset.sum_mul]
    simp only [List.getD_cons_succ, List.getD_cons_zero, pow_zero, mul_one]
    congr 1
    refine Finset.sum_congr rfl fun j _ => ?_
    ring

theorem foldl_add_range (g : ℕ → K) (n : ℕ) :
    (List.range n).foldl (fun acc i => acc + g i) 0 = ∑ i ∈ range n, g i := by
  induction n with
  | zero => simp
  | succ n ih => rw [List.range_succ, List.foldl_append, ih, Finset.sum_range_succ]; simp

theorem sgn_eq (m : ℕ) : (sgn m : K) = (-1) ^ m := by
  unfold sgn
  rcases Nat.even_or_odd m with h | h
  · rw [if_pos (Nat.even_iff.mp h), h.neg_one_pow]
  · rw [if_neg (by have := Nat.odd_iff.mp h; omega), h.neg_one_pow]

/-- forward difference of order `j` at 0, as `phi` of `(X - 1)^j` -/
theorem diff_eq_phi (f : ℕ → K) (j : ℕ) :
    ∑ i ∈ range (j + 1), (j.choose i : K) * (-1) ^ (j - i) * f i = phi f ((X - 1) ^ j) := by
  have := sum_binom_phi f j X 1 1 (-1)
  simp only [one_pow, mul_one, phi_X_pow, C_1, one_mul, C_neg] at this
  rw [← sub_eq_add_neg] at this
  rw [← this]

section
variable [CharZero K]

theorem b2p_coeff (n j : ℕ) (f : ℕ → K) (hj : j ≤ n) :
    ((fac n / fac (n - j) : ℕ) : K) *
        (List.range (j + 1)).foldl (fun acc i => acc + sgn (i + j) * f i / ((fac i * fac (j - i) : ℕ) : K)) 0
      = (n.choose j : K) * phi f ((X - 1) ^ j) := by
  rw [foldl_add_range, ← diff_eq_phi, Finset.mul_sum, Finset.mul_sum]
  refine Finset.sum_congr rfl fun i hi => ?_
  have hi' : i ≤ j := by have := Finset.mem_range.mp hi; omega
  rw [fac_eq, fac_eq, fac_eq, fac_eq, Nat.cast_div (Nat.factorial_dvd_factorial (Nat.sub_le n j))
    (by exact_mod_cast Nat.factorial_ne_zero _), Nat.cast_choose K hj, Nat.cast_choose K hi', sgn_eq]
  have e : (-1 : K) ^ (i + j) = (-1) ^ (j - i) := by
    rw [show i + j = (j - i) + 2 * i by omega, pow_add, pow_mul]; simp
  rw [e]
  have h1 : ((n - j).factorial : K) ≠ 0 := by exact_mod_cast Nat.factorial_ne_zero _
  have h2 : (j.factorial : K) ≠ 0 := by exact_mod_cast Nat.factorial_ne_zero _
  have h3 : (i.factorial : K) ≠ 0 := by exact_mod_cast Nat.factorial_ne_zero _
  have h4 : ((j - i).factorial : K) ≠ 0 := by exact_mod_cast Nat.factorial_ne_zero _
  push_cast
  field_simp

theorem b2pGeneral_eval (P : List K) (t : K) (hP : P ≠ []) :
    Spec.polyEval (b2pGeneralAsc P 0).reverse t = Spec.bernstein P t := by
  rw [polyEval_reverse, bernstein_eq_bernF]
  obtain ⟨p, ps, rfl⟩ := List.exists_cons_of_ne_nil hP
  simp only [b2pGeneralAsc, List.length_map, List.length_range, List.length_cons, Nat.add_sub_cancel]
  rw [← iter_eq_bernF, iter_eq_phi, pow_zero, one_mul]
  have hL : Lp t = C t * (X - 1) + C 1 * 1 := by rw [Lp]; simp only [C_sub, C_1]; ring
  rw [hL, ← sum_binom_phi]
  refine Finset.sum_congr rfl fun j hj => ?_
  have hj' : j ≤ ps.length := by have := Finset.mem_range.mp hj; omega
  rw [List.getD_eq_getElem?_getD, List.getElem?_eq_getElem (by simpa using Finset.mem_range.mp hj), Option.getD_some]
  simp only [List.getElem_map, List.getElem_range]
  rw [b2p_coeff _ _ (fun i => (p :: ps).getD i 0) hj']
  simp only [one_pow, mul_one]
  ring

end

/-! ## final statements -/

theorem bezierPoint_zero (P : List K) : bezierPoint P 0 = P.getD 0 0 := by
  rw [bezierPoint_eq_bernstein, bernstein_eq_bernF, bernF_zero]

theorem bezierPoint_one (P : List K) : bezierPoint P 1 = P.getD (P.length - 1) 0 := by
  rw [bezierPoint_eq_bernstein, bernstein_eq_bernF, bernF_one]

/-- **`bezier2polynomial`, every degree**: the coefficients (numpy order, highest power first)
evaluate to the Bernstein curve of the control points -/
theorem bezier2polynomial_eval [CharZero K] (P : List K) (t : K) :
    Spec.polyEval (bezier2polynomial P true) t = Spec.bernstein P t := by
  match P with
  | [] => simp [bezier2polynomial, b2pGeneralAsc, Spec.polyEval, Spec.bernstein, Spec.bernsteinAux]
  | [a] => simp [bezier2polynomial, Spec.polyEval, Spec.bernstein, Spec.bernsteinAux]
  | [a, b] => simp [bezier2polynomial, Spec.polyEval, Spec.bernstein, Spec.bernsteinAux]; ring
  | [a, b, c] => simp [bezier2polynomial, Spec.polyEval, Spec.bernstein, Spec.bernsteinAux]; ring
  | [a, b, c, d] => simp [bezier2polynomial, Spec.polyEval, Spec.bernstein, Spec.bernsteinAux]; ring
  | a :: b :: c :: d :: e :: rest =>
    simp only [bezier2polynomial, if_true]
    exact b2pGeneral_eval _ t (by simp)

/-- `numpy_ordering=False` is the same list reversed (ascending powers) -/
theorem bezier2polynomial_std (P : List K) :
    bezier2polynomial P false = (bezier2polynomial P true).reverse := by
  simp [bezier2polynomial]

theorem splitBezier_nil (t : K) : splitBezier ([] : List K) t = none := by
  simp [splitBezier, splitRec]

/-- **`split_bezier`, every degree** (de Casteljau) -/
theorem splitBezier_curves (P : List K) (t : K) (hP : P ≠ []) :
    ∃ L R, splitBezier P t = some (L, R) ∧ L.length = P.length ∧ R.length = P.length ∧
      (∀ u, Spec.bernstein L u = Spec.bernstein P (u * t)) ∧
      (∀ u, Spec.bernstein R u = Spec.bernstein P (t + u * (1 - t))) ∧
      L.getD 0 0 = P.getD 0 0 ∧ R.getD (R.length - 1) 0 = P.getD (P.length - 1) 0 ∧
      L.getD (L.length - 1) 0 = Spec.bernstein P t ∧ R.getD 0 0 = Spec.bernstein P t := by
  obtain ⟨n, hn⟩ : ∃ n, P.length = n + 1 := ⟨P.length - 1, by have := List.length_pos_iff.mpr hP; omega⟩
  refine ⟨_, _, splitBezier_eq P t n hn, by simp [hn], by simp [hn], ?_⟩
  have hL : ∀ u, Spec.bernstein ((List.range (n + 1)).map (fun k => (D t)^[k] (fun j => P.getD j 0) 0)) u
      = Spec.bernstein P (u * t) := by
    intro u
    rw [bernstein_of_getD _ n (fun k => (D t)^[k] (fun j => P.getD j 0) 0) u (by simp), left_piece,
      bernstein_eq_bernF, hn, Nat.add_sub_cancel]
    intro j hj
    rw [List.getD_eq_getElem?_getD, List.getElem?_eq_getElem (by simp; omega), Option.getD_some]
    simp
  have hR : ∀ u, Spec.bernstein ((List.range (n + 1)).map (fun k => (D t)^[k] (fun j => P.getD j 0) (n - k))).reverse u
      = Spec.bernstein P (t + u * (1 - t)) := by
    intro u
    rw [bernstein_of_getD _ n (fun j => (D t)^[n - j] (fun j => P.getD j 0) j) u (by simp), right_piece,
      bernstein_eq_bernF, hn, Nat.add_sub_cancel]
    intro j hj
    rw [List.getD_eq_getElem?_getD, List.getElem?_eq_getElem (by simp; omega), Option.getD_some,
      List.getElem_reverse]
    simp only [List.getElem_map, List.getElem_range, List.length_map, List.length_range, Nat.add_sub_cancel]
    rw [show n - (n - j) = j by omega]
  refine ⟨hL, hR, ?_, ?_, ?_, ?_⟩
  · have := hL 0
    rw [zero_mul, bernstein_eq_bernF, bernF_zero, bernstein_eq_bernF, bernF_zero] at this
    exact this
  · have := hR 1
    rw [one_mul, bernstein_eq_bernF, bernF_one, show t + (1 - t) = 1 by ring, bernstein_eq_bernF, bernF_one] at this
    exact this
  · have := hL 1
    rw [one_mul, bernstein_eq_bernF, bernF_one] at this
    exact this
  · have := hR 0
    rw [zero_mul, add_zero, bernstein_eq_bernF, bernF_zero] at this
    exact this

/-- **`halve_bezier`, every degree** (`half` is the value of `0.5`): the closed form used for
cubics and `split_bezier(p, 0.5)` otherwise describe the curve on the two halves -/
theorem halveBezier_curves [CharZero K] (P : List K) (hP : P ≠ []) :
    ∃ L R, halveBezier P (1 / 2) = some (L, R) ∧
      (∀ u, Spec.bernstein L u = Spec.bernstein P (u * (1 / 2))) ∧
      (∀ u, Spec.bernstein R u = Spec.bernstein P (1 / 2 + u * (1 - 1 / 2))) := by
  by_cases h4 : ∃ a b c d, P = [a, b, c, d]
  · obtain ⟨a, b, c, d, rfl⟩ := h4
    refine ⟨_, _, rfl, ?_, ?_⟩
    · intro u
      simp [Spec.bernstein, Spec.bernsteinAux]
      ring
    · intro u
      simp [Spec.bernstein, Spec.bernsteinAux]
      ring
  · obtain ⟨L, R, h, _, _, hL, hR, _⟩ := splitBezier_curves P (1 / 2) hP
    refine ⟨L, R, ?_, hL, hR⟩
    rw [← h]
    unfold halveBezier
    split
    · exact absurd ⟨_, _, _, _, rfl⟩ h4
    · rfl

/-! ## non-vacuity / pinned values (kernel-evaluated at `Rat`) -/
example : nChooseK 7 3 = 35 := by decide
example : splitBezier ([1, 2, 5, -1, 7] : List Rat) (1 / 4)
    = some ([1, 5/4, 13/8, 125/64, 281/128], [281/128, 187/64, 23/8, 1, 7]) := by decide +kernel
example : bezier2polynomial ([1, 2, 5, -1, 7, 3] : List Rat) true = [-83, 170, -110, 20, 5, 1] := by decide +kernel

end SvgVerif.Props.C19General
