import SvgVerif.Model.ArcBBox
import SvgVerif.Props.C08
import SvgVerif.Lemmas.Extreme
import Mathlib.Analysis.SpecialFunctions.Trigonometric.Arctan
import Mathlib.Analysis.SpecialFunctions.Trigonometric.Deriv
import Mathlib.Tactic.Ring
import Mathlib.Tactic.Linarith
import Mathlib.Tactic.FieldSimp
import Mathlib.Tactic.NormNum
/-! # C08, arcs — `Arc.bbox()` contains the arc and every side of it is touched by the arc

`Model/ArcBBox.lean` mirrors `Arc.bbox` statement by statement (tied to the code by the exact
correspondence stream "Arc.bbox": the real method on exact rationals with stand-ins for
`cos/sin/tan/atan/pi`).  Here the model is instantiated with the real functions and proved correct:

* `crit_form`   — two solutions of `P sin a = Q cos a` differ by an integer multiple of `π`;
* `alpha_x/_y`  — in each of the code's three branches (`cos(phi) == 0`, `sin(phi) == 0`, general)
                  `atan_x` / `atan_y` solve the critical-point equation of the x / y coordinate and lie
                  in `[-π/2, π/2]`;
* `crit_param`  — for `|theta| ≤ 180`, `|delta| ≤ 360`, `delta ≠ 0`, every interior critical parameter
                  is `angle_inv(atan, k)` with `k ∈ range(-4, 5)` (in fact `|k| ≤ 3`): the loop bound of
                  the code is sufficient;
* `arcBbox_contains_tight` — containment and tightness by the extreme value theorem + Fermat
                  (`Lemmas/Extreme.lean`) and Python's `min`/`max` (`pmin_spec`, `pmax_spec`).

The hypotheses `start = point(0)`, `end = point(1)`, `|theta| ≤ 180`, `|delta| ≤ 360` are what C04
establishes for every `Arc` the constructor accepts. -/
namespace SvgVerif.Props.C08Arc
set_option linter.unusedVariables false
set_option linter.unusedSimpArgs false
open SvgVerif SvgVerif.Model.ArcBBox SvgVerif.Model.BBox Set Real

/-- the `math` functions, as real functions -/
noncomputable def realFn : Fn ℝ := ⟨Real.cos, Real.sin, Real.tan, Real.arctan, Real.pi⟩

/-- two solutions of `P sin a = Q cos a` differ by a multiple of `π` -/
theorem crit_form (P Q α a : ℝ) (hPQ : P ≠ 0 ∨ Q ≠ 0) (hα : P * sin α = Q * cos α) (ha : P * sin a = Q * cos a) :
    ∃ k : ℤ, a = α + k * π := by
  have hP : P * sin (a - α) = 0 := by rw [sin_sub]; linear_combination cos α * ha - cos a * hα
  have hQ : Q * sin (a - α) = 0 := by rw [sin_sub]; linear_combination sin α * ha - sin a * hα
  have hs : sin (a - α) = 0 := by
    rcases hPQ with h | h
    · exact (mul_eq_zero.mp hP).resolve_left h
    · exact (mul_eq_zero.mp hQ).resolve_left h
  obtain ⟨n, hn⟩ := Real.sin_eq_zero_iff.mp hs
  exact ⟨n, by linarith⟩

/-- coordinate function of the arc: `c + P cos(angle t) + Q sin(angle t)` -/
noncomputable def coord (c P Q θ δ t : ℝ) : ℝ := c + P * cos ((θ + t * δ) * π / 180) + Q * sin ((θ + t * δ) * π / 180)
noncomputable def dcoord (P Q θ δ t : ℝ) : ℝ :=
  (δ * π / 180) * (-P * sin ((θ + t * δ) * π / 180) + Q * cos ((θ + t * δ) * π / 180))

theorem hasDerivAt_coord (c P Q θ δ t : ℝ) : HasDerivAt (coord c P Q θ δ) (dcoord P Q θ δ t) t := by
  have hang : HasDerivAt (fun t : ℝ => (θ + t * δ) * π / 180) (δ * π / 180) t := by
    have := ((hasDerivAt_id t).mul_const δ).const_add θ |>.mul_const π |>.div_const 180
    simpa using this
  have h := ((hang.cos.const_mul P).fun_add (hang.sin.const_mul Q)).const_add c
  have e : coord c P Q θ δ = fun x => c + (P * cos ((θ + x * δ) * π / 180) + Q * sin ((θ + x * δ) * π / 180)) := by
    funext x; unfold coord; ring
  have e2 : dcoord P Q θ δ t = P * (-sin ((θ + t * δ) * π / 180) * (δ * π / 180)) + Q * (cos ((θ + t * δ) * π / 180) * (δ * π / 180)) := by
    unfold dcoord; ring
  rw [e, e2]
  exact h

/-- every interior critical parameter is `angle_inv(α, k)` for some `k` in `range(-4, 5)` -/
theorem crit_param (P Q α θ δ t : ℝ) (hPQ : P ≠ 0 ∨ Q ≠ 0) (hα : P * sin α = Q * cos α) (hαr : |α| ≤ π / 2)
    (hθ : |θ| ≤ 180) (hδ : |δ| ≤ 360) (hδ0 : δ ≠ 0) (ht : t ∈ Ioo (0 : ℝ) 1) (hcrit : dcoord P Q θ δ t = 0) :
    ∃ k : ℤ, k ∈ ks ∧ t = ((α + π * (k : ℝ)) * (360 / (2 * π)) - θ) / δ := by
  have hπ := Real.pi_pos
  unfold dcoord at hcrit
  have hfac : δ * π / 180 ≠ 0 := by positivity
  have ha : P * sin ((θ + t * δ) * π / 180) = Q * cos ((θ + t * δ) * π / 180) := by
    have := (mul_eq_zero.mp hcrit).resolve_left hfac
    linarith
  obtain ⟨k, hk⟩ := crit_form P Q α _ hPQ hα ha
  refine ⟨k, ?_, ?_⟩
  · -- |k| ≤ 3
    have hb : |θ + t * δ| ≤ 540 := by
      have h1 : |t * δ| ≤ 360 := by
        rw [abs_mul, abs_of_pos ht.1]
        calc t * |δ| ≤ 1 * |δ| := by gcongr; exact ht.2.le
          _ ≤ 360 := by simpa using hδ
      calc |θ + t * δ| ≤ |θ| + |t * δ| := abs_add_le _ _
        _ ≤ 540 := by linarith
    have hk' : (k : ℝ) * π = (θ + t * δ) * π / 180 - α := by linarith
    have habs : |(k : ℝ)| * π ≤ 3 * π + π / 2 := by
      have : |(k : ℝ) * π| = |(k : ℝ)| * π := by rw [abs_mul, abs_of_pos hπ]
      rw [← this, hk']
      calc |(θ + t * δ) * π / 180 - α| ≤ |(θ + t * δ) * π / 180| + |α| := abs_sub _ _
        _ ≤ 540 * π / 180 + π / 2 := by
            gcongr
            rw [abs_div, abs_mul, abs_of_pos hπ]; simp
            gcongr
        _ = 3 * π + π / 2 := by ring
    have hk3 : |(k : ℝ)| < 4 := by
      by_contra hcon
      rw [not_lt] at hcon
      nlinarith
    have : |k| < 4 := by exact_mod_cast hk3
    rw [abs_lt] at this
    simp only [ks, List.mem_cons, List.mem_nil_iff, or_false]
    omega
  · field_simp
    have : (θ + t * δ) * π = (α + k * π) * 180 := by linarith
    linarith

theorem arctan_solves (P Q m : ℝ) (h : P * m = Q) : P * sin (arctan m) = Q * cos (arctan m) := by
  rw [Real.sin_arctan, Real.cos_arctan, ← h]; ring

theorem abs_arctan_le (m : ℝ) : |arctan m| ≤ π / 2 :=
  abs_le.mpr ⟨(Real.neg_pi_div_two_lt_arctan m).le, (Real.arctan_lt_pi_div_two m).le⟩

/-- the angle the code calls `atan_x` solves the critical-point equation of the x coordinate -/
theorem atanXY_cases (a : ArcData ℝ) :
    (cos a.phi = 0 ∧ atanXY realFn a = (π / 2, 0)) ∨
    (cos a.phi ≠ 0 ∧ sin a.phi = 0 ∧ atanXY realFn a = (0, π / 2)) ∨
    (cos a.phi ≠ 0 ∧ sin a.phi ≠ 0 ∧
      atanXY realFn a = (arctan (-(a.ry / a.rx) * tan a.phi), arctan ((a.ry / a.rx) / tan a.phi))) := by
  unfold atanXY
  simp only [realFn]
  by_cases h1 : cos a.phi = 0
  · left; exact ⟨h1, by simp [h1]⟩
  · by_cases h2 : sin a.phi = 0
    · right; left; exact ⟨h1, h2, by simp [h1, h2]⟩
    · right; right; exact ⟨h1, h2, by simp [h1, h2]⟩

theorem alpha_x (a : ArcData ℝ) (hc : a.cosphi = cos a.phi) (hs : a.sinphi = sin a.phi) (hrx : a.rx ≠ 0) :
    (a.rx * a.cosphi) * sin (atanXY realFn a).1 = (-(a.ry * a.sinphi)) * cos (atanXY realFn a).1 ∧
      |(atanXY realFn a).1| ≤ π / 2 := by
  have hπ := Real.pi_pos
  rcases atanXY_cases a with ⟨h1, e⟩ | ⟨h1, h2, e⟩ | ⟨h1, h2, e⟩
  · rw [e]; simp only [Real.sin_pi_div_two, Real.cos_pi_div_two, hc, h1]
    refine ⟨by ring, ?_⟩
    rw [abs_of_pos (by positivity)]
  · rw [e]; simp only [Real.sin_zero, Real.cos_zero, hs, h2]
    refine ⟨by ring, ?_⟩
    rw [abs_zero]; positivity
  · rw [e]
    refine ⟨arctan_solves _ _ _ ?_, abs_arctan_le _⟩
    rw [hc, hs, Real.tan_eq_sin_div_cos]
    field_simp

theorem alpha_y (a : ArcData ℝ) (hc : a.cosphi = cos a.phi) (hs : a.sinphi = sin a.phi) (hrx : a.rx ≠ 0) :
    (a.rx * a.sinphi) * sin (atanXY realFn a).2 = (a.ry * a.cosphi) * cos (atanXY realFn a).2 ∧
      |(atanXY realFn a).2| ≤ π / 2 := by
  have hπ := Real.pi_pos
  rcases atanXY_cases a with ⟨h1, e⟩ | ⟨h1, h2, e⟩ | ⟨h1, h2, e⟩
  · rw [e]; simp only [Real.sin_zero, Real.cos_zero, hc, h1]
    refine ⟨by ring, ?_⟩
    rw [abs_zero]; positivity
  · rw [e]; simp only [Real.sin_pi_div_two, Real.cos_pi_div_two, hs, h2]
    refine ⟨by ring, ?_⟩
    rw [abs_of_pos (by positivity)]
  · rw [e]
    refine ⟨arctan_solves _ _ _ ?_, abs_arctan_le _⟩
    rw [hc, hs, Real.tan_eq_sin_div_cos]
    field_simp

/-- one coordinate: the candidate values bound it on `[0,1]` and the bounds are attained -/
theorem coord_minmax (c P Q θ δ α : ℝ) (hPQ : P ≠ 0 ∨ Q ≠ 0) (hα : P * sin α = Q * cos α) (hαr : |α| ≤ π / 2)
    (hθ : |θ| ≤ 180) (hδ : |δ| ≤ 360) (hδ0 : δ ≠ 0) (params : List ℝ)
    (hparams : params = (ks.map (fun k : ℤ => ((α + π * (k : ℝ)) * (360 / (2 * π)) - θ) / δ)).filter
      (fun t => decide (0 ≤ t) && decide (t ≤ 1)))
    (lo hi : ℝ) (hmin : pmin (([0, 1] ++ params).map (coord c P Q θ δ)) = some lo)
    (hmax : pmax (([0, 1] ++ params).map (coord c P Q θ δ)) = some hi) :
    (∀ t ∈ Icc (0 : ℝ) 1, lo ≤ coord c P Q θ δ t ∧ coord c P Q θ δ t ≤ hi) ∧
    (∃ t ∈ Icc (0 : ℝ) 1, coord c P Q θ δ t = lo) ∧ (∃ t ∈ Icc (0 : ℝ) 1, coord c P Q θ δ t = hi) := by
  set cs := [0, 1] ++ params with hcs
  have h0 : (0 : ℝ) ∈ cs := by simp [hcs]
  have h1 : (1 : ℝ) ∈ cs := by simp [hcs]
  have hin : ∀ x ∈ cs, x ∈ Icc (0 : ℝ) 1 := by
    intro x hx
    simp only [hcs, List.mem_append, List.mem_cons, List.mem_nil_iff, or_false] at hx
    rcases hx with (rfl | rfl) | hx
    · exact ⟨le_refl _, zero_le_one⟩
    · exact ⟨zero_le_one, le_refl _⟩
    · rw [hparams, List.mem_filter] at hx
      simpa using hx.2
  have hcrit : ∀ t ∈ Ioo (0 : ℝ) 1, dcoord P Q θ δ t = 0 → t ∈ cs := by
    intro t ht hz
    obtain ⟨k, hk, e⟩ := crit_param P Q α θ δ t hPQ hα hαr hθ hδ hδ0 ht hz
    rw [hcs, List.mem_append]; right
    rw [hparams, List.mem_filter]
    refine ⟨List.mem_map.mpr ⟨k, hk, e.symm⟩, ?_⟩
    simp [ht.1.le, ht.2.le]
  have hcont : ContinuousOn (coord c P Q θ δ) (Icc 0 1) :=
    fun x _ => (hasDerivAt_coord c P Q θ δ x).continuousAt.continuousWithinAt
  obtain ⟨pm1, pm2⟩ := Props.C08.pmin_spec _ _ hmin
  obtain ⟨px1, px2⟩ := Props.C08.pmax_spec _ _ hmax
  refine ⟨?_, ?_, ?_⟩
  · intro t ht
    obtain ⟨c1, hc1, _, hle⟩ := Lemmas.le_candidate_max (coord c P Q θ δ) (dcoord P Q θ δ) cs
      (fun x _ => hasDerivAt_coord c P Q θ δ x) hcont h0 h1 hcrit t ht
    obtain ⟨c2, hc2, _, hge⟩ := Lemmas.candidate_min_le (coord c P Q θ δ) (dcoord P Q θ δ) cs
      (fun x _ => hasDerivAt_coord c P Q θ δ x) hcont h0 h1 hcrit t ht
    exact ⟨le_trans (pm1 _ (List.mem_map_of_mem hc2)) hge, le_trans hle (px1 _ (List.mem_map_of_mem hc1))⟩
  · obtain ⟨x, hx, hv⟩ := List.mem_map.mp pm2
    exact ⟨x, hin x hx, hv⟩
  · obtain ⟨x, hx, hv⟩ := List.mem_map.mp px2
    exact ⟨x, hin x hx, hv⟩

theorem pointX_eq (a : ArcData ℝ) (t : ℝ) :
    pointX realFn a t = coord a.cx (a.rx * a.cosphi) (-(a.ry * a.sinphi)) a.theta a.delta t := by
  simp only [pointX, angle, realFn, coord]; ring
theorem pointY_eq (a : ArcData ℝ) (t : ℝ) :
    pointY realFn a t = coord a.cy (a.rx * a.sinphi) (a.ry * a.cosphi) a.theta a.delta t := by
  simp only [pointY, angle, realFn, coord]; ring

/-- **C08, Arc.**  For an arc with non-zero radii and sweep, `|theta| ≤ 180`, `|delta| ≤ 360` (C04) and
`start = point(0)`, `end = point(1)` (C04), the box `Arc.bbox()` returns contains every point of the
arc, and each of its four sides is touched by the arc. -/
theorem arcBbox_contains_tight (a : ArcData ℝ) (hc : a.cosphi = cos a.phi) (hs : a.sinphi = sin a.phi)
    (hrx : a.rx ≠ 0) (hry : a.ry ≠ 0) (hθ : |a.theta| ≤ 180) (hδ : |a.delta| ≤ 360) (hδ0 : a.delta ≠ 0)
    (hsx : a.startx = pointX realFn a 0) (hex : a.endx = pointX realFn a 1)
    (hsy : a.starty = pointY realFn a 0) (hey : a.endy = pointY realFn a 1)
    (x0 x1 y0 y1 : ℝ) (h : bbox realFn a = some (x0, x1, y0, y1)) :
    (∀ t ∈ Icc (0 : ℝ) 1, x0 ≤ pointX realFn a t ∧ pointX realFn a t ≤ x1 ∧
        y0 ≤ pointY realFn a t ∧ pointY realFn a t ≤ y1) ∧
    (∃ t ∈ Icc (0 : ℝ) 1, pointX realFn a t = x0) ∧ (∃ t ∈ Icc (0 : ℝ) 1, pointX realFn a t = x1) ∧
    (∃ t ∈ Icc (0 : ℝ) 1, pointY realFn a t = y0) ∧ (∃ t ∈ Icc (0 : ℝ) 1, pointY realFn a t = y1) := by
  have hcs2 : a.cosphi ≠ 0 ∨ a.sinphi ≠ 0 := by
    by_contra hcon
    rw [not_or, not_not, not_not] at hcon
    have := Real.cos_sq_add_sin_sq a.phi
    rw [← hc, ← hs, hcon.1, hcon.2] at this
    norm_num at this
  have hPQx : a.rx * a.cosphi ≠ 0 ∨ -(a.ry * a.sinphi) ≠ 0 := by
    rcases hcs2 with h' | h'
    · left; exact mul_ne_zero hrx h'
    · right; exact neg_ne_zero.mpr (mul_ne_zero hry h')
  have hPQy : a.rx * a.sinphi ≠ 0 ∨ a.ry * a.cosphi ≠ 0 := by
    rcases hcs2 with h' | h'
    · right; exact mul_ne_zero hry h'
    · left; exact mul_ne_zero hrx h'
  obtain ⟨ax1, ax2⟩ := alpha_x a hc hs hrx
  obtain ⟨ay1, ay2⟩ := alpha_y a hc hs hrx
  unfold bbox at h
  cases hx0 : pmin (xtrema realFn a) with
  | none => simp [hx0] at h
  | some x0' =>
  cases hx1 : pmax (xtrema realFn a) with
  | none => simp [hx0, hx1] at h
  | some x1' =>
  cases hy0 : pmin (ytrema realFn a) with
  | none => simp [hx0, hx1, hy0] at h
  | some y0' =>
  cases hy1 : pmax (ytrema realFn a) with
  | none => simp [hx0, hx1, hy0, hy1] at h
  | some y1' =>
    simp only [hx0, hx1, hy0, hy1, Option.some.injEq, Prod.mk.injEq] at h
    obtain ⟨rfl, rfl, rfl, rfl⟩ := h
    have ex : xtrema realFn a = ([0, 1] ++ critParams realFn a (atanXY realFn a).1).map
        (coord a.cx (a.rx * a.cosphi) (-(a.ry * a.sinphi)) a.theta a.delta) := by
      simp only [xtrema, List.map_append, List.map_cons, List.map_nil, hsx, hex, pointX_eq]
      congr 1
      exact List.map_congr_left fun t _ => pointX_eq a t
    have ey : ytrema realFn a = ([0, 1] ++ critParams realFn a (atanXY realFn a).2).map
        (coord a.cy (a.rx * a.sinphi) (a.ry * a.cosphi) a.theta a.delta) := by
      simp only [ytrema, List.map_append, List.map_cons, List.map_nil, hsy, hey, pointY_eq]
      congr 1
      exact List.map_congr_left fun t _ => pointY_eq a t
    rw [ex] at hx0 hx1
    rw [ey] at hy0 hy1
    have hpx : critParams realFn a (atanXY realFn a).1 = (ks.map (fun k : ℤ =>
        (((atanXY realFn a).1 + π * (k : ℝ)) * (360 / (2 * π)) - a.theta) / a.delta)).filter
        (fun t => decide (0 ≤ t) && decide (t ≤ 1)) := rfl
    have hpy : critParams realFn a (atanXY realFn a).2 = (ks.map (fun k : ℤ =>
        (((atanXY realFn a).2 + π * (k : ℝ)) * (360 / (2 * π)) - a.theta) / a.delta)).filter
        (fun t => decide (0 ≤ t) && decide (t ≤ 1)) := rfl
    obtain ⟨X1, X2, X3⟩ := coord_minmax a.cx _ _ a.theta a.delta _ hPQx ax1 ax2 hθ hδ hδ0 _ hpx _ _ hx0 hx1
    obtain ⟨Y1, Y2, Y3⟩ := coord_minmax a.cy _ _ a.theta a.delta _ hPQy ay1 ay2 hθ hδ hδ0 _ hpy _ _ hy0 hy1
    simp only [pointX_eq, pointY_eq]
    exact ⟨fun t ht => ⟨(X1 t ht).1, (X1 t ht).2, (Y1 t ht).1, (Y1 t ht).2⟩, X2, X3, Y2, Y3⟩

/-! ## non-vacuity: a quarter circle satisfies every hypothesis -/
example : ∃ a : ArcData ℝ, a.cosphi = cos a.phi ∧ a.sinphi = sin a.phi ∧ a.rx ≠ 0 ∧ a.ry ≠ 0 ∧
    |a.theta| ≤ 180 ∧ |a.delta| ≤ 360 ∧ a.delta ≠ 0 ∧ a.startx = pointX realFn a 0 ∧ a.endx = pointX realFn a 1 ∧
    a.starty = pointY realFn a 0 ∧ a.endy = pointY realFn a 1 := by
  refine ⟨⟨1, 0, 0, 1, 0, 0, 1, 1, 0, 1, 0, 0, 90⟩, ?_⟩
  simp only [pointX, pointY, angle, realFn]
  have e : (90 : ℝ) * π / 180 = π / 2 := by ring
  norm_num [e]

end SvgVerif.Props.C08Arc
