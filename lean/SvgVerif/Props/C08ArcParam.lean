import SvgVerif.Props.C08Arc
import SvgVerif.Props.C04Param
/-! # C08 + C04, end to end — the box of an `Arc` as the constructor builds it

`Props/C08Arc.lean` proves `Arc.bbox` correct under hypotheses on the arc's stored parameters;
`Props/C04Param.lean` proves what `_parameterize` stores.  Here the two are joined: for EVERY
admissible constructor input (unit `rot_matrix = e^{i·phi}`, non-zero radii, `start ≠ end`; both flags)
the parameters `_parameterize` computes satisfy those hypotheses (`|theta| ≤ 180` — `theta_abs_le`,
`0 < |delta| ≤ 360` — C04's `delta_sweep_large` / `delta_exact_fit`, `point(0) = start`,
`point(1) = end` — C04's `point_zero` / `point_one` on the traced `Arc.point`), hence the box returned
for the arc contains it and is tight (`arc_bbox_end_to_end`).  No hypothesis about the stored
parameters is left. -/
namespace SvgVerif.Props.C08ArcParam
set_option linter.unusedVariables false
open SvgVerif SvgVerif.Model.ArcParam SvgVerif.Model.ArcBBox SvgVerif.Props.C04Param SvgVerif.Props.C08Arc Set Real

theorem acosDeg_range (x : ℝ) : 0 ≤ acosDeg x ∧ acosDeg x ≤ 180 := by
  unfold acosDeg
  have hπ := Real.pi_pos
  have h0 := Real.arccos_nonneg x
  have h1 := Real.arccos_le_pi x
  constructor
  · positivity
  · rw [div_le_iff₀ hπ]; nlinarith

/-- the stored start angle lies in `[-180, 180]` -/
theorem theta_abs_le (ux uy : ℝ) : |thetaOf acosDeg ux uy| ≤ 180 := by
  obtain ⟨h0, h1⟩ := acosDeg_range ux
  unfold thetaOf
  split_ifs
  · rw [abs_of_nonneg h0]; exact h1
  · rw [abs_neg, abs_of_nonneg h0]; exact h1
  · norm_num
  · norm_num

variable (sx sy ex ey rx0 ry0 wx wy : ℝ) (large sweep : Bool)

/-- the `ArcData` that `Arc.bbox` reads from an arc built by the constructor -/
noncomputable def arcData (phi : ℝ) : ArcData ℝ :=
  let p := arcParams sx sy ex ey rx0 ry0 wx wy large sweep
  ⟨sx, sy, ex, ey, p.cx, p.cy, p.rx, p.ry, phi, wx, wy, p.theta, p.delta⟩

/-- **C08 for arcs, end to end.**  For every admissible constructor input with `rot_matrix = e^{i·phi}`,
the box `Arc.bbox()` computes from the parameters `_parameterize` stored contains every `point(t)`,
`0 ≤ t ≤ 1`, and each of its sides is attained. -/
theorem arc_bbox_end_to_end (h : Admissible sx sy ex ey rx0 ry0 wx wy) (phi : ℝ) (hwx : wx = cos phi) (hwy : wy = sin phi)
    (x0 x1 y0 y1 : ℝ) (hb : bbox realFn (arcData sx sy ex ey rx0 ry0 wx wy large sweep phi) = some (x0, x1, y0, y1)) :
    let a := arcData sx sy ex ey rx0 ry0 wx wy large sweep phi
    (∀ t ∈ Icc (0 : ℝ) 1, x0 ≤ pointX realFn a t ∧ pointX realFn a t ≤ x1 ∧
        y0 ≤ pointY realFn a t ∧ pointY realFn a t ≤ y1) ∧
    (∃ t ∈ Icc (0 : ℝ) 1, pointX realFn a t = x0) ∧ (∃ t ∈ Icc (0 : ℝ) 1, pointX realFn a t = x1) ∧
    (∃ t ∈ Icc (0 : ℝ) 1, pointY realFn a t = y0) ∧ (∃ t ∈ Icc (0 : ℝ) 1, pointY realFn a t = y1) := by
  intro a
  have hp := arcParams_eq large sweep h
  have hrx : a.rx ≠ 0 := by
    show (arcParams sx sy ex ey rx0 ry0 wx wy large sweep).rx ≠ 0
    rw [hp]; exact RX_ne h
  have hry : a.ry ≠ 0 := by
    show (arcParams sx sy ex ey rx0 ry0 wx wy large sweep).ry ≠ 0
    rw [hp]; exact RY_ne h
  have hθ : |a.theta| ≤ 180 := by
    show |(arcParams sx sy ex ey rx0 ry0 wx wy large sweep).theta| ≤ 180
    rw [hp]; exact theta_abs_le _ _
  have hδ : |a.delta| ≤ 360 ∧ a.delta ≠ 0 := by
    show |(arcParams sx sy ex ey rx0 ry0 wx wy large sweep).delta| ≤ 360 ∧
      (arcParams sx sy ex ey rx0 ry0 wx wy large sweep).delta ≠ 0
    rcases (Rho_nonneg (sx := sx) (sy := sy) (ex := ex) (ey := ey) (rx0 := rx0) (ry0 := ry0) (wx := wx) (wy := wy)).lt_or_eq with hpos | hz
    · obtain ⟨_, _, h3, h4⟩ := delta_sweep_large (large := large) (sweep := sweep) h hpos
      exact ⟨h3.le, h4⟩
    · rw [delta_exact_fit (large := large) (sweep := sweep) h hz.symm]
      split <;> norm_num
  obtain ⟨z1, z2⟩ := point_zero (large := large) (sweep := sweep) h 0
  obtain ⟨o1, o2⟩ := point_one (large := large) (sweep := sweep) h 0
  have hsx : a.startx = pointX realFn a 0 := by
    show sx = _
    rw [← z1]; simp only [a, arcData, pointX, angle, realFn, Gen.C04.point_x]
  have hex : a.endx = pointX realFn a 1 := by
    show ex = _
    rw [← o1]; simp only [a, arcData, pointX, angle, realFn, Gen.C04.point_x]
  have hsy : a.starty = pointY realFn a 0 := by
    show sy = _
    rw [← z2]; simp only [a, arcData, pointY, angle, realFn, Gen.C04.point_y]
  have hey : a.endy = pointY realFn a 1 := by
    show ey = _
    rw [← o2]; simp only [a, arcData, pointY, angle, realFn, Gen.C04.point_y]
  exact arcBbox_contains_tight a hwx hwy hrx hry hθ hδ.1 hδ.2 hsx hex hsy hey x0 x1 y0 y1 hb

end SvgVerif.Props.C08ArcParam
