import SvgVerif.Model.SegHeap
/-! C16 (and C09's "equal length"): the length caches of Bezier segments as a heap of objects and shared records.
Model: Model/SegHeap.lean.  Theorems: the heap invariant is preserved by every operation (`step_good_sound`), hence
every length answer along ANY history is sound for the current control points (`history_sound`); the pre-repair
`reversed()` is refuted by a kernel-checked witness history (`reversed_before_repair_witness`). -/
namespace SvgVerif.Props.C16Heap
open SvgVerif.Model.SegHeap
variable {B E D V : Type} [DecidableEq B] [LE E] [DecidableLE E] [LE D] [DecidableLE D]

/-- heap invariant: every filled record meets its own stored request for its own stored control points -/
def Good (Acc : B → E → D → V → Prop) (h : Heap B E D V) : Prop :=
  ∀ (i : Nat) (r : Rec B E D V), h.cells[i]? = some (some r) → Acc r.bpoints r.error r.minDepth r.value

theorem getElem?_setAt {α : Type} (l : List α) (i j : Nat) (a : α) :
    (setAt l i a)[j]? = if i = j then (if j < l.length then some a else none) else l[j]? := by
  unfold setAt
  rw [List.getElem?_set]
  by_cases h : i = j
  · subst h; simp
  · simp [h]

theorem good_setAt (Acc : B → E → D → V → Prop) (h : Heap B E D V) (hg : Good Acc h) (objs : List (Obj B)) (k : Nat)
    (r : Rec B E D V) (hr : Acc r.bpoints r.error r.minDepth r.value) :
    Good Acc ⟨objs, setAt h.cells k (some r)⟩ := by
  intro i r' hi
  simp only [getElem?_setAt] at hi
  by_cases hk : k = i
  · rw [if_pos hk] at hi
    by_cases hl : i < h.cells.length
    · rw [if_pos hl] at hi
      have : r = r' := by injection hi with h1; injection h1
      rw [← this]; exact hr
    · rw [if_neg hl] at hi; cases hi
  · rw [if_neg hk] at hi
    exact hg i r' hi

theorem good_append (Acc : B → E → D → V → Prop) (h : Heap B E D V) (hg : Good Acc h) (objs : List (Obj B))
    (x : Option (Rec B E D V)) (hx : ∀ r, x = some r → Acc r.bpoints r.error r.minDepth r.value) :
    Good Acc ⟨objs, h.cells ++ [x]⟩ := by
  intro i r hi
  simp only at hi
  by_cases hl : i < h.cells.length
  · rw [List.getElem?_append_left hl] at hi
    exact hg i r hi
  · rw [List.getElem?_append_right (Nat.le_of_not_lt hl)] at hi
    by_cases h0 : i - h.cells.length = 0
    · rw [h0] at hi
      simp at hi
      exact hx r hi
    · have : ([x] : List (Option (Rec B E D V)))[i - h.cells.length]? = none := by
        apply List.getElem?_eq_none; simp; omega
      rw [this] at hi; cases hi

/-- what a `length` request must deliver: a value meeting the accuracy contract for the object's CURRENT control points -/
def Sound (Acc : B → E → D → V → Prop) (h : Heap B E D V) : Op B E D → Option V → Prop
  | .length o e d, some v => ∃ ob, h.objs[o]? = some ob ∧ Acc ob.bp e d v
  | _, _ => True

theorem step_good_sound (Acc : B → E → D → V → Prop) (compute : B → E → D → V) (rev : B → B) (truthy : V → Bool)
    (hfresh : ∀ bp e d, Acc bp e d (compute bp e d))
    (hmono : ∀ bp e e' d d' v, e ≤ e' → d' ≤ d → Acc bp e d v → Acc bp e' d' v)
    (hrev : ∀ bp e d v, Acc bp e d v → Acc (rev bp) e d v)
    (h : Heap B E D V) (hg : Good Acc h) (op : Op B E D) :
    Good Acc (step true compute rev truthy h op).1 ∧ Sound Acc h op (step true compute rev truthy h op).2 := by
  cases op with
  | new bp =>
    refine ⟨?_, trivial⟩
    simp only [step]
    exact good_append Acc h hg _ none (by intro r hr; cases hr)
  | setBp o bp =>
    simp only [step]
    cases h.objs[o]? with
    | none => exact ⟨hg, trivial⟩
    | some ob => exact ⟨fun i r hi => hg i r hi, trivial⟩
  | length o e d =>
    simp only [step]
    cases ho : h.objs[o]? with
    | none => exact ⟨hg, trivial⟩
    | some ob =>
      simp only
      cases hc : h.cells[ob.cell]? with
      | none =>
        exact ⟨good_setAt Acc h hg _ _ ⟨ob.bp, e, d, compute ob.bp e d⟩ (hfresh _ _ _), ob, ho, hfresh _ _ _⟩
      | some c =>
        cases c with
        | none =>
          exact ⟨good_setAt Acc h hg _ _ ⟨ob.bp, e, d, compute ob.bp e d⟩ (hfresh _ _ _), ob, ho, hfresh _ _ _⟩
        | some r =>
          simp only
          by_cases hh : r.bpoints = ob.bp ∧ r.error ≤ e ∧ d ≤ r.minDepth
          · rw [if_pos hh]
            refine ⟨hg, ob, ho, ?_⟩
            have := hmono r.bpoints r.error e r.minDepth d r.value hh.2.1 hh.2.2 (hg _ _ hc)
            rwa [hh.1] at this
          · rw [if_neg hh]
            exact ⟨good_setAt Acc h hg _ _ ⟨ob.bp, e, d, compute ob.bp e d⟩ (hfresh _ _ _), ob, ho, hfresh _ _ _⟩
  | reversed o =>
    refine ⟨?_, trivial⟩
    simp only [step]
    cases ho : h.objs[o]? with
    | none => exact hg
    | some ob =>
      simp only
      cases hc : h.cells[ob.cell]? with
      | none => exact good_append Acc h hg _ none (by intro r hr; cases hr)
      | some c =>
        cases c with
        | none => exact good_append Acc h hg _ none (by intro r hr; cases hr)
        | some r =>
          simp only
          by_cases hh : (truthy r.value && (!true || decide (r.bpoints = ob.bp))) = true
          · rw [if_pos hh]
            have hb : r.bpoints = ob.bp := by
              simp only [Bool.not_true, Bool.false_or, Bool.and_eq_true, decide_eq_true_eq] at hh
              exact hh.2
            apply good_setAt Acc h hg
            have := hg _ _ hc
            rw [hb] at this
            exact hrev _ _ _ _ this
          · rw [if_neg hh]
            exact good_append Acc h hg _ none (by intro r hr; cases hr)
  | copy o =>
    refine ⟨?_, trivial⟩
    simp only [step]
    cases h.objs[o]? with
    | none => exact hg
    | some ob => exact fun i r hi => hg i r hi
  | deepcopy o =>
    refine ⟨?_, trivial⟩
    simp only [step]
    cases ho : h.objs[o]? with
    | none => exact hg
    | some ob =>
      apply good_append Acc h hg
      intro r hr
      cases hc : h.cells[ob.cell]? with
      | none => rw [hc] at hr; cases hr
      | some c =>
        rw [hc] at hr
        simp at hr
        exact hg _ _ (by rw [hc, hr])

/-- every `length` answer along a history is sound for the heap state it was asked in -/
def RunSound (Acc : B → E → D → V → Prop) (compute : B → E → D → V) (rev : B → B) (truthy : V → Bool) :
    Heap B E D V → List (Op B E D) → Prop
  | _, [] => True
  | h, op :: ops =>
    Sound Acc h op (step true compute rev truthy h op).2 ∧ RunSound Acc compute rev truthy (step true compute rev truthy h op).1 ops

theorem good_empty (Acc : B → E → D → V → Prop) : Good Acc (Heap.empty : Heap B E D V) := by
  intro i r hi
  simp [Heap.empty] at hi

/-- **Any history** of constructions, control-point assignments, length requests at any accuracies, reversals, shallow
and deep copies — over any number of objects sharing records in any way the operations produce — returns, for every
length request, a value that meets the requested accuracy for the CURRENT control points of the object asked. -/
theorem history_sound (Acc : B → E → D → V → Prop) (compute : B → E → D → V) (rev : B → B) (truthy : V → Bool)
    (hfresh : ∀ bp e d, Acc bp e d (compute bp e d))
    (hmono : ∀ bp e e' d d' v, e ≤ e' → d' ≤ d → Acc bp e d v → Acc bp e' d' v)
    (hrev : ∀ bp e d v, Acc bp e d v → Acc (rev bp) e d v)
    (ops : List (Op B E D)) (h : Heap B E D V) (hg : Good Acc h) :
    RunSound Acc compute rev truthy h ops := by
  induction ops generalizing h with
  | nil => trivial
  | cons op rest ih =>
    obtain ⟨h1, h2⟩ := step_good_sound Acc compute rev truthy hfresh hmono hrev h hg op
    exact ⟨h2, ih _ h1⟩

/-- the outputs of `run` are the second components `RunSound` speaks about -/
theorem run_cons (fixed : Bool) (compute : B → E → D → V) (rev : B → B) (truthy : V → Bool) (h : Heap B E D V) (op : Op B E D)
    (ops : List (Op B E D)) :
    run fixed compute rev truthy h (op :: ops) =
      (step fixed compute rev truthy h op).2 :: run fixed compute rev truthy (step fixed compute rev truthy h op).1 ops := rfl

/-- witness against `reversed()` before the repair (the record was handed over whenever a length was cached, valid or
not): lengths are `bp % 100`, reversal adds 100 (so it keeps the length); measure, reassign, reverse, measure the copy -/
theorem reversed_before_repair_witness :
    run false (fun (b : Nat) (_ _ : Nat) => b % 100) (· + 100) (· != 0) (Heap.empty : Heap Nat Nat Nat Nat)
      [.new 1, .length 0 0 0, .setBp 0 2, .reversed 0, .length 1 0 0] = [none, some 1, none, none, some 1] := by decide
example :
    run true (fun (b : Nat) (_ _ : Nat) => b % 100) (· + 100) (· != 0) (Heap.empty : Heap Nat Nat Nat Nat)
      [.new 1, .length 0 0 0, .setBp 0 2, .reversed 0, .length 1 0 0] = [none, some 1, none, none, some 2] := by decide
/-- sharing really happens in the model (non-vacuity): after measure + reverse both objects point to one record, and
measuring the original again re-labels it -/
example :
    run true (fun (b : Nat) (_ _ : Nat) => b % 100) (· + 100) (· != 0) (Heap.empty : Heap Nat Nat Nat Nat)
      [.new 1, .length 0 0 0, .reversed 0, .length 1 0 0, .copy 1, .setBp 1 7, .length 2 0 0, .length 1 0 0, .length 0 0 0]
      = [none, some 1, none, some 1, none, none, some 1, some 7, some 1] := by decide
end SvgVerif.Props.C16Heap
