import SvgVerif.Props.C05
import SvgVerif.Props.C06SegLen
import SvgVerif.Model.InvArc
import Mathlib.Tactic.Linarith
import Mathlib.Tactic.Ring
import Mathlib.Tactic.FieldSimp
/-! # C07 — the Path branch of `inv_arclength`, and `Path.length(0, Path.ilength(s)) = s`

The single-segment theorems of C07 (`Props/C07.lean`, `Props/C07Mono.lean`) are about the bisection.
This file is about the Path branch as modelled in `Model/InvArc.lean` (`invPath`, tied to the real
code by the exact correspondence on stub paths):

* `invPathLoop_locates` — the prefix-sum search stops at the FIRST segment whose cumulative interval
  contains `s`, hands the recursive call the exact remainder (the clamp of the repaired code is the
  identity in exact arithmetic) and never falls through to `return 1`;
* `invPath_spec`        — with the segment-level contract the answer is `t2T(k, t)` and the arc
  length up to `(k, t)` is exactly `s`;
* `length_of_ilength`   — composing C05 (`T2t` inverts `t2T`), C06 (`Path.length(T0, T1)` =
  first partial + whole middle + last partial segment) and the above:
  `Path.length(0, Path.ilength(s)) = s` for every path of segments of positive length and `0 < s < L`;
* `lineContract`        — the contract is satisfiable (paths of lines), so the theorems are not vacuous.

Exact arithmetic over any linearly ordered field; float resolution is the subject of the grid model. -/
namespace SvgVerif.Props.C07Path
set_option linter.unusedVariables false
set_option linter.unusedSectionVars false
open SvgVerif.Model.InvArc SvgVerif.Model.PathParam SvgVerif.Props.C05
variable {K : Type} [Field K] [LinearOrder K] [IsStrictOrderedRing K]

/-- how the Path branch turns the answer for segment `k` into the answer for the path -/
def liftRes (fr : List K) (k : ℕ) : IlRes K → IlRes K
  | .value t => match t2T fr k t with | some T => .value T | none => .assertion
  | .stalled t => match t2T fr k t with | some T => .stalled T | none => .assertion
  | e => e

/-- the segment search of the Path branch: started with `lsum ≤ s < lsum + Σ ls` it stops at the FIRST
segment `j` with `lsum_j ≤ s ≤ lsum_j + l_j`, hands the recursive call the exact remainder
`s − lsum_j ∈ [0, l_j]` (the clamp is the identity there) and never falls through to `return 1` -/
theorem invPathLoop_locates (inv : ℕ → K → IlRes K) (fr ls : List K) (k : ℕ) (lsum s : K)
    (hnn : ∀ l ∈ ls, 0 ≤ l) (hlo : lsum ≤ s) (hhi : s < lsum + ls.sum) :
    ∃ j l, ls[j]? = some l ∧ lsum + (ls.take j).sum ≤ s ∧ s ≤ lsum + (ls.take j).sum + l ∧
      (∀ i, i < j → ∀ li, ls[i]? = some li → lsum + (ls.take i).sum + li < s) ∧
      invPathLoop inv fr ls k lsum s = liftRes fr (k + j) (inv (k + j) (s - (lsum + (ls.take j).sum))) := by
  induction ls generalizing k lsum with
  | nil => simp at hhi; exact absurd hlo (not_le.mpr hhi)
  | cons l ls ih =>
    by_cases hin : lsum ≤ s ∧ s ≤ lsum + l
    · refine ⟨0, l, by simp, by simpa using hin.1, by simpa using hin.2, by intro i hi; omega, ?_⟩
      have h0 : ¬ (s - lsum < 0) := by linarith [hin.1]
      have h1 : ¬ (l < s - lsum) := by linarith [hin.2]
      simp only [invPathLoop, hin, and_self, if_true, h0, h1, if_false, List.take_zero, List.sum_nil, add_zero, Nat.add_zero]
      cases inv k (s - lsum) <;> first | rfl | (simp only [liftRes]; rfl)
    · have hgt : lsum + l < s := by
        by_contra hcon
        exact hin ⟨hlo, not_lt.mp hcon⟩
      have hnn' : ∀ x ∈ ls, 0 ≤ x := fun x hx => hnn x (List.mem_cons_of_mem _ hx)
      obtain ⟨j, lj, e1, e2, e3, e4, e5⟩ := ih (k + 1) (lsum + l) hnn' hgt.le (by simp at hhi; linarith)
      refine ⟨j + 1, lj, by simpa using e1, ?_, ?_, ?_, ?_⟩
      · simp only [List.take_succ_cons, List.sum_cons]; linarith
      · simp only [List.take_succ_cons, List.sum_cons]; linarith
      · intro i hi li hli
        cases i with
        | zero => simp at hli; subst hli; simpa using hgt
        | succ i =>
          have := e4 i (by omega) li (by simpa using hli)
          simp only [List.take_succ_cons, List.sum_cons]; linarith
      · simp only [invPathLoop, hin, if_false]
        rw [e5]
        simp only [List.take_succ_cons, List.sum_cons]
        have : k + 1 + j = k + (j + 1) := by omega
        rw [this]
        congr 2
        ring


/-- the segment-level contract of the recursive call, in exact arithmetic: `seglen k t` is
`curve[k].length(t1=t)`; C07's single-segment theorems (`invLine_spec`, `bisect_terminates`) are what
provides it -/
structure SegContract (inv : ℕ → K → IlRes K) (seglen : ℕ → K → K) (lens : List K) : Prop where
  zero : ∀ k, seglen k 0 = 0
  one : ∀ k l, lens[k]? = some l → seglen k 1 = l
  inv_ok : ∀ k l r, lens[k]? = some l → 0 ≤ r → r ≤ l →
    ∃ t, inv k r = .value t ∧ 0 ≤ t ∧ t ≤ 1 ∧ seglen k t = r

/-- **Path branch of `ilength`**: for `0 < s < L` the answer is `T = t2T(k, t)` where `k` is the first
segment whose cumulative interval contains `s` and `t` is the segment-level answer for the remainder:
the arc length of the path up to `(k, t)` is exactly `s`. -/
theorem invPath_spec (inv : ℕ → K → IlRes K) (seglen : ℕ → K → K) (lens : List K) (s : K)
    (hnn : ∀ l ∈ lens, 0 ≤ l) (C : SegContract inv seglen lens) (h0 : 0 < s) (h1 : s < lens.sum) :
    ∃ k t l T, lens[k]? = some l ∧ invPath inv lens s = .value T ∧
      t2T (calcLengths lens).2 k t = some T ∧ 0 ≤ t ∧ t ≤ 1 ∧ (lens.take k).sum + seglen k t = s ∧ 0 < seglen k t := by
  have hL : 0 < lens.sum := lt_trans h0 h1
  obtain ⟨j, l, e1, e2, e3, e4, e5⟩ := invPathLoop_locates inv (calcLengths lens).2 lens 0 0 s hnn h0.le (by simpa using h1)
  simp only [zero_add] at e2 e3 e4 e5
  obtain ⟨t, it, t0, t1, tl⟩ := C.inv_ok j l (s - (lens.take j).sum) e1 (by linarith) (by linarith)
  have hfr : (calcLengths lens).2[j]? = some (l / lens.sum) := by
    unfold calcLengths
    simp only [psum_eq_sum, hL.ne', if_false, List.getElem?_map, e1, Option.map_some]
  have hT : ∃ T, t2T (calcLengths lens).2 j t = some T := by
    unfold t2T; rw [hfr]; exact ⟨_, rfl⟩
  obtain ⟨T, hT⟩ := hT
  have hpos : 0 < s - (lens.take j).sum := by
    cases j with
    | zero => simpa using h0
    | succ i =>
      have hi : i < lens.length := by
        by_contra hcon
        rw [List.getElem?_eq_none (by omega)] at e1; simp at e1
      have := e4 i (by omega) lens[i] (by simp [hi])
      rw [List.sum_take_succ lens i hi]
      linarith
  refine ⟨j, t, l, T, e1, ?_, hT, t0, t1, by rw [tl]; ring, by rw [tl]; exact hpos⟩
  unfold invPath
  simp only [psum_eq_sum, hL, not_true_eq_false, if_false, h0.le, h1.le, and_self, h0.ne', h1.ne]
  rw [e5, it]
  simp only [liftRes, hT]


theorem sum_range_getD (lens : List K) (k : ℕ) (hk : k ≤ lens.length) :
    ((List.range k).map (fun j => lens.getD j 0)).sum = (lens.take k).sum := by
  induction k with
  | zero => simp
  | succ k ih =>
    have hk' : k < lens.length := by omega
    rw [List.range_succ, List.map_append, List.sum_append, ih (by omega), List.sum_take_succ lens k hk']
    simp [List.getD_eq_getElem?_getD, hk']

/-- **`Path.length(0, Path.ilength(s)) = s`** on the models of C05 (`T2t`/`t2T`), C06 (`Path.length(T0, T1)`)
and C07 (the Path branch of `inv_arclength`), in exact arithmetic, for a path of segments of positive
length and `0 < s < L`; `seg k a b = seglen k b − seglen k a` is the segment's own `length(a, b)` -/
theorem length_of_ilength (inv : ℕ → K → IlRes K) (seglen : ℕ → K → K) (lens : List K) (s : K)
    (hpos : ∀ l ∈ lens, 0 < l) (C : SegContract inv seglen lens) (h0 : 0 < s) (h1 : s < lens.sum) :
    ∃ T, invPath inv lens s = .value T ∧ 0 < T ∧ T < 1 ∧
      SvgVerif.Model.Length.pathLength lens (fun k a b => seglen k b - seglen k a) 0 T = .value s := by
  have hnn : ∀ l ∈ lens, 0 ≤ l := fun l hl => (hpos l hl).le
  have hL : 0 < lens.sum := lt_trans h0 h1
  obtain ⟨k, t, l, T, e1, e2, e3, t0, t1, e4, e5⟩ := invPath_spec inv seglen lens s hnn C h0 h1
  obtain ⟨_, fnn, fsum⟩ := calcLengths_fractions lens hnn hL
  have hklen : k < lens.length := by
    by_contra hcon
    rw [List.getElem?_eq_none (by omega)] at e1; simp at e1
  have hl : 0 < l := hpos l (List.mem_of_getElem? e1)
  have hfr : (calcLengths lens).2[k]? = some (l / lens.sum) := by
    unfold calcLengths
    simp only [psum_eq_sum, hL.ne', if_false, List.getElem?_map, e1, Option.map_some]
  have hfrtake : ((calcLengths lens).2.take k).sum = (lens.take k).sum / lens.sum := by
    unfold calcLengths
    simp only [psum_eq_sum, hL.ne', if_false, ← List.map_take, div_eq_mul_inv]
    rw [List.sum_map_mul_right (f := fun x => x)]
    simp
  have htpos : 0 < t := by
    rcases t0.lt_or_eq with h | h
    · exact h
    · rw [← h, C.zero] at e5; exact absurd e5 (lt_irrefl _)
  have hTe : T = (lens.take k).sum / lens.sum + l / lens.sum * t := by
    unfold t2T at e3
    simp only [hfr, psum_eq_sum, Option.some.injEq, hfrtake] at e3
    rw [← e3]; ring
  have hle : (lens.take k).sum + l ≤ lens.sum := by
    have := take_sum_mono lens hnn (k + 1) lens.length (by omega)
    rw [List.sum_take_succ lens k hklen, List.take_length] at this
    have hg : lens[k] = l := by
      have := List.getElem?_eq_getElem hklen
      rw [this] at e1; exact Option.some.inj e1
    rw [hg] at this; exact this
  have hT0 : 0 < T := by
    rw [hTe]
    have htk : 0 ≤ (lens.take k).sum := by simpa using take_sum_mono lens hnn 0 k (by omega)
    have : 0 ≤ (lens.take k).sum / lens.sum := div_nonneg htk hL.le
    have : 0 < l / lens.sum * t := mul_pos (div_pos hl hL) htpos
    linarith
  have hnum : (lens.take k).sum + l * t < lens.sum := by
    rcases t1.lt_or_eq with h | h
    · have : l * t < l := by nlinarith
      linarith
    · rw [h, C.one k l e1] at e4
      rw [h, mul_one, e4]; exact h1
  have hT1 : T < 1 := by
    have e : T = ((lens.take k).sum + l * t) / lens.sum := by rw [hTe]; field_simp
    rw [e, div_lt_one hL]; exact hnum
  have hT2t : T2t (calcLengths lens).2 T = some (k, t) :=
    T2t_t2T _ fnn fsum k (l / lens.sum) t T hfr (div_pos hl hL) htpos t1 e3 hT0 hT1
  refine ⟨T, e2, hT0, hT1, ?_⟩
  have hTne : ¬((0 : K) = 0 ∧ T = 1) := fun h => absurd h.2 hT1.ne
  by_cases hlen1 : lens.length = 1
  · -- a single segment: T = t
    have hk0 : k = 0 := by omega
    subst hk0
    rw [SvgVerif.Props.C06SegLen.pathLength_single lens _ 0 T hlen1 hTne]
    have hl1 : l = lens.sum := by
      match lens, hlen1, e1 with
      | [x], _, e1 => simp at e1; simp [e1]
    have hTt : T = t := by rw [hTe, hl1]; simp [div_self hL.ne']
    simp only [hTt, C.zero, sub_zero]
    congr 1
    simpa using e4
  · have hlen2 : 2 ≤ lens.length := by omega
    cases k with
    | zero =>
      rw [SvgVerif.Props.C06SegLen.pathLength_same_segment lens _ 0 T 0 0 0 t hlen2 hTne (T2t_zero _) hT2t rfl]
      simp only [C.zero, sub_zero]
      congr 1
      simpa using e4
    | succ i =>
      rw [SvgVerif.Props.C06SegLen.pathLength_decomp lens _ 0 T 0 (i + 1) 0 t hlen2 hTne (T2t_zero _) hT2t (by omega)]
      congr 1
      simp only [C.zero, sub_zero]
      have h0len : 0 < lens.length := by omega
      have hs0 : seglen 0 1 = lens.getD 0 0 := by
        rw [C.one 0 lens[0] (by simp [h0len])]; simp [List.getD_eq_getElem?_getD, h0len]
      have hmid : ((List.range (i + 1 - (0 + 1))).map (fun j => seglen (0 + 1 + j) 1)).sum
          = ((List.range i).map (fun j => lens.getD (j + 1) 0)).sum := by
        have : i + 1 - (0 + 1) = i := by omega
        rw [this]
        congr 1
        refine List.map_congr_left fun j hj => ?_
        have hj' : j + 1 < lens.length := by have := List.mem_range.mp hj; omega
        rw [show 0 + 1 + j = j + 1 by omega, C.one (j + 1) lens[j + 1] (by simp [hj'])]
        simp [List.getD_eq_getElem?_getD, hj']
      rw [hs0, hmid, ← e4, ← sum_range_getD lens (i + 1) (by omega), List.range_succ_eq_map, List.map_cons, List.sum_cons,
        List.map_map]
      simp only [Function.comp_def, Nat.succ_eq_add_one]

/-- non-vacuity: a path of straight lines of positive length satisfies the segment contract
(`Line`: `length(t1=t) = L·t`, `ilength(r) = r/L`) -/
theorem lineContract (lens : List K) (hpos : ∀ l ∈ lens, 0 < l) :
    SegContract (fun k r => IlRes.value (r / lens.getD k 1)) (fun k t => lens.getD k 0 * t) lens where
  zero := fun k => mul_zero _
  one := fun k l h => by simp [List.getD_eq_getElem?_getD, h]
  inv_ok := fun k l r h hr0 hr1 => by
    have hl : 0 < l := hpos l (List.mem_of_getElem? h)
    refine ⟨r / l, by simp [List.getD_eq_getElem?_getD, h], div_nonneg hr0 hl.le, (div_le_one hl).mpr hr1, ?_⟩
    simp only [List.getD_eq_getElem?_getD, h, Option.getD_some]
    field_simp

end SvgVerif.Props.C07Path
