import SvgVerif.Gen.C17
import SvgVerif.Model.TransformParse
import Mathlib.Tactic.Ring
/-! # C17 — transform matrices and their composition

* The matrix `_parse_transform_substr` builds for each transform kind and admissible number of
  values (definitions regenerated from `svgpathtools/parser.py` on every run) is the matrix SVG 1.1
  §7.6 prescribes; `rotate(a cx cy)` is `translate(cx,cy) · rotate(a) · translate(-cx,-cy)`.
* `Aff.mul` is composition of the affine maps (`apply (p·q) v = apply p (apply q v)`), is
  associative with unit `Aff.one`; a left-to-right product applies its *last* factor first, so the
  matrix accumulated by flattening (outermost ancestor first, the element's own transform last)
  maps a point through the element's own transform first and the outermost ancestor's last.
The traversal that accumulates those products is treated in `Props/C17Flatten.lean`. -/
namespace SvgVerif.Props.C17
set_option linter.unusedVariables false
set_option linter.unusedSimpArgs false
open SvgVerif SvgVerif.Model.Flatten

/-! ## the six transform kinds (SVG 1.1 §7.6) -/
theorem matrix_entries (v0 v1 v2 v3 v4 v5 pi : ℝ) :
    Gen.C17.matrix6_a v0 v1 v2 v3 v4 v5 pi = v0 ∧ Gen.C17.matrix6_b v0 v1 v2 v3 v4 v5 pi = v1 ∧
    Gen.C17.matrix6_c v0 v1 v2 v3 v4 v5 pi = v2 ∧ Gen.C17.matrix6_d v0 v1 v2 v3 v4 v5 pi = v3 ∧
    Gen.C17.matrix6_e v0 v1 v2 v3 v4 v5 pi = v4 ∧ Gen.C17.matrix6_f v0 v1 v2 v3 v4 v5 pi = v5 := by
  simp only [Gen.C17.matrix6_a, Gen.C17.matrix6_b, Gen.C17.matrix6_c, Gen.C17.matrix6_d, Gen.C17.matrix6_e, Gen.C17.matrix6_f, and_self]

/-- `translate(tx)` is `translate(tx, 0)` -/
theorem translate1_entries (v0 pi : ℝ) :
    Gen.C17.translate1_a v0 pi = 1 ∧ Gen.C17.translate1_b v0 pi = 0 ∧ Gen.C17.translate1_c v0 pi = 0 ∧
    Gen.C17.translate1_d v0 pi = 1 ∧ Gen.C17.translate1_e v0 pi = v0 ∧ Gen.C17.translate1_f v0 pi = 0 := by
  simp only [Gen.C17.translate1_a, Gen.C17.translate1_b, Gen.C17.translate1_c, Gen.C17.translate1_d, Gen.C17.translate1_e, Gen.C17.translate1_f, and_self]

theorem translate2_entries (v0 v1 pi : ℝ) :
    Gen.C17.translate2_a v0 v1 pi = 1 ∧ Gen.C17.translate2_b v0 v1 pi = 0 ∧ Gen.C17.translate2_c v0 v1 pi = 0 ∧
    Gen.C17.translate2_d v0 v1 pi = 1 ∧ Gen.C17.translate2_e v0 v1 pi = v0 ∧ Gen.C17.translate2_f v0 v1 pi = v1 := by
  simp only [Gen.C17.translate2_a, Gen.C17.translate2_b, Gen.C17.translate2_c, Gen.C17.translate2_d, Gen.C17.translate2_e, Gen.C17.translate2_f, and_self]

/-- `scale(s)` is `scale(s, s)` -/
theorem scale1_entries (v0 pi : ℝ) :
    Gen.C17.scale1_a v0 pi = v0 ∧ Gen.C17.scale1_b v0 pi = 0 ∧ Gen.C17.scale1_c v0 pi = 0 ∧
    Gen.C17.scale1_d v0 pi = v0 ∧ Gen.C17.scale1_e v0 pi = 0 ∧ Gen.C17.scale1_f v0 pi = 0 := by
  simp only [Gen.C17.scale1_a, Gen.C17.scale1_b, Gen.C17.scale1_c, Gen.C17.scale1_d, Gen.C17.scale1_e, Gen.C17.scale1_f, and_self]

theorem scale2_entries (v0 v1 pi : ℝ) :
    Gen.C17.scale2_a v0 v1 pi = v0 ∧ Gen.C17.scale2_b v0 v1 pi = 0 ∧ Gen.C17.scale2_c v0 v1 pi = 0 ∧
    Gen.C17.scale2_d v0 v1 pi = v1 ∧ Gen.C17.scale2_e v0 v1 pi = 0 ∧ Gen.C17.scale2_f v0 v1 pi = 0 := by
  simp only [Gen.C17.scale2_a, Gen.C17.scale2_b, Gen.C17.scale2_c, Gen.C17.scale2_d, Gen.C17.scale2_e, Gen.C17.scale2_f, and_self]

/-- `rotate(a)`: `[cos a, sin a, -sin a, cos a, 0, 0]` with `a` converted to radians as `a·π/180` -/
theorem rotate1_entries (v0 pi : ℝ) :
    Gen.C17.rotate1_a v0 pi = Real.cos (v0 * pi / 180) ∧ Gen.C17.rotate1_b v0 pi = Real.sin (v0 * pi / 180) ∧
    Gen.C17.rotate1_c v0 pi = -Real.sin (v0 * pi / 180) ∧ Gen.C17.rotate1_d v0 pi = Real.cos (v0 * pi / 180) ∧
    Gen.C17.rotate1_e v0 pi = 0 ∧ Gen.C17.rotate1_f v0 pi = 0 := by
  refine ⟨?_, ?_, ?_, ?_, ?_, ?_⟩ <;>
    simp only [Gen.C17.rotate1_a, Gen.C17.rotate1_b, Gen.C17.rotate1_c, Gen.C17.rotate1_d, Gen.C17.rotate1_e, Gen.C17.rotate1_f]

/-- `rotate(a, cx, cy)` is `translate(cx, cy) rotate(a) translate(-cx, -cy)` -/
theorem rotate3_is_conjugation (v0 v1 v2 pi : ℝ) :
    (⟨Gen.C17.rotate3_a v0 v1 v2 pi, Gen.C17.rotate3_b v0 v1 v2 pi, Gen.C17.rotate3_c v0 v1 v2 pi,
      Gen.C17.rotate3_d v0 v1 v2 pi, Gen.C17.rotate3_e v0 v1 v2 pi, Gen.C17.rotate3_f v0 v1 v2 pi⟩ : Aff ℝ)
      = Aff.mul (Aff.mul ⟨1, 0, 0, 1, v1, v2⟩
          ⟨Real.cos (v0 * pi / 180), Real.sin (v0 * pi / 180), -Real.sin (v0 * pi / 180), Real.cos (v0 * pi / 180), 0, 0⟩)
          ⟨1, 0, 0, 1, -v1, -v2⟩ := by
  simp only [Gen.C17.rotate3_a, Gen.C17.rotate3_b, Gen.C17.rotate3_c, Gen.C17.rotate3_d, Gen.C17.rotate3_e, Gen.C17.rotate3_f, Aff.mul, Aff.mk.injEq]
  refine ⟨?_, ?_, ?_, ?_, ?_, ?_⟩ <;> ring_nf

/-- the centre of `rotate(a, cx, cy)` is a fixed point -/
theorem rotate3_fixes_centre (v0 v1 v2 pi : ℝ) :
    Gen.C17.rotate3_a v0 v1 v2 pi * v1 + Gen.C17.rotate3_c v0 v1 v2 pi * v2 + Gen.C17.rotate3_e v0 v1 v2 pi = v1 ∧
    Gen.C17.rotate3_b v0 v1 v2 pi * v1 + Gen.C17.rotate3_d v0 v1 v2 pi * v2 + Gen.C17.rotate3_f v0 v1 v2 pi = v2 := by
  simp only [Gen.C17.rotate3_a, Gen.C17.rotate3_b, Gen.C17.rotate3_c, Gen.C17.rotate3_d, Gen.C17.rotate3_e, Gen.C17.rotate3_f]
  constructor <;> ring

/-- `skewX(a)`: `[1, 0, tan a, 1, 0, 0]` -/
theorem skewX_entries (v0 pi : ℝ) :
    Gen.C17.skewX1_a v0 pi = 1 ∧ Gen.C17.skewX1_b v0 pi = 0 ∧ Gen.C17.skewX1_c v0 pi = Real.tan (v0 * pi / 180) ∧
    Gen.C17.skewX1_d v0 pi = 1 ∧ Gen.C17.skewX1_e v0 pi = 0 ∧ Gen.C17.skewX1_f v0 pi = 0 := by
  simp only [Gen.C17.skewX1_a, Gen.C17.skewX1_b, Gen.C17.skewX1_c, Gen.C17.skewX1_d, Gen.C17.skewX1_e, Gen.C17.skewX1_f, and_self, true_and, and_true]

/-- `skewY(a)`: `[1, tan a, 0, 1, 0, 0]` -/
theorem skewY_entries (v0 pi : ℝ) :
    Gen.C17.skewY1_a v0 pi = 1 ∧ Gen.C17.skewY1_b v0 pi = Real.tan (v0 * pi / 180) ∧ Gen.C17.skewY1_c v0 pi = 0 ∧
    Gen.C17.skewY1_d v0 pi = 1 ∧ Gen.C17.skewY1_e v0 pi = 0 ∧ Gen.C17.skewY1_f v0 pi = 0 := by
  simp only [Gen.C17.skewY1_a, Gen.C17.skewY1_b, Gen.C17.skewY1_c, Gen.C17.skewY1_d, Gen.C17.skewY1_e, Gen.C17.skewY1_f, and_self, true_and, and_true]

/-! ## composition -/
section algebra
variable {K : Type} [CommRing K]

/-- the affine map of a matrix: `(x, y) ↦ (a x + c y + e, b x + d y + f)` -/
def apply (m : Aff K) (p : K × K) : K × K := (m.a * p.1 + m.c * p.2 + m.e, m.b * p.1 + m.d * p.2 + m.f)

theorem apply_one (p : K × K) : apply (Aff.one : Aff K) p = p := by
  simp [apply, Aff.one]

/-- the product is composition: the right factor acts first -/
theorem apply_mul (p q : Aff K) (v : K × K) : apply (Aff.mul p q) v = apply p (apply q v) := by
  simp only [apply, Aff.mul, Prod.mk.injEq]
  constructor <;> ring

theorem mul_assoc' (p q r : Aff K) : Aff.mul (Aff.mul p q) r = Aff.mul p (Aff.mul q r) := by
  simp only [Aff.mul, Aff.mk.injEq]
  refine ⟨?_, ?_, ?_, ?_, ?_, ?_⟩ <;> ring

theorem one_mul' (p : Aff K) : Aff.mul Aff.one p = p := by
  cases p; simp [Aff.mul, Aff.one]

theorem mul_one' (p : Aff K) : Aff.mul p Aff.one = p := by
  cases p; simp [Aff.mul, Aff.one]

/-- a transform list `t₁ t₂ … tₙ` (accumulated left to right, as `parse_transform` and the flattening
stack do) maps a point through `tₙ` first and `t₁` last — the nesting order of SVG 1.1 §7.5 -/
theorem apply_foldl (ts : List (Aff K)) (acc : Aff K) (v : K × K) :
    apply (ts.foldl Aff.mul acc) v = apply acc (ts.foldr apply v) := by
  induction ts generalizing acc with
  | nil => rfl
  | cons t ts ih => simp only [List.foldl_cons, List.foldr_cons, ih, apply_mul]

end algebra

/-- non-vacuity / orientation check: `translate(1,0) scale(2)` sends (1,1) to (3,2), not (4,2) -/
example : apply (Aff.mul (⟨1, 0, 0, 1, 1, 0⟩ : Aff ℤ) ⟨2, 0, 0, 2, 0, 0⟩) (1, 1) = (3, 2) := by decide

end SvgVerif.Props.C17
