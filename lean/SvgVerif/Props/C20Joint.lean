import SvgVerif.Model.Smoothing
import Batteries.Data.List.Basic

/-! C20 — `smoothed_joint` (svgpathtools/smoothing.py): whatever the kinds of the two consecutive
segments, the dispatch composes the elementary constructions (Line–Line elbow, Line–curve elbow,
`reversed()`, `cropped`, `Line(..)`) into pieces that start where and as `seg0` starts, end where and
as `seg1` ends and join without a kink.  Segments are opaque; the geometry of the elementary
constructions is an explicit contract (`OpsContract`). -/
namespace SvgVerif.Props.C20Joint
open SvgVerif.Model.Smoothing

variable {σ Pt Tn : Type}

/-- what is observed of a segment: start / end point, start / end unit tangent -/
structure Geo (σ Pt Tn : Type) where
  st : σ → Pt
  en : σ → Pt
  t0 : σ → Tn
  t1 : σ → Tn

/-- `a` is followed by `b` without a gap and without a kink (`R` relates the two unit tangents) -/
def Ok (g : Geo σ Pt Tn) (R : Tn → Tn → Prop) (a b : σ) : Prop := g.en a = g.st b ∧ R (g.t1 a) (g.t0 b)

/-- assumptions on the ingredients (each is a statement about an elementary construction or an oracle) -/
structure OpsContract (g : Geo σ Pt Tn) (R : Tn → Tn → Prop) (neg : Tn → Tn) (o : JointOps σ) : Prop where
  neg_neg : ∀ x, neg (neg x) = x
  R_neg : ∀ x y, R x y → R (neg y) (neg x)
  rev_st : ∀ a, g.st (o.rev a) = g.en a
  rev_en : ∀ a, g.en (o.rev a) = g.st a
  rev_t0 : ∀ a, g.t0 (o.rev a) = neg (g.t1 a)
  rev_t1 : ∀ a, g.t1 (o.rev a) = neg (g.t0 a)
  rev_line : ∀ a, o.isLine (o.rev a) = o.isLine a
  /-- Line–Line elbow: trimmed lines keep their far ends and directions, are Lines, and the three pieces join smoothly -/
  ll : ∀ a b, o.isLine a = true → o.isLine b = true → g.en a = g.st b →
    g.st (o.lineLine a b).1 = g.st a ∧ g.t0 (o.lineLine a b).1 = g.t0 a ∧
    Ok g R (o.lineLine a b).1 (o.lineLine a b).2.1 ∧ Ok g R (o.lineLine a b).2.1 (o.lineLine a b).2.2 ∧
    g.en (o.lineLine a b).2.2 = g.en b ∧ g.t1 (o.lineLine a b).2.2 = g.t1 b ∧
    o.isLine (o.lineLine a b).1 = true ∧ o.isLine (o.lineLine a b).2.2 = true
  /-- Line–curve elbow: the line is trimmed, the elbow runs into the untouched curve -/
  lc : ∀ a b, o.isLine a = true → g.en a = g.st b →
    g.st (o.lineCurve a b).1 = g.st a ∧ g.t0 (o.lineCurve a b).1 = g.t0 a ∧
    Ok g R (o.lineCurve a b).1 (o.lineCurve a b).2 ∧ Ok g R (o.lineCurve a b).2 b ∧
    o.isLine (o.lineCurve a b).1 = true
  /-- `cropped(0, t)` keeps the start point and start tangent; `cropped(t, 1)` the end ones; crops of curves are curves -/
  cropHead_st : ∀ a b, g.st (o.cropHead a b) = g.st a
  cropHead_t0 : ∀ a b, g.t0 (o.cropHead a b) = g.t0 a
  cropHead_curve : ∀ a b, o.isLine a = false → o.isLine (o.cropHead a b) = false
  cropTail_en : ∀ a b, g.en (o.cropTail a b) = g.en b
  cropTail_t1 : ∀ a b, g.t1 (o.cropTail a b) = g.t1 b
  cropTail_curve : ∀ a b, o.isLine b = false → o.isLine (o.cropTail a b) = false
  /-- `Line(p.end, seg0.end)` and `Line(seg0.end, p.start)` -/
  toJoint_st : ∀ p s, g.st (o.lineToJoint p s) = g.en p
  toJoint_en : ∀ p s, g.en (o.lineToJoint p s) = g.en s
  toJoint_line : ∀ p s, o.isLine (o.lineToJoint p s) = true
  fromJoint_st : ∀ p s, g.st (o.lineFromJoint p s) = g.en s
  fromJoint_en : ∀ p s, g.en (o.lineFromJoint p s) = g.st p
  fromJoint_line : ∀ p s, o.isLine (o.lineFromJoint p s) = true

/-! ### the four branches as explicit terms -/

/-- Line–Line branch -/
def llJ (o : JointOps σ) (a b : σ) : σ × List σ × σ :=
  ((o.lineLine a b).1, [(o.lineLine a b).2.1], (o.lineLine a b).2.2)

/-- Line–curve branch -/
def lcJ (o : JointOps σ) (a b : σ) : σ × List σ × σ :=
  ((o.lineCurve a b).1, [(o.lineCurve a b).2], b)

/-- curve–Line branch: the Line–curve construction on the reversed pair, reversed back -/
def clJ (o : JointOps σ) (a b : σ) : σ × List σ × σ :=
  (a, [o.rev (o.lineCurve (o.rev b) (o.rev a)).2], o.rev (o.lineCurve (o.rev b) (o.rev a)).1)

/-- curve–curve branch: crop both curves, bridge the crop points to the joint point with two Lines,
smooth curve–Line, Line–Line and Line–curve -/
def ccJ (o : JointOps σ) (a b : σ) : σ × List σ × σ :=
  let a' := o.cropHead a b
  let b' := o.cropTail a b
  let l0 := o.lineToJoint a' a
  let l1 := o.lineFromJoint b' a
  let r0 := clJ o a' l0
  let r1 := lcJ o l1 b'
  let rq := llJ o r0.2.2 r1.1
  (a', r0.2.1 ++ [rq.1] ++ rq.2.1 ++ [rq.2.2] ++ r1.2.1, b')

theorem smoothedJoint_lineLine (o : JointOps σ) (a b : σ)
    (ha : o.isLine a = true) (hb : o.isLine b = true) :
    smoothedJoint o a b = ((o.lineLine a b).1, [(o.lineLine a b).2.1], (o.lineLine a b).2.2) := by
  simp [smoothedJoint, ha, hb]

theorem smoothedJoint_lineCurve (o : JointOps σ) (a b : σ)
    (ha : o.isLine a = true) (hb : o.isLine b = false) :
    smoothedJoint o a b = ((o.lineCurve a b).1, [(o.lineCurve a b).2], b) := by
  simp [smoothedJoint, ha, hb]

theorem smoothedJoint_curveLine (o : JointOps σ) (a b : σ)
    (ha : o.isLine a = false) (hb : o.isLine b = true) :
    smoothedJoint o a b =
      (a, [o.rev (o.lineCurve (o.rev b) (o.rev a)).2], o.rev (o.lineCurve (o.rev b) (o.rev a)).1) := by
  simp [smoothedJoint, ha, hb]

/-- the curve–curve case spelled out: 5 elbow pieces between the two cropped curves -/
theorem smoothedJoint_curveCurve (o : JointOps σ) (a b : σ)
    (ha : o.isLine a = false) (hb : o.isLine b = false) :
    smoothedJoint o a b =
      (o.cropHead a b,
       [ o.rev (o.lineCurve (o.rev (o.lineToJoint (o.cropHead a b) a)) (o.rev (o.cropHead a b))).2,
         (o.lineLine
            (o.rev (o.lineCurve (o.rev (o.lineToJoint (o.cropHead a b) a)) (o.rev (o.cropHead a b))).1)
            (o.lineCurve (o.lineFromJoint (o.cropTail a b) a) (o.cropTail a b)).1).1,
         (o.lineLine
            (o.rev (o.lineCurve (o.rev (o.lineToJoint (o.cropHead a b) a)) (o.rev (o.cropHead a b))).1)
            (o.lineCurve (o.lineFromJoint (o.cropTail a b) a) (o.cropTail a b)).1).2.1,
         (o.lineLine
            (o.rev (o.lineCurve (o.rev (o.lineToJoint (o.cropHead a b) a)) (o.rev (o.cropHead a b))).1)
            (o.lineCurve (o.lineFromJoint (o.cropTail a b) a) (o.cropTail a b)).1).2.2,
         (o.lineCurve (o.lineFromJoint (o.cropTail a b) a) (o.cropTail a b)).2 ],
       o.cropTail a b) := by
  simp [smoothedJoint, ha, hb]

/-- the same, through the named branches -/
theorem smoothedJoint_eq (o : JointOps σ) (a b : σ) :
    smoothedJoint o a b =
      if o.isLine a && o.isLine b then llJ o a b
      else if o.isLine a then lcJ o a b
      else if o.isLine b then clJ o a b
      else ccJ o a b := by
  cases ha : o.isLine a <;> cases hb : o.isLine b <;>
    simp [smoothedJoint, llJ, lcJ, clJ, ccJ, ha, hb]

/-! ### each branch meets the contract -/

/-- the result `r` starts as `a`, ends as `b`, and has no kink in between -/
def Good (g : Geo σ Pt Tn) (R : Tn → Tn → Prop) (a b : σ) (r : σ × List σ × σ) : Prop :=
  g.st r.1 = g.st a ∧ g.t0 r.1 = g.t0 a ∧
  List.IsChain (Ok g R) (r.1 :: r.2.1 ++ [r.2.2]) ∧
  g.en r.2.2 = g.en b ∧ g.t1 r.2.2 = g.t1 b

section
variable {g : Geo σ Pt Tn} {R : Tn → Tn → Prop} {neg : Tn → Tn} {o : JointOps σ}

theorem llJ_good (h : OpsContract g R neg o) (a b : σ)
    (ha : o.isLine a = true) (hb : o.isLine b = true) (hj : g.en a = g.st b) :
    Good g R a b (llJ o a b) := by
  obtain ⟨h1, h2, h3, h4, h5, h6, -, -⟩ := h.ll a b ha hb hj
  simp [Good, llJ, h1, h2, h3, h4, h5, h6]

theorem lcJ_good (h : OpsContract g R neg o) (a b : σ)
    (ha : o.isLine a = true) (hj : g.en a = g.st b) :
    Good g R a b (lcJ o a b) := by
  obtain ⟨h1, h2, h3, h4, -⟩ := h.lc a b ha hj
  simp [Good, lcJ, h1, h2, h3, h4]

/-- reversing a smooth junction gives a smooth junction -/
theorem ok_rev (h : OpsContract g R neg o) {x y : σ} (hxy : Ok g R x y) :
    Ok g R (o.rev y) (o.rev x) := by
  refine ⟨?_, ?_⟩
  · rw [h.rev_en, h.rev_st]; exact hxy.1.symm
  · rw [h.rev_t1, h.rev_t0]; exact h.R_neg _ _ hxy.2

/-- a smooth junction into `rev a`, reversed, is a smooth junction out of `a` -/
theorem ok_rev_left (h : OpsContract g R neg o) {x a : σ} (hxa : Ok g R x (o.rev a)) :
    Ok g R a (o.rev x) := by
  refine ⟨?_, ?_⟩
  · rw [h.rev_st, hxa.1, h.rev_st]
  · have := h.R_neg _ _ hxa.2
    rw [h.rev_t0, h.neg_neg] at this
    rw [h.rev_t0]; exact this

/-- the pieces of the curve–Line branch, one by one -/
theorem clJ_parts (h : OpsContract g R neg o) (a b : σ)
    (hb : o.isLine b = true) (hj : g.en a = g.st b) :
    Ok g R a (o.rev (o.lineCurve (o.rev b) (o.rev a)).2) ∧
    Ok g R (o.rev (o.lineCurve (o.rev b) (o.rev a)).2) (o.rev (o.lineCurve (o.rev b) (o.rev a)).1) ∧
    g.en (o.rev (o.lineCurve (o.rev b) (o.rev a)).1) = g.en b ∧
    g.t1 (o.rev (o.lineCurve (o.rev b) (o.rev a)).1) = g.t1 b ∧
    o.isLine (o.rev (o.lineCurve (o.rev b) (o.rev a)).1) = true := by
  have hb' : o.isLine (o.rev b) = true := by rw [h.rev_line]; exact hb
  have hj' : g.en (o.rev b) = g.st (o.rev a) := by rw [h.rev_en, h.rev_st]; exact hj.symm
  obtain ⟨h1, h2, h3, h4, h5⟩ := h.lc (o.rev b) (o.rev a) hb' hj'
  refine ⟨ok_rev_left h h4, ok_rev h h3, ?_, ?_, ?_⟩
  · rw [h.rev_en, h1, h.rev_st]
  · rw [h.rev_t1, h2, h.rev_t0, h.neg_neg]
  · rw [h.rev_line]; exact h5

theorem clJ_good (h : OpsContract g R neg o) (a b : σ)
    (hb : o.isLine b = true) (hj : g.en a = g.st b) :
    Good g R a b (clJ o a b) := by
  obtain ⟨h1, h2, h3, h4, -⟩ := clJ_parts h a b hb hj
  simp [Good, clJ, h1, h2, h3, h4]

/-- curve–curve: no hypothesis on the kinds is needed — the three sub-joints are all applied to pairs
containing one of the two bridging Lines -/
theorem ccJ_good (h : OpsContract g R neg o) (a b : σ) :
    Good g R a b (ccJ o a b) := by
  -- curve–Line joint of (cropped seg0, Line to the joint point)
  obtain ⟨c1, c2, c3, c4, c5⟩ :=
    clJ_parts h (o.cropHead a b) (o.lineToJoint (o.cropHead a b) a)
      (h.toJoint_line _ _) (h.toJoint_st _ _).symm
  -- Line–curve joint of (Line from the joint point, cropped seg1)
  obtain ⟨d1, d2, d3, d4, d5⟩ :=
    h.lc (o.lineFromJoint (o.cropTail a b) a) (o.cropTail a b)
      (h.fromJoint_line _ _) (h.fromJoint_en _ _)
  -- Line–Line joint of the two trimmed bridging Lines, which meet at the joint point
  have hq : g.en (o.rev (o.lineCurve (o.rev (o.lineToJoint (o.cropHead a b) a)) (o.rev (o.cropHead a b))).1)
      = g.st (o.lineCurve (o.lineFromJoint (o.cropTail a b) a) (o.cropTail a b)).1 := by
    rw [c3, d1, h.toJoint_en, h.fromJoint_st]
  obtain ⟨e1, e2, e3, e4, e5, e6, -, -⟩ := h.ll _ _ c5 d5 hq
  have k1 : Ok g R (o.rev (o.lineCurve (o.rev (o.lineToJoint (o.cropHead a b) a)) (o.rev (o.cropHead a b))).2)
      (o.lineLine
        (o.rev (o.lineCurve (o.rev (o.lineToJoint (o.cropHead a b) a)) (o.rev (o.cropHead a b))).1)
        (o.lineCurve (o.lineFromJoint (o.cropTail a b) a) (o.cropTail a b)).1).1 := by
    refine ⟨?_, ?_⟩
    · rw [e1]; exact c2.1
    · rw [e2]; exact c2.2
  have k2 : Ok g R
      (o.lineLine
        (o.rev (o.lineCurve (o.rev (o.lineToJoint (o.cropHead a b) a)) (o.rev (o.cropHead a b))).1)
        (o.lineCurve (o.lineFromJoint (o.cropTail a b) a) (o.cropTail a b)).1).2.2
      (o.lineCurve (o.lineFromJoint (o.cropTail a b) a) (o.cropTail a b)).2 := by
    refine ⟨?_, ?_⟩
    · rw [e5]; exact d3.1
    · rw [e6]; exact d3.2
  simp [Good, ccJ, clJ, lcJ, llJ, c1, k1, e3, e4, k2, d4, h.cropHead_st, h.cropHead_t0,
    h.cropTail_en, h.cropTail_t1]

end

/-- for every pair of consecutive segments, whatever their kinds, `smoothed_joint` returns pieces that
start where and as `seg0` starts, end where and as `seg1` ends, and have no kink in between -/
theorem smoothedJoint_contract (g : Geo σ Pt Tn) (R : Tn → Tn → Prop) (neg : Tn → Tn) (o : JointOps σ)
    (h : OpsContract g R neg o) (seg0 seg1 : σ) (hjoin : g.en seg0 = g.st seg1) :
    g.st (smoothedJoint o seg0 seg1).1 = g.st seg0 ∧ g.t0 (smoothedJoint o seg0 seg1).1 = g.t0 seg0 ∧
    List.IsChain (Ok g R) ((smoothedJoint o seg0 seg1).1 :: (smoothedJoint o seg0 seg1).2.1 ++ [(smoothedJoint o seg0 seg1).2.2]) ∧
    g.en (smoothedJoint o seg0 seg1).2.2 = g.en seg1 ∧ g.t1 (smoothedJoint o seg0 seg1).2.2 = g.t1 seg1 := by
  change Good g R seg0 seg1 (smoothedJoint o seg0 seg1)
  rw [smoothedJoint_eq]
  cases h0 : o.isLine seg0 <;> cases h1 : o.isLine seg1 <;> simp only [Bool.and_self, Bool.and_true,
    Bool.and_false, Bool.false_eq_true, if_true, if_false]
  · exact ccJ_good h seg0 seg1
  · exact clJ_good h seg0 seg1 h1 hjoin
  · exact lcJ_good h seg0 seg1 h0 hjoin
  · exact llJ_good h seg0 seg1 h0 h1 hjoin

/-- the number of pieces: 3 when a Line is involved, 7 for two curves -/
theorem smoothedJoint_elbow_length (o : JointOps σ) (a b : σ) :
    (smoothedJoint o a b).2.1.length = if o.isLine a || o.isLine b then 1 else 5 := by
  cases ha : o.isLine a <;> cases hb : o.isLine b <;> simp [smoothedJoint, ha, hb]

/-! ### non-vacuity: a toy model of segments on the integer line that meets the whole contract -/

/-- a 1-D "segment": kind, start / end abscissa, start / end direction -/
structure Toy where
  line : Bool
  s : Int
  e : Int
  d0 : Int
  d1 : Int
  deriving DecidableEq, Repr

def toyGeo : Geo Toy Int Int := ⟨Toy.s, Toy.e, Toy.d0, Toy.d1⟩

def toyOps : JointOps Toy where
  isLine := Toy.line
  rev x := ⟨x.line, x.e, x.s, -x.d1, -x.d0⟩
  lineLine a b := (⟨true, a.s, a.e, a.d0, a.d0⟩, ⟨false, a.e, b.s, a.d0, b.d1⟩, ⟨true, b.s, b.e, b.d1, b.d1⟩)
  lineCurve a b := (⟨true, a.s, a.e, a.d0, a.d0⟩, ⟨false, a.e, b.s, a.d0, b.d0⟩)
  cropHead a _ := ⟨a.line, a.s, a.e - 1, a.d0, a.d0⟩
  cropTail _ b := ⟨b.line, b.s + 1, b.e, b.d1, b.d1⟩
  lineToJoint p q := ⟨true, p.e, q.e, 1, 1⟩
  lineFromJoint p q := ⟨true, q.e, p.s, 1, 1⟩

/-- the contract is satisfiable, with `R` = equality of directions (so a kink is really excluded) -/
theorem toy_contract : OpsContract toyGeo Eq (fun x => -x) toyOps where
  neg_neg := by intro x; simp
  R_neg := by intro x y hxy; simp [hxy]
  rev_st := by intro a; rfl
  rev_en := by intro a; rfl
  rev_t0 := by intro a; rfl
  rev_t1 := by intro a; rfl
  rev_line := by intro a; rfl
  ll := by intro a b ha hb hj; simp_all [toyGeo, toyOps, Ok]
  lc := by intro a b ha hj; simp_all [toyGeo, toyOps, Ok]
  cropHead_st := by intro a b; rfl
  cropHead_t0 := by intro a b; rfl
  cropHead_curve := by intro a b ha; simpa [toyOps] using ha
  cropTail_en := by intro a b; rfl
  cropTail_t1 := by intro a b; rfl
  cropTail_curve := by intro a b hb; simpa [toyOps] using hb
  toJoint_st := by intro p s; rfl
  toJoint_en := by intro p s; rfl
  toJoint_line := by intro p s; rfl
  fromJoint_st := by intro p s; rfl
  fromJoint_en := by intro p s; rfl
  fromJoint_line := by intro p s; rfl

/-- two toy curves meeting at abscissa 5 with a kink (directions 1 and -1): the curve–curve case
produces 5 elbow pieces between the two cropped curves -/
example :
    smoothedJoint toyOps ⟨false, 0, 5, 1, 1⟩ ⟨false, 5, 9, -1, -1⟩ =
      (⟨false, 0, 4, 1, 1⟩,
       [⟨false, 4, 4, 1, 1⟩, ⟨true, 4, 5, 1, 1⟩, ⟨false, 5, 5, 1, 1⟩, ⟨true, 5, 6, 1, 1⟩,
        ⟨false, 6, 6, 1, -1⟩],
       ⟨false, 6, 9, -1, -1⟩) := by decide

example : (smoothedJoint toyOps ⟨false, 0, 5, 1, 1⟩ ⟨false, 5, 9, -1, -1⟩).2.1.length = 5 := by decide

/-- a toy Line followed by a toy curve: one elbow piece, the curve is untouched -/
example : (smoothedJoint toyOps ⟨true, 0, 5, 1, 1⟩ ⟨false, 5, 9, -1, -1⟩).2.1.length = 1 ∧
    (smoothedJoint toyOps ⟨true, 0, 5, 1, 1⟩ ⟨false, 5, 9, -1, -1⟩).2.2 = ⟨false, 5, 9, -1, -1⟩ := by
  decide

/-- the main theorem instantiated on the toy model (its hypotheses are jointly satisfiable) -/
example (a b : Toy) (hj : a.e = b.s) :
    List.IsChain (Ok toyGeo Eq)
      ((smoothedJoint toyOps a b).1 :: (smoothedJoint toyOps a b).2.1 ++ [(smoothedJoint toyOps a b).2.2]) :=
  (smoothedJoint_contract toyGeo Eq (fun x => -x) toyOps toy_contract a b hj).2.2.1

end SvgVerif.Props.C20Joint
