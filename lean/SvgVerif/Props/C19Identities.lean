import SvgVerif.Gen.C19
import SvgVerif.Spec.Bernstein
import Mathlib.Tactic.Ring
import Mathlib.Tactic.FieldSimp
import Mathlib.Algebra.CharZero.Defs
import Mathlib.Data.Nat.Choose.Basic
/-! # C19, polynomial identities, per degree 0..8

Bridge theorems between the definitions GENERATED from `svgpathtools/bezier.py`
(`SvgVerif.Gen.C19`) and the textbook Bernstein form (`SvgVerif.Spec`).  They hold
for every field of characteristic zero (so for ℚ, ℝ, ℂ) and all values of the
control points and parameters.  A semantic change to `bezier_point`,
`bezier2polynomial`, `polynomial2bezier`, `split_bezier` or `halve_bezier`
regenerates a different `Gen.C19` and the corresponding `ring` call fails. -/
namespace SvgVerif.Props.C19
open SvgVerif SvgVerif.Spec

set_option linter.unusedSectionVars false
set_option linter.unusedSimpArgs false
set_option linter.unusedVariables false
set_option linter.unusedTactic false
set_option linter.unreachableTactic false
set_option linter.unnecessarySeqFocus false

variable {K : Type} [Field K] [CharZero K]

/-- closes goals `[a₀,…] = [b₀,…]` componentwise by `ring` -/
macro "list_ring" : tactic =>
  `(tactic| (first | rfl | (simp only [List.cons.injEq, and_true] <;> (repeat' constructor) <;> ring)))

/-! ## degree 0 -/
theorem bezierPoint_0 (p0 t : K) :
    Gen.C19.bezier_point_0 p0 t = bernstein [p0] t := by
  simp [Gen.C19.bezier_point_0, bernstein, bernsteinAux, polyEval, Nat.choose] <;> ring

theorem bezierPoint_0_zero (p0 : K) : Gen.C19.bezier_point_0 p0 0 = p0 := by
  simp [Gen.C19.bezier_point_0]

theorem bezierPoint_0_one (p0 : K) : Gen.C19.bezier_point_0 p0 1 = p0 := by
  simp [Gen.C19.bezier_point_0] <;> ring

theorem b2pNp_0 (p0 t : K) :
    polyEval [Gen.C19.b2p_0_np_0 p0] t = bernstein [p0] t := by
  simp [Gen.C19.b2p_0_np_0, bernstein, bernsteinAux, polyEval, Nat.choose] <;> ring

theorem b2pStd_0 (p0 : K) :
    [Gen.C19.b2p_0_std_0 p0] = [Gen.C19.b2p_0_np_0 p0] := by
  simp only [Gen.C19.b2p_0_np_0, Gen.C19.b2p_0_std_0] <;> list_ring

/-! ## degree 1 -/
theorem bezierPoint_1 (p0 p1 t : K) :
    Gen.C19.bezier_point_1 p0 p1 t = bernstein [p0, p1] t := by
  simp [Gen.C19.bezier_point_1, bernstein, bernsteinAux, polyEval, Nat.choose] <;> ring

theorem bezierPoint_1_zero (p0 p1 : K) : Gen.C19.bezier_point_1 p0 p1 0 = p0 := by
  simp [Gen.C19.bezier_point_1]

theorem bezierPoint_1_one (p0 p1 : K) : Gen.C19.bezier_point_1 p0 p1 1 = p1 := by
  simp [Gen.C19.bezier_point_1] <;> ring

theorem b2pNp_1 (p0 p1 t : K) :
    polyEval [Gen.C19.b2p_1_np_0 p0 p1, Gen.C19.b2p_1_np_1 p0 p1] t = bernstein [p0, p1] t := by
  simp [Gen.C19.b2p_1_np_0, Gen.C19.b2p_1_np_1, bernstein, bernsteinAux, polyEval, Nat.choose] <;> ring

theorem b2pStd_1 (p0 p1 : K) :
    [Gen.C19.b2p_1_std_0 p0 p1, Gen.C19.b2p_1_std_1 p0 p1] = [Gen.C19.b2p_1_np_1 p0 p1, Gen.C19.b2p_1_np_0 p0 p1] := by
  simp only [Gen.C19.b2p_1_np_0, Gen.C19.b2p_1_np_1, Gen.C19.b2p_1_std_0, Gen.C19.b2p_1_std_1] <;> list_ring

theorem splitL_1 (p0 p1 t u : K) :
    bernstein [Gen.C19.split_1_L_0 p0 p1 t, Gen.C19.split_1_L_1 p0 p1 t] u = bernstein [p0, p1] (u * t) := by
  simp [Gen.C19.split_1_L_0, Gen.C19.split_1_L_1, bernstein, bernsteinAux, polyEval, Nat.choose] <;> ring

theorem splitR_1 (p0 p1 t u : K) :
    bernstein [Gen.C19.split_1_R_0 p0 p1 t, Gen.C19.split_1_R_1 p0 p1 t] u = bernstein [p0, p1] (t + u * (1 - t)) := by
  simp [Gen.C19.split_1_R_0, Gen.C19.split_1_R_1, bernstein, bernsteinAux, polyEval, Nat.choose] <;> ring

theorem halveIsSplit_1 (p0 p1 : K) :
    [Gen.C19.halve_1_L_0 p0 p1, Gen.C19.halve_1_L_1 p0 p1] = [Gen.C19.split_1_L_0 p0 p1 (1/2), Gen.C19.split_1_L_1 p0 p1 (1/2)] ∧
    [Gen.C19.halve_1_R_0 p0 p1, Gen.C19.halve_1_R_1 p0 p1] = [Gen.C19.split_1_R_0 p0 p1 (1/2), Gen.C19.split_1_R_1 p0 p1 (1/2)] := by
  simp only [Gen.C19.halve_1_L_0, Gen.C19.halve_1_R_0, Gen.C19.halve_1_L_1, Gen.C19.halve_1_R_1, Gen.C19.split_1_L_0, Gen.C19.split_1_L_1, Gen.C19.split_1_R_0, Gen.C19.split_1_R_1] <;> constructor <;> list_ring

theorem p2bCurve_1 (c0 c1 t : K) :
    bernstein [Gen.C19.p2b_1_0 c0 c1, Gen.C19.p2b_1_1 c0 c1] t = polyEval [c0, c1] t := by
  simp [Gen.C19.p2b_1_0, Gen.C19.p2b_1_1, bernstein, bernsteinAux, polyEval, Nat.choose] <;> ring

theorem p2bB2p_1 (p0 p1 : K) :
    [Gen.C19.p2b_1_0 (Gen.C19.b2p_1_np_0 p0 p1) (Gen.C19.b2p_1_np_1 p0 p1), Gen.C19.p2b_1_1 (Gen.C19.b2p_1_np_0 p0 p1) (Gen.C19.b2p_1_np_1 p0 p1)] = [p0, p1] := by
  simp only [Gen.C19.p2b_1_0, Gen.C19.p2b_1_1, Gen.C19.b2p_1_np_0, Gen.C19.b2p_1_np_1] <;> list_ring

theorem b2pP2b_1 (c0 c1 : K) :
    [Gen.C19.b2p_1_np_0 (Gen.C19.p2b_1_0 c0 c1) (Gen.C19.p2b_1_1 c0 c1), Gen.C19.b2p_1_np_1 (Gen.C19.p2b_1_0 c0 c1) (Gen.C19.p2b_1_1 c0 c1)] = [c0, c1] := by
  simp only [Gen.C19.p2b_1_0, Gen.C19.p2b_1_1, Gen.C19.b2p_1_np_0, Gen.C19.b2p_1_np_1] <;> list_ring

/-! ## degree 2 -/
theorem bezierPoint_2 (p0 p1 p2 t : K) :
    Gen.C19.bezier_point_2 p0 p1 p2 t = bernstein [p0, p1, p2] t := by
  simp [Gen.C19.bezier_point_2, bernstein, bernsteinAux, polyEval, Nat.choose] <;> ring

theorem bezierPoint_2_zero (p0 p1 p2 : K) : Gen.C19.bezier_point_2 p0 p1 p2 0 = p0 := by
  simp [Gen.C19.bezier_point_2]

theorem bezierPoint_2_one (p0 p1 p2 : K) : Gen.C19.bezier_point_2 p0 p1 p2 1 = p2 := by
  simp [Gen.C19.bezier_point_2] <;> ring

theorem b2pNp_2 (p0 p1 p2 t : K) :
    polyEval [Gen.C19.b2p_2_np_0 p0 p1 p2, Gen.C19.b2p_2_np_1 p0 p1 p2, Gen.C19.b2p_2_np_2 p0 p1 p2] t = bernstein [p0, p1, p2] t := by
  simp [Gen.C19.b2p_2_np_0, Gen.C19.b2p_2_np_1, Gen.C19.b2p_2_np_2, bernstein, bernsteinAux, polyEval, Nat.choose] <;> ring

theorem b2pStd_2 (p0 p1 p2 : K) :
    [Gen.C19.b2p_2_std_0 p0 p1 p2, Gen.C19.b2p_2_std_1 p0 p1 p2, Gen.C19.b2p_2_std_2 p0 p1 p2] = [Gen.C19.b2p_2_np_2 p0 p1 p2, Gen.C19.b2p_2_np_1 p0 p1 p2, Gen.C19.b2p_2_np_0 p0 p1 p2] := by
  simp only [Gen.C19.b2p_2_np_0, Gen.C19.b2p_2_np_1, Gen.C19.b2p_2_np_2, Gen.C19.b2p_2_std_0, Gen.C19.b2p_2_std_1, Gen.C19.b2p_2_std_2] <;> list_ring

theorem splitL_2 (p0 p1 p2 t u : K) :
    bernstein [Gen.C19.split_2_L_0 p0 p1 p2 t, Gen.C19.split_2_L_1 p0 p1 p2 t, Gen.C19.split_2_L_2 p0 p1 p2 t] u = bernstein [p0, p1, p2] (u * t) := by
  simp [Gen.C19.split_2_L_0, Gen.C19.split_2_L_1, Gen.C19.split_2_L_2, bernstein, bernsteinAux, polyEval, Nat.choose] <;> ring

theorem splitR_2 (p0 p1 p2 t u : K) :
    bernstein [Gen.C19.split_2_R_0 p0 p1 p2 t, Gen.C19.split_2_R_1 p0 p1 p2 t, Gen.C19.split_2_R_2 p0 p1 p2 t] u = bernstein [p0, p1, p2] (t + u * (1 - t)) := by
  simp [Gen.C19.split_2_R_0, Gen.C19.split_2_R_1, Gen.C19.split_2_R_2, bernstein, bernsteinAux, polyEval, Nat.choose] <;> ring

theorem halveIsSplit_2 (p0 p1 p2 : K) :
    [Gen.C19.halve_2_L_0 p0 p1 p2, Gen.C19.halve_2_L_1 p0 p1 p2, Gen.C19.halve_2_L_2 p0 p1 p2] = [Gen.C19.split_2_L_0 p0 p1 p2 (1/2), Gen.C19.split_2_L_1 p0 p1 p2 (1/2), Gen.C19.split_2_L_2 p0 p1 p2 (1/2)] ∧
    [Gen.C19.halve_2_R_0 p0 p1 p2, Gen.C19.halve_2_R_1 p0 p1 p2, Gen.C19.halve_2_R_2 p0 p1 p2] = [Gen.C19.split_2_R_0 p0 p1 p2 (1/2), Gen.C19.split_2_R_1 p0 p1 p2 (1/2), Gen.C19.split_2_R_2 p0 p1 p2 (1/2)] := by
  simp only [Gen.C19.halve_2_L_0, Gen.C19.halve_2_R_0, Gen.C19.halve_2_L_1, Gen.C19.halve_2_R_1, Gen.C19.halve_2_L_2, Gen.C19.halve_2_R_2, Gen.C19.split_2_L_0, Gen.C19.split_2_L_1, Gen.C19.split_2_L_2, Gen.C19.split_2_R_0, Gen.C19.split_2_R_1, Gen.C19.split_2_R_2] <;> constructor <;> list_ring

theorem p2bCurve_2 (c0 c1 c2 t : K) :
    bernstein [Gen.C19.p2b_2_0 c0 c1 c2, Gen.C19.p2b_2_1 c0 c1 c2, Gen.C19.p2b_2_2 c0 c1 c2] t = polyEval [c0, c1, c2] t := by
  simp [Gen.C19.p2b_2_0, Gen.C19.p2b_2_1, Gen.C19.p2b_2_2, bernstein, bernsteinAux, polyEval, Nat.choose] <;> ring

theorem p2bB2p_2 (p0 p1 p2 : K) :
    [Gen.C19.p2b_2_0 (Gen.C19.b2p_2_np_0 p0 p1 p2) (Gen.C19.b2p_2_np_1 p0 p1 p2) (Gen.C19.b2p_2_np_2 p0 p1 p2), Gen.C19.p2b_2_1 (Gen.C19.b2p_2_np_0 p0 p1 p2) (Gen.C19.b2p_2_np_1 p0 p1 p2) (Gen.C19.b2p_2_np_2 p0 p1 p2), Gen.C19.p2b_2_2 (Gen.C19.b2p_2_np_0 p0 p1 p2) (Gen.C19.b2p_2_np_1 p0 p1 p2) (Gen.C19.b2p_2_np_2 p0 p1 p2)] = [p0, p1, p2] := by
  simp only [Gen.C19.p2b_2_0, Gen.C19.p2b_2_1, Gen.C19.p2b_2_2, Gen.C19.b2p_2_np_0, Gen.C19.b2p_2_np_1, Gen.C19.b2p_2_np_2] <;> list_ring

theorem b2pP2b_2 (c0 c1 c2 : K) :
    [Gen.C19.b2p_2_np_0 (Gen.C19.p2b_2_0 c0 c1 c2) (Gen.C19.p2b_2_1 c0 c1 c2) (Gen.C19.p2b_2_2 c0 c1 c2), Gen.C19.b2p_2_np_1 (Gen.C19.p2b_2_0 c0 c1 c2) (Gen.C19.p2b_2_1 c0 c1 c2) (Gen.C19.p2b_2_2 c0 c1 c2), Gen.C19.b2p_2_np_2 (Gen.C19.p2b_2_0 c0 c1 c2) (Gen.C19.p2b_2_1 c0 c1 c2) (Gen.C19.p2b_2_2 c0 c1 c2)] = [c0, c1, c2] := by
  simp only [Gen.C19.p2b_2_0, Gen.C19.p2b_2_1, Gen.C19.p2b_2_2, Gen.C19.b2p_2_np_0, Gen.C19.b2p_2_np_1, Gen.C19.b2p_2_np_2] <;> list_ring

/-! ## degree 3 -/
theorem bezierPoint_3 (p0 p1 p2 p3 t : K) :
    Gen.C19.bezier_point_3 p0 p1 p2 p3 t = bernstein [p0, p1, p2, p3] t := by
  simp [Gen.C19.bezier_point_3, bernstein, bernsteinAux, polyEval, Nat.choose] <;> ring

theorem bezierPoint_3_zero (p0 p1 p2 p3 : K) : Gen.C19.bezier_point_3 p0 p1 p2 p3 0 = p0 := by
  simp [Gen.C19.bezier_point_3]

theorem bezierPoint_3_one (p0 p1 p2 p3 : K) : Gen.C19.bezier_point_3 p0 p1 p2 p3 1 = p3 := by
  simp [Gen.C19.bezier_point_3] <;> ring

theorem b2pNp_3 (p0 p1 p2 p3 t : K) :
    polyEval [Gen.C19.b2p_3_np_0 p0 p1 p2 p3, Gen.C19.b2p_3_np_1 p0 p1 p2 p3, Gen.C19.b2p_3_np_2 p0 p1 p2 p3, Gen.C19.b2p_3_np_3 p0 p1 p2 p3] t = bernstein [p0, p1, p2, p3] t := by
  simp [Gen.C19.b2p_3_np_0, Gen.C19.b2p_3_np_1, Gen.C19.b2p_3_np_2, Gen.C19.b2p_3_np_3, bernstein, bernsteinAux, polyEval, Nat.choose] <;> ring

theorem b2pStd_3 (p0 p1 p2 p3 : K) :
    [Gen.C19.b2p_3_std_0 p0 p1 p2 p3, Gen.C19.b2p_3_std_1 p0 p1 p2 p3, Gen.C19.b2p_3_std_2 p0 p1 p2 p3, Gen.C19.b2p_3_std_3 p0 p1 p2 p3] = [Gen.C19.b2p_3_np_3 p0 p1 p2 p3, Gen.C19.b2p_3_np_2 p0 p1 p2 p3, Gen.C19.b2p_3_np_1 p0 p1 p2 p3, Gen.C19.b2p_3_np_0 p0 p1 p2 p3] := by
  simp only [Gen.C19.b2p_3_np_0, Gen.C19.b2p_3_np_1, Gen.C19.b2p_3_np_2, Gen.C19.b2p_3_np_3, Gen.C19.b2p_3_std_0, Gen.C19.b2p_3_std_1, Gen.C19.b2p_3_std_2, Gen.C19.b2p_3_std_3] <;> list_ring

theorem splitL_3 (p0 p1 p2 p3 t u : K) :
    bernstein [Gen.C19.split_3_L_0 p0 p1 p2 p3 t, Gen.C19.split_3_L_1 p0 p1 p2 p3 t, Gen.C19.split_3_L_2 p0 p1 p2 p3 t, Gen.C19.split_3_L_3 p0 p1 p2 p3 t] u = bernstein [p0, p1, p2, p3] (u * t) := by
  simp [Gen.C19.split_3_L_0, Gen.C19.split_3_L_1, Gen.C19.split_3_L_2, Gen.C19.split_3_L_3, bernstein, bernsteinAux, polyEval, Nat.choose] <;> ring

theorem splitR_3 (p0 p1 p2 p3 t u : K) :
    bernstein [Gen.C19.split_3_R_0 p0 p1 p2 p3 t, Gen.C19.split_3_R_1 p0 p1 p2 p3 t, Gen.C19.split_3_R_2 p0 p1 p2 p3 t, Gen.C19.split_3_R_3 p0 p1 p2 p3 t] u = bernstein [p0, p1, p2, p3] (t + u * (1 - t)) := by
  simp [Gen.C19.split_3_R_0, Gen.C19.split_3_R_1, Gen.C19.split_3_R_2, Gen.C19.split_3_R_3, bernstein, bernsteinAux, polyEval, Nat.choose] <;> ring

theorem halveIsSplit_3 (p0 p1 p2 p3 : K) :
    [Gen.C19.halve_3_L_0 p0 p1 p2 p3, Gen.C19.halve_3_L_1 p0 p1 p2 p3, Gen.C19.halve_3_L_2 p0 p1 p2 p3, Gen.C19.halve_3_L_3 p0 p1 p2 p3] = [Gen.C19.split_3_L_0 p0 p1 p2 p3 (1/2), Gen.C19.split_3_L_1 p0 p1 p2 p3 (1/2), Gen.C19.split_3_L_2 p0 p1 p2 p3 (1/2), Gen.C19.split_3_L_3 p0 p1 p2 p3 (1/2)] ∧
    [Gen.C19.halve_3_R_0 p0 p1 p2 p3, Gen.C19.halve_3_R_1 p0 p1 p2 p3, Gen.C19.halve_3_R_2 p0 p1 p2 p3, Gen.C19.halve_3_R_3 p0 p1 p2 p3] = [Gen.C19.split_3_R_0 p0 p1 p2 p3 (1/2), Gen.C19.split_3_R_1 p0 p1 p2 p3 (1/2), Gen.C19.split_3_R_2 p0 p1 p2 p3 (1/2), Gen.C19.split_3_R_3 p0 p1 p2 p3 (1/2)] := by
  simp only [Gen.C19.halve_3_L_0, Gen.C19.halve_3_R_0, Gen.C19.halve_3_L_1, Gen.C19.halve_3_R_1, Gen.C19.halve_3_L_2, Gen.C19.halve_3_R_2, Gen.C19.halve_3_L_3, Gen.C19.halve_3_R_3, Gen.C19.split_3_L_0, Gen.C19.split_3_L_1, Gen.C19.split_3_L_2, Gen.C19.split_3_L_3, Gen.C19.split_3_R_0, Gen.C19.split_3_R_1, Gen.C19.split_3_R_2, Gen.C19.split_3_R_3] <;> constructor <;> list_ring

theorem p2bCurve_3 (c0 c1 c2 c3 t : K) :
    bernstein [Gen.C19.p2b_3_0 c0 c1 c2 c3, Gen.C19.p2b_3_1 c0 c1 c2 c3, Gen.C19.p2b_3_2 c0 c1 c2 c3, Gen.C19.p2b_3_3 c0 c1 c2 c3] t = polyEval [c0, c1, c2, c3] t := by
  simp [Gen.C19.p2b_3_0, Gen.C19.p2b_3_1, Gen.C19.p2b_3_2, Gen.C19.p2b_3_3, bernstein, bernsteinAux, polyEval, Nat.choose] <;> ring

theorem p2bB2p_3 (p0 p1 p2 p3 : K) :
    [Gen.C19.p2b_3_0 (Gen.C19.b2p_3_np_0 p0 p1 p2 p3) (Gen.C19.b2p_3_np_1 p0 p1 p2 p3) (Gen.C19.b2p_3_np_2 p0 p1 p2 p3) (Gen.C19.b2p_3_np_3 p0 p1 p2 p3), Gen.C19.p2b_3_1 (Gen.C19.b2p_3_np_0 p0 p1 p2 p3) (Gen.C19.b2p_3_np_1 p0 p1 p2 p3) (Gen.C19.b2p_3_np_2 p0 p1 p2 p3) (Gen.C19.b2p_3_np_3 p0 p1 p2 p3), Gen.C19.p2b_3_2 (Gen.C19.b2p_3_np_0 p0 p1 p2 p3) (Gen.C19.b2p_3_np_1 p0 p1 p2 p3) (Gen.C19.b2p_3_np_2 p0 p1 p2 p3) (Gen.C19.b2p_3_np_3 p0 p1 p2 p3), Gen.C19.p2b_3_3 (Gen.C19.b2p_3_np_0 p0 p1 p2 p3) (Gen.C19.b2p_3_np_1 p0 p1 p2 p3) (Gen.C19.b2p_3_np_2 p0 p1 p2 p3) (Gen.C19.b2p_3_np_3 p0 p1 p2 p3)] = [p0, p1, p2, p3] := by
  simp only [Gen.C19.p2b_3_0, Gen.C19.p2b_3_1, Gen.C19.p2b_3_2, Gen.C19.p2b_3_3, Gen.C19.b2p_3_np_0, Gen.C19.b2p_3_np_1, Gen.C19.b2p_3_np_2, Gen.C19.b2p_3_np_3] <;> list_ring

theorem b2pP2b_3 (c0 c1 c2 c3 : K) :
    [Gen.C19.b2p_3_np_0 (Gen.C19.p2b_3_0 c0 c1 c2 c3) (Gen.C19.p2b_3_1 c0 c1 c2 c3) (Gen.C19.p2b_3_2 c0 c1 c2 c3) (Gen.C19.p2b_3_3 c0 c1 c2 c3), Gen.C19.b2p_3_np_1 (Gen.C19.p2b_3_0 c0 c1 c2 c3) (Gen.C19.p2b_3_1 c0 c1 c2 c3) (Gen.C19.p2b_3_2 c0 c1 c2 c3) (Gen.C19.p2b_3_3 c0 c1 c2 c3), Gen.C19.b2p_3_np_2 (Gen.C19.p2b_3_0 c0 c1 c2 c3) (Gen.C19.p2b_3_1 c0 c1 c2 c3) (Gen.C19.p2b_3_2 c0 c1 c2 c3) (Gen.C19.p2b_3_3 c0 c1 c2 c3), Gen.C19.b2p_3_np_3 (Gen.C19.p2b_3_0 c0 c1 c2 c3) (Gen.C19.p2b_3_1 c0 c1 c2 c3) (Gen.C19.p2b_3_2 c0 c1 c2 c3) (Gen.C19.p2b_3_3 c0 c1 c2 c3)] = [c0, c1, c2, c3] := by
  simp only [Gen.C19.p2b_3_0, Gen.C19.p2b_3_1, Gen.C19.p2b_3_2, Gen.C19.p2b_3_3, Gen.C19.b2p_3_np_0, Gen.C19.b2p_3_np_1, Gen.C19.b2p_3_np_2, Gen.C19.b2p_3_np_3] <;> list_ring

/-! ## degree 4 -/
theorem bezierPoint_4 (p0 p1 p2 p3 p4 t : K) :
    Gen.C19.bezier_point_4 p0 p1 p2 p3 p4 t = bernstein [p0, p1, p2, p3, p4] t := by
  simp [Gen.C19.bezier_point_4, bernstein, bernsteinAux, polyEval, Nat.choose] <;> ring

theorem bezierPoint_4_zero (p0 p1 p2 p3 p4 : K) : Gen.C19.bezier_point_4 p0 p1 p2 p3 p4 0 = p0 := by
  simp [Gen.C19.bezier_point_4]

theorem bezierPoint_4_one (p0 p1 p2 p3 p4 : K) : Gen.C19.bezier_point_4 p0 p1 p2 p3 p4 1 = p4 := by
  simp [Gen.C19.bezier_point_4] <;> ring

theorem b2pNp_4 (p0 p1 p2 p3 p4 t : K) :
    polyEval [Gen.C19.b2p_4_np_0 p0 p1 p2 p3 p4, Gen.C19.b2p_4_np_1 p0 p1 p2 p3 p4, Gen.C19.b2p_4_np_2 p0 p1 p2 p3 p4, Gen.C19.b2p_4_np_3 p0 p1 p2 p3 p4, Gen.C19.b2p_4_np_4 p0 p1 p2 p3 p4] t = bernstein [p0, p1, p2, p3, p4] t := by
  simp [Gen.C19.b2p_4_np_0, Gen.C19.b2p_4_np_1, Gen.C19.b2p_4_np_2, Gen.C19.b2p_4_np_3, Gen.C19.b2p_4_np_4, bernstein, bernsteinAux, polyEval, Nat.choose] <;> ring

theorem b2pStd_4 (p0 p1 p2 p3 p4 : K) :
    [Gen.C19.b2p_4_std_0 p0 p1 p2 p3 p4, Gen.C19.b2p_4_std_1 p0 p1 p2 p3 p4, Gen.C19.b2p_4_std_2 p0 p1 p2 p3 p4, Gen.C19.b2p_4_std_3 p0 p1 p2 p3 p4, Gen.C19.b2p_4_std_4 p0 p1 p2 p3 p4] = [Gen.C19.b2p_4_np_4 p0 p1 p2 p3 p4, Gen.C19.b2p_4_np_3 p0 p1 p2 p3 p4, Gen.C19.b2p_4_np_2 p0 p1 p2 p3 p4, Gen.C19.b2p_4_np_1 p0 p1 p2 p3 p4, Gen.C19.b2p_4_np_0 p0 p1 p2 p3 p4] := by
  simp only [Gen.C19.b2p_4_np_0, Gen.C19.b2p_4_np_1, Gen.C19.b2p_4_np_2, Gen.C19.b2p_4_np_3, Gen.C19.b2p_4_np_4, Gen.C19.b2p_4_std_0, Gen.C19.b2p_4_std_1, Gen.C19.b2p_4_std_2, Gen.C19.b2p_4_std_3, Gen.C19.b2p_4_std_4] <;> list_ring

theorem splitL_4 (p0 p1 p2 p3 p4 t u : K) :
    bernstein [Gen.C19.split_4_L_0 p0 p1 p2 p3 p4 t, Gen.C19.split_4_L_1 p0 p1 p2 p3 p4 t, Gen.C19.split_4_L_2 p0 p1 p2 p3 p4 t, Gen.C19.split_4_L_3 p0 p1 p2 p3 p4 t, Gen.C19.split_4_L_4 p0 p1 p2 p3 p4 t] u = bernstein [p0, p1, p2, p3, p4] (u * t) := by
  simp [Gen.C19.split_4_L_0, Gen.C19.split_4_L_1, Gen.C19.split_4_L_2, Gen.C19.split_4_L_3, Gen.C19.split_4_L_4, bernstein, bernsteinAux, polyEval, Nat.choose] <;> ring

theorem splitR_4 (p0 p1 p2 p3 p4 t u : K) :
    bernstein [Gen.C19.split_4_R_0 p0 p1 p2 p3 p4 t, Gen.C19.split_4_R_1 p0 p1 p2 p3 p4 t, Gen.C19.split_4_R_2 p0 p1 p2 p3 p4 t, Gen.C19.split_4_R_3 p0 p1 p2 p3 p4 t, Gen.C19.split_4_R_4 p0 p1 p2 p3 p4 t] u = bernstein [p0, p1, p2, p3, p4] (t + u * (1 - t)) := by
  simp [Gen.C19.split_4_R_0, Gen.C19.split_4_R_1, Gen.C19.split_4_R_2, Gen.C19.split_4_R_3, Gen.C19.split_4_R_4, bernstein, bernsteinAux, polyEval, Nat.choose] <;> ring

theorem halveIsSplit_4 (p0 p1 p2 p3 p4 : K) :
    [Gen.C19.halve_4_L_0 p0 p1 p2 p3 p4, Gen.C19.halve_4_L_1 p0 p1 p2 p3 p4, Gen.C19.halve_4_L_2 p0 p1 p2 p3 p4, Gen.C19.halve_4_L_3 p0 p1 p2 p3 p4, Gen.C19.halve_4_L_4 p0 p1 p2 p3 p4] = [Gen.C19.split_4_L_0 p0 p1 p2 p3 p4 (1/2), Gen.C19.split_4_L_1 p0 p1 p2 p3 p4 (1/2), Gen.C19.split_4_L_2 p0 p1 p2 p3 p4 (1/2), Gen.C19.split_4_L_3 p0 p1 p2 p3 p4 (1/2), Gen.C19.split_4_L_4 p0 p1 p2 p3 p4 (1/2)] ∧
    [Gen.C19.halve_4_R_0 p0 p1 p2 p3 p4, Gen.C19.halve_4_R_1 p0 p1 p2 p3 p4, Gen.C19.halve_4_R_2 p0 p1 p2 p3 p4, Gen.C19.halve_4_R_3 p0 p1 p2 p3 p4, Gen.C19.halve_4_R_4 p0 p1 p2 p3 p4] = [Gen.C19.split_4_R_0 p0 p1 p2 p3 p4 (1/2), Gen.C19.split_4_R_1 p0 p1 p2 p3 p4 (1/2), Gen.C19.split_4_R_2 p0 p1 p2 p3 p4 (1/2), Gen.C19.split_4_R_3 p0 p1 p2 p3 p4 (1/2), Gen.C19.split_4_R_4 p0 p1 p2 p3 p4 (1/2)] := by
  simp only [Gen.C19.halve_4_L_0, Gen.C19.halve_4_R_0, Gen.C19.halve_4_L_1, Gen.C19.halve_4_R_1, Gen.C19.halve_4_L_2, Gen.C19.halve_4_R_2, Gen.C19.halve_4_L_3, Gen.C19.halve_4_R_3, Gen.C19.halve_4_L_4, Gen.C19.halve_4_R_4, Gen.C19.split_4_L_0, Gen.C19.split_4_L_1, Gen.C19.split_4_L_2, Gen.C19.split_4_L_3, Gen.C19.split_4_L_4, Gen.C19.split_4_R_0, Gen.C19.split_4_R_1, Gen.C19.split_4_R_2, Gen.C19.split_4_R_3, Gen.C19.split_4_R_4] <;> constructor <;> list_ring

/-! ## degree 5 -/
theorem bezierPoint_5 (p0 p1 p2 p3 p4 p5 t : K) :
    Gen.C19.bezier_point_5 p0 p1 p2 p3 p4 p5 t = bernstein [p0, p1, p2, p3, p4, p5] t := by
  simp [Gen.C19.bezier_point_5, bernstein, bernsteinAux, polyEval, Nat.choose] <;> ring

theorem bezierPoint_5_zero (p0 p1 p2 p3 p4 p5 : K) : Gen.C19.bezier_point_5 p0 p1 p2 p3 p4 p5 0 = p0 := by
  simp [Gen.C19.bezier_point_5]

theorem bezierPoint_5_one (p0 p1 p2 p3 p4 p5 : K) : Gen.C19.bezier_point_5 p0 p1 p2 p3 p4 p5 1 = p5 := by
  simp [Gen.C19.bezier_point_5] <;> ring

theorem b2pNp_5 (p0 p1 p2 p3 p4 p5 t : K) :
    polyEval [Gen.C19.b2p_5_np_0 p0 p1 p2 p3 p4 p5, Gen.C19.b2p_5_np_1 p0 p1 p2 p3 p4 p5, Gen.C19.b2p_5_np_2 p0 p1 p2 p3 p4 p5, Gen.C19.b2p_5_np_3 p0 p1 p2 p3 p4 p5, Gen.C19.b2p_5_np_4 p0 p1 p2 p3 p4 p5, Gen.C19.b2p_5_np_5 p0 p1 p2 p3 p4 p5] t = bernstein [p0, p1, p2, p3, p4, p5] t := by
  simp [Gen.C19.b2p_5_np_0, Gen.C19.b2p_5_np_1, Gen.C19.b2p_5_np_2, Gen.C19.b2p_5_np_3, Gen.C19.b2p_5_np_4, Gen.C19.b2p_5_np_5, bernstein, bernsteinAux, polyEval, Nat.choose] <;> ring

theorem b2pStd_5 (p0 p1 p2 p3 p4 p5 : K) :
    [Gen.C19.b2p_5_std_0 p0 p1 p2 p3 p4 p5, Gen.C19.b2p_5_std_1 p0 p1 p2 p3 p4 p5, Gen.C19.b2p_5_std_2 p0 p1 p2 p3 p4 p5, Gen.C19.b2p_5_std_3 p0 p1 p2 p3 p4 p5, Gen.C19.b2p_5_std_4 p0 p1 p2 p3 p4 p5, Gen.C19.b2p_5_std_5 p0 p1 p2 p3 p4 p5] = [Gen.C19.b2p_5_np_5 p0 p1 p2 p3 p4 p5, Gen.C19.b2p_5_np_4 p0 p1 p2 p3 p4 p5, Gen.C19.b2p_5_np_3 p0 p1 p2 p3 p4 p5, Gen.C19.b2p_5_np_2 p0 p1 p2 p3 p4 p5, Gen.C19.b2p_5_np_1 p0 p1 p2 p3 p4 p5, Gen.C19.b2p_5_np_0 p0 p1 p2 p3 p4 p5] := by
  simp only [Gen.C19.b2p_5_np_0, Gen.C19.b2p_5_np_1, Gen.C19.b2p_5_np_2, Gen.C19.b2p_5_np_3, Gen.C19.b2p_5_np_4, Gen.C19.b2p_5_np_5, Gen.C19.b2p_5_std_0, Gen.C19.b2p_5_std_1, Gen.C19.b2p_5_std_2, Gen.C19.b2p_5_std_3, Gen.C19.b2p_5_std_4, Gen.C19.b2p_5_std_5] <;> list_ring

theorem splitL_5 (p0 p1 p2 p3 p4 p5 t u : K) :
    bernstein [Gen.C19.split_5_L_0 p0 p1 p2 p3 p4 p5 t, Gen.C19.split_5_L_1 p0 p1 p2 p3 p4 p5 t, Gen.C19.split_5_L_2 p0 p1 p2 p3 p4 p5 t, Gen.C19.split_5_L_3 p0 p1 p2 p3 p4 p5 t, Gen.C19.split_5_L_4 p0 p1 p2 p3 p4 p5 t, Gen.C19.split_5_L_5 p0 p1 p2 p3 p4 p5 t] u = bernstein [p0, p1, p2, p3, p4, p5] (u * t) := by
  simp [Gen.C19.split_5_L_0, Gen.C19.split_5_L_1, Gen.C19.split_5_L_2, Gen.C19.split_5_L_3, Gen.C19.split_5_L_4, Gen.C19.split_5_L_5, bernstein, bernsteinAux, polyEval, Nat.choose] <;> ring

theorem splitR_5 (p0 p1 p2 p3 p4 p5 t u : K) :
    bernstein [Gen.C19.split_5_R_0 p0 p1 p2 p3 p4 p5 t, Gen.C19.split_5_R_1 p0 p1 p2 p3 p4 p5 t, Gen.C19.split_5_R_2 p0 p1 p2 p3 p4 p5 t, Gen.C19.split_5_R_3 p0 p1 p2 p3 p4 p5 t, Gen.C19.split_5_R_4 p0 p1 p2 p3 p4 p5 t, Gen.C19.split_5_R_5 p0 p1 p2 p3 p4 p5 t] u = bernstein [p0, p1, p2, p3, p4, p5] (t + u * (1 - t)) := by
  simp [Gen.C19.split_5_R_0, Gen.C19.split_5_R_1, Gen.C19.split_5_R_2, Gen.C19.split_5_R_3, Gen.C19.split_5_R_4, Gen.C19.split_5_R_5, bernstein, bernsteinAux, polyEval, Nat.choose] <;> ring

theorem halveIsSplit_5 (p0 p1 p2 p3 p4 p5 : K) :
    [Gen.C19.halve_5_L_0 p0 p1 p2 p3 p4 p5, Gen.C19.halve_5_L_1 p0 p1 p2 p3 p4 p5, Gen.C19.halve_5_L_2 p0 p1 p2 p3 p4 p5, Gen.C19.halve_5_L_3 p0 p1 p2 p3 p4 p5, Gen.C19.halve_5_L_4 p0 p1 p2 p3 p4 p5, Gen.C19.halve_5_L_5 p0 p1 p2 p3 p4 p5] = [Gen.C19.split_5_L_0 p0 p1 p2 p3 p4 p5 (1/2), Gen.C19.split_5_L_1 p0 p1 p2 p3 p4 p5 (1/2), Gen.C19.split_5_L_2 p0 p1 p2 p3 p4 p5 (1/2), Gen.C19.split_5_L_3 p0 p1 p2 p3 p4 p5 (1/2), Gen.C19.split_5_L_4 p0 p1 p2 p3 p4 p5 (1/2), Gen.C19.split_5_L_5 p0 p1 p2 p3 p4 p5 (1/2)] ∧
    [Gen.C19.halve_5_R_0 p0 p1 p2 p3 p4 p5, Gen.C19.halve_5_R_1 p0 p1 p2 p3 p4 p5, Gen.C19.halve_5_R_2 p0 p1 p2 p3 p4 p5, Gen.C19.halve_5_R_3 p0 p1 p2 p3 p4 p5, Gen.C19.halve_5_R_4 p0 p1 p2 p3 p4 p5, Gen.C19.halve_5_R_5 p0 p1 p2 p3 p4 p5] = [Gen.C19.split_5_R_0 p0 p1 p2 p3 p4 p5 (1/2), Gen.C19.split_5_R_1 p0 p1 p2 p3 p4 p5 (1/2), Gen.C19.split_5_R_2 p0 p1 p2 p3 p4 p5 (1/2), Gen.C19.split_5_R_3 p0 p1 p2 p3 p4 p5 (1/2), Gen.C19.split_5_R_4 p0 p1 p2 p3 p4 p5 (1/2), Gen.C19.split_5_R_5 p0 p1 p2 p3 p4 p5 (1/2)] := by
  simp only [Gen.C19.halve_5_L_0, Gen.C19.halve_5_R_0, Gen.C19.halve_5_L_1, Gen.C19.halve_5_R_1, Gen.C19.halve_5_L_2, Gen.C19.halve_5_R_2, Gen.C19.halve_5_L_3, Gen.C19.halve_5_R_3, Gen.C19.halve_5_L_4, Gen.C19.halve_5_R_4, Gen.C19.halve_5_L_5, Gen.C19.halve_5_R_5, Gen.C19.split_5_L_0, Gen.C19.split_5_L_1, Gen.C19.split_5_L_2, Gen.C19.split_5_L_3, Gen.C19.split_5_L_4, Gen.C19.split_5_L_5, Gen.C19.split_5_R_0, Gen.C19.split_5_R_1, Gen.C19.split_5_R_2, Gen.C19.split_5_R_3, Gen.C19.split_5_R_4, Gen.C19.split_5_R_5] <;> constructor <;> list_ring

/-! ## degree 6 -/
theorem bezierPoint_6 (p0 p1 p2 p3 p4 p5 p6 t : K) :
    Gen.C19.bezier_point_6 p0 p1 p2 p3 p4 p5 p6 t = bernstein [p0, p1, p2, p3, p4, p5, p6] t := by
  simp [Gen.C19.bezier_point_6, bernstein, bernsteinAux, polyEval, Nat.choose] <;> ring

theorem bezierPoint_6_zero (p0 p1 p2 p3 p4 p5 p6 : K) : Gen.C19.bezier_point_6 p0 p1 p2 p3 p4 p5 p6 0 = p0 := by
  simp [Gen.C19.bezier_point_6]

theorem bezierPoint_6_one (p0 p1 p2 p3 p4 p5 p6 : K) : Gen.C19.bezier_point_6 p0 p1 p2 p3 p4 p5 p6 1 = p6 := by
  simp [Gen.C19.bezier_point_6] <;> ring

theorem b2pNp_6 (p0 p1 p2 p3 p4 p5 p6 t : K) :
    polyEval [Gen.C19.b2p_6_np_0 p0 p1 p2 p3 p4 p5 p6, Gen.C19.b2p_6_np_1 p0 p1 p2 p3 p4 p5 p6, Gen.C19.b2p_6_np_2 p0 p1 p2 p3 p4 p5 p6, Gen.C19.b2p_6_np_3 p0 p1 p2 p3 p4 p5 p6, Gen.C19.b2p_6_np_4 p0 p1 p2 p3 p4 p5 p6, Gen.C19.b2p_6_np_5 p0 p1 p2 p3 p4 p5 p6, Gen.C19.b2p_6_np_6 p0 p1 p2 p3 p4 p5 p6] t = bernstein [p0, p1, p2, p3, p4, p5, p6] t := by
  simp [Gen.C19.b2p_6_np_0, Gen.C19.b2p_6_np_1, Gen.C19.b2p_6_np_2, Gen.C19.b2p_6_np_3, Gen.C19.b2p_6_np_4, Gen.C19.b2p_6_np_5, Gen.C19.b2p_6_np_6, bernstein, bernsteinAux, polyEval, Nat.choose] <;> ring

theorem b2pStd_6 (p0 p1 p2 p3 p4 p5 p6 : K) :
    [Gen.C19.b2p_6_std_0 p0 p1 p2 p3 p4 p5 p6, Gen.C19.b2p_6_std_1 p0 p1 p2 p3 p4 p5 p6, Gen.C19.b2p_6_std_2 p0 p1 p2 p3 p4 p5 p6, Gen.C19.b2p_6_std_3 p0 p1 p2 p3 p4 p5 p6, Gen.C19.b2p_6_std_4 p0 p1 p2 p3 p4 p5 p6, Gen.C19.b2p_6_std_5 p0 p1 p2 p3 p4 p5 p6, Gen.C19.b2p_6_std_6 p0 p1 p2 p3 p4 p5 p6] = [Gen.C19.b2p_6_np_6 p0 p1 p2 p3 p4 p5 p6, Gen.C19.b2p_6_np_5 p0 p1 p2 p3 p4 p5 p6, Gen.C19.b2p_6_np_4 p0 p1 p2 p3 p4 p5 p6, Gen.C19.b2p_6_np_3 p0 p1 p2 p3 p4 p5 p6, Gen.C19.b2p_6_np_2 p0 p1 p2 p3 p4 p5 p6, Gen.C19.b2p_6_np_1 p0 p1 p2 p3 p4 p5 p6, Gen.C19.b2p_6_np_0 p0 p1 p2 p3 p4 p5 p6] := by
  simp only [Gen.C19.b2p_6_np_0, Gen.C19.b2p_6_np_1, Gen.C19.b2p_6_np_2, Gen.C19.b2p_6_np_3, Gen.C19.b2p_6_np_4, Gen.C19.b2p_6_np_5, Gen.C19.b2p_6_np_6, Gen.C19.b2p_6_std_0, Gen.C19.b2p_6_std_1, Gen.C19.b2p_6_std_2, Gen.C19.b2p_6_std_3, Gen.C19.b2p_6_std_4, Gen.C19.b2p_6_std_5, Gen.C19.b2p_6_std_6] <;> list_ring

theorem splitL_6 (p0 p1 p2 p3 p4 p5 p6 t u : K) :
    bernstein [Gen.C19.split_6_L_0 p0 p1 p2 p3 p4 p5 p6 t, Gen.C19.split_6_L_1 p0 p1 p2 p3 p4 p5 p6 t, Gen.C19.split_6_L_2 p0 p1 p2 p3 p4 p5 p6 t, Gen.C19.split_6_L_3 p0 p1 p2 p3 p4 p5 p6 t, Gen.C19.split_6_L_4 p0 p1 p2 p3 p4 p5 p6 t, Gen.C19.split_6_L_5 p0 p1 p2 p3 p4 p5 p6 t, Gen.C19.split_6_L_6 p0 p1 p2 p3 p4 p5 p6 t] u = bernstein [p0, p1, p2, p3, p4, p5, p6] (u * t) := by
  simp [Gen.C19.split_6_L_0, Gen.C19.split_6_L_1, Gen.C19.split_6_L_2, Gen.C19.split_6_L_3, Gen.C19.split_6_L_4, Gen.C19.split_6_L_5, Gen.C19.split_6_L_6, bernstein, bernsteinAux, polyEval, Nat.choose] <;> ring

theorem splitR_6 (p0 p1 p2 p3 p4 p5 p6 t u : K) :
    bernstein [Gen.C19.split_6_R_0 p0 p1 p2 p3 p4 p5 p6 t, Gen.C19.split_6_R_1 p0 p1 p2 p3 p4 p5 p6 t, Gen.C19.split_6_R_2 p0 p1 p2 p3 p4 p5 p6 t, Gen.C19.split_6_R_3 p0 p1 p2 p3 p4 p5 p6 t, Gen.C19.split_6_R_4 p0 p1 p2 p3 p4 p5 p6 t, Gen.C19.split_6_R_5 p0 p1 p2 p3 p4 p5 p6 t, Gen.C19.split_6_R_6 p0 p1 p2 p3 p4 p5 p6 t] u = bernstein [p0, p1, p2, p3, p4, p5, p6] (t + u * (1 - t)) := by
  simp [Gen.C19.split_6_R_0, Gen.C19.split_6_R_1, Gen.C19.split_6_R_2, Gen.C19.split_6_R_3, Gen.C19.split_6_R_4, Gen.C19.split_6_R_5, Gen.C19.split_6_R_6, bernstein, bernsteinAux, polyEval, Nat.choose] <;> ring

theorem halveIsSplit_6 (p0 p1 p2 p3 p4 p5 p6 : K) :
    [Gen.C19.halve_6_L_0 p0 p1 p2 p3 p4 p5 p6, Gen.C19.halve_6_L_1 p0 p1 p2 p3 p4 p5 p6, Gen.C19.halve_6_L_2 p0 p1 p2 p3 p4 p5 p6, Gen.C19.halve_6_L_3 p0 p1 p2 p3 p4 p5 p6, Gen.C19.halve_6_L_4 p0 p1 p2 p3 p4 p5 p6, Gen.C19.halve_6_L_5 p0 p1 p2 p3 p4 p5 p6, Gen.C19.halve_6_L_6 p0 p1 p2 p3 p4 p5 p6] = [Gen.C19.split_6_L_0 p0 p1 p2 p3 p4 p5 p6 (1/2), Gen.C19.split_6_L_1 p0 p1 p2 p3 p4 p5 p6 (1/2), Gen.C19.split_6_L_2 p0 p1 p2 p3 p4 p5 p6 (1/2), Gen.C19.split_6_L_3 p0 p1 p2 p3 p4 p5 p6 (1/2), Gen.C19.split_6_L_4 p0 p1 p2 p3 p4 p5 p6 (1/2), Gen.C19.split_6_L_5 p0 p1 p2 p3 p4 p5 p6 (1/2), Gen.C19.split_6_L_6 p0 p1 p2 p3 p4 p5 p6 (1/2)] ∧
    [Gen.C19.halve_6_R_0 p0 p1 p2 p3 p4 p5 p6, Gen.C19.halve_6_R_1 p0 p1 p2 p3 p4 p5 p6, Gen.C19.halve_6_R_2 p0 p1 p2 p3 p4 p5 p6, Gen.C19.halve_6_R_3 p0 p1 p2 p3 p4 p5 p6, Gen.C19.halve_6_R_4 p0 p1 p2 p3 p4 p5 p6, Gen.C19.halve_6_R_5 p0 p1 p2 p3 p4 p5 p6, Gen.C19.halve_6_R_6 p0 p1 p2 p3 p4 p5 p6] = [Gen.C19.split_6_R_0 p0 p1 p2 p3 p4 p5 p6 (1/2), Gen.C19.split_6_R_1 p0 p1 p2 p3 p4 p5 p6 (1/2), Gen.C19.split_6_R_2 p0 p1 p2 p3 p4 p5 p6 (1/2), Gen.C19.split_6_R_3 p0 p1 p2 p3 p4 p5 p6 (1/2), Gen.C19.split_6_R_4 p0 p1 p2 p3 p4 p5 p6 (1/2), Gen.C19.split_6_R_5 p0 p1 p2 p3 p4 p5 p6 (1/2), Gen.C19.split_6_R_6 p0 p1 p2 p3 p4 p5 p6 (1/2)] := by
  simp only [Gen.C19.halve_6_L_0, Gen.C19.halve_6_R_0, Gen.C19.halve_6_L_1, Gen.C19.halve_6_R_1, Gen.C19.halve_6_L_2, Gen.C19.halve_6_R_2, Gen.C19.halve_6_L_3, Gen.C19.halve_6_R_3, Gen.C19.halve_6_L_4, Gen.C19.halve_6_R_4, Gen.C19.halve_6_L_5, Gen.C19.halve_6_R_5, Gen.C19.halve_6_L_6, Gen.C19.halve_6_R_6, Gen.C19.split_6_L_0, Gen.C19.split_6_L_1, Gen.C19.split_6_L_2, Gen.C19.split_6_L_3, Gen.C19.split_6_L_4, Gen.C19.split_6_L_5, Gen.C19.split_6_L_6, Gen.C19.split_6_R_0, Gen.C19.split_6_R_1, Gen.C19.split_6_R_2, Gen.C19.split_6_R_3, Gen.C19.split_6_R_4, Gen.C19.split_6_R_5, Gen.C19.split_6_R_6] <;> constructor <;> list_ring

/-! ## degree 7 -/
theorem bezierPoint_7 (p0 p1 p2 p3 p4 p5 p6 p7 t : K) :
    Gen.C19.bezier_point_7 p0 p1 p2 p3 p4 p5 p6 p7 t = bernstein [p0, p1, p2, p3, p4, p5, p6, p7] t := by
  simp [Gen.C19.bezier_point_7, bernstein, bernsteinAux, polyEval, Nat.choose] <;> ring

theorem bezierPoint_7_zero (p0 p1 p2 p3 p4 p5 p6 p7 : K) : Gen.C19.bezier_point_7 p0 p1 p2 p3 p4 p5 p6 p7 0 = p0 := by
  simp [Gen.C19.bezier_point_7]

theorem bezierPoint_7_one (p0 p1 p2 p3 p4 p5 p6 p7 : K) : Gen.C19.bezier_point_7 p0 p1 p2 p3 p4 p5 p6 p7 1 = p7 := by
  simp [Gen.C19.bezier_point_7] <;> ring

theorem b2pNp_7 (p0 p1 p2 p3 p4 p5 p6 p7 t : K) :
    polyEval [Gen.C19.b2p_7_np_0 p0 p1 p2 p3 p4 p5 p6 p7, Gen.C19.b2p_7_np_1 p0 p1 p2 p3 p4 p5 p6 p7, Gen.C19.b2p_7_np_2 p0 p1 p2 p3 p4 p5 p6 p7, Gen.C19.b2p_7_np_3 p0 p1 p2 p3 p4 p5 p6 p7, Gen.C19.b2p_7_np_4 p0 p1 p2 p3 p4 p5 p6 p7, Gen.C19.b2p_7_np_5 p0 p1 p2 p3 p4 p5 p6 p7, Gen.C19.b2p_7_np_6 p0 p1 p2 p3 p4 p5 p6 p7, Gen.C19.b2p_7_np_7 p0 p1 p2 p3 p4 p5 p6 p7] t = bernstein [p0, p1, p2, p3, p4, p5, p6, p7] t := by
  simp [Gen.C19.b2p_7_np_0, Gen.C19.b2p_7_np_1, Gen.C19.b2p_7_np_2, Gen.C19.b2p_7_np_3, Gen.C19.b2p_7_np_4, Gen.C19.b2p_7_np_5, Gen.C19.b2p_7_np_6, Gen.C19.b2p_7_np_7, bernstein, bernsteinAux, polyEval, Nat.choose] <;> ring

theorem b2pStd_7 (p0 p1 p2 p3 p4 p5 p6 p7 : K) :
    [Gen.C19.b2p_7_std_0 p0 p1 p2 p3 p4 p5 p6 p7, Gen.C19.b2p_7_std_1 p0 p1 p2 p3 p4 p5 p6 p7, Gen.C19.b2p_7_std_2 p0 p1 p2 p3 p4 p5 p6 p7, Gen.C19.b2p_7_std_3 p0 p1 p2 p3 p4 p5 p6 p7, Gen.C19.b2p_7_std_4 p0 p1 p2 p3 p4 p5 p6 p7, Gen.C19.b2p_7_std_5 p0 p1 p2 p3 p4 p5 p6 p7, Gen.C19.b2p_7_std_6 p0 p1 p2 p3 p4 p5 p6 p7, Gen.C19.b2p_7_std_7 p0 p1 p2 p3 p4 p5 p6 p7] = [Gen.C19.b2p_7_np_7 p0 p1 p2 p3 p4 p5 p6 p7, Gen.C19.b2p_7_np_6 p0 p1 p2 p3 p4 p5 p6 p7, Gen.C19.b2p_7_np_5 p0 p1 p2 p3 p4 p5 p6 p7, Gen.C19.b2p_7_np_4 p0 p1 p2 p3 p4 p5 p6 p7, Gen.C19.b2p_7_np_3 p0 p1 p2 p3 p4 p5 p6 p7, Gen.C19.b2p_7_np_2 p0 p1 p2 p3 p4 p5 p6 p7, Gen.C19.b2p_7_np_1 p0 p1 p2 p3 p4 p5 p6 p7, Gen.C19.b2p_7_np_0 p0 p1 p2 p3 p4 p5 p6 p7] := by
  simp only [Gen.C19.b2p_7_np_0, Gen.C19.b2p_7_np_1, Gen.C19.b2p_7_np_2, Gen.C19.b2p_7_np_3, Gen.C19.b2p_7_np_4, Gen.C19.b2p_7_np_5, Gen.C19.b2p_7_np_6, Gen.C19.b2p_7_np_7, Gen.C19.b2p_7_std_0, Gen.C19.b2p_7_std_1, Gen.C19.b2p_7_std_2, Gen.C19.b2p_7_std_3, Gen.C19.b2p_7_std_4, Gen.C19.b2p_7_std_5, Gen.C19.b2p_7_std_6, Gen.C19.b2p_7_std_7] <;> list_ring

theorem splitL_7 (p0 p1 p2 p3 p4 p5 p6 p7 t u : K) :
    bernstein [Gen.C19.split_7_L_0 p0 p1 p2 p3 p4 p5 p6 p7 t, Gen.C19.split_7_L_1 p0 p1 p2 p3 p4 p5 p6 p7 t, Gen.C19.split_7_L_2 p0 p1 p2 p3 p4 p5 p6 p7 t, Gen.C19.split_7_L_3 p0 p1 p2 p3 p4 p5 p6 p7 t, Gen.C19.split_7_L_4 p0 p1 p2 p3 p4 p5 p6 p7 t, Gen.C19.split_7_L_5 p0 p1 p2 p3 p4 p5 p6 p7 t, Gen.C19.split_7_L_6 p0 p1 p2 p3 p4 p5 p6 p7 t, Gen.C19.split_7_L_7 p0 p1 p2 p3 p4 p5 p6 p7 t] u = bernstein [p0, p1, p2, p3, p4, p5, p6, p7] (u * t) := by
  simp [Gen.C19.split_7_L_0, Gen.C19.split_7_L_1, Gen.C19.split_7_L_2, Gen.C19.split_7_L_3, Gen.C19.split_7_L_4, Gen.C19.split_7_L_5, Gen.C19.split_7_L_6, Gen.C19.split_7_L_7, bernstein, bernsteinAux, polyEval, Nat.choose] <;> ring

theorem splitR_7 (p0 p1 p2 p3 p4 p5 p6 p7 t u : K) :
    bernstein [Gen.C19.split_7_R_0 p0 p1 p2 p3 p4 p5 p6 p7 t, Gen.C19.split_7_R_1 p0 p1 p2 p3 p4 p5 p6 p7 t, Gen.C19.split_7_R_2 p0 p1 p2 p3 p4 p5 p6 p7 t, Gen.C19.split_7_R_3 p0 p1 p2 p3 p4 p5 p6 p7 t, Gen.C19.split_7_R_4 p0 p1 p2 p3 p4 p5 p6 p7 t, Gen.C19.split_7_R_5 p0 p1 p2 p3 p4 p5 p6 p7 t, Gen.C19.split_7_R_6 p0 p1 p2 p3 p4 p5 p6 p7 t, Gen.C19.split_7_R_7 p0 p1 p2 p3 p4 p5 p6 p7 t] u = bernstein [p0, p1, p2, p3, p4, p5, p6, p7] (t + u * (1 - t)) := by
  simp [Gen.C19.split_7_R_0, Gen.C19.split_7_R_1, Gen.C19.split_7_R_2, Gen.C19.split_7_R_3, Gen.C19.split_7_R_4, Gen.C19.split_7_R_5, Gen.C19.split_7_R_6, Gen.C19.split_7_R_7, bernstein, bernsteinAux, polyEval, Nat.choose] <;> ring

theorem halveIsSplit_7 (p0 p1 p2 p3 p4 p5 p6 p7 : K) :
    [Gen.C19.halve_7_L_0 p0 p1 p2 p3 p4 p5 p6 p7, Gen.C19.halve_7_L_1 p0 p1 p2 p3 p4 p5 p6 p7, Gen.C19.halve_7_L_2 p0 p1 p2 p3 p4 p5 p6 p7, Gen.C19.halve_7_L_3 p0 p1 p2 p3 p4 p5 p6 p7, Gen.C19.halve_7_L_4 p0 p1 p2 p3 p4 p5 p6 p7, Gen.C19.halve_7_L_5 p0 p1 p2 p3 p4 p5 p6 p7, Gen.C19.halve_7_L_6 p0 p1 p2 p3 p4 p5 p6 p7, Gen.C19.halve_7_L_7 p0 p1 p2 p3 p4 p5 p6 p7] = [Gen.C19.split_7_L_0 p0 p1 p2 p3 p4 p5 p6 p7 (1/2), Gen.C19.split_7_L_1 p0 p1 p2 p3 p4 p5 p6 p7 (1/2), Gen.C19.split_7_L_2 p0 p1 p2 p3 p4 p5 p6 p7 (1/2), Gen.C19.split_7_L_3 p0 p1 p2 p3 p4 p5 p6 p7 (1/2), Gen.C19.split_7_L_4 p0 p1 p2 p3 p4 p5 p6 p7 (1/2), Gen.C19.split_7_L_5 p0 p1 p2 p3 p4 p5 p6 p7 (1/2), Gen.C19.split_7_L_6 p0 p1 p2 p3 p4 p5 p6 p7 (1/2), Gen.C19.split_7_L_7 p0 p1 p2 p3 p4 p5 p6 p7 (1/2)] ∧
    [Gen.C19.halve_7_R_0 p0 p1 p2 p3 p4 p5 p6 p7, Gen.C19.halve_7_R_1 p0 p1 p2 p3 p4 p5 p6 p7, Gen.C19.halve_7_R_2 p0 p1 p2 p3 p4 p5 p6 p7, Gen.C19.halve_7_R_3 p0 p1 p2 p3 p4 p5 p6 p7, Gen.C19.halve_7_R_4 p0 p1 p2 p3 p4 p5 p6 p7, Gen.C19.halve_7_R_5 p0 p1 p2 p3 p4 p5 p6 p7, Gen.C19.halve_7_R_6 p0 p1 p2 p3 p4 p5 p6 p7, Gen.C19.halve_7_R_7 p0 p1 p2 p3 p4 p5 p6 p7] = [Gen.C19.split_7_R_0 p0 p1 p2 p3 p4 p5 p6 p7 (1/2), Gen.C19.split_7_R_1 p0 p1 p2 p3 p4 p5 p6 p7 (1/2), Gen.C19.split_7_R_2 p0 p1 p2 p3 p4 p5 p6 p7 (1/2), Gen.C19.split_7_R_3 p0 p1 p2 p3 p4 p5 p6 p7 (1/2), Gen.C19.split_7_R_4 p0 p1 p2 p3 p4 p5 p6 p7 (1/2), Gen.C19.split_7_R_5 p0 p1 p2 p3 p4 p5 p6 p7 (1/2), Gen.C19.split_7_R_6 p0 p1 p2 p3 p4 p5 p6 p7 (1/2), Gen.C19.split_7_R_7 p0 p1 p2 p3 p4 p5 p6 p7 (1/2)] := by
  simp only [Gen.C19.halve_7_L_0, Gen.C19.halve_7_R_0, Gen.C19.halve_7_L_1, Gen.C19.halve_7_R_1, Gen.C19.halve_7_L_2, Gen.C19.halve_7_R_2, Gen.C19.halve_7_L_3, Gen.C19.halve_7_R_3, Gen.C19.halve_7_L_4, Gen.C19.halve_7_R_4, Gen.C19.halve_7_L_5, Gen.C19.halve_7_R_5, Gen.C19.halve_7_L_6, Gen.C19.halve_7_R_6, Gen.C19.halve_7_L_7, Gen.C19.halve_7_R_7, Gen.C19.split_7_L_0, Gen.C19.split_7_L_1, Gen.C19.split_7_L_2, Gen.C19.split_7_L_3, Gen.C19.split_7_L_4, Gen.C19.split_7_L_5, Gen.C19.split_7_L_6, Gen.C19.split_7_L_7, Gen.C19.split_7_R_0, Gen.C19.split_7_R_1, Gen.C19.split_7_R_2, Gen.C19.split_7_R_3, Gen.C19.split_7_R_4, Gen.C19.split_7_R_5, Gen.C19.split_7_R_6, Gen.C19.split_7_R_7] <;> constructor <;> list_ring

/-! ## degree 8 -/
theorem bezierPoint_8 (p0 p1 p2 p3 p4 p5 p6 p7 p8 t : K) :
    Gen.C19.bezier_point_8 p0 p1 p2 p3 p4 p5 p6 p7 p8 t = bernstein [p0, p1, p2, p3, p4, p5, p6, p7, p8] t := by
  simp [Gen.C19.bezier_point_8, bernstein, bernsteinAux, polyEval, Nat.choose] <;> ring

theorem bezierPoint_8_zero (p0 p1 p2 p3 p4 p5 p6 p7 p8 : K) : Gen.C19.bezier_point_8 p0 p1 p2 p3 p4 p5 p6 p7 p8 0 = p0 := by
  simp [Gen.C19.bezier_point_8]

theorem bezierPoint_8_one (p0 p1 p2 p3 p4 p5 p6 p7 p8 : K) : Gen.C19.bezier_point_8 p0 p1 p2 p3 p4 p5 p6 p7 p8 1 = p8 := by
  simp [Gen.C19.bezier_point_8] <;> ring

theorem b2pNp_8 (p0 p1 p2 p3 p4 p5 p6 p7 p8 t : K) :
    polyEval [Gen.C19.b2p_8_np_0 p0 p1 p2 p3 p4 p5 p6 p7 p8, Gen.C19.b2p_8_np_1 p0 p1 p2 p3 p4 p5 p6 p7 p8, Gen.C19.b2p_8_np_2 p0 p1 p2 p3 p4 p5 p6 p7 p8, Gen.C19.b2p_8_np_3 p0 p1 p2 p3 p4 p5 p6 p7 p8, Gen.C19.b2p_8_np_4 p0 p1 p2 p3 p4 p5 p6 p7 p8, Gen.C19.b2p_8_np_5 p0 p1 p2 p3 p4 p5 p6 p7 p8, Gen.C19.b2p_8_np_6 p0 p1 p2 p3 p4 p5 p6 p7 p8, Gen.C19.b2p_8_np_7 p0 p1 p2 p3 p4 p5 p6 p7 p8, Gen.C19.b2p_8_np_8 p0 p1 p2 p3 p4 p5 p6 p7 p8] t = bernstein [p0, p1, p2, p3, p4, p5, p6, p7, p8] t := by
  simp [Gen.C19.b2p_8_np_0, Gen.C19.b2p_8_np_1, Gen.C19.b2p_8_np_2, Gen.C19.b2p_8_np_3, Gen.C19.b2p_8_np_4, Gen.C19.b2p_8_np_5, Gen.C19.b2p_8_np_6, Gen.C19.b2p_8_np_7, Gen.C19.b2p_8_np_8, bernstein, bernsteinAux, polyEval, Nat.choose] <;> ring

theorem b2pStd_8 (p0 p1 p2 p3 p4 p5 p6 p7 p8 : K) :
    [Gen.C19.b2p_8_std_0 p0 p1 p2 p3 p4 p5 p6 p7 p8, Gen.C19.b2p_8_std_1 p0 p1 p2 p3 p4 p5 p6 p7 p8, Gen.C19.b2p_8_std_2 p0 p1 p2 p3 p4 p5 p6 p7 p8, Gen.C19.b2p_8_std_3 p0 p1 p2 p3 p4 p5 p6 p7 p8, Gen.C19.b2p_8_std_4 p0 p1 p2 p3 p4 p5 p6 p7 p8, Gen.C19.b2p_8_std_5 p0 p1 p2 p3 p4 p5 p6 p7 p8, Gen.C19.b2p_8_std_6 p0 p1 p2 p3 p4 p5 p6 p7 p8, Gen.C19.b2p_8_std_7 p0 p1 p2 p3 p4 p5 p6 p7 p8, Gen.C19.b2p_8_std_8 p0 p1 p2 p3 p4 p5 p6 p7 p8] = [Gen.C19.b2p_8_np_8 p0 p1 p2 p3 p4 p5 p6 p7 p8, Gen.C19.b2p_8_np_7 p0 p1 p2 p3 p4 p5 p6 p7 p8, Gen.C19.b2p_8_np_6 p0 p1 p2 p3 p4 p5 p6 p7 p8, Gen.C19.b2p_8_np_5 p0 p1 p2 p3 p4 p5 p6 p7 p8, Gen.C19.b2p_8_np_4 p0 p1 p2 p3 p4 p5 p6 p7 p8, Gen.C19.b2p_8_np_3 p0 p1 p2 p3 p4 p5 p6 p7 p8, Gen.C19.b2p_8_np_2 p0 p1 p2 p3 p4 p5 p6 p7 p8, Gen.C19.b2p_8_np_1 p0 p1 p2 p3 p4 p5 p6 p7 p8, Gen.C19.b2p_8_np_0 p0 p1 p2 p3 p4 p5 p6 p7 p8] := by
  simp only [Gen.C19.b2p_8_np_0, Gen.C19.b2p_8_np_1, Gen.C19.b2p_8_np_2, Gen.C19.b2p_8_np_3, Gen.C19.b2p_8_np_4, Gen.C19.b2p_8_np_5, Gen.C19.b2p_8_np_6, Gen.C19.b2p_8_np_7, Gen.C19.b2p_8_np_8, Gen.C19.b2p_8_std_0, Gen.C19.b2p_8_std_1, Gen.C19.b2p_8_std_2, Gen.C19.b2p_8_std_3, Gen.C19.b2p_8_std_4, Gen.C19.b2p_8_std_5, Gen.C19.b2p_8_std_6, Gen.C19.b2p_8_std_7, Gen.C19.b2p_8_std_8] <;> list_ring

theorem splitL_8 (p0 p1 p2 p3 p4 p5 p6 p7 p8 t u : K) :
    bernstein [Gen.C19.split_8_L_0 p0 p1 p2 p3 p4 p5 p6 p7 p8 t, Gen.C19.split_8_L_1 p0 p1 p2 p3 p4 p5 p6 p7 p8 t, Gen.C19.split_8_L_2 p0 p1 p2 p3 p4 p5 p6 p7 p8 t, Gen.C19.split_8_L_3 p0 p1 p2 p3 p4 p5 p6 p7 p8 t, Gen.C19.split_8_L_4 p0 p1 p2 p3 p4 p5 p6 p7 p8 t, Gen.C19.split_8_L_5 p0 p1 p2 p3 p4 p5 p6 p7 p8 t, Gen.C19.split_8_L_6 p0 p1 p2 p3 p4 p5 p6 p7 p8 t, Gen.C19.split_8_L_7 p0 p1 p2 p3 p4 p5 p6 p7 p8 t, Gen.C19.split_8_L_8 p0 p1 p2 p3 p4 p5 p6 p7 p8 t] u = bernstein [p0, p1, p2, p3, p4, p5, p6, p7, p8] (u * t) := by
  simp [Gen.C19.split_8_L_0, Gen.C19.split_8_L_1, Gen.C19.split_8_L_2, Gen.C19.split_8_L_3, Gen.C19.split_8_L_4, Gen.C19.split_8_L_5, Gen.C19.split_8_L_6, Gen.C19.split_8_L_7, Gen.C19.split_8_L_8, bernstein, bernsteinAux, polyEval, Nat.choose] <;> ring

theorem splitR_8 (p0 p1 p2 p3 p4 p5 p6 p7 p8 t u : K) :
    bernstein [Gen.C19.split_8_R_0 p0 p1 p2 p3 p4 p5 p6 p7 p8 t, Gen.C19.split_8_R_1 p0 p1 p2 p3 p4 p5 p6 p7 p8 t, Gen.C19.split_8_R_2 p0 p1 p2 p3 p4 p5 p6 p7 p8 t, Gen.C19.split_8_R_3 p0 p1 p2 p3 p4 p5 p6 p7 p8 t, Gen.C19.split_8_R_4 p0 p1 p2 p3 p4 p5 p6 p7 p8 t, Gen.C19.split_8_R_5 p0 p1 p2 p3 p4 p5 p6 p7 p8 t, Gen.C19.split_8_R_6 p0 p1 p2 p3 p4 p5 p6 p7 p8 t, Gen.C19.split_8_R_7 p0 p1 p2 p3 p4 p5 p6 p7 p8 t, Gen.C19.split_8_R_8 p0 p1 p2 p3 p4 p5 p6 p7 p8 t] u = bernstein [p0, p1, p2, p3, p4, p5, p6, p7, p8] (t + u * (1 - t)) := by
  simp [Gen.C19.split_8_R_0, Gen.C19.split_8_R_1, Gen.C19.split_8_R_2, Gen.C19.split_8_R_3, Gen.C19.split_8_R_4, Gen.C19.split_8_R_5, Gen.C19.split_8_R_6, Gen.C19.split_8_R_7, Gen.C19.split_8_R_8, bernstein, bernsteinAux, polyEval, Nat.choose] <;> ring

theorem halveIsSplit_8 (p0 p1 p2 p3 p4 p5 p6 p7 p8 : K) :
    [Gen.C19.halve_8_L_0 p0 p1 p2 p3 p4 p5 p6 p7 p8, Gen.C19.halve_8_L_1 p0 p1 p2 p3 p4 p5 p6 p7 p8, Gen.C19.halve_8_L_2 p0 p1 p2 p3 p4 p5 p6 p7 p8, Gen.C19.halve_8_L_3 p0 p1 p2 p3 p4 p5 p6 p7 p8, Gen.C19.halve_8_L_4 p0 p1 p2 p3 p4 p5 p6 p7 p8, Gen.C19.halve_8_L_5 p0 p1 p2 p3 p4 p5 p6 p7 p8, Gen.C19.halve_8_L_6 p0 p1 p2 p3 p4 p5 p6 p7 p8, Gen.C19.halve_8_L_7 p0 p1 p2 p3 p4 p5 p6 p7 p8, Gen.C19.halve_8_L_8 p0 p1 p2 p3 p4 p5 p6 p7 p8] = [Gen.C19.split_8_L_0 p0 p1 p2 p3 p4 p5 p6 p7 p8 (1/2), Gen.C19.split_8_L_1 p0 p1 p2 p3 p4 p5 p6 p7 p8 (1/2), Gen.C19.split_8_L_2 p0 p1 p2 p3 p4 p5 p6 p7 p8 (1/2), Gen.C19.split_8_L_3 p0 p1 p2 p3 p4 p5 p6 p7 p8 (1/2), Gen.C19.split_8_L_4 p0 p1 p2 p3 p4 p5 p6 p7 p8 (1/2), Gen.C19.split_8_L_5 p0 p1 p2 p3 p4 p5 p6 p7 p8 (1/2), Gen.C19.split_8_L_6 p0 p1 p2 p3 p4 p5 p6 p7 p8 (1/2), Gen.C19.split_8_L_7 p0 p1 p2 p3 p4 p5 p6 p7 p8 (1/2), Gen.C19.split_8_L_8 p0 p1 p2 p3 p4 p5 p6 p7 p8 (1/2)] ∧
    [Gen.C19.halve_8_R_0 p0 p1 p2 p3 p4 p5 p6 p7 p8, Gen.C19.halve_8_R_1 p0 p1 p2 p3 p4 p5 p6 p7 p8, Gen.C19.halve_8_R_2 p0 p1 p2 p3 p4 p5 p6 p7 p8, Gen.C19.halve_8_R_3 p0 p1 p2 p3 p4 p5 p6 p7 p8, Gen.C19.halve_8_R_4 p0 p1 p2 p3 p4 p5 p6 p7 p8, Gen.C19.halve_8_R_5 p0 p1 p2 p3 p4 p5 p6 p7 p8, Gen.C19.halve_8_R_6 p0 p1 p2 p3 p4 p5 p6 p7 p8, Gen.C19.halve_8_R_7 p0 p1 p2 p3 p4 p5 p6 p7 p8, Gen.C19.halve_8_R_8 p0 p1 p2 p3 p4 p5 p6 p7 p8] = [Gen.C19.split_8_R_0 p0 p1 p2 p3 p4 p5 p6 p7 p8 (1/2), Gen.C19.split_8_R_1 p0 p1 p2 p3 p4 p5 p6 p7 p8 (1/2), Gen.C19.split_8_R_2 p0 p1 p2 p3 p4 p5 p6 p7 p8 (1/2), Gen.C19.split_8_R_3 p0 p1 p2 p3 p4 p5 p6 p7 p8 (1/2), Gen.C19.split_8_R_4 p0 p1 p2 p3 p4 p5 p6 p7 p8 (1/2), Gen.C19.split_8_R_5 p0 p1 p2 p3 p4 p5 p6 p7 p8 (1/2), Gen.C19.split_8_R_6 p0 p1 p2 p3 p4 p5 p6 p7 p8 (1/2), Gen.C19.split_8_R_7 p0 p1 p2 p3 p4 p5 p6 p7 p8 (1/2), Gen.C19.split_8_R_8 p0 p1 p2 p3 p4 p5 p6 p7 p8 (1/2)] := by
  simp only [Gen.C19.halve_8_L_0, Gen.C19.halve_8_R_0, Gen.C19.halve_8_L_1, Gen.C19.halve_8_R_1, Gen.C19.halve_8_L_2, Gen.C19.halve_8_R_2, Gen.C19.halve_8_L_3, Gen.C19.halve_8_R_3, Gen.C19.halve_8_L_4, Gen.C19.halve_8_R_4, Gen.C19.halve_8_L_5, Gen.C19.halve_8_R_5, Gen.C19.halve_8_L_6, Gen.C19.halve_8_R_6, Gen.C19.halve_8_L_7, Gen.C19.halve_8_R_7, Gen.C19.halve_8_L_8, Gen.C19.halve_8_R_8, Gen.C19.split_8_L_0, Gen.C19.split_8_L_1, Gen.C19.split_8_L_2, Gen.C19.split_8_L_3, Gen.C19.split_8_L_4, Gen.C19.split_8_L_5, Gen.C19.split_8_L_6, Gen.C19.split_8_L_7, Gen.C19.split_8_L_8, Gen.C19.split_8_R_0, Gen.C19.split_8_R_1, Gen.C19.split_8_R_2, Gen.C19.split_8_R_3, Gen.C19.split_8_R_4, Gen.C19.split_8_R_5, Gen.C19.split_8_R_6, Gen.C19.split_8_R_7, Gen.C19.split_8_R_8] <;> constructor <;> list_ring

end SvgVerif.Props.C19
