import SvgVerif.Model.ArcPointToT
import SvgVerif.Gen.C04
import Mathlib.Analysis.SpecialFunctions.Trigonometric.Inverse
import Mathlib.Tactic.Ring
import Mathlib.Tactic.Linarith
import Mathlib.Tactic.FieldSimp
import Mathlib.Tactic.Positivity
/-! # C11 — `Arc.point_to_t` is sound on points of the ellipse

`Arc.intersect(Line)` (unrotated arcs) and the circle–circle branch of `Arc.intersect(Arc)` obtain the arc's
parameter from `Arc.point_to_t`.  Theorem `pointToT_sound` (over ℝ, `degrees∘acos = arccos·180/π`,
`degrees∘asin = arcsin·180/π`, exact reading of `np.isclose` on the candidate parameters): for an unrotated arc with
`delta ≠ 0` and a query point ON its ellipse, whenever the model returns a parameter `t` through the angle matching
(i.e. not through one of the two end-point shortcuts), the TRACED `Arc.point(t)` (Gen.C04) is exactly the query
point.  The candidates handed to it by `Arc.intersect(Line)` are on the ellipse by `al_candidates_on_both`, those of
the circle–circle branch by `cc_points_on_both`.

(The hypothesis "on the ellipse" is needed: for a point off the ellipse the arguments of `acos`/`asin` are clipped
and `point_to_t` can return a parameter although the point is not on the arc — e.g. `rx=1, ry=2`, point
`centre + 1.5` — contrary to its docstring; the intersection code never calls it that way.) -/
namespace SvgVerif.Props.C11
set_option linter.unusedVariables false
set_option linter.unusedSimpArgs false
open SvgVerif SvgVerif.Model.ArcPointToT Real

noncomputable def acosDeg (x : ℝ) : ℝ := arccos x * 180 / π
noncomputable def asinDeg (x : ℝ) : ℝ := arcsin x * 180 / π
/-- cosine / sine of an angle given in degrees -/
noncomputable def cosd (a : ℝ) : ℝ := cos (a * π / 180)
noncomputable def sind (a : ℝ) : ℝ := sin (a * π / 180)

theorem upLoop_congr (lo : ℝ) (n : ℕ) (a b : ℝ) (h : upLoop lo n a = some b) : ∃ k : ℤ, b = a + 360 * k := by
  induction n generalizing a with
  | zero => simp [upLoop] at h
  | succ n ih =>
    unfold upLoop at h
    split at h
    · obtain ⟨k, hk⟩ := ih _ h
      exact ⟨k + 1, by rw [hk]; push_cast; ring⟩
    · simp only [Option.some.injEq] at h
      exact ⟨0, by rw [← h]; simp⟩

theorem downLoop_congr (hi : ℝ) (n : ℕ) (a b : ℝ) (h : downLoop hi n a = some b) : ∃ k : ℤ, b = a + 360 * k := by
  induction n generalizing a with
  | zero => simp [downLoop] at h
  | succ n ih =>
    unfold downLoop at h
    split at h
    · obtain ⟨k, hk⟩ := ih _ h
      exact ⟨k - 1, by rw [hk]; push_cast; ring⟩
    · simp only [Option.some.injEq] at h
      exact ⟨0, by rw [← h]; simp⟩

/-- the two `while` loops change an angle only by whole turns -/
theorem normAngle_congr (fuel : ℕ) (lo hi a b : ℝ) (h : normAngle fuel lo hi a = some b) : ∃ k : ℤ, b = a + 360 * k := by
  unfold normAngle at h
  split at h
  · simp at h
  · rename_i c hc
    obtain ⟨k1, h1⟩ := upLoop_congr lo fuel a c hc
    obtain ⟨k2, h2⟩ := downLoop_congr hi fuel c b h
    exact ⟨k1 + k2, by rw [h2, h1]; push_cast; ring⟩

theorem cosd_turns (a : ℝ) (k : ℤ) : cosd (a + 360 * k) = cosd a := by
  unfold cosd
  have : (a + 360 * (k : ℝ)) * π / 180 = a * π / 180 + (k : ℝ) * (2 * π) := by ring
  rw [this, cos_add_int_mul_two_pi]

theorem sind_turns (a : ℝ) (k : ℤ) : sind (a + 360 * k) = sind a := by
  unfold sind
  have : (a + 360 * (k : ℝ)) * π / 180 = a * π / 180 + (k : ℝ) * (2 * π) := by ring
  rw [this, sin_add_int_mul_two_pi]

theorem cosd_acosDeg (x : ℝ) (h1 : -1 ≤ x) (h2 : x ≤ 1) : cosd (acosDeg x) = x := by
  unfold cosd acosDeg
  have : arccos x * 180 / π * π / 180 = arccos x := by field_simp
  rw [this, cos_arccos h1 h2]

theorem sind_asinDeg (x : ℝ) (h1 : -1 ≤ x) (h2 : x ≤ 1) : sind (asinDeg x) = x := by
  unfold sind asinDeg
  have : arcsin x * 180 / π * π / 180 = arcsin x := by field_simp
  rw [this, sin_arcsin h1 h2]

theorem cosd_neg (a : ℝ) : cosd (-(1 : ℝ) * a) = cosd a := by
  unfold cosd
  have : -(1 : ℝ) * a * π / 180 = -(a * π / 180) := by ring
  rw [this, cos_neg]

theorem sind_supp (a : ℝ) : sind (180 - a) = sind a := by
  unfold sind
  have : (180 - a) * π / 180 = π - a * π / 180 := by ring
  rw [this, sin_pi_sub]

theorem clip1_of_abs_le (x : ℝ) (h1 : -1 ≤ x) (h2 : x ≤ 1) : clip1 x = x := by
  unfold clip1
  rw [if_neg (not_lt.mpr h2), if_neg (not_lt.mpr h1)]

/-- **Soundness of `Arc.point_to_t` on the ellipse** (see the header). -/
theorem pointToT_sound (closeP : ℝ × ℝ → ℝ × ℝ → Bool) (closeS : ℝ → ℝ → Bool)
    (hcs : ∀ a b, closeS a b = true → a = b) (fuel : ℕ)
    (start end_ center : ℝ × ℝ) (rx ry theta delta : ℝ) (p : ℝ × ℝ) (rot : ℝ)
    (hrx : rx ≠ 0) (hry : ry ≠ 0) (hd : delta ≠ 0)
    (hon : ((p.1 - center.1) / rx) ^ 2 + ((p.2 - center.2) / ry) ^ 2 = 1)
    (hs : closeP p start = false) (he : closeP p end_ = false) (t : ℝ)
    (h : pointToT Real.sqrt acosDeg asinDeg closeP closeS fuel start end_ center rx ry 0 theta delta p = .t t) :
    Gen.C04.point_x theta delta rx ry 1 0 rot center.1 center.2 π t = p.1 ∧
    Gen.C04.point_y theta delta rx ry 1 0 rot center.1 center.2 π t = p.2 := by
  set ax := (p.1 - center.1) / rx with hax
  set ay := (p.2 - center.2) / ry with hay
  have bx : -1 ≤ ax ∧ ax ≤ 1 := by constructor <;> nlinarith [sq_nonneg ay, sq_nonneg (ax - 1), sq_nonneg (ax + 1)]
  have by' : -1 ≤ ay ∧ ay ≤ 1 := by constructor <;> nlinarith [sq_nonneg ax, sq_nonneg (ay - 1), sq_nonneg (ay + 1)]
  -- what has to be shown, in terms of the angle A = θ + tδ
  suffices hA : cosd (theta + t * delta) = ax ∧ sind (theta + t * delta) = ay by
    simp only [Gen.C04.point_x, Gen.C04.point_y]
    unfold cosd sind at hA
    rw [hA.1, hA.2, hax, hay]
    constructor
    · field_simp; ring
    · field_simp; ring
  unfold pointToT at h
  simp only [hs, he, Bool.false_eq_true, if_false, ne_eq, not_true_eq_false] at h
  split at h
  · simp at h
  · split at h
    · simp at h
    · simp only [clip1_of_abs_le ax bx.1 bx.2, clip1_of_abs_le ay by'.1 by'.2, ← hax, ← hay] at h
      -- the four normalised candidate angles
      split at h
      · simp at h
      · rename_i x0 hx0
        split at h
        · simp at h
        · rename_i x1 hx1
          split at h
          · simp at h
          · rename_i y0 hy0
            split at h
            · simp at h
            · rename_i y1 hy1
              obtain ⟨k0, e0⟩ := normAngle_congr _ _ _ _ _ hx0
              obtain ⟨k1, e1⟩ := normAngle_congr _ _ _ _ _ hx1
              obtain ⟨m0, f0⟩ := normAngle_congr _ _ _ _ _ hy0
              obtain ⟨m1, f1⟩ := normAngle_congr _ _ _ _ _ hy1
              have cx0 : cosd x0 = ax := by rw [e0, cosd_turns, cosd_acosDeg ax bx.1 bx.2]
              have cx1 : cosd x1 = ax := by rw [e1, cosd_turns, cosd_neg, cx0]
              have sy0 : sind y0 = ay := by rw [f0, sind_turns, sind_asinDeg ay by'.1 by'.2]
              have sy1 : sind y1 = ay := by rw [f1, sind_turns, sind_supp, sy0]
              have back : ∀ a : ℝ, theta + (a - theta) / delta * delta = a := by
                intro a; field_simp; ring
              -- the matching
              split at h
              · simp at h
              · rename_i tt hpick
                split at h
                · simp only [Res.t.injEq] at h
                  subst h
                  split_ifs at hpick with c1 c2 c3 c4
                  · have := hcs _ _ c1
                    simp only [Option.some.injEq] at hpick
                    have ht1 : tt = (x0 - theta) / delta := by rw [← hpick, ← this]; ring
                    have ht2 : tt = (y0 - theta) / delta := by rw [← hpick, this]; ring
                    constructor
                    · rw [ht1, back]; exact cx0
                    · rw [ht2, back]; exact sy0
                  · have := hcs _ _ c2
                    simp only [Option.some.injEq] at hpick
                    have ht1 : tt = (x0 - theta) / delta := by rw [← hpick, ← this]; ring
                    have ht2 : tt = (y1 - theta) / delta := by rw [← hpick, this]; ring
                    constructor
                    · rw [ht1, back]; exact cx0
                    · rw [ht2, back]; exact sy1
                  · have := hcs _ _ c3
                    simp only [Option.some.injEq] at hpick
                    have ht1 : tt = (x1 - theta) / delta := by rw [← hpick, ← this]; ring
                    have ht2 : tt = (y0 - theta) / delta := by rw [← hpick, this]; ring
                    constructor
                    · rw [ht1, back]; exact cx1
                    · rw [ht2, back]; exact sy0
                  · have := hcs _ _ c4
                    simp only [Option.some.injEq] at hpick
                    have ht1 : tt = (x1 - theta) / delta := by rw [← hpick, ← this]; ring
                    have ht2 : tt = (y1 - theta) / delta := by rw [← hpick, this]; ring
                    constructor
                    · rw [ht1, back]; exact cx1
                    · rw [ht2, back]; exact sy1
                · simp at h

end SvgVerif.Props.C11
