import SvgVerif.Model.PathParam
import Mathlib.Algebra.Order.Field.Basic
import Mathlib.Algebra.BigOperators.Group.List.Basic
import Mathlib.Data.List.Chain
import Mathlib.Algebra.BigOperators.Ring.List
import Mathlib.Tactic.Ring
import Mathlib.Tactic.FieldSimp
import Mathlib.Tactic.Linarith
/-! # C05 — path parameter `T`, segment parameter `t` and arc-length fractions are coherent

Theorems about the hand model `SvgVerif.Model.PathParam` (tied to `Path.T2t`, `Path.t2T`,
`Path.point`, `iscontinuous`, `continuous_subpaths` by exact correspondence), over an
arbitrary linearly ordered field for the arithmetic part and law-free (only decidable
equality on points) for the continuity part. -/
namespace SvgVerif.Props.C05
open SvgVerif.Model.PathParam

section param
variable {K : Type} [Field K] [LinearOrder K] [IsStrictOrderedRing K]

theorem psum_eq_sum (xs : List K) : psum xs = xs.sum := by
  unfold psum
  rw [List.sum_eq_foldl]

/-- the search loop of `T2t`: started at `T0 < T ≤ T0 + Σ ls` with all lengths `≥ 0`, it
returns the unique segment `k` whose half-open T-interval `(cum k, cum k + l_k]` contains `T`,
that segment has positive length, `0 < t ≤ 1`, and `cum k + l_k · t = T`.  It never falls
through to `BugException`. -/
theorem T2tLoop_spec (ls : List K) (T0 T : K) (idx : ℕ)
    (hnn : ∀ l ∈ ls, 0 ≤ l) (hlo : T0 < T) (hhi : T ≤ T0 + ls.sum) :
    ∃ k t l, T2tLoop ls T0 idx T = some (idx + k, t) ∧ ls[k]? = some l ∧ 0 < l ∧
      0 < t ∧ t ≤ 1 ∧ T0 + (ls.take k).sum < T ∧ T ≤ T0 + (ls.take k).sum + l ∧
      T0 + (ls.take k).sum + l * t = T := by
  induction ls generalizing T0 idx with
  | nil => simp at hhi; exact absurd hlo (not_lt.mpr hhi)
  | cons l ls ih =>
    have hl : 0 ≤ l := hnn l (by simp)
    unfold T2tLoop
    by_cases h : T0 + l ≥ T
    · have hlpos : 0 < l := by
        rcases hl.lt_or_eq with h' | h'
        · exact h'
        · exfalso; rw [← h'] at h; simp at h; exact absurd hlo (not_lt.mpr h)
      refine ⟨0, (T - T0) / l, l, ?_, by simp, hlpos, ?_, ?_, by simpa using hlo, by simpa using h, ?_⟩
      · simp [h]
      · exact div_pos (sub_pos.mpr hlo) hlpos
      · rw [div_le_one hlpos]; linarith
      · simp; field_simp; ring
    · have h' : T0 + l < T := not_le.mp h
      have hs : T ≤ T0 + l + ls.sum := by simpa [add_assoc] using hhi
      obtain ⟨k, t, lk, h1, h2, h3, h4, h5, h6, h7, h8⟩ :=
        ih (T0 + l) (idx + 1) (fun x hx => hnn x (by simp [hx])) h' hs
      refine ⟨k + 1, t, lk, ?_, by simpa using h2, h3, h4, h5, ?_, ?_, ?_⟩
      · simp only [h, if_false]; rw [h1]; congr 2; omega
      · simpa [add_assoc] using h6
      · simpa [add_assoc] using h7
      · simpa [add_assoc] using h8

/-- `T2t` on the cached fractions: for `0 < T < 1` and fractions that are non-negative and
sum to 1, the result is the segment whose T-interval contains `T`, and `t2T` maps it back to
`T` exactly. -/
theorem T2t_spec (fr : List K) (T : K) (hnn : ∀ l ∈ fr, 0 ≤ l) (hsum : fr.sum = 1)
    (h0 : 0 < T) (h1 : T < 1) :
    ∃ k t l, T2t fr T = some (k, t) ∧ fr[k]? = some l ∧ 0 < l ∧ 0 < t ∧ t ≤ 1 ∧
      (fr.take k).sum < T ∧ T ≤ (fr.take k).sum + l ∧ t2T fr k t = some T := by
  obtain ⟨k, t, l, e1, e2, e3, e4, e5, e6, e7, e8⟩ :=
    T2tLoop_spec fr 0 T 0 hnn h0 (by simp [hsum, h1.le])
  refine ⟨k, t, l, ?_, e2, e3, e4, e5, by simpa using e6, by simpa using e7, ?_⟩
  · unfold T2t; simp [h1.ne, h0.ne', e1]
  · unfold t2T; simp only [e2, psum_eq_sum]
    congr 1; simp at e8; rw [← e8]; ring

/-- the shortcuts of `T2t`: `T = 0 ↦ (0, 0)`, `T = 1 ↦ (n-1, 1)` -/
theorem T2t_zero (fr : List K) : T2t fr 0 = some (0, 0) := by unfold T2t; simp
theorem T2t_one (fr : List K) : T2t fr 1 = some (fr.length - 1, 1) := by unfold T2t; simp

theorem pointLoop_eq_T2tLoop (ls : List K) (T0 T : K) (idx : ℕ) :
    pointLoop ls T0 idx T = T2tLoop ls T0 idx T := by
  induction ls generalizing T0 idx with
  | nil => rfl
  | cons l ls ih =>
    unfold pointLoop T2tLoop
    simp only [add_sub_cancel_left, ih]

/-- `Path.point(T)` evaluates the very segment and parameter that `T2t(T)` returns (for a
non-empty path), so `point(T) = seg_k.point(t)` with `(k, t) = T2t(T)`; in particular
`point(0)` is segment 0 at 0 (the start) and `point(1)` the last segment at 1 (the end). -/
theorem pointIdx_eq_T2t (fr : List K) (T : K) (hne : fr ≠ []) : pointIdx fr T = T2t fr T := by
  unfold pointIdx T2t
  have : fr.length ≠ 0 := by simpa using hne
  simp only [this, if_false]
  by_cases h0 : T = 0
  · subst h0; simp
  · by_cases h1 : T = 1
    · subst h1; simp
    · simp [h0, h1, pointLoop_eq_T2tLoop]

/-- `t2T` is affine and increasing on a segment of positive length and sends the ends of
segment `k` to its cumulative bounds -/
theorem t2T_ends (fr : List K) (k : ℕ) (l : K) (h : fr[k]? = some l) :
    t2T fr k 0 = some (fr.take k).sum ∧ t2T fr k 1 = some ((fr.take k).sum + l) := by
  unfold t2T; simp [h, psum_eq_sum, add_comm]

/-- prefix sums of non-negative lengths are monotone -/
theorem take_sum_mono (fr : List K) (hnn : ∀ l ∈ fr, 0 ≤ l) (i j : ℕ) (hij : i ≤ j) :
    (fr.take i).sum ≤ (fr.take j).sum := by
  induction j with
  | zero => simp at hij; subst hij; exact le_refl _
  | succ j ih =>
    rcases Nat.lt_or_ge i (j + 1) with h | h
    · have h1 := ih (by omega)
      by_cases hj : j < fr.length
      · rw [List.sum_take_succ fr j hj]
        have : 0 ≤ fr[j] := hnn _ (List.getElem_mem hj)
        linarith
      · have e1 : fr.take (j + 1) = fr := List.take_of_length_le (by omega)
        have e2 : fr.take j = fr := List.take_of_length_le (by omega)
        rw [e1]; rw [e2] at h1; exact h1
    · have : i = j + 1 := by omega
      subst this; exact le_refl _

/-- **`T2t` inverts `t2T`** on every segment of positive length: for `0 < t ≤ 1` the path parameter
`T = t2T(k, t)` (strictly inside `(0,1)`) is mapped back to exactly `(k, t)` — so `Path.point(T)` evaluates segment
`k` at `t` (`pointIdx_eq_T2t`).  This is the coherence `path.point(T) = seg.point(t)` that C11 needs for the entries
of `Path.intersect`. -/
theorem T2t_t2T (fr : List K) (hnn : ∀ l ∈ fr, 0 ≤ l) (hsum : fr.sum = 1) (k : ℕ) (l t T : K)
    (hk : fr[k]? = some l) (hl : 0 < l) (ht0 : 0 < t) (ht1 : t ≤ 1) (hT : t2T fr k t = some T)
    (hT0 : 0 < T) (hT1 : T < 1) : T2t fr T = some (k, t) := by
  have hTe : T = (fr.take k).sum + l * t := by
    unfold t2T at hT
    simp only [hk, psum_eq_sum, Option.some.injEq] at hT
    rw [← hT]; ring
  obtain ⟨k', t', l', e1, e2, e3, e4, e5, e6, e7, e8⟩ := T2t_spec fr T hnn hsum hT0 hT1
  have hklen : k < fr.length := by
    by_contra hcon
    rw [List.getElem?_eq_none (by omega)] at hk; simp at hk
  have hk'len : k' < fr.length := by
    by_contra hcon
    rw [List.getElem?_eq_none (by omega)] at e2; simp at e2
  have hlk : fr[k] = l := by
    rw [List.getElem?_eq_getElem hklen] at hk; simpa using hk
  have hlk' : fr[k'] = l' := by
    rw [List.getElem?_eq_getElem hk'len] at e2; simpa using e2
  have lo : (fr.take k).sum < T := by rw [hTe]; nlinarith
  have hi : T ≤ (fr.take k).sum + l := by rw [hTe]; nlinarith
  have hkk : k' = k := by
    rcases Nat.lt_trichotomy k' k with h | h | h
    · exfalso
      have := take_sum_mono fr hnn (k' + 1) k (by omega)
      rw [List.sum_take_succ fr k' hk'len, hlk'] at this
      linarith
    · exact h
    · exfalso
      have := take_sum_mono fr hnn (k + 1) k' (by omega)
      rw [List.sum_take_succ fr k hklen, hlk] at this
      linarith
  subst hkk
  have hll : l' = l := by rw [← hlk', ← hlk]
  subst hll
  have ht : t' = t := by
    unfold t2T at e8
    simp only [e2, psum_eq_sum, Option.some.injEq] at e8
    have : l' * t' = l' * t := by rw [hTe] at e8; linarith
    exact mul_left_cancel₀ e3.ne' this
  rw [e1, ht]

/-- `_calc_lengths`: the cached fractions are non-negative and sum to 1 when the total is
positive -/
theorem calcLengths_fractions (lens : List K) (hnn : ∀ l ∈ lens, 0 ≤ l) (hpos : 0 < lens.sum) :
    (calcLengths lens).1 = lens.sum ∧ (∀ f ∈ (calcLengths lens).2, 0 ≤ f) ∧
      ((calcLengths lens).2).sum = 1 := by
  unfold calcLengths
  simp only [psum_eq_sum, hpos.ne', if_false, true_and]
  constructor
  · intro f hf
    obtain ⟨l, hl, rfl⟩ := List.mem_map.mp hf
    exact div_nonneg (hnn l hl) hpos.le
  · simp only [div_eq_mul_inv]
    rw [List.sum_map_mul_right (f := fun x => x)]
    simpa using mul_inv_cancel₀ hpos.ne'

/-- non-vacuity: a three-segment path with a zero-length middle segment -/
example : T2t ([1/4, 0, 3/4] : List ℚ) (1/2) = some (2, 1/3) := by decide +kernel
example : T2t ([1/4, 0, 3/4] : List ℚ) (1/4) = some (0, 1) := by decide +kernel
end param

section continuity
variable {P : Type} [DecidableEq P]
set_option linter.unusedSectionVars false

/-- `iscontinuous()` reports exactly the coincidences of consecutive end / start points -/
theorem isContinuous_iff (segs : List (Ends P)) :
    isContinuous segs = true ↔ segs.IsChain (fun a b => a.2 = b.1) := by
  induction segs with
  | nil => simp [isContinuous]
  | cons a rest ih =>
    cases rest with
    | nil => simp [isContinuous]
    | cons b rest => simp [isContinuous, ih]

theorem subpathsAux_flatten (segs cur : List (Ends P)) :
    (subpathsAux segs cur).flatten = cur.reverse ++ segs := by
  induction segs generalizing cur with
  | nil => simp [subpathsAux]
  | cons a rest ih =>
    cases rest with
    | nil => simp [subpathsAux]
    | cons b rest =>
      unfold subpathsAux
      split
      · simp [ih]
      · simp [ih]

/-- the continuous subpaths concatenate back to the original path -/
theorem continuousSubpaths_flatten (segs : List (Ends P)) :
    (continuousSubpaths segs).flatten = segs := by
  simp [continuousSubpaths, subpathsAux_flatten]

theorem isChain_append_singleton {R : Ends P → Ends P → Prop} (l : List (Ends P)) (a : Ends P)
    (h : l.IsChain R) (hl : ∀ z ∈ l.getLast?, R z a) : (l ++ [a]).IsChain R := by
  induction l with
  | nil => simp
  | cons x xs ih =>
    cases xs with
    | nil => simp at hl; simp [hl]
    | cons y ys =>
      simp only [List.cons_append, List.isChain_cons_cons] at h ⊢
      exact ⟨h.1, ih h.2 (by simpa using hl)⟩

theorem subpathsAux_continuous (segs cur : List (Ends P))
    (hcur : (cur.reverse).IsChain (fun a b => a.2 = b.1))
    (hjoin : ∀ z ∈ cur.head?, ∀ a ∈ segs.head?, z.2 = a.1) :
    ∀ p ∈ subpathsAux segs cur, p.IsChain (fun a b => a.2 = b.1) := by
  induction segs generalizing cur with
  | nil => intro p hp; simp [subpathsAux] at hp; subst hp; exact hcur
  | cons a rest ih =>
    have hcons : ((a :: cur).reverse).IsChain (fun a b : Ends P => a.2 = b.1) := by
      rw [List.reverse_cons]
      apply isChain_append_singleton _ _ hcur
      intro z hz
      rw [List.getLast?_reverse] at hz
      exact hjoin z hz a (by simp)
    cases rest with
    | nil => intro p hp; simp [subpathsAux] at hp; subst hp; simpa using hcons
    | cons b rest =>
      intro p hp
      unfold subpathsAux at hp
      split at hp
      · rcases List.mem_cons.mp hp with h | h
        · subst h; exact hcons
        · exact ih [] (by simp) (by simp) p h
      · rename_i hne
        have hab : a.2 = b.1 := by simpa using hne
        exact ih (a :: cur) hcons (by intro z hz x hx; simp at hz hx; subst hz; subst hx; exact hab) p hp

/-- every piece returned by `continuous_subpaths` is continuous -/
theorem continuousSubpaths_continuous (segs : List (Ends P)) :
    ∀ p ∈ continuousSubpaths segs, isContinuous p = true := by
  intro p hp
  rw [isContinuous_iff]
  exact subpathsAux_continuous segs [] (by simp) (by simp) p hp

/-- two consecutive pieces do not join: the end of the last segment of the first is not the start
of the first segment of the second -/
def NoJoin (A B : List (Ends P)) : Prop := ∀ a ∈ A.getLast?, ∀ b ∈ B.head?, a.2 ≠ b.1

theorem subpathsAux_head (l cur : List (Ends P)) :
    ∃ p rest, subpathsAux l cur = p :: rest ∧ p.head? = (cur.reverse ++ l).head? := by
  induction l generalizing cur with
  | nil => exact ⟨cur.reverse, [], by simp [subpathsAux], by simp⟩
  | cons a rest ih =>
    cases rest with
    | nil => exact ⟨(a :: cur).reverse, [], by simp [subpathsAux], by simp⟩
    | cons b rest =>
      unfold subpathsAux
      split
      · exact ⟨(a :: cur).reverse, _, rfl, by simp⟩
      · obtain ⟨p, r, e, hp⟩ := ih (a :: cur)
        exact ⟨p, r, e, by rw [hp]; simp⟩

/-- **maximality**: consecutive pieces returned by `continuous_subpaths` never join -/
theorem subpathsAux_maximal (l cur : List (Ends P)) : (subpathsAux l cur).IsChain NoJoin := by
  induction l generalizing cur with
  | nil => simp [subpathsAux]
  | cons a rest ih =>
    cases rest with
    | nil => simp [subpathsAux]
    | cons b rest =>
      unfold subpathsAux
      split
      · rename_i hne
        obtain ⟨p, r, e, hp⟩ := subpathsAux_head (b :: rest) ([] : List (Ends P))
        have hch := ih ([] : List (Ends P))
        rw [e] at hch ⊢
        rw [List.isChain_cons_cons]
        refine ⟨?_, hch⟩
        intro x hx y hy
        rw [hp] at hy
        simp at hx hy
        subst hx; subst hy
        exact hne
      · exact ih (a :: cur)

theorem continuousSubpaths_maximal (segs : List (Ends P)) : (continuousSubpaths segs).IsChain NoJoin :=
  subpathsAux_maximal segs []

/-- every piece is non-empty (for a non-empty path) -/
theorem subpathsAux_nonempty (l cur : List (Ends P)) (h : l ≠ [] ∨ cur ≠ []) : ∀ p ∈ subpathsAux l cur, p ≠ [] := by
  induction l generalizing cur with
  | nil =>
    intro p hp
    simp [subpathsAux] at hp
    subst hp
    rcases h with h | h
    · exact absurd rfl h
    · simpa using h
  | cons a rest ih =>
    cases rest with
    | nil => intro p hp; simp [subpathsAux] at hp; subst hp; simp
    | cons b rest =>
      intro p hp
      unfold subpathsAux at hp
      split at hp
      · rcases List.mem_cons.mp hp with h' | h'
        · subst h'; simp
        · exact ih [] (Or.inl (by simp)) p h'
      · exact ih (a :: cur) (Or.inl (by simp)) p hp

theorem continuousSubpaths_nonempty (segs : List (Ends P)) (h : segs ≠ []) : ∀ p ∈ continuousSubpaths segs, p ≠ [] :=
  subpathsAux_nonempty segs [] (Or.inl h)

end continuity
end SvgVerif.Props.C05
