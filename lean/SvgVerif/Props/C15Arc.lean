import SvgVerif.Props.C15
import Mathlib.Analysis.SpecialFunctions.Trigonometric.Basic
import Mathlib.Analysis.SpecialFunctions.Sqrt
import Mathlib.Tactic.Ring
import Mathlib.Tactic.FieldSimp
import Mathlib.Tactic.Positivity
import Mathlib.Tactic.Linarith
/-! # C15, arcs — unit tangent, normal and curvature of an `Arc`

Statements about the definitions traced from `Arc.derivative`, `Arc.unit_tangent`, `Arc.normal`,
`Arc.curvature` (`segment_curvature`) on an arc whose stored parameters are symbols, `cos`/`sin` as `Real.cos`,
`Real.sin`: the unit tangent is the normalised derivative and has modulus 1 at regular points
(`arc_tangent_is_normalised_derivative`, `arc_tangent_unit`), the normal is the tangent rotated by −90°
(`arc_normal`), the curvature is `|x'y'' − y'x''| / |(x',y')|³` (`arc_curvature`), and **on a circular arc it is
`1/r`** for every rotation and every sweep `delta ≠ 0` (`arc_curvature_circle`); `arc_speed_circle`: a circular arc is
traversed at the constant speed `r·|delta|·π/180`. -/
namespace SvgVerif.Props.C15Arc
set_option linter.unusedVariables false
open SvgVerif Real

theorem arc_tangent_is_normalised_derivative (theta delta rx ry rot pi t : ℝ) :
    Gen.C15.arc_tangent_x theta delta rx ry rot pi t = Gen.C15.arc_dx theta delta rx ry rot pi t /
      Real.sqrt (Gen.C15.arc_dx theta delta rx ry rot pi t * Gen.C15.arc_dx theta delta rx ry rot pi t +
        Gen.C15.arc_dy theta delta rx ry rot pi t * Gen.C15.arc_dy theta delta rx ry rot pi t) ∧
    Gen.C15.arc_tangent_y theta delta rx ry rot pi t = Gen.C15.arc_dy theta delta rx ry rot pi t /
      Real.sqrt (Gen.C15.arc_dx theta delta rx ry rot pi t * Gen.C15.arc_dx theta delta rx ry rot pi t +
        Gen.C15.arc_dy theta delta rx ry rot pi t * Gen.C15.arc_dy theta delta rx ry rot pi t) := by
  simp only [Gen.C15.arc_tangent_x, Gen.C15.arc_tangent_y, Gen.C15.arc_dx, Gen.C15.arc_dy, and_self]

theorem arc_tangent_unit (theta delta rx ry rot pi t : ℝ)
    (h : 0 < Gen.C15.arc_dx theta delta rx ry rot pi t * Gen.C15.arc_dx theta delta rx ry rot pi t +
      Gen.C15.arc_dy theta delta rx ry rot pi t * Gen.C15.arc_dy theta delta rx ry rot pi t) :
    Gen.C15.arc_tangent_x theta delta rx ry rot pi t ^ 2 + Gen.C15.arc_tangent_y theta delta rx ry rot pi t ^ 2 = 1 := by
  rw [(arc_tangent_is_normalised_derivative theta delta rx ry rot pi t).1,
    (arc_tangent_is_normalised_derivative theta delta rx ry rot pi t).2]
  exact C15.unit_of_div_norm _ _ h

theorem arc_normal (theta delta rx ry rot pi t : ℝ) :
    Gen.C15.arc_normal_x theta delta rx ry rot pi t = Gen.C15.arc_tangent_y theta delta rx ry rot pi t ∧
    Gen.C15.arc_normal_y theta delta rx ry rot pi t = -Gen.C15.arc_tangent_x theta delta rx ry rot pi t := by
  simp only [Gen.C15.arc_normal_x, Gen.C15.arc_normal_y, Gen.C15.arc_tangent_x, Gen.C15.arc_tangent_y]
  constructor <;> ring

theorem arc_curvature (theta delta rx ry rot pi t : ℝ) :
    Gen.C15.arc_curvature theta delta rx ry rot pi t =
      |Gen.C15.arc_dx theta delta rx ry rot pi t * Gen.C15.arc_ddy theta delta rx ry rot pi t -
        Gen.C15.arc_dy theta delta rx ry rot pi t * Gen.C15.arc_ddx theta delta rx ry rot pi t| /
      Real.sqrt (Gen.C15.arc_dx theta delta rx ry rot pi t * Gen.C15.arc_dx theta delta rx ry rot pi t +
        Gen.C15.arc_dy theta delta rx ry rot pi t * Gen.C15.arc_dy theta delta rx ry rot pi t) ^ 3 := by
  simp only [Gen.C15.arc_curvature, Gen.C15.arc_dx, Gen.C15.arc_dy, Gen.C15.arc_ddx, Gen.C15.arc_ddy]

/-- on a circular arc (`rx = ry = r`) the squared speed is the constant `(r · delta · π / 180)²` -/
theorem arc_speed_circle (theta delta r rot pi t : ℝ) :
    Gen.C15.arc_dx theta delta r r rot pi t * Gen.C15.arc_dx theta delta r r rot pi t +
      Gen.C15.arc_dy theta delta r r rot pi t * Gen.C15.arc_dy theta delta r r rot pi t = (r * (delta * pi / 180)) ^ 2 := by
  simp only [Gen.C15.arc_dx, Gen.C15.arc_dy]
  have h1 := Real.cos_sq_add_sin_sq (rot * pi / 180)
  have h2 := Real.cos_sq_add_sin_sq ((theta + t * delta) * pi / 180)
  linear_combination (r * (delta * pi / 180)) ^ 2 *
    (Real.cos (rot * pi / 180) ^ 2 + Real.sin (rot * pi / 180) ^ 2) * h2 + (r * (delta * pi / 180)) ^ 2 * h1

/-- **a circular arc has curvature `1/r`**, whatever its rotation, start angle and sweep -/
theorem arc_curvature_circle (theta delta r rot pi t : ℝ) (hr : 0 < r) (hk : delta * pi / 180 ≠ 0) :
    Gen.C15.arc_curvature theta delta r r rot pi t = 1 / r := by
  rw [arc_curvature, arc_speed_circle]
  have h1 := Real.cos_sq_add_sin_sq (rot * pi / 180)
  have h2 := Real.cos_sq_add_sin_sq ((theta + t * delta) * pi / 180)
  have hdet : Gen.C15.arc_dx theta delta r r rot pi t * Gen.C15.arc_ddy theta delta r r rot pi t -
      Gen.C15.arc_dy theta delta r r rot pi t * Gen.C15.arc_ddx theta delta r r rot pi t
      = r ^ 2 * (delta * pi / 180) ^ 3 := by
    simp only [Gen.C15.arc_dx, Gen.C15.arc_dy, Gen.C15.arc_ddx, Gen.C15.arc_ddy]
    linear_combination (r ^ 2 * (delta * pi / 180) ^ 3) *
      (Real.cos (rot * pi / 180) ^ 2 + Real.sin (rot * pi / 180) ^ 2) * h2 + (r ^ 2 * (delta * pi / 180) ^ 3) * h1
  rw [hdet, Real.sqrt_sq_eq_abs, abs_mul, abs_mul, abs_pow, abs_pow, abs_of_pos hr]
  have hk' : 0 < |delta * pi / 180| := abs_pos.mpr hk
  field_simp

end SvgVerif.Props.C15Arc
