import SvgVerif.Gen.C09
import SvgVerif.Model.PathOps
import SvgVerif.Spec.Bernstein
import Mathlib.Tactic.Ring
import Mathlib.Tactic.FieldSimp
import Mathlib.Algebra.CharZero.Defs
/-! # C09 — reversed / split / cropped trace the same curve under the documented map

Segment level: `Gen.C09` is regenerated each run by tracing `reversed`, `split`, `cropped`
of Line / QuadraticBezier / CubicBezier on opaque ring elements; the statements are
polynomial identities in the control points and parameters over any field of
characteristic 0.  Path level: theorems about the hand model `Model.PathOps`. -/
namespace SvgVerif.Props.C09
open SvgVerif SvgVerif.Spec

set_option linter.unusedSectionVars false
set_option linter.unusedSimpArgs false
set_option linter.unusedVariables false
set_option linter.unusedTactic false
set_option linter.unreachableTactic false
set_option linter.unnecessarySeqFocus false

variable {K : Type} [Field K] [CharZero K]

macro "bern" d:term : tactic =>
  `(tactic| (simp [$d:term, bernstein, bernsteinAux, Nat.choose] <;> ring))

/-! ## reversed().point(u) = point(1 - u); the control points are reversed -/
theorem line_reversed (p0 p1 u : K) : Gen.C09.line_reversed_point p0 p1 u = bernstein [p0, p1] (1 - u) := by
  bern Gen.C09.line_reversed_point
theorem quad_reversed (p0 p1 p2 u : K) :
    Gen.C09.quad_reversed_point p0 p1 p2 u = bernstein [p0, p1, p2] (1 - u) := by
  bern Gen.C09.quad_reversed_point
theorem cubic_reversed (p0 p1 p2 p3 u : K) :
    Gen.C09.cubic_reversed_point p0 p1 p2 p3 u = bernstein [p0, p1, p2, p3] (1 - u) := by
  bern Gen.C09.cubic_reversed_point
theorem reversed_bpoints (p0 p1 p2 p3 : K) :
    [Gen.C09.line_reversed_bp_0 p0 p1, Gen.C09.line_reversed_bp_1 p0 p1] = [p1, p0] ∧
    [Gen.C09.quad_reversed_bp_0 p0 p1 p2, Gen.C09.quad_reversed_bp_1 p0 p1 p2,
     Gen.C09.quad_reversed_bp_2 p0 p1 p2] = [p2, p1, p0] ∧
    [Gen.C09.cubic_reversed_bp_0 p0 p1 p2 p3, Gen.C09.cubic_reversed_bp_1 p0 p1 p2 p3,
     Gen.C09.cubic_reversed_bp_2 p0 p1 p2 p3, Gen.C09.cubic_reversed_bp_3 p0 p1 p2 p3] = [p3, p2, p1, p0] := by
  simp [Gen.C09.line_reversed_bp_0, Gen.C09.line_reversed_bp_1, Gen.C09.quad_reversed_bp_0,
    Gen.C09.quad_reversed_bp_1, Gen.C09.quad_reversed_bp_2, Gen.C09.cubic_reversed_bp_0,
    Gen.C09.cubic_reversed_bp_1, Gen.C09.cubic_reversed_bp_2, Gen.C09.cubic_reversed_bp_3]

/-! ## split(t): the pieces are the restrictions to [0,t] and [t,1], and meet at point(t) -/
theorem line_split (p0 p1 t u : K) :
    Gen.C09.line_split_left_point p0 p1 t u = bernstein [p0, p1] (u * t) ∧
    Gen.C09.line_split_right_point p0 p1 t u = bernstein [p0, p1] (t + u * (1 - t)) := by
  constructor
  · bern Gen.C09.line_split_left_point
  · bern Gen.C09.line_split_right_point
theorem quad_split (p0 p1 p2 t u : K) :
    Gen.C09.quad_split_left_point p0 p1 p2 t u = bernstein [p0, p1, p2] (u * t) ∧
    Gen.C09.quad_split_right_point p0 p1 p2 t u = bernstein [p0, p1, p2] (t + u * (1 - t)) := by
  constructor
  · bern Gen.C09.quad_split_left_point
  · bern Gen.C09.quad_split_right_point
theorem cubic_split (p0 p1 p2 p3 t u : K) :
    Gen.C09.cubic_split_left_point p0 p1 p2 p3 t u = bernstein [p0, p1, p2, p3] (u * t) ∧
    Gen.C09.cubic_split_right_point p0 p1 p2 p3 t u = bernstein [p0, p1, p2, p3] (t + u * (1 - t)) := by
  constructor
  · bern Gen.C09.cubic_split_left_point
  · bern Gen.C09.cubic_split_right_point

theorem line_split_meets (p0 p1 t : K) :
    Gen.C09.line_split_left_end p0 p1 t = bernstein [p0, p1] t ∧
    Gen.C09.line_split_right_start p0 p1 t = bernstein [p0, p1] t ∧
    Gen.C09.line_split_left_start p0 p1 t = p0 ∧ Gen.C09.line_split_right_end p0 p1 t = p1 := by
  refine ⟨?_, ?_, ?_, ?_⟩
  · bern Gen.C09.line_split_left_end
  · bern Gen.C09.line_split_right_start
  · simp [Gen.C09.line_split_left_start]
  · simp [Gen.C09.line_split_right_end]
theorem quad_split_meets (p0 p1 p2 t : K) :
    Gen.C09.quad_split_left_end p0 p1 p2 t = bernstein [p0, p1, p2] t ∧
    Gen.C09.quad_split_right_start p0 p1 p2 t = bernstein [p0, p1, p2] t ∧
    Gen.C09.quad_split_left_start p0 p1 p2 t = p0 ∧ Gen.C09.quad_split_right_end p0 p1 p2 t = p2 := by
  refine ⟨?_, ?_, ?_, ?_⟩
  · bern Gen.C09.quad_split_left_end
  · bern Gen.C09.quad_split_right_start
  · simp [Gen.C09.quad_split_left_start]
  · simp [Gen.C09.quad_split_right_end]
theorem cubic_split_meets (p0 p1 p2 p3 t : K) :
    Gen.C09.cubic_split_left_end p0 p1 p2 p3 t = bernstein [p0, p1, p2, p3] t ∧
    Gen.C09.cubic_split_right_start p0 p1 p2 p3 t = bernstein [p0, p1, p2, p3] t ∧
    Gen.C09.cubic_split_left_start p0 p1 p2 p3 t = p0 ∧ Gen.C09.cubic_split_right_end p0 p1 p2 p3 t = p3 := by
  refine ⟨?_, ?_, ?_, ?_⟩
  · bern Gen.C09.cubic_split_left_end
  · bern Gen.C09.cubic_split_right_start
  · simp [Gen.C09.cubic_split_left_start]
  · simp [Gen.C09.cubic_split_right_end]

/-! ## cropped(t0, t1).point(u) = point(t0 + u (t1 - t0))

For quadratics and cubics the code treats `t0 = 0` and `t1 = 1` by one split, and the
interior case by trimming `[0, t0)` and then cutting the trimmed curve at
`(t1 - t0)/(1 - t0)` (before the repair of finding F25 that parameter was searched for
numerically with `radialrange`, which fails on self-overlapping curves). -/
theorem line_cropped (p0 p1 t0 t1 u : K) :
    Gen.C09.line_crop0_point p0 p1 t1 u = bernstein [p0, p1] (u * t1) ∧
    Gen.C09.line_crop1_point p0 p1 t0 u = bernstein [p0, p1] (t0 + u * (1 - t0)) ∧
    Gen.C09.line_cropi_point p0 p1 t0 t1 u = bernstein [p0, p1] (t0 + u * (t1 - t0)) := by
  refine ⟨?_, ?_, ?_⟩
  · bern Gen.C09.line_crop0_point
  · bern Gen.C09.line_crop1_point
  · bern Gen.C09.line_cropi_point
theorem quad_cropped_ends (p0 p1 p2 t0 t1 u : K) :
    Gen.C09.quad_crop0_point p0 p1 p2 t1 u = bernstein [p0, p1, p2] (u * t1) ∧
    Gen.C09.quad_crop1_point p0 p1 p2 t0 u = bernstein [p0, p1, p2] (t0 + u * (1 - t0)) := by
  constructor
  · bern Gen.C09.quad_crop0_point
  · bern Gen.C09.quad_crop1_point
theorem cubic_cropped_ends (p0 p1 p2 p3 t0 t1 u : K) :
    Gen.C09.cubic_crop0_point p0 p1 p2 p3 t1 u = bernstein [p0, p1, p2, p3] (u * t1) ∧
    Gen.C09.cubic_crop1_point p0 p1 p2 p3 t0 u = bernstein [p0, p1, p2, p3] (t0 + u * (1 - t0)) := by
  constructor
  · bern Gen.C09.cubic_crop0_point
  · bern Gen.C09.cubic_crop1_point

theorem quad_cropped_interior (p0 p1 p2 t0 t1 u : K) (h : 1 - t0 ≠ 0) :
    Gen.C09.quad_cropi_point p0 p1 p2 t0 t1 u
      = bernstein [p0, p1, p2] (t0 + u * (t1 - t0)) := by
  simp [Gen.C09.quad_cropi_point, bernstein, bernsteinAux, Nat.choose]
  field_simp
  ring
theorem cubic_cropped_interior (p0 p1 p2 p3 t0 t1 u : K) (h : 1 - t0 ≠ 0) :
    Gen.C09.cubic_cropi_point p0 p1 p2 p3 t0 t1 u
      = bernstein [p0, p1, p2, p3] (t0 + u * (t1 - t0)) := by
  simp [Gen.C09.cubic_cropi_point, bernstein, bernsteinAux, Nat.choose]
  field_simp
  ring

/-! ## Path.reversed / Path.cropped (hand model) -/
open SvgVerif.Model.PathOps SvgVerif.Model.PathParam

theorem reversedPath_length {Seg : Type} (rev : Seg → Seg) (segs : List Seg) :
    (reversedPath rev segs).length = segs.length := by simp [reversedPath]

/-- reversing twice gives back the path when segment reversal is an involution -/
theorem reversedPath_involutive {Seg : Type} (rev : Seg → Seg) (h : ∀ s, rev (rev s) = s)
    (segs : List Seg) : reversedPath rev (reversedPath rev segs) = segs := by
  have : (rev ∘ rev) = id := funext h
  simp [reversedPath, List.map_reverse, this]

/-- segment `i` of the reversed path is the reversal of segment `n-1-i` -/
theorem reversedPath_get {Seg : Type} (rev : Seg → Seg) (segs : List Seg) (i : ℕ) (h : i < segs.length) :
    (reversedPath rev segs)[i]? = some (rev (segs[segs.length - 1 - i]'(by omega))) := by
  simp [reversedPath, List.getElem?_reverse, h]

/-- total length is unchanged by `reversed()` when each segment keeps its length -/
theorem reversedPath_total {Seg : Type} (rev : Seg → Seg) (len : Seg → ℚ) (h : ∀ s, len (rev s) = len s)
    (segs : List Seg) : ((reversedPath rev segs).map len).sum = (segs.map len).sum := by
  simp [reversedPath, List.map_reverse, List.sum_reverse, Function.comp_def, h]

/-! ### wrap-around crops of closed paths: finding F7 as a kernel-checked witness.
Closed path with length fractions 1/4, 1/4, 1/2; `cropped(1/2, 0)` must cover
`1 - 1/2 = 1/2` of the path. -/
def a8 : ℚ := 1 / 100000000
def r5 : ℚ := 1 / 100000

example : cropped a8 r5 [1/4, 1/4, 1/2] [0, 1, 2] (some true) (1/2) 0 = .ok [⟨2, 0, 1⟩] := by
  decide +kernel
example : coverage [1/4, 1/4, (1/2 : ℚ)] [⟨2, 0, 1⟩] = 1/2 := by decide +kernel

/-- the statement "a wrap-around crop covers `1 - T0 + T1` of the path", at this instance -/
def CoversWrap (f : ℚ → ℚ → List ℚ → List ℕ → Option Bool → ℚ → ℚ → Except CropErr (List (Piece ℚ))) : Prop :=
  ∀ ps, f a8 r5 [1/4, 1/4, 1/2] [0, 1, 2] (some true) (1/2) 0 = .ok ps →
    coverage [1/4, 1/4, 1/2] ps = 1 - 1/2 + 0

theorem coversWrap_cropped : CoversWrap cropped := by
  intro ps h
  have : cropped a8 r5 [1/4, 1/4, 1/2] [0, 1, 2] (some true) (1/2) 0 = .ok [⟨2, 0, 1⟩] := by decide +kernel
  rw [this] at h
  cases h
  decide +kernel

/-- before the repair the crop made an extra lap: coverage 3/2 instead of 1/2 -/
theorem not_coversWrap_croppedBuggy : ¬ CoversWrap croppedBuggy := by
  intro h
  have e : croppedBuggy a8 r5 [1/4, 1/4, 1/2] [0, 1, 2] (some true) (1/2) 0
      = .ok [⟨2, 0, 1⟩, ⟨0, 0, 1⟩, ⟨1, 0, 1⟩, ⟨2, 0, 1⟩] := by decide +kernel
  have := h _ e
  revert this
  decide +kernel

end SvgVerif.Props.C09
