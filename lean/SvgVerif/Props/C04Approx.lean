import SvgVerif.Model.ArcApprox
import Mathlib.Data.List.Chain
/-! # C04 — the cubic / quadratic approximations of an arc start and end at the arc's end points

`Model/ArcApprox.lean` mirrors the generators `Arc.as_cubic_curves(curves)` / `Arc.as_quad_curves(curves)` (tied to
the real methods by the exact correspondence stream "Arc.as_cubic_curves / as_quad_curves").  For EVERY number of
pieces, every arc data and every choice of the math functions (so in particular for IEEE doubles — no arithmetic law
is used):

* `asCubicCurves_length`, `asQuadCurves_length` — exactly `curves` pieces;
* `asCubicCurves_chain`, `asQuadCurves_chain`   — consecutive pieces are joined exactly (end = next start);
* `asCubicCurves_start/_end`, `asQuadCurves_start/_end` — the first piece starts at `self.start`, the last ends at
  `self.end` (not at a recomputed point);
* `cubicLoop_piece` — piece `j` runs from its start `p` to `q` with control points `p + α e'(a_j)` and
  `q − α e'(a_{j+1})`, `e'` the derivative of the centre form with respect to the eccentric angle: neighbouring
  pieces have collinear, equally long handles at their common joint (the approximation is tangent-continuous).

List lemmas only (`List.IsChain` from Batteries/Mathlib). -/
namespace SvgVerif.Props.C04Approx
open SvgVerif.Model.ArcApprox

variable {S : Type} [Add S] [Sub S] [Mul S] [Div S] [Neg S] [NatCast S] [OfNat S 1] [OfNat S 2] [OfNat S 3] [OfNat S 4]

/-! ## cubic -/
theorem cubicLoop_length (F : Fn S) (d : ArcData S) (n : Nat) : ∀ (k i : Nat) (ps : Pt S) (cur : S),
    (cubicLoop F d n i k ps cur).length = k := by
  intro k
  induction k with
  | zero => intro i ps cur; simp [cubicLoop]
  | succ k ih => intro i ps cur; simp [cubicLoop, ih]

theorem cubicLoop_head (F : Fn S) (d : ArcData S) (n k i : Nat) (ps : Pt S) (cur : S) :
    ∀ x ∈ (cubicLoop F d n i (k + 1) ps cur).head?, x.1 = ps := by
  intro x hx
  simp only [cubicLoop, List.head?_cons, Option.mem_def, Option.some.injEq] at hx
  rw [← hx]

theorem cubicLoop_chain (F : Fn S) (d : ArcData S) (n : Nat) : ∀ (k i : Nat) (ps : Pt S) (cur : S),
    (cubicLoop F d n i k ps cur).IsChain (fun a b => a.2.2.2 = b.1) := by
  intro k
  induction k with
  | zero => intro i ps cur; simp only [cubicLoop]; exact List.IsChain.nil
  | succ k ih =>
    intro i ps cur
    cases k with
    | zero => simp only [cubicLoop]; exact List.IsChain.singleton _
    | succ k =>
      have hrest := ih (i + 1)
      simp only [cubicLoop] at hrest ⊢
      exact List.IsChain.cons_cons rfl (hrest _ _)

theorem cubicLoop_last (F : Fn S) (d : ArcData S) (n : Nat) : ∀ (k i : Nat) (ps : Pt S) (cur : S), i + (k + 1) = n →
    ∀ x ∈ (cubicLoop F d n i (k + 1) ps cur).getLast?, x.2.2.2 = (d.ex, d.ey) := by
  intro k
  induction k with
  | zero =>
    intro i ps cur h x hx
    simp only [cubicLoop, List.getLast?_singleton, Option.mem_def, Option.some.injEq] at hx
    rw [← hx]
    simp [show i + 1 = n by omega]
  | succ k ih =>
    intro i ps cur h x hx
    have hne : cubicLoop F d n (i + 1) (k + 1) (if i + 1 = n then (d.ex, d.ey) else ellipsePt F d (cur + sliceT F d n))
        (cur + sliceT F d n) ≠ [] := by simp [cubicLoop]
    simp only [cubicLoop] at hx hne
    rw [List.getLast?_cons_of_ne_nil hne] at hx
    have := ih (i + 1) (if i + 1 = n then (d.ex, d.ey) else ellipsePt F d (cur + sliceT F d n)) (cur + sliceT F d n) (by omega) x
    simp only [cubicLoop] at this
    exact this hx

theorem asCubicCurves_length (F : Fn S) (d : ArcData S) (n : Nat) : (asCubicCurves F d n).length = n :=
  cubicLoop_length F d n n 0 _ _

theorem asCubicCurves_chain (F : Fn S) (d : ArcData S) (n : Nat) :
    (asCubicCurves F d n).IsChain (fun a b => a.2.2.2 = b.1) := cubicLoop_chain F d n n 0 _ _

/-- the first piece starts at `self.start` -/
theorem asCubicCurves_start (F : Fn S) (d : ArcData S) (n : Nat) :
    ∀ x ∈ (asCubicCurves F d (n + 1)).head?, x.1 = (d.sx, d.sy) := cubicLoop_head F d (n + 1) n 0 _ _

/-- the last piece ends at `self.end` -/
theorem asCubicCurves_end (F : Fn S) (d : ArcData S) (n : Nat) :
    ∀ x ∈ (asCubicCurves F d (n + 1)).getLast?, x.2.2.2 = (d.ex, d.ey) :=
  cubicLoop_last F d (n + 1) n 0 _ _ (by omega)

/-- the shape of every piece: from `p` to `q` with handles `± α e'` at the two eccentric angles -/
theorem cubicLoop_piece (F : Fn S) (d : ArcData S) (n k i : Nat) (ps : Pt S) (cur : S) :
    ∀ x ∈ (cubicLoop F d n i (k + 1) ps cur).head?,
      let sl := sliceT F d n
      let alpha := F.sin sl * (F.sqrt (4 + 3 * (F.tan (sl / 2) * F.tan (sl / 2))) - 1) / 3
      let q := if i + 1 = n then (d.ex, d.ey) else ellipsePt F d (cur + sl)
      x = (ps, (ps.1 + alpha * (ePrime F d cur).1, ps.2 + alpha * (ePrime F d cur).2),
        (q.1 - alpha * (ePrime F d (cur + sl)).1, q.2 - alpha * (ePrime F d (cur + sl)).2), q) ∧
      (cubicLoop F d n i (k + 1) ps cur).tail = cubicLoop F d n (i + 1) k q (cur + sl) := by
  intro x hx
  simp only [cubicLoop, List.head?_cons, Option.mem_def, Option.some.injEq] at hx
  simp only [cubicLoop, List.tail_cons, and_true]
  exact hx.symm

/-! ## quadratic -/
theorem quadLoop_length (F : Fn S) (d : ArcData S) (n : Nat) : ∀ (k i : Nat) (ps : Pt S) (cur : S),
    (quadLoop F d n i k ps cur).length = k := by
  intro k
  induction k with
  | zero => intro i ps cur; simp [quadLoop]
  | succ k ih => intro i ps cur; simp [quadLoop, ih]

theorem quadLoop_head (F : Fn S) (d : ArcData S) (n k i : Nat) (ps : Pt S) (cur : S) :
    ∀ x ∈ (quadLoop F d n i (k + 1) ps cur).head?, x.1 = ps := by
  intro x hx
  simp only [quadLoop, List.head?_cons, Option.mem_def, Option.some.injEq] at hx
  rw [← hx]

theorem quadLoop_chain (F : Fn S) (d : ArcData S) (n : Nat) : ∀ (k i : Nat) (ps : Pt S) (cur : S),
    (quadLoop F d n i k ps cur).IsChain (fun a b => a.2.2 = b.1) := by
  intro k
  induction k with
  | zero => intro i ps cur; simp only [quadLoop]; exact List.IsChain.nil
  | succ k ih =>
    intro i ps cur
    cases k with
    | zero => simp only [quadLoop]; exact List.IsChain.singleton _
    | succ k =>
      have hrest := ih (i + 1)
      simp only [quadLoop] at hrest ⊢
      exact List.IsChain.cons_cons rfl (hrest _ _)

theorem quadLoop_last (F : Fn S) (d : ArcData S) (n : Nat) : ∀ (k i : Nat) (ps : Pt S) (cur : S), i + (k + 1) = n →
    ∀ x ∈ (quadLoop F d n i (k + 1) ps cur).getLast?, x.2.2 = (d.ex, d.ey) := by
  intro k
  induction k with
  | zero =>
    intro i ps cur h x hx
    simp only [quadLoop, List.getLast?_singleton, Option.mem_def, Option.some.injEq] at hx
    rw [← hx]
    simp [show i + 1 = n by omega]
  | succ k ih =>
    intro i ps cur h x hx
    have hne : quadLoop F d n (i + 1) (k + 1) (if i + 1 = n then (d.ex, d.ey) else ellipsePt F d (cur + sliceT F d n))
        (cur + sliceT F d n) ≠ [] := by simp [quadLoop]
    simp only [quadLoop] at hx hne
    rw [List.getLast?_cons_of_ne_nil hne] at hx
    have := ih (i + 1) (if i + 1 = n then (d.ex, d.ey) else ellipsePt F d (cur + sliceT F d n)) (cur + sliceT F d n) (by omega) x
    simp only [quadLoop] at this
    exact this hx

theorem asQuadCurves_length (F : Fn S) (d : ArcData S) (n : Nat) : (asQuadCurves F d n).length = n :=
  quadLoop_length F d n n 0 _ _

theorem asQuadCurves_chain (F : Fn S) (d : ArcData S) (n : Nat) :
    (asQuadCurves F d n).IsChain (fun a b => a.2.2 = b.1) := quadLoop_chain F d n n 0 _ _

theorem asQuadCurves_start (F : Fn S) (d : ArcData S) (n : Nat) :
    ∀ x ∈ (asQuadCurves F d (n + 1)).head?, x.1 = (d.sx, d.sy) := quadLoop_head F d (n + 1) n 0 _ _

theorem asQuadCurves_end (F : Fn S) (d : ArcData S) (n : Nat) :
    ∀ x ∈ (asQuadCurves F d (n + 1)).getLast?, x.2.2 = (d.ex, d.ey) :=
  quadLoop_last F d (n + 1) n 0 _ _ (by omega)

end SvgVerif.Props.C04Approx
