import SvgVerif.Model.Area
import SvgVerif.Gen.C14
import Mathlib.Algebra.Field.Basic
import Mathlib.Algebra.CharZero.Defs
import Mathlib.Algebra.BigOperators.Group.List.Basic
import Mathlib.Data.List.Rotate
import Mathlib.Tactic.Ring
import Mathlib.Tactic.FieldSimp
import Mathlib.Tactic.LinearCombination
import Mathlib.Algebra.Order.Field.Basic
import Mathlib.Tactic.Linarith
/-! # C14 — `Path.area()` for paths of ANY number of Line / Quadratic / Cubic segments

The hand model `Model.Area.pathArea` (fold of per-segment closed forms `∫₀¹ x·y' dt`) is bridged, term by term, to
the five closed shapes traced from the running `Path.area()` (`Gen/C14.lean`), and is executed against the real
method on random closed paths with exact rational control points (harness/props/c14.py).  On the model, for every
list of segments:

* `pathArea_reversed` — `reversed()` negates the area;
* `pathArea_translated`, `pathArea_affine` — for a CLOSED continuous path a translation does not change it and an
  affine map multiplies it by the determinant of its linear part (`segArea_affine`: the extra terms are the
  differences of a quadratic potential at the segment's ends, and telescope around the path:
  `sum_potential_closed`);
* `polygon_shoelace` — for a closed polygon it is the shoelace value `½ Σ (xᵢ yᵢ₊₁ − xᵢ₊₁ yᵢ)`. -/
namespace SvgVerif.Props.C14
set_option linter.unusedVariables false
set_option linter.unusedSimpArgs false
set_option linter.unusedSectionVars false
open SvgVerif SvgVerif.Model.Area

variable {K : Type} [Field K] [CharZero K]

/-! ## bridges: the traced closed shapes are the model's folds -/

theorem tri_area_model (p0x p0y p1x p1y p2x p2y : K) :
    Gen.C14.tri_area p0x p0y p1x p1y p2x p2y
      = pathArea [.line (p0x, p0y) (p1x, p1y), .line (p1x, p1y) (p2x, p2y), .line (p2x, p2y) (p0x, p0y)] := by
  simp only [Gen.C14.tri_area, pathArea, List.foldl, segArea]; ring

theorem quadri_area_model (p0x p0y p1x p1y p2x p2y p3x p3y : K) :
    Gen.C14.quadri_area p0x p0y p1x p1y p2x p2y p3x p3y
      = pathArea [.line (p0x, p0y) (p1x, p1y), .line (p1x, p1y) (p2x, p2y), .line (p2x, p2y) (p3x, p3y),
          .line (p3x, p3y) (p0x, p0y)] := by
  simp only [Gen.C14.quadri_area, pathArea, List.foldl, segArea]; ring

theorem quad_line_area_model (p0x p0y p1x p1y p2x p2y : K) :
    Gen.C14.quad_line_area p0x p0y p1x p1y p2x p2y
      = pathArea [.quad (p0x, p0y) (p1x, p1y) (p2x, p2y), .line (p2x, p2y) (p0x, p0y)] := by
  simp only [Gen.C14.quad_line_area, pathArea, List.foldl, segArea]; ring

theorem cubic_line_area_model (p0x p0y p1x p1y p2x p2y p3x p3y : K) :
    Gen.C14.cubic_line_area p0x p0y p1x p1y p2x p2y p3x p3y
      = pathArea [.cubic (p0x, p0y) (p1x, p1y) (p2x, p2y) (p3x, p3y), .line (p3x, p3y) (p0x, p0y)] := by
  simp only [Gen.C14.cubic_line_area, pathArea, List.foldl, segArea]; ring

theorem cubic_cubic_area_model (p0x p0y p1x p1y p2x p2y p3x p3y p4x p4y p5x p5y : K) :
    Gen.C14.cubic_cubic_area p0x p0y p1x p1y p2x p2y p3x p3y p4x p4y p5x p5y
      = pathArea [.cubic (p0x, p0y) (p1x, p1y) (p2x, p2y) (p3x, p3y), .cubic (p3x, p3y) (p4x, p4y) (p5x, p5y) (p0x, p0y)] := by
  simp only [Gen.C14.cubic_cubic_area, pathArea, List.foldl, segArea]; ring

/-! ## the fold is a sum -/

theorem foldl_add_eq (segs : List (Seg K)) (a : K) :
    segs.foldl (fun acc s => acc + segArea s) a = a + (segs.map segArea).sum := by
  induction segs generalizing a with
  | nil => simp
  | cons s ss ih => simp only [List.foldl_cons, List.map_cons, List.sum_cons, ih]; ring

theorem pathArea_eq_sum (segs : List (Seg K)) : pathArea segs = (segs.map segArea).sum := by
  unfold pathArea; rw [foldl_add_eq]; ring

/-! ## reversal -/

theorem segArea_rev (s : Seg K) : segArea s.rev = -segArea s := by
  cases s with
  | line p0 p1 => obtain ⟨x0, y0⟩ := p0; obtain ⟨x1, y1⟩ := p1; simp only [Seg.rev, segArea]; ring
  | quad p0 p1 p2 =>
    obtain ⟨x0, y0⟩ := p0; obtain ⟨x1, y1⟩ := p1; obtain ⟨x2, y2⟩ := p2; simp only [Seg.rev, segArea]; ring
  | cubic p0 p1 p2 p3 =>
    obtain ⟨x0, y0⟩ := p0; obtain ⟨x1, y1⟩ := p1; obtain ⟨x2, y2⟩ := p2; obtain ⟨x3, y3⟩ := p3
    simp only [Seg.rev, segArea]; ring

/-- **`reversed()` changes the sign of the area**, for every path of lines, quadratics and cubics. -/
theorem pathArea_reversed (segs : List (Seg K)) : pathArea (revPath segs) = -pathArea segs := by
  rw [pathArea_eq_sum, pathArea_eq_sum, revPath, List.map_reverse, List.sum_reverse, List.map_map]
  induction segs with
  | nil => simp
  | cons s ss ih =>
    simp only [List.map_cons, List.sum_cons, Function.comp, segArea_rev] at ih ⊢
    rw [ih]; ring

/-! ## linear and affine maps -/

/-- `(x, y) ↦ (a x + c y + e, b x + d y + f)` — the matrix `[[a, c, e], [b, d, f], [0, 0, 1]]` of `transform()` -/
def affine (a b c d e f : K) (p : K × K) : K × K := (a * p.1 + c * p.2 + e, b * p.1 + d * p.2 + f)

/-- the potential whose differences are the extra terms: `∫(ax+cy+e)(bx'+dy') = det·∫x y' + [φ]` -/
def potential (a b c d e : K) (p : K × K) : K :=
  a * b * (p.1 * p.1) / 2 + c * b * (p.1 * p.2) + c * d * (p.2 * p.2) / 2 + e * (b * p.1 + d * p.2)

theorem segArea_affine (a b c d e f : K) (s : Seg K) :
    segArea (s.map (affine a b c d e f))
      = (a * d - b * c) * segArea s + (potential a b c d e s.end_ - potential a b c d e s.start) := by
  cases s with
  | line p0 p1 =>
    obtain ⟨x0, y0⟩ := p0; obtain ⟨x1, y1⟩ := p1
    simp only [Seg.map, affine, segArea, Seg.start, Seg.end_, potential]; ring
  | quad p0 p1 p2 =>
    obtain ⟨x0, y0⟩ := p0; obtain ⟨x1, y1⟩ := p1; obtain ⟨x2, y2⟩ := p2
    simp only [Seg.map, affine, segArea, Seg.start, Seg.end_, potential]; ring
  | cubic p0 p1 p2 p3 =>
    obtain ⟨x0, y0⟩ := p0; obtain ⟨x1, y1⟩ := p1; obtain ⟨x2, y2⟩ := p2; obtain ⟨x3, y3⟩ := p3
    simp only [Seg.map, affine, segArea, Seg.start, Seg.end_, potential]; ring

/-- consecutive segments join and the last one returns to the start of the first: `first` = where the chain must
end, `cur` = where the next segment must start -/
def ClosedFrom (first : K × K) : K × K → List (Seg K) → Prop
  | cur, [] => cur = first
  | cur, s :: ss => s.start = cur ∧ ClosedFrom first s.end_ ss

/-- a continuous closed path -/
def Closed : List (Seg K) → Prop
  | [] => True
  | s :: ss => ClosedFrom s.start s.end_ ss

theorem sum_potential_from (φ : K × K → K) (first cur : K × K) (segs : List (Seg K)) (h : ClosedFrom first cur segs) :
    (segs.map (fun s => φ s.end_ - φ s.start)).sum = φ first - φ cur := by
  induction segs generalizing cur with
  | nil => simp only [ClosedFrom] at h; subst h; simp
  | cons s ss ih =>
    obtain ⟨h1, h2⟩ := h
    simp only [List.map_cons, List.sum_cons, ih _ h2, h1]
    ring

/-- **exact differentials telescope around a closed path** -/
theorem sum_potential_closed (φ : K × K → K) (segs : List (Seg K)) (h : Closed segs) :
    (segs.map (fun s => φ s.end_ - φ s.start)).sum = 0 := by
  cases segs with
  | nil => simp
  | cons s ss =>
    simp only [List.map_cons, List.sum_cons, sum_potential_from φ s.start s.end_ ss h]
    ring

theorem pathArea_affine_general (a b c d e f : K) (segs : List (Seg K)) :
    pathArea (segs.map (Seg.map (affine a b c d e f)))
      = (a * d - b * c) * pathArea segs
        + (segs.map (fun s => potential a b c d e s.end_ - potential a b c d e s.start)).sum := by
  rw [pathArea_eq_sum, pathArea_eq_sum, List.map_map]
  induction segs with
  | nil => simp
  | cons s ss ih =>
    simp only [List.map_cons, List.sum_cons, Function.comp] at ih ⊢
    rw [ih, segArea_affine]; ring

/-- **Affine maps scale the area of a closed path by the determinant of the linear part** — every closed continuous
path of lines, quadratics and cubics, every matrix `[[a, c, e], [b, d, f], [0, 0, 1]]` (invertible or not). -/
theorem pathArea_affine (a b c d e f : K) (segs : List (Seg K)) (h : Closed segs) :
    pathArea (segs.map (Seg.map (affine a b c d e f))) = (a * d - b * c) * pathArea segs := by
  rw [pathArea_affine_general, sum_potential_closed _ segs h]; ring

/-- **Translation invariance** for closed paths -/
theorem pathArea_translated (zx zy : K) (segs : List (Seg K)) (h : Closed segs) :
    pathArea (segs.map (Seg.map (affine 1 0 0 1 zx zy))) = pathArea segs := by
  rw [pathArea_affine _ _ _ _ _ _ segs h]; ring

/-! ## polygons: the shoelace formula -/

/-- the closed polygon through the points `p :: ps` -/
def polygonFrom (first : K × K) : K × K → List (K × K) → List (Seg K)
  | cur, [] => [.line cur first]
  | cur, q :: qs => .line cur q :: polygonFrom first q qs

/-- the shoelace sum `Σ (xᵢ yᵢ₊₁ − xᵢ₊₁ yᵢ)` along the same cycle -/
def shoelaceFrom (first : K × K) : K × K → List (K × K) → K
  | cur, [] => cur.1 * first.2 - first.1 * cur.2
  | cur, q :: qs => (cur.1 * q.2 - q.1 * cur.2) + shoelaceFrom first q qs

theorem polygon_area_from (first cur : K × K) (qs : List (K × K)) :
    ((polygonFrom first cur qs).map segArea).sum
      = shoelaceFrom first cur qs / 2 + (first.1 * first.2 - cur.1 * cur.2) / 2 := by
  induction qs generalizing cur with
  | nil =>
    obtain ⟨x0, y0⟩ := cur; obtain ⟨x1, y1⟩ := first
    simp only [polygonFrom, shoelaceFrom, List.map_cons, List.map_nil, List.sum_cons, List.sum_nil, segArea]; ring
  | cons q qs ih =>
    obtain ⟨x0, y0⟩ := cur; obtain ⟨x1, y1⟩ := q
    simp only [polygonFrom, shoelaceFrom, List.map_cons, List.sum_cons, ih, segArea]; ring

/-- **`Path.area()` of a closed polygon is the shoelace value**, for every number of vertices. -/
theorem polygon_shoelace (p : K × K) (ps : List (K × K)) :
    pathArea (polygonFrom p p ps) = shoelaceFrom p p ps / 2 := by
  rw [pathArea_eq_sum, polygon_area_from]; ring

theorem polygon_closed (first cur : K × K) (qs : List (K × K)) : ClosedFrom first cur (polygonFrom first cur qs) := by
  induction qs generalizing cur with
  | nil => exact ⟨rfl, rfl⟩
  | cons q qs ih => exact ⟨rfl, ih q⟩

/-- non-vacuity / orientation: the counter-clockwise unit square has area `+1` -/
example : pathArea (polygonFrom ((0 : ℚ), (0 : ℚ)) (0, 0) [(1, 0), (1, 1), (0, 1)]) = 1 := by
  rw [polygon_shoelace]; norm_num [shoelaceFrom]

/-! ## orientation: counter-clockwise polygons have positive area -/
section orientation
variable {K : Type} [Field K] [LinearOrder K] [IsStrictOrderedRing K]

/-- twice the signed area of the triangle `(o, a, b)`: positive iff `o → a → b` turns counter-clockwise -/
def cross2 (o a b : K × K) : K := (a.1 - o.1) * (b.2 - o.2) - (b.1 - o.1) * (a.2 - o.2)

/-- the triangles of the fan about `first` along the cycle `cur → q₁ → … → first` -/
def fanTerms (first : K × K) : K × K → List (K × K) → List K
  | _, [] => []
  | cur, q :: qs => cross2 first cur q :: fanTerms first q qs

/-- shoelace = fan about the first vertex (the two differ by a telescoping boundary term) -/
theorem shoelace_eq_fan (first cur : K × K) (qs : List (K × K)) :
    shoelaceFrom first cur qs = (fanTerms first cur qs).sum + (cur.1 * first.2 - first.1 * cur.2) := by
  induction qs generalizing cur with
  | nil => simp [shoelaceFrom, fanTerms]
  | cons q qs ih =>
    simp only [shoelaceFrom, fanTerms, List.sum_cons, ih, cross2]
    ring

theorem sum_nonneg_of (l : List K) (h0 : ∀ x ∈ l, 0 ≤ x) : 0 ≤ l.sum := by
  induction l with
  | nil => simp
  | cons a l ih =>
    rw [List.sum_cons]
    have := h0 a (by simp)
    have := ih (fun y hy => h0 y (by simp [hy]))
    linarith

theorem sum_map_neg_of (l : List K) : (l.map (fun x => -x)).sum = -l.sum := by
  induction l with
  | nil => simp
  | cons a l ih => simp only [List.map_cons, List.sum_cons, ih]; ring

theorem sum_pos_of (l : List K) (h0 : ∀ x ∈ l, 0 ≤ x) (h1 : ∃ x ∈ l, 0 < x) : 0 < l.sum := by
  induction l with
  | nil => obtain ⟨x, hx, _⟩ := h1; simp at hx
  | cons a l ih =>
    rw [List.sum_cons]
    have ha : 0 ≤ a := h0 a (by simp)
    have hl : 0 ≤ l.sum := sum_nonneg_of l (fun x hx => h0 x (by simp [hx]))
    obtain ⟨x, hx, hp⟩ := h1
    rcases List.mem_cons.mp hx with rfl | hx
    · linarith
    · have := ih (fun y hy => h0 y (by simp [hy])) ⟨x, hx, hp⟩
      linarith

/-- **`area()` of a polygon is half the sum of its fan triangles about the first vertex** -/
theorem polygon_area_fan [CharZero K] (p : K × K) (ps : List (K × K)) :
    pathArea (polygonFrom p p ps) = (fanTerms p p ps).sum / 2 := by
  rw [polygon_shoelace, shoelace_eq_fan]; ring

/-- **orientation**: a polygon that is seen counter-clockwise from its first vertex — every fan triangle
`(p, vᵢ, vᵢ₊₁)` is counter-clockwise or degenerate and at least one is not degenerate; in particular every
convex polygon traversed counter-clockwise — has positive `area()` -/
theorem polygon_ccw_area_pos [CharZero K] (p : K × K) (ps : List (K × K))
    (h0 : ∀ x ∈ fanTerms p p ps, 0 ≤ x) (h1 : ∃ x ∈ fanTerms p p ps, 0 < x) :
    0 < pathArea (polygonFrom p p ps) := by
  rw [polygon_area_fan]
  exact div_pos (sum_pos_of _ h0 h1) (by norm_num)

/-- and clockwise traversal gives a negative area -/
theorem polygon_cw_area_neg [CharZero K] (p : K × K) (ps : List (K × K))
    (h0 : ∀ x ∈ fanTerms p p ps, x ≤ 0) (h1 : ∃ x ∈ fanTerms p p ps, x < 0) :
    pathArea (polygonFrom p p ps) < 0 := by
  rw [polygon_area_fan]
  have : 0 < ((fanTerms p p ps).map (fun x => -x)).sum := by
    apply sum_pos_of
    · intro x hx; obtain ⟨y, hy, rfl⟩ := List.mem_map.mp hx; linarith [h0 y hy]
    · obtain ⟨y, hy, hn⟩ := h1; exact ⟨-y, List.mem_map.mpr ⟨y, hy, rfl⟩, by linarith⟩
  rw [sum_map_neg_of] at this
  have h2 : (fanTerms p p ps).sum < 0 := by linarith
  exact div_neg_of_neg_of_pos h2 (by norm_num)

/-- non-vacuity: the counter-clockwise unit square is seen counter-clockwise from its first vertex -/
example : (∀ x ∈ fanTerms ((0 : ℚ), (0 : ℚ)) (0, 0) [(1, 0), (1, 1), (0, 1)], 0 ≤ x) ∧
    ∃ x ∈ fanTerms ((0 : ℚ), (0 : ℚ)) (0, 0) [(1, 0), (1, 1), (0, 1)], 0 < x := by
  simp [fanTerms, cross2]

end orientation

end SvgVerif.Props.C14
