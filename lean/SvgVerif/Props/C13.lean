import SvgVerif.Gen.C13
import SvgVerif.Model.Radial
import SvgVerif.Lemmas.Extreme
import SvgVerif.Lemmas.PolyCalculus
import Mathlib.Analysis.SpecialFunctions.Sqrt
import Mathlib.Tactic.Ring
import Mathlib.Tactic.Linarith
import Mathlib.Tactic.FieldSimp
import Mathlib.Tactic.Positivity
import Mathlib.Tactic.LinearCombination
/-! # C13 — radialrange / closest / farthest point return the global extremes of distance -/
namespace SvgVerif.Props.C13
set_option linter.unusedVariables false
set_option linter.unusedSimpArgs false
open SvgVerif SvgVerif.Model.Radial Set

/-! ## Line.radialrange -/
section line
variable (p0x p0y p1x p1y zx zy : ℝ)

/-- the traced projection parameter and squared distances are the model's -/
theorem line_bridge :
    Gen.C13.line_t p0x p0y p1x p1y zx zy
      = ((p1x - p0x) * (zx - p0x) + (p1y - p0y) * (zy - p0y)) / ((p1x - p0x) * (p1x - p0x) + (p1y - p0y) * (p1y - p0y)) ∧
    Gen.C13.line_dt_sq p0x p0y p1x p1y zx zy
      = lineQ p0x p0y p1x p1y zx zy (Gen.C13.line_t p0x p0y p1x p1y zx zy) := by
  simp only [Gen.C13.line_t, Gen.C13.line_dt_sq, lineQ, and_self]

/-- `den = |p1 - p0|²` -/
def den : ℝ := (p1x - p0x) * (p1x - p0x) + (p1y - p0y) * (p1y - p0y)
noncomputable def tstar : ℝ := ((p1x - p0x) * (zx - p0x) + (p1y - p0y) * (zy - p0y)) / den p0x p0y p1x p1y

theorem q_vertex (hden : den p0x p0y p1x p1y ≠ 0) (t : ℝ) :
    lineQ p0x p0y p1x p1y zx zy t = lineQ p0x p0y p1x p1y zx zy (tstar p0x p0y p1x p1y zx zy)
      + den p0x p0y p1x p1y * (t - tstar p0x p0y p1x p1y zx zy) ^ 2 := by
  have h : den p0x p0y p1x p1y * tstar p0x p0y p1x p1y zx zy
      = (p1x - p0x) * (zx - p0x) + (p1y - p0y) * (zy - p0y) := by
    unfold tstar; exact mul_div_cancel₀ _ hden
  generalize tstar p0x p0y p1x p1y zx zy = ts at h ⊢
  unfold den at h ⊢
  simp only [lineQ]
  linear_combination (2 * (t - ts)) * h

theorem q_convex (t : ℝ) :
    lineQ p0x p0y p1x p1y zx zy t = (1 - t) * lineQ p0x p0y p1x p1y zx zy 0 + t * lineQ p0x p0y p1x p1y zx zy 1
      - t * (1 - t) * den p0x p0y p1x p1y := by
  simp only [lineQ, den]; ring

theorem den_nonneg : 0 ≤ den p0x p0y p1x p1y :=
  add_nonneg (mul_self_nonneg _) (mul_self_nonneg _)

/-- what "globally optimal" means for a result `((dmin, tmin), (dmax, tmax))` -/
def LineGood (q : ℝ → ℝ) (res : (ℝ × ℝ) × (ℝ × ℝ)) : Prop :=
  res.1.2 ∈ Icc (0 : ℝ) 1 ∧ res.2.2 ∈ Icc (0 : ℝ) 1 ∧
  res.1.1 = Real.sqrt (q res.1.2) ∧ res.2.1 = Real.sqrt (q res.2.2) ∧
  ∀ t ∈ Icc (0 : ℝ) 1, res.1.1 ≤ Real.sqrt (q t) ∧ Real.sqrt (q t) ≤ res.2.1

/-- **Line.radialrange is globally optimal.**  For a non-degenerate line and any `z`, the result
`((dmin, tmin), (dmax, tmax))` has both parameters in `[0,1]`, both distances are the distances
at those parameters, and no point of the segment is closer than `dmin` or farther than `dmax`. -/
theorem line_radialrange (hden : den p0x p0y p1x p1y ≠ 0) :
    LineGood (lineQ p0x p0y p1x p1y zx zy) (lineRadial Real.sqrt p0x p0y p1x p1y zx zy) := by
  have hdpos : 0 < den p0x p0y p1x p1y := lt_of_le_of_ne (den_nonneg _ _ _ _) (Ne.symm hden)
  obtain ⟨q, hq⟩ : ∃ q : ℝ → ℝ, q = lineQ p0x p0y p1x p1y zx zy := ⟨_, rfl⟩
  obtain ⟨ts, hts⟩ : ∃ ts : ℝ, ts = tstar p0x p0y p1x p1y zx zy := ⟨_, rfl⟩
  obtain ⟨D, hD⟩ : ∃ D : ℝ, D = den p0x p0y p1x p1y := ⟨_, rfl⟩
  have hv : ∀ t, q t = q ts + D * (t - ts) ^ 2 := by
    intro t; rw [hq, hts, hD]; exact q_vertex p0x p0y p1x p1y zx zy hden t
  have hc : ∀ t, q t = (1 - t) * q 0 + t * q 1 - t * (1 - t) * D := by
    intro t; rw [hq, hD]; exact q_convex p0x p0y p1x p1y zx zy t
  rw [← hD] at hdpos
  have e : lineRadial Real.sqrt p0x p0y p1x p1y zx zy =
      (if 0 < ts ∧ ts < 1 then
        (if Real.sqrt (q 0) < Real.sqrt (q 1) then ((Real.sqrt (q ts), ts), (Real.sqrt (q 1), 1))
         else ((Real.sqrt (q ts), ts), (Real.sqrt (q 0), 0)))
       else
        (if Real.sqrt (q 0) < Real.sqrt (q 1) then ((Real.sqrt (q 0), 0), (Real.sqrt (q 1), 1))
         else ((Real.sqrt (q 1), 1), (Real.sqrt (q 0), 0)))) := by
    rw [hq, hts]; rfl
  rw [e, ← hq]
  clear e hq hts hD
  -- upper bound by the larger end value, on [0,1]
  have hupper : ∀ t ∈ Icc (0 : ℝ) 1, q t ≤ max (q 0) (q 1) := by
    intro t ht
    rw [hc t]
    have h1 : t * (1 - t) * D ≥ 0 := by
      have := ht.1; have := ht.2
      exact mul_nonneg (mul_nonneg ht.1 (by linarith)) hdpos.le
    have h2 : (1 - t) * q 0 + t * q 1 ≤ max (q 0) (q 1) := by
      have ha : q 0 ≤ max (q 0) (q 1) := le_max_left _ _
      have hb : q 1 ≤ max (q 0) (q 1) := le_max_right _ _
      have := ht.1; have := ht.2
      nlinarith
    linarith
  have hmono := fun a b (h : a ≤ b) => Real.sqrt_le_sqrt h
  have hmin_ts : ∀ t, q ts ≤ q t := fun t => by rw [hv t]; nlinarith [sq_nonneg (t - ts)]
  by_cases hin : 0 < ts ∧ ts < 1
  · rw [if_pos hin]
    by_cases hlt : Real.sqrt (q 0) < Real.sqrt (q 1)
    · rw [if_pos hlt]
      have h01 : q 0 ≤ q 1 := by
        by_contra hcon
        exact absurd (hmono _ _ (not_le.mp hcon).le) (not_le.mpr hlt)
      exact ⟨⟨hin.1.le, hin.2.le⟩, ⟨zero_le_one, le_refl _⟩, rfl, rfl, fun t ht =>
        ⟨hmono _ _ (hmin_ts t), hmono _ _ (le_trans (hupper t ht) (by rw [max_eq_right h01]))⟩⟩
    · rw [if_neg hlt]
      have h10 : Real.sqrt (q 1) ≤ Real.sqrt (q 0) := not_lt.mp hlt
      refine ⟨⟨hin.1.le, hin.2.le⟩, ⟨le_refl _, zero_le_one⟩, rfl, rfl, fun t ht => ⟨hmono _ _ (hmin_ts t), ?_⟩⟩
      rcases le_total (q 0) (q 1) with h01 | h01
      · exact le_trans (hmono _ _ (le_trans (hupper t ht) (by rw [max_eq_right h01]))) h10
      · exact hmono _ _ (le_trans (hupper t ht) (by rw [max_eq_left h01]))
  · rw [if_neg hin]
    -- the vertex is outside (0,1): q is monotone on [0,1], so its minimum there is at an end
    have hlower : ∀ t ∈ Icc (0 : ℝ) 1, min (q 0) (q 1) ≤ q t := by
      intro t ht
      rcases not_and_or.mp hin with h | h
      · have hts0 : ts ≤ 0 := not_lt.mp h
        have : q 0 ≤ q t := by
          rw [hv t, hv 0]
          have := ht.1
          nlinarith [sq_nonneg (t - ts), sq_nonneg ts, mul_nonneg hdpos.le (mul_nonneg ht.1 (by linarith : 0 ≤ t - 2 * ts))]
        exact le_trans (min_le_left _ _) this
      · have hts1 : 1 ≤ ts := not_lt.mp h
        have : q 1 ≤ q t := by
          rw [hv t, hv 1]
          have := ht.2
          nlinarith [sq_nonneg (t - ts), sq_nonneg (1 - ts), mul_nonneg hdpos.le (mul_nonneg (by linarith : 0 ≤ 1 - t) (by linarith : 0 ≤ 2 * ts - 1 - t))]
        exact le_trans (min_le_right _ _) this
    by_cases hlt : Real.sqrt (q 0) < Real.sqrt (q 1)
    · rw [if_pos hlt]
      have h01 : q 0 ≤ q 1 := by
        by_contra hcon
        exact absurd (hmono _ _ (not_le.mp hcon).le) (not_le.mpr hlt)
      refine ⟨⟨le_refl _, zero_le_one⟩, ⟨zero_le_one, le_refl _⟩, rfl, rfl, fun t ht => ⟨?_, ?_⟩⟩
      · apply hmono; have := hlower t ht; rwa [min_eq_left h01] at this
      · apply hmono; exact le_trans (hupper t ht) (by rw [max_eq_right h01])
    · rw [if_neg hlt]
      have h10 : Real.sqrt (q 1) ≤ Real.sqrt (q 0) := not_lt.mp hlt
      refine ⟨⟨zero_le_one, le_refl _⟩, ⟨le_refl _, zero_le_one⟩, rfl, rfl, fun t ht => ⟨?_, ?_⟩⟩
      · rcases le_total (q 0) (q 1) with h01 | h01
        · have := hlower t ht; rw [min_eq_left h01] at this
          exact le_trans h10 (hmono _ _ this)
        · have := hlower t ht; rw [min_eq_right h01] at this
          exact hmono _ _ this
      · rcases le_total (q 0) (q 1) with h01 | h01
        · exact le_trans (hmono _ _ (le_trans (hupper t ht) (by rw [max_eq_right h01]))) h10
        · exact hmono _ _ (le_trans (hupper t ht) (by rw [max_eq_left h01]))
end line

/-! ## bezier_radialrange: the polynomial handed to the root finder is d/dt |B(t) − z|² -/
theorem quad_dr2_is_derivative (p0x p0y p1x p1y p2x p2y zx zy t : ℝ) :
    Spec.polyEval [Gen.C13.quad_dr2_0 p0x p0y p1x p1y p2x p2y zx zy, Gen.C13.quad_dr2_1 p0x p0y p1x p1y p2x p2y zx zy,
      Gen.C13.quad_dr2_2 p0x p0y p1x p1y p2x p2y zx zy, Gen.C13.quad_dr2_3 p0x p0y p1x p1y p2x p2y zx zy] t
    = 2 * (Gen.C13.quad_dx p0x p0y p1x p1y p2x p2y zx zy t * Gen.C13.quad_vx p0x p0y p1x p1y p2x p2y t
         + Gen.C13.quad_dy p0x p0y p1x p1y p2x p2y zx zy t * Gen.C13.quad_vy p0x p0y p1x p1y p2x p2y t) := by
  simp [Spec.polyEval, Gen.C13.quad_dr2_0, Gen.C13.quad_dr2_1, Gen.C13.quad_dr2_2, Gen.C13.quad_dr2_3,
    Gen.C13.quad_dx, Gen.C13.quad_dy, Gen.C13.quad_vx, Gen.C13.quad_vy]
  ring

theorem cubic_dr2_is_derivative (p0x p0y p1x p1y p2x p2y p3x p3y zx zy t : ℝ) :
    Spec.polyEval [Gen.C13.cubic_dr2_0 p0x p0y p1x p1y p2x p2y p3x p3y zx zy, Gen.C13.cubic_dr2_1 p0x p0y p1x p1y p2x p2y p3x p3y zx zy,
      Gen.C13.cubic_dr2_2 p0x p0y p1x p1y p2x p2y p3x p3y zx zy, Gen.C13.cubic_dr2_3 p0x p0y p1x p1y p2x p2y p3x p3y zx zy,
      Gen.C13.cubic_dr2_4 p0x p0y p1x p1y p2x p2y p3x p3y zx zy, Gen.C13.cubic_dr2_5 p0x p0y p1x p1y p2x p2y p3x p3y zx zy] t
    = 2 * (Gen.C13.cubic_dx p0x p0y p1x p1y p2x p2y p3x p3y zx zy t * Gen.C13.cubic_vx p0x p0y p1x p1y p2x p2y p3x p3y t
         + Gen.C13.cubic_dy p0x p0y p1x p1y p2x p2y p3x p3y zx zy t * Gen.C13.cubic_vy p0x p0y p1x p1y p2x p2y p3x p3y t) := by
  simp [Spec.polyEval, Gen.C13.cubic_dr2_0, Gen.C13.cubic_dr2_1, Gen.C13.cubic_dr2_2, Gen.C13.cubic_dr2_3,
    Gen.C13.cubic_dr2_4, Gen.C13.cubic_dr2_5, Gen.C13.cubic_dx, Gen.C13.cubic_dy, Gen.C13.cubic_vx, Gen.C13.cubic_vy]
  ring

/-- **global optimality given the root oracle.**  Let `r2` be the squared distance along the
curve with derivative `dr2` (for quadratics and cubics: the polynomial above).  If the list
`roots` returned by `polyroots01` lies in `[0,1]` and contains every zero of `dr2` in `(0,1)`,
then the candidates `[0,1] ++ roots` that `bezier_radialrange` evaluates contain a global
minimiser and a global maximiser of the distance on `[0,1]`. -/
theorem radial_candidates_global (r2 dr2 : ℝ → ℝ) (roots : List ℝ)
    (hd : ∀ t, HasDerivAt r2 (dr2 t) t)
    (horacle : ∀ t ∈ Ioo (0 : ℝ) 1, dr2 t = 0 → t ∈ roots) (t : ℝ) (ht : t ∈ Icc (0 : ℝ) 1) :
    (∃ c ∈ [0, 1] ++ roots, c ∈ Icc (0 : ℝ) 1 ∧ Real.sqrt (r2 c) ≤ Real.sqrt (r2 t)) ∧
    (∃ c ∈ [0, 1] ++ roots, c ∈ Icc (0 : ℝ) 1 ∧ Real.sqrt (r2 t) ≤ Real.sqrt (r2 c)) := by
  have hcont : ContinuousOn r2 (Icc 0 1) := fun x _ => (hd x).continuousAt.continuousWithinAt
  have hcrit : ∀ x ∈ Ioo (0 : ℝ) 1, dr2 x = 0 → x ∈ [0, 1] ++ roots := fun x hx h => by
    simp [horacle x hx h]
  obtain ⟨c, hc, hci, hle⟩ := Lemmas.candidate_min_le r2 dr2 ([0, 1] ++ roots) (fun x _ => hd x) hcont
    (by simp) (by simp) hcrit t ht
  obtain ⟨c', hc', hci', hle'⟩ := Lemmas.le_candidate_max r2 dr2 ([0, 1] ++ roots) (fun x _ => hd x) hcont
    (by simp) (by simp) hcrit t ht
  exact ⟨⟨c, hc, hci, Real.sqrt_le_sqrt hle⟩, ⟨c', hc', hci', Real.sqrt_le_sqrt hle'⟩⟩

/-! ## the selection `min(extrema, key=…)` / `max(…)` and the reduction over a path -/
theorem firstMin_spec (l : List (ℝ × ℝ)) (m : ℝ × ℝ) (h : firstMin l = some m) : m ∈ l ∧ ∀ x ∈ l, m.1 ≤ x.1 := by
  cases l with
  | nil => simp [firstMin] at h
  | cons x xs =>
    simp only [firstMin, Option.some.injEq] at h
    subst h
    have gen : ∀ (ys : List (ℝ × ℝ)) (acc : ℝ × ℝ),
        (ys.foldl (fun m y => if y.1 < m.1 then y else m) acc).1 ≤ acc.1 ∧
        (∀ v ∈ ys, (ys.foldl (fun m y => if y.1 < m.1 then y else m) acc).1 ≤ v.1) ∧
        (ys.foldl (fun m y => if y.1 < m.1 then y else m) acc = acc ∨
          ys.foldl (fun m y => if y.1 < m.1 then y else m) acc ∈ ys) := by
      intro ys
      induction ys with
      | nil => intro acc; simp
      | cons y r ih =>
        intro acc
        simp only [List.foldl_cons]
        obtain ⟨i1, i2, i3⟩ := ih (if y.1 < acc.1 then y else acc)
        have hacc : (if y.1 < acc.1 then y else acc).1 ≤ acc.1 := by split_ifs with hh <;> [exact hh.le; exact le_refl _]
        have hy : (if y.1 < acc.1 then y else acc).1 ≤ y.1 := by split_ifs with hh <;> [exact le_refl _; exact not_lt.mp hh]
        refine ⟨le_trans i1 hacc, ?_, ?_⟩
        · intro v hv
          rcases List.mem_cons.mp hv with rfl | hv
          · exact le_trans i1 hy
          · exact i2 v hv
        · rcases i3 with h' | h'
          · rw [h']
            split_ifs with hh
            · right; simp
            · left; rfl
          · right; exact List.mem_cons_of_mem _ h'
    obtain ⟨g1, g2, g3⟩ := gen xs x
    refine ⟨?_, ?_⟩
    · rcases g3 with h' | h'
      · rw [h']; simp
      · exact List.mem_cons_of_mem _ h'
    · intro v hv
      rcases List.mem_cons.mp hv with rfl | hv
      · exact g1
      · exact g2 v hv

theorem firstMax_spec (l : List (ℝ × ℝ)) (m : ℝ × ℝ) (h : firstMax l = some m) : m ∈ l ∧ ∀ x ∈ l, x.1 ≤ m.1 := by
  cases l with
  | nil => simp [firstMax] at h
  | cons x xs =>
    simp only [firstMax, Option.some.injEq] at h
    subst h
    have gen : ∀ (ys : List (ℝ × ℝ)) (acc : ℝ × ℝ),
        acc.1 ≤ (ys.foldl (fun m y => if m.1 < y.1 then y else m) acc).1 ∧
        (∀ v ∈ ys, v.1 ≤ (ys.foldl (fun m y => if m.1 < y.1 then y else m) acc).1) ∧
        (ys.foldl (fun m y => if m.1 < y.1 then y else m) acc = acc ∨
          ys.foldl (fun m y => if m.1 < y.1 then y else m) acc ∈ ys) := by
      intro ys
      induction ys with
      | nil => intro acc; simp
      | cons y r ih =>
        intro acc
        simp only [List.foldl_cons]
        obtain ⟨i1, i2, i3⟩ := ih (if acc.1 < y.1 then y else acc)
        have hacc : acc.1 ≤ (if acc.1 < y.1 then y else acc).1 := by split_ifs with hh <;> [exact hh.le; exact le_refl _]
        have hy : y.1 ≤ (if acc.1 < y.1 then y else acc).1 := by split_ifs with hh <;> [exact le_refl _; exact not_lt.mp hh]
        refine ⟨le_trans hacc i1, ?_, ?_⟩
        · intro v hv
          rcases List.mem_cons.mp hv with rfl | hv
          · exact le_trans hy i1
          · exact i2 v hv
        · rcases i3 with h' | h'
          · rw [h']
            split_ifs with hh
            · right; simp
            · left; rfl
          · right; exact List.mem_cons_of_mem _ h'
    obtain ⟨g1, g2, g3⟩ := gen xs x
    refine ⟨?_, ?_⟩
    · rcases g3 with h' | h'
      · rw [h']; simp
      · exact List.mem_cons_of_mem _ h'
    · intro v hv
      rcases List.mem_cons.mp hv with rfl | hv
      · exact g1
      · exact g2 v hv

/-- what `bezier_radialrange` returns is a minimum / maximum over the candidates it evaluated,
paired with the parameter it was evaluated at, and the parameters are among `[0,1] ++ roots` -/
theorem bezierRadial_spec (dist : ℝ → ℝ) (roots : List ℝ) (a b : ℝ × ℝ) (h : bezierRadial dist roots = some (a, b)) :
    a.2 ∈ [0, 1] ++ roots ∧ b.2 ∈ [0, 1] ++ roots ∧ a.1 = dist a.2 ∧ b.1 = dist b.2 ∧
    ∀ c ∈ [0, 1] ++ roots, a.1 ≤ dist c ∧ dist c ≤ b.1 := by
  unfold bezierRadial at h
  dsimp only at h
  split at h
  · rename_i a' b' h1 h2
    simp only [Option.some.injEq, Prod.mk.injEq] at h
    obtain ⟨rfl, rfl⟩ := h
    obtain ⟨m1, m2⟩ := firstMin_spec _ _ h1
    obtain ⟨x1, x2⟩ := firstMax_spec _ _ h2
    obtain ⟨ta, hta, ea⟩ := List.mem_map.mp m1
    obtain ⟨tb, htb, eb⟩ := List.mem_map.mp x1
    subst ea; subst eb
    refine ⟨hta, htb, rfl, rfl, fun c hc => ⟨?_, ?_⟩⟩
    · exact m2 (dist c, c) (List.mem_map.mpr ⟨c, hc, rfl⟩)
    · exact x2 (dist c, c) (List.mem_map.mpr ⟨c, hc, rfl⟩)
  · simp at h

/-- what the reduction promises about the reported minimum -/
def MinGood (rs : List ((ℝ × ℝ) × (ℝ × ℝ))) (idx : ℕ) (gmin : Option (ℝ × ℝ × ℕ)) : Option (ℝ × ℝ × ℕ) → Prop
  | none => rs = [] ∧ gmin = none
  | some g => (∀ s ∈ rs, g.1 ≤ s.1.1) ∧ (∀ g0, gmin = some g0 → g.1 ≤ g0.1) ∧
      ((gmin = some g) ∨ ∃ k, k < rs.length ∧ ∃ s, rs[k]? = some s ∧ g = (s.1.1, s.1.2, idx + k))

theorem minGood_cons (smin smax : ℝ × ℝ) (rest : List ((ℝ × ℝ) × (ℝ × ℝ))) (idx : ℕ) (gmin r : Option (ℝ × ℝ × ℕ))
    (h : MinGood rest (idx + 1) (stepMin gmin smin idx) r) : MinGood ((smin, smax) :: rest) idx gmin r := by
  have hsome : ∃ g1, stepMin gmin smin idx = some g1 ∧ g1.1 ≤ smin.1 ∧ (∀ g0, gmin = some g0 → g1.1 ≤ g0.1) ∧
      (gmin = some g1 ∨ g1 = (smin.1, smin.2, idx)) := by
    cases gmin with
    | none => exact ⟨_, rfl, le_refl _, by simp, Or.inr rfl⟩
    | some g =>
      by_cases hlt : smin.1 < g.1
      · exact ⟨(smin.1, smin.2, idx), by simp [stepMin, hlt], le_refl _, by intro g0 h0; cases h0; exact hlt.le, Or.inr rfl⟩
      · exact ⟨g, by simp [stepMin, hlt], not_lt.mp hlt, by intro g0 h0; cases h0; exact le_refl _, Or.inl rfl⟩
  obtain ⟨g1, e1, l1, l2, l3⟩ := hsome
  cases r with
  | none => rw [e1] at h; exact absurd h.2 (by simp)
  | some g =>
    obtain ⟨t1, t2, t3⟩ := h
    have hg1 : g.1 ≤ g1.1 := t2 g1 e1
    refine ⟨?_, ?_, ?_⟩
    · intro s hs
      rcases List.mem_cons.mp hs with rfl | hs
      · exact le_trans hg1 l1
      · exact t1 s hs
    · intro g0 h0; exact le_trans hg1 (l2 g0 h0)
    · rcases t3 with h' | ⟨k, hk, s, hs, hgk⟩
      · rw [e1] at h'; cases h'
        rcases l3 with h'' | h''
        · left; exact h''
        · right; exact ⟨0, by simp, (smin, smax), by simp, by simpa using h''⟩
      · right
        exact ⟨k + 1, by simpa using hk, s, by simpa using hs, by rw [hgk]; simp [Nat.add_assoc, Nat.add_comm 1 k]⟩

/-- `Path.radialrange`: the reported minimum is below every segment's minimum and is one of
them, with the index of the segment it came from -/
theorem pathRadialLoop_min (rs : List ((ℝ × ℝ) × (ℝ × ℝ))) (idx : ℕ) (gmin gmax : Option (ℝ × ℝ × ℕ)) :
    MinGood rs idx gmin (pathRadialLoop rs idx gmin gmax).1 := by
  induction rs generalizing idx gmin gmax with
  | nil =>
    cases gmin with
    | none => simp [pathRadialLoop, MinGood]
    | some g => simp [pathRadialLoop, MinGood]
  | cons s rest ih =>
    obtain ⟨smin, smax⟩ := s
    apply minGood_cons
    exact ih (idx + 1) (stepMin gmin smin idx) (stepMax gmax smax idx)

/-- for a non-empty path the closest point reported is the global minimum over all segments,
with the index of a segment attaining it -/
theorem pathRadial_min (rs : List ((ℝ × ℝ) × (ℝ × ℝ))) (hne : rs ≠ []) :
    ∃ g, (pathRadial rs).1 = some g ∧ (∀ s ∈ rs, g.1 ≤ s.1.1) ∧
      ∃ k s, rs[k]? = some s ∧ g = (s.1.1, s.1.2, k) := by
  have h := pathRadialLoop_min rs 0 none none
  unfold pathRadial
  cases hr : (pathRadialLoop rs 0 none none).1 with
  | none => rw [hr] at h; exact absurd h.1 hne
  | some g =>
    rw [hr] at h
    obtain ⟨h1, _, h3⟩ := h
    rcases h3 with h3 | ⟨k, _, s, hs, hg⟩
    · cases h3
    · exact ⟨g, rfl, h1, k, s, hs, by simpa using hg⟩

/-! ## the dual statement for the maximum (`global_max` starts as `(0, None, None)`, strict `>`) -/

/-- what the reduction promises about the reported maximum -/
def MaxGood (rs : List ((ℝ × ℝ) × (ℝ × ℝ))) (idx : ℕ) (gmax : Option (ℝ × ℝ × ℕ)) : Option (ℝ × ℝ × ℕ) → Prop
  | none => gmax = none ∧ ∀ s ∈ rs, s.2.1 ≤ 0
  | some g => 0 < g.1 ∧ (∀ s ∈ rs, s.2.1 ≤ g.1) ∧ (∀ g0, gmax = some g0 → g0.1 ≤ g.1) ∧
      ((gmax = some g) ∨ ∃ k, k < rs.length ∧ ∃ s, rs[k]? = some s ∧ g = (s.2.1, s.2.2, idx + k))

theorem stepMax_some (gmax : Option (ℝ × ℝ × ℕ)) (smax : ℝ × ℝ) (idx : ℕ) (hpos : ∀ g0, gmax = some g0 → 0 < g0.1)
    (g1 : ℝ × ℝ × ℕ) (h : stepMax gmax smax idx = some g1) :
    0 < g1.1 ∧ smax.1 ≤ g1.1 ∧ (∀ g0, gmax = some g0 → g0.1 ≤ g1.1) ∧ (gmax = some g1 ∨ g1 = (smax.1, smax.2, idx)) := by
  cases gmax with
  | none =>
    by_cases hp : 0 < smax.1
    · simp only [stepMax, hp, if_true, Option.some.injEq] at h
      subst h
      exact ⟨hp, le_refl _, by simp, Or.inr rfl⟩
    · simp [stepMax, hp] at h
  | some g =>
    by_cases hlt : g.1 < smax.1
    · simp only [stepMax, hlt, if_true, Option.some.injEq] at h
      subst h
      exact ⟨lt_trans (hpos g rfl) hlt, le_refl _, by intro g0 h0; cases h0; exact hlt.le, Or.inr rfl⟩
    · simp only [stepMax, hlt, if_false, Option.some.injEq] at h
      subst h
      exact ⟨hpos g rfl, not_lt.mp hlt, by intro g0 h0; cases h0; exact le_refl _, Or.inl rfl⟩

theorem stepMax_none (gmax : Option (ℝ × ℝ × ℕ)) (smax : ℝ × ℝ) (idx : ℕ) (h : stepMax gmax smax idx = none) :
    gmax = none ∧ smax.1 ≤ 0 := by
  cases gmax with
  | none =>
    by_cases hp : 0 < smax.1
    · simp [stepMax, hp] at h
    · exact ⟨rfl, not_lt.mp hp⟩
  | some g =>
    by_cases hlt : g.1 < smax.1 <;> simp [stepMax, hlt] at h

theorem pathRadialLoop_max (rs : List ((ℝ × ℝ) × (ℝ × ℝ))) (idx : ℕ) (gmin gmax : Option (ℝ × ℝ × ℕ))
    (hpos : ∀ g0, gmax = some g0 → 0 < g0.1) : MaxGood rs idx gmax (pathRadialLoop rs idx gmin gmax).2 := by
  induction rs generalizing idx gmin gmax with
  | nil =>
    cases gmax with
    | none => simp [pathRadialLoop, MaxGood]
    | some g =>
      show MaxGood [] idx (some g) (some g)
      exact ⟨hpos g rfl, by simp, by intro g0 h0; cases h0; exact le_refl _, Or.inl rfl⟩
  | cons s rest ih =>
    obtain ⟨smin, smax⟩ := s
    have hpos' : ∀ g1, stepMax gmax smax idx = some g1 → 0 < g1.1 := fun g1 h1 => (stepMax_some gmax smax idx hpos g1 h1).1
    have h := ih (idx + 1) (stepMin gmin smin idx) (stepMax gmax smax idx) hpos'
    simp only [pathRadialLoop]
    cases hr : (pathRadialLoop rest (idx + 1) (stepMin gmin smin idx) (stepMax gmax smax idx)).2 with
    | none =>
      rw [hr] at h
      obtain ⟨e1, e2⟩ := h
      obtain ⟨n1, n2⟩ := stepMax_none gmax smax idx e1
      refine ⟨n1, ?_⟩
      intro s hs
      rcases List.mem_cons.mp hs with rfl | hs
      · exact n2
      · exact e2 s hs
    | some g =>
      rw [hr] at h
      obtain ⟨t0, t1, t2, t3⟩ := h
      have hsm : smax.1 ≤ g.1 := by
        cases hst : stepMax gmax smax idx with
        | none => exact le_trans (stepMax_none gmax smax idx hst).2 t0.le
        | some g1 => exact le_trans (stepMax_some gmax smax idx hpos g1 hst).2.1 (t2 g1 hst)
      refine ⟨t0, ?_, ?_, ?_⟩
      · intro s hs
        rcases List.mem_cons.mp hs with rfl | hs
        · exact hsm
        · exact t1 s hs
      · intro g0 h0
        cases hst : stepMax gmax smax idx with
        | none => rw [(stepMax_none gmax smax idx hst).1] at h0; cases h0
        | some g1 => exact le_trans ((stepMax_some gmax smax idx hpos g1 hst).2.2.1 g0 h0) (t2 g1 hst)
      · rcases t3 with h' | ⟨k, hk, s, hs, hgk⟩
        · rcases (stepMax_some gmax smax idx hpos g h').2.2.2 with h'' | h''
          · left; exact h''
          · right; exact ⟨0, by simp, (smin, smax), by simp, by simpa using h''⟩
        · right
          exact ⟨k + 1, by simpa using hk, s, by simpa using hs, by rw [hgk]; simp [Nat.add_assoc, Nat.add_comm 1 k]⟩

/-- when some segment has a point at positive distance, the farthest point reported is the global
maximum over all segments, with the index of a segment attaining it -/
theorem pathRadial_max (rs : List ((ℝ × ℝ) × (ℝ × ℝ))) (hpos : ∃ s ∈ rs, 0 < s.2.1) :
    ∃ g, (pathRadial rs).2 = some g ∧ (∀ s ∈ rs, s.2.1 ≤ g.1) ∧
      ∃ k s, rs[k]? = some s ∧ g = (s.2.1, s.2.2, k) := by
  have h := pathRadialLoop_max rs 0 none none (by simp)
  unfold pathRadial
  cases hr : (pathRadialLoop rs 0 none none).2 with
  | none =>
    rw [hr] at h
    obtain ⟨s, hs, hp⟩ := hpos
    exact absurd (h.2 s hs) (not_le.mpr hp)
  | some g =>
    rw [hr] at h
    obtain ⟨_, h1, _, h3⟩ := h
    rcases h3 with h3 | ⟨k, _, s, hs, hg⟩
    · cases h3
    · exact ⟨g, rfl, h1, k, s, hs, by simpa using hg⟩

/-- when every distance is 0 (the whole path is the query point) no segment beats the initial
`(0, None, None)` and the initial value is returned -/
theorem pathRadial_max_none (rs : List ((ℝ × ℝ) × (ℝ × ℝ))) (h0 : ∀ s ∈ rs, s.2.1 ≤ 0) : (pathRadial rs).2 = none := by
  have h := pathRadialLoop_max rs 0 none none (by simp)
  unfold pathRadial
  cases hr : (pathRadialLoop rs 0 none none).2 with
  | none => rfl
  | some g =>
    rw [hr] at h
    obtain ⟨hp, _, _, h3⟩ := h
    rcases h3 with h3 | ⟨k, _, s, hs, hg⟩
    · cases h3
    · have hm : s ∈ rs := List.mem_of_getElem? hs
      have : g.1 = s.2.1 := by rw [hg]
      rw [this] at hp
      exact absurd (h0 s hm) (not_le.mpr hp)

end SvgVerif.Props.C13
