import SvgVerif.Gen.C15
import Mathlib.Analysis.SpecialFunctions.Sqrt
import Mathlib.Tactic.Ring
import Mathlib.Tactic.FieldSimp
import Mathlib.Tactic.Positivity
/-! # C15 — unit_tangent, normal and curvature are the differential geometry of the curve

Regular points (the derivative does not vanish): statements over ℝ about the definitions
traced from `bezier_unit_tangent`, `normal`, `segment_curvature` and `derivative`.  -/
namespace SvgVerif.Props.C15
set_option linter.unusedVariables false
open SvgVerif

/-- `(x/√(x²+y²))² + (y/√(x²+y²))² = 1` for a non-zero vector -/
theorem unit_of_div_norm (x y : ℝ) (h : 0 < x * x + y * y) :
    (x / Real.sqrt (x * x + y * y)) ^ 2 + (y / Real.sqrt (x * x + y * y)) ^ 2 = 1 := by
  have hs : Real.sqrt (x * x + y * y) ^ 2 = x * x + y * y := Real.sq_sqrt h.le
  have hne : Real.sqrt (x * x + y * y) ≠ 0 := (Real.sqrt_pos.mpr h).ne'
  rw [div_pow, div_pow, ← add_div, hs, div_eq_one_iff_eq h.ne']
  ring

/-! ## line -/
/-- `unit_tangent(t) = derivative(t) / |derivative(t)|` -/
theorem line_tangent_is_normalised_derivative (p0x p0y p1x p1y t : ℝ) :
    Gen.C15.line_tangent_x p0x p0y p1x p1y t = Gen.C15.line_dx p0x p0y p1x p1y t / Real.sqrt (Gen.C15.line_dx p0x p0y p1x p1y t * Gen.C15.line_dx p0x p0y p1x p1y t + Gen.C15.line_dy p0x p0y p1x p1y t * Gen.C15.line_dy p0x p0y p1x p1y t) ∧
    Gen.C15.line_tangent_y p0x p0y p1x p1y t = Gen.C15.line_dy p0x p0y p1x p1y t / Real.sqrt (Gen.C15.line_dx p0x p0y p1x p1y t * Gen.C15.line_dx p0x p0y p1x p1y t + Gen.C15.line_dy p0x p0y p1x p1y t * Gen.C15.line_dy p0x p0y p1x p1y t) := by
  simp only [Gen.C15.line_tangent_x, Gen.C15.line_tangent_y, Gen.C15.line_dx, Gen.C15.line_dy, and_self]

/-- where the derivative does not vanish the unit tangent has modulus 1 -/
theorem line_tangent_unit (p0x p0y p1x p1y t : ℝ)
    (h : 0 < Gen.C15.line_dx p0x p0y p1x p1y t * Gen.C15.line_dx p0x p0y p1x p1y t + Gen.C15.line_dy p0x p0y p1x p1y t * Gen.C15.line_dy p0x p0y p1x p1y t) :
    Gen.C15.line_tangent_x p0x p0y p1x p1y t ^ 2 + Gen.C15.line_tangent_y p0x p0y p1x p1y t ^ 2 = 1 := by
  rw [(line_tangent_is_normalised_derivative p0x p0y p1x p1y t).1, (line_tangent_is_normalised_derivative p0x p0y p1x p1y t).2]
  exact unit_of_div_norm _ _ h

/-- `normal(t) = -i · unit_tangent(t)`: the tangent rotated by −90° -/
theorem line_normal (p0x p0y p1x p1y t : ℝ) :
    Gen.C15.line_normal_x p0x p0y p1x p1y t = Gen.C15.line_tangent_y p0x p0y p1x p1y t ∧ Gen.C15.line_normal_y p0x p0y p1x p1y t = - Gen.C15.line_tangent_x p0x p0y p1x p1y t := by
  simp only [Gen.C15.line_normal_x, Gen.C15.line_normal_y, Gen.C15.line_tangent_x, Gen.C15.line_tangent_y]
  constructor <;> ring

/-! ## quad -/
/-- `unit_tangent(t) = derivative(t) / |derivative(t)|` -/
theorem quad_tangent_is_normalised_derivative (p0x p0y p1x p1y p2x p2y t : ℝ) :
    Gen.C15.quad_tangent_x p0x p0y p1x p1y p2x p2y t = Gen.C15.quad_dx p0x p0y p1x p1y p2x p2y t / Real.sqrt (Gen.C15.quad_dx p0x p0y p1x p1y p2x p2y t * Gen.C15.quad_dx p0x p0y p1x p1y p2x p2y t + Gen.C15.quad_dy p0x p0y p1x p1y p2x p2y t * Gen.C15.quad_dy p0x p0y p1x p1y p2x p2y t) ∧
    Gen.C15.quad_tangent_y p0x p0y p1x p1y p2x p2y t = Gen.C15.quad_dy p0x p0y p1x p1y p2x p2y t / Real.sqrt (Gen.C15.quad_dx p0x p0y p1x p1y p2x p2y t * Gen.C15.quad_dx p0x p0y p1x p1y p2x p2y t + Gen.C15.quad_dy p0x p0y p1x p1y p2x p2y t * Gen.C15.quad_dy p0x p0y p1x p1y p2x p2y t) := by
  simp only [Gen.C15.quad_tangent_x, Gen.C15.quad_tangent_y, Gen.C15.quad_dx, Gen.C15.quad_dy, and_self]

/-- where the derivative does not vanish the unit tangent has modulus 1 -/
theorem quad_tangent_unit (p0x p0y p1x p1y p2x p2y t : ℝ)
    (h : 0 < Gen.C15.quad_dx p0x p0y p1x p1y p2x p2y t * Gen.C15.quad_dx p0x p0y p1x p1y p2x p2y t + Gen.C15.quad_dy p0x p0y p1x p1y p2x p2y t * Gen.C15.quad_dy p0x p0y p1x p1y p2x p2y t) :
    Gen.C15.quad_tangent_x p0x p0y p1x p1y p2x p2y t ^ 2 + Gen.C15.quad_tangent_y p0x p0y p1x p1y p2x p2y t ^ 2 = 1 := by
  rw [(quad_tangent_is_normalised_derivative p0x p0y p1x p1y p2x p2y t).1, (quad_tangent_is_normalised_derivative p0x p0y p1x p1y p2x p2y t).2]
  exact unit_of_div_norm _ _ h

/-- `normal(t) = -i · unit_tangent(t)`: the tangent rotated by −90° -/
theorem quad_normal (p0x p0y p1x p1y p2x p2y t : ℝ) :
    Gen.C15.quad_normal_x p0x p0y p1x p1y p2x p2y t = Gen.C15.quad_tangent_y p0x p0y p1x p1y p2x p2y t ∧ Gen.C15.quad_normal_y p0x p0y p1x p1y p2x p2y t = - Gen.C15.quad_tangent_x p0x p0y p1x p1y p2x p2y t := by
  simp only [Gen.C15.quad_normal_x, Gen.C15.quad_normal_y, Gen.C15.quad_tangent_x, Gen.C15.quad_tangent_y]
  constructor <;> ring

/-- `curvature(t) = |x'y'' − y'x''| / |(x',y')|³` at regular points -/
theorem quad_curvature (p0x p0y p1x p1y p2x p2y t : ℝ) :
    Gen.C15.quad_curvature p0x p0y p1x p1y p2x p2y t = |Gen.C15.quad_dx p0x p0y p1x p1y p2x p2y t * Gen.C15.quad_ddy p0x p0y p1x p1y p2x p2y t - Gen.C15.quad_dy p0x p0y p1x p1y p2x p2y t * Gen.C15.quad_ddx p0x p0y p1x p1y p2x p2y t| /
      Real.sqrt (Gen.C15.quad_dx p0x p0y p1x p1y p2x p2y t * Gen.C15.quad_dx p0x p0y p1x p1y p2x p2y t + Gen.C15.quad_dy p0x p0y p1x p1y p2x p2y t * Gen.C15.quad_dy p0x p0y p1x p1y p2x p2y t) ^ 3 := by
  simp only [Gen.C15.quad_curvature, Gen.C15.quad_dx, Gen.C15.quad_dy, Gen.C15.quad_ddx, Gen.C15.quad_ddy]

/-! ## cubic -/
/-- `unit_tangent(t) = derivative(t) / |derivative(t)|` -/
theorem cubic_tangent_is_normalised_derivative (p0x p0y p1x p1y p2x p2y p3x p3y t : ℝ) :
    Gen.C15.cubic_tangent_x p0x p0y p1x p1y p2x p2y p3x p3y t = Gen.C15.cubic_dx p0x p0y p1x p1y p2x p2y p3x p3y t / Real.sqrt (Gen.C15.cubic_dx p0x p0y p1x p1y p2x p2y p3x p3y t * Gen.C15.cubic_dx p0x p0y p1x p1y p2x p2y p3x p3y t + Gen.C15.cubic_dy p0x p0y p1x p1y p2x p2y p3x p3y t * Gen.C15.cubic_dy p0x p0y p1x p1y p2x p2y p3x p3y t) ∧
    Gen.C15.cubic_tangent_y p0x p0y p1x p1y p2x p2y p3x p3y t = Gen.C15.cubic_dy p0x p0y p1x p1y p2x p2y p3x p3y t / Real.sqrt (Gen.C15.cubic_dx p0x p0y p1x p1y p2x p2y p3x p3y t * Gen.C15.cubic_dx p0x p0y p1x p1y p2x p2y p3x p3y t + Gen.C15.cubic_dy p0x p0y p1x p1y p2x p2y p3x p3y t * Gen.C15.cubic_dy p0x p0y p1x p1y p2x p2y p3x p3y t) := by
  simp only [Gen.C15.cubic_tangent_x, Gen.C15.cubic_tangent_y, Gen.C15.cubic_dx, Gen.C15.cubic_dy, and_self]

/-- where the derivative does not vanish the unit tangent has modulus 1 -/
theorem cubic_tangent_unit (p0x p0y p1x p1y p2x p2y p3x p3y t : ℝ)
    (h : 0 < Gen.C15.cubic_dx p0x p0y p1x p1y p2x p2y p3x p3y t * Gen.C15.cubic_dx p0x p0y p1x p1y p2x p2y p3x p3y t + Gen.C15.cubic_dy p0x p0y p1x p1y p2x p2y p3x p3y t * Gen.C15.cubic_dy p0x p0y p1x p1y p2x p2y p3x p3y t) :
    Gen.C15.cubic_tangent_x p0x p0y p1x p1y p2x p2y p3x p3y t ^ 2 + Gen.C15.cubic_tangent_y p0x p0y p1x p1y p2x p2y p3x p3y t ^ 2 = 1 := by
  rw [(cubic_tangent_is_normalised_derivative p0x p0y p1x p1y p2x p2y p3x p3y t).1, (cubic_tangent_is_normalised_derivative p0x p0y p1x p1y p2x p2y p3x p3y t).2]
  exact unit_of_div_norm _ _ h

/-- `normal(t) = -i · unit_tangent(t)`: the tangent rotated by −90° -/
theorem cubic_normal (p0x p0y p1x p1y p2x p2y p3x p3y t : ℝ) :
    Gen.C15.cubic_normal_x p0x p0y p1x p1y p2x p2y p3x p3y t = Gen.C15.cubic_tangent_y p0x p0y p1x p1y p2x p2y p3x p3y t ∧ Gen.C15.cubic_normal_y p0x p0y p1x p1y p2x p2y p3x p3y t = - Gen.C15.cubic_tangent_x p0x p0y p1x p1y p2x p2y p3x p3y t := by
  simp only [Gen.C15.cubic_normal_x, Gen.C15.cubic_normal_y, Gen.C15.cubic_tangent_x, Gen.C15.cubic_tangent_y]
  constructor <;> ring

/-- `curvature(t) = |x'y'' − y'x''| / |(x',y')|³` at regular points -/
theorem cubic_curvature (p0x p0y p1x p1y p2x p2y p3x p3y t : ℝ) :
    Gen.C15.cubic_curvature p0x p0y p1x p1y p2x p2y p3x p3y t = |Gen.C15.cubic_dx p0x p0y p1x p1y p2x p2y p3x p3y t * Gen.C15.cubic_ddy p0x p0y p1x p1y p2x p2y p3x p3y t - Gen.C15.cubic_dy p0x p0y p1x p1y p2x p2y p3x p3y t * Gen.C15.cubic_ddx p0x p0y p1x p1y p2x p2y p3x p3y t| /
      Real.sqrt (Gen.C15.cubic_dx p0x p0y p1x p1y p2x p2y p3x p3y t * Gen.C15.cubic_dx p0x p0y p1x p1y p2x p2y p3x p3y t + Gen.C15.cubic_dy p0x p0y p1x p1y p2x p2y p3x p3y t * Gen.C15.cubic_dy p0x p0y p1x p1y p2x p2y p3x p3y t) ^ 3 := by
  simp only [Gen.C15.cubic_curvature, Gen.C15.cubic_dx, Gen.C15.cubic_dy, Gen.C15.cubic_ddx, Gen.C15.cubic_ddy]

/-- a Line has zero curvature: its second derivative vanishes (C03: `derivative(t, 2) = 0`), and
`Line.curvature` returns the constant 0 -/
theorem line_tangent_constant (p0x p0y p1x p1y t t' : ℝ) :
    Gen.C15.line_tangent_x p0x p0y p1x p1y t = Gen.C15.line_tangent_x p0x p0y p1x p1y t' ∧
    Gen.C15.line_tangent_y p0x p0y p1x p1y t = Gen.C15.line_tangent_y p0x p0y p1x p1y t' := by
  simp only [Gen.C15.line_tangent_x, Gen.C15.line_tangent_y, and_self]

end SvgVerif.Props.C15
