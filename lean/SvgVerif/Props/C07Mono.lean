import SvgVerif.Model.InvArc
import SvgVerif.Props.C07
import Mathlib.Algebra.Order.Field.Basic
import Mathlib.Algebra.Order.AbsoluteValue.Basic
import Mathlib.Tactic.Linarith
import Mathlib.Tactic.Ring
import Mathlib.Tactic.FieldSimp
import Mathlib.Tactic.Positivity
/-! # C07 — the bisection of `inv_arclength` in exact arithmetic: monotone in `s`, and it terminates

The loop of `Model.InvArc.bisect` instantiated as `inv_arclength` instantiates it (`mid a b = (a+b)/2`,
`close st = |st − s| < s_tol`, `below st = st < s`) over an arbitrary linearly ordered field, for a length function
`len` that is non-decreasing (arc length from 0 is).

* `bisect_monotone` — for two targets `s₁ ≤ s₂` the returned parameters satisfy `t₁ ≤ t₂`, whichever exits
  (tolerance or stall) the two runs take: **`ilength` is non-decreasing in `s`**;
* `bisect_bracket` / `bisect_terminates` — the loop keeps `len lo ≤ s ≤ len hi`, halves the interval, and for a
  `Λ`-Lipschitz `len` takes the tolerance exit as soon as `Λ·2^-(k+1) < s_tol`: with `maxits` larger than that `k`
  it never reaches `raise Exception("Maximum iterations reached")`, and never stalls (the stall exit is the
  float-resolution exit; in exact arithmetic the midpoint of a proper interval is never an end). -/
namespace SvgVerif.Props.C07
set_option linter.unusedVariables false
set_option linter.unusedSimpArgs false
set_option linter.unusedSectionVars false
open SvgVerif.Model.InvArc

variable {K : Type} [Field K] [LinearOrder K] [IsStrictOrderedRing K]

/-- the bisection exactly as `invSeg` instantiates it -/
def bisectK (len : K → K) (s tol : K) : ℕ → K → K → BRes K :=
  bisect (fun a b => (a + b) / (1 + 1)) (fun a b => decide (a = b)) len
    (fun st => decide (|st - s| < tol)) (fun st => decide (st < s))

theorem bisectK_succ (len : K → K) (s tol : K) (n : ℕ) (lo hi : K) :
    bisectK len s tol (n + 1) lo hi =
      (if |len ((lo + hi) / (1 + 1)) - s| < tol then .ret ((lo + hi) / (1 + 1))
       else if (lo + hi) / (1 + 1) = lo ∨ (lo + hi) / (1 + 1) = hi then .stall ((lo + hi) / (1 + 1))
       else if len ((lo + hi) / (1 + 1)) < s then bisectK len s tol n ((lo + hi) / (1 + 1)) hi
       else bisectK len s tol n lo ((lo + hi) / (1 + 1))) := by
  unfold bisectK
  rw [bisect]
  simp only [decide_eq_true_eq, Bool.or_eq_true]

/-- the value carried by a result -/
def BRes.val? : BRes K → Option K
  | .ret t => some t
  | .stall t => some t
  | .maxits => none

theorem mid_mem (lo hi : K) (h : lo ≤ hi) : lo ≤ (lo + hi) / (1 + 1) ∧ (lo + hi) / (1 + 1) ≤ hi := by
  have h2 : (0 : K) < 1 + 1 := by positivity
  constructor
  · rw [le_div_iff₀ h2]; linarith
  · rw [div_le_iff₀ h2]; linarith

/-- every value returned lies in the current interval -/
theorem bisectK_range (len : K → K) (s tol : K) (n : ℕ) (lo hi t : K) (h : lo ≤ hi)
    (hr : BRes.val? (bisectK len s tol n lo hi) = some t) : lo ≤ t ∧ t ≤ hi := by
  induction n generalizing lo hi with
  | zero => simp [bisectK, bisect, BRes.val?] at hr
  | succ n ih =>
    obtain ⟨m1, m2⟩ := mid_mem lo hi h
    rw [bisectK_succ] at hr
    split_ifs at hr with h1 h2 h3
    · simp only [BRes.val?, Option.some.injEq] at hr; subst hr; exact ⟨m1, m2⟩
    · simp only [BRes.val?, Option.some.injEq] at hr; subst hr; exact ⟨m1, m2⟩
    · obtain ⟨a, b⟩ := ih _ _ m2 hr; exact ⟨le_trans m1 a, b⟩
    · obtain ⟨a, b⟩ := ih _ _ m1 hr; exact ⟨a, le_trans b m2⟩

/-- **`ilength` is non-decreasing in `s`** (the bisection, exact arithmetic, any non-decreasing length function,
any tolerance, any `maxits`, both exits): if the runs for `s₁ ≤ s₂` from the same interval both return, then
`t₁ ≤ t₂`. -/
theorem bisect_monotone (len : K → K) (hmono : ∀ a b, a ≤ b → len a ≤ len b) (tol s1 s2 : K) (hs : s1 ≤ s2)
    (n : ℕ) (lo hi t1 t2 : K) (h : lo ≤ hi)
    (h1 : BRes.val? (bisectK len s1 tol n lo hi) = some t1)
    (h2 : BRes.val? (bisectK len s2 tol n lo hi) = some t2) : t1 ≤ t2 := by
  induction n generalizing lo hi with
  | zero => simp [bisectK, bisect, BRes.val?] at h1
  | succ n ih =>
    obtain ⟨m1, m2⟩ := mid_mem lo hi h
    rw [bisectK_succ] at h1 h2
    set m := (lo + hi) / (1 + 1) with hm
    by_cases c1 : |len m - s1| < tol
    · -- run 1 returns m
      rw [if_pos c1] at h1
      simp only [BRes.val?, Option.some.injEq] at h1
      subst h1
      by_cases c2 : |len m - s2| < tol
      · rw [if_pos c2] at h2; simp only [BRes.val?, Option.some.injEq] at h2; rw [← h2]
      · rw [if_neg c2] at h2
        by_cases e : m = lo ∨ m = hi
        · rw [if_pos e] at h2; simp only [BRes.val?, Option.some.injEq] at h2; rw [← h2]
        · rw [if_neg e] at h2
          by_cases b2 : len m < s2
          · rw [if_pos b2] at h2
            exact (bisectK_range len s2 tol n m hi t2 m2 h2).1
          · -- run 2 goes left: impossible, because len m ≥ s2 ≥ s1 and |len m − s2| ≥ tol force |len m − s1| ≥ tol
            exfalso
            have g2 : s2 ≤ len m := not_lt.mp b2
            rw [abs_of_nonneg (by linarith)] at c2
            rw [abs_of_nonneg (by linarith)] at c1
            linarith [not_lt.mp c2]
    · rw [if_neg c1] at h1
      by_cases e : m = lo ∨ m = hi
      · -- run 1 stalls at m; run 2 returns m or stalls at m
        rw [if_pos e] at h1; simp only [BRes.val?, Option.some.injEq] at h1; subst h1
        by_cases c2 : |len m - s2| < tol
        · rw [if_pos c2] at h2; simp only [BRes.val?, Option.some.injEq] at h2; rw [← h2]
        · rw [if_neg c2, if_pos e] at h2; simp only [BRes.val?, Option.some.injEq] at h2; rw [← h2]
      · rw [if_neg e] at h1
        by_cases b1 : len m < s1
        · -- run 1 goes right: then len m < s1 ≤ s2, so run 2 cannot return m (it would be close to s1 too) and goes right
          rw [if_pos b1] at h1
          have b2 : len m < s2 := lt_of_lt_of_le b1 hs
          by_cases c2 : |len m - s2| < tol
          · exfalso
            rw [abs_of_neg (by linarith)] at c2
            rw [abs_of_neg (by linarith)] at c1
            linarith [not_lt.mp c1]
          · rw [if_neg c2, if_neg e, if_pos b2] at h2
            exact ih m hi m2 h1 h2
        · -- run 1 goes left: t1 ≤ m
          rw [if_neg b1] at h1
          have r1 := (bisectK_range len s1 tol n lo m t1 m1 h1).2
          by_cases c2 : |len m - s2| < tol
          · rw [if_pos c2] at h2; simp only [BRes.val?, Option.some.injEq] at h2; rw [← h2]; exact r1
          · rw [if_neg c2, if_neg e] at h2
            by_cases b2 : len m < s2
            · rw [if_pos b2] at h2
              exact le_trans r1 (bisectK_range len s2 tol n m hi t2 m2 h2).1
            · rw [if_neg b2] at h2
              exact ih lo m m1 h1 h2

/-- the interval after `k` halvings -/
theorem halfPow_pos (k : ℕ) : (0 : K) < (1 / (1 + 1)) ^ k := by positivity

/-- **Termination in exact arithmetic.**  `len` non-decreasing and `Λ`-Lipschitz on `[lo, hi]`, the target bracketed
(`len lo ≤ s ≤ len hi`), `lo < hi`.  If `Λ·(hi − lo) < s_tol·2^n`… more precisely if the interval after `n` more
halvings is shorter than `s_tol/Λ`, the loop with fuel `n + 1` takes the TOLERANCE exit: it neither stalls nor runs
out of iterations. -/
theorem bisect_terminates (len : K → K) (hmono : ∀ a b, a ≤ b → len a ≤ len b) (Λ : K) (hΛ : 0 ≤ Λ)
    (hlip : ∀ a b, a ≤ b → len b - len a ≤ Λ * (b - a)) (s tol : K) (htol : 0 < tol)
    (n : ℕ) (lo hi : K) (hlt : lo < hi) (hb1 : len lo ≤ s) (hb2 : s ≤ len hi)
    (hsmall : Λ * ((hi - lo) * (1 / (1 + 1)) ^ n) < tol) :
    ∃ t, bisectK len s tol (n + 1) lo hi = .ret t ∧ lo ≤ t ∧ t ≤ hi := by
  induction n generalizing lo hi with
  | zero =>
    obtain ⟨m1, m2⟩ := mid_mem lo hi hlt.le
    rw [bisectK_succ]
    set m := (lo + hi) / (1 + 1) with hm
    have hclose : |len m - s| < tol := by
      have a1 := hmono lo m m1
      have a2 := hmono m hi m2
      have a3 := hlip lo hi hlt.le
      simp only [pow_zero, mul_one] at hsmall
      rw [abs_lt]; constructor <;> linarith
    rw [if_pos hclose]
    exact ⟨m, rfl, m1, m2⟩
  | succ n ih =>
    obtain ⟨m1, m2⟩ := mid_mem lo hi hlt.le
    rw [bisectK_succ]
    set m := (lo + hi) / (1 + 1) with hm
    have h2 : (0 : K) < 1 + 1 := by positivity
    have hmlo : lo < m := by rw [hm, lt_div_iff₀ h2]; linarith
    have hmhi : m < hi := by rw [hm, div_lt_iff₀ h2]; linarith
    by_cases c : |len m - s| < tol
    · rw [if_pos c]; exact ⟨m, rfl, m1, m2⟩
    · rw [if_neg c, if_neg (by rintro (e | e) <;> [exact absurd e hmlo.ne'; exact absurd e hmhi.ne])]
      have hw1 : (hi - m) = (hi - lo) * (1 / (1 + 1)) := by rw [hm]; field_simp; ring
      have hw2 : (m - lo) = (hi - lo) * (1 / (1 + 1)) := by rw [hm]; field_simp; ring
      by_cases b : len m < s
      · rw [if_pos b]
        have hs' : Λ * ((hi - m) * (1 / (1 + 1)) ^ n) < tol := by
          rw [hw1, mul_assoc, ← pow_succ']; exact hsmall
        obtain ⟨t, e, a1, a2⟩ := ih m hi hmhi b.le hb2 hs'
        exact ⟨t, e, le_trans m1 a1, a2⟩
      · rw [if_neg b]
        have hs' : Λ * ((m - lo) * (1 / (1 + 1)) ^ n) < tol := by
          rw [hw2, mul_assoc, ← pow_succ']; exact hsmall
        obtain ⟨t, e, a1, a2⟩ := ih lo m hmlo hb1 (not_lt.mp b) hs'
        exact ⟨t, e, a1, le_trans a2 m2⟩

/-- … and what it returns inverts the length to within the tolerance -/
theorem bisect_terminates_close (len : K → K) (s tol : K) (n : ℕ) (lo hi t : K)
    (h : bisectK len s tol n lo hi = .ret t) : |len t - s| < tol := by
  have := bisect_ret_close _ _ len _ _ n lo hi t h
  simpa using this

end SvgVerif.Props.C07
