import SvgVerif.Model.Serializer
import SvgVerif.Props.C02
/-! # C01 — `Path.d()` output parses back to the same path, under every option

Layering: the serializer model `dCmds` emits SVG commands; `Props.C02.parse_refines_spec`
says the parser computes `Spec.SvgPath.run` on them; here we prove
`Spec.SvgPath.run (dCmds o p) = (p, closed?)`.  For the absolute form the proof uses **no**
law of arithmetic (so it is a statement about floats); for the relative form it uses exactly
`a + (b - a) = b`, which holds in exact arithmetic and is where "to within rounding of the
emitted differences" enters. -/
namespace SvgVerif.Props.C01
set_option linter.unusedSectionVars false
set_option linter.unusedVariables false
set_option linter.unusedSimpArgs false
open SvgVerif.Model SvgVerif.Spec
open SvgVerif.Model.Parser hiding step
open SvgVerif.Model.Serializer
open SvgVerif.Spec.SvgPath

variable {S : Type} [Add S] [Sub S] [DecidableEq S] [OfNat S 0] [OfNat S 1]

/-- what a real `Arc` object guarantees: non-zero radii and distinct end points -/
def SegOK : Seg S → Prop
  | .arc a r _ _ _ b => r.1 ≠ 0 ∧ r.2 ≠ 0 ∧ a ≠ b
  | _ => True

def ctrl2Of : Option (Seg S) → Option (Pt S)
  | some (.cubic _ _ c2 _) => some c2
  | _ => none
def ctrlOf : Option (Seg S) → Option (Pt S)
  | some (.quad _ c _) => some c
  | _ => none

/-- relation between the reference interpreter's state and the serializer's loop variables
after the segments `doneRev` (newest first) have been written -/
structure J (ss : SS S) (cur : Pt S) (prev : Option (Seg S)) (doneRev : List (Seg S)) : Prop where
  segs : ss.segs = doneRev
  cur : ss.cur = cur
  lastC : ss.lastC = ctrl2Of prev
  lastQ : ss.lastQ = ctrlOf prev
  closed : ss.closed = false

/-- reference state after the initial moveto to `q` -/
def specAfterM' (q : Pt S) : SS S := ⟨q, q, none, none, [], false⟩

/-- the only arithmetic fact used, and only by the relative form -/
def RelLaw (S : Type) [Add S] [Sub S] : Prop := ∀ a b : Pt S, at_ false a (psub b a) = b

variable (h10 : (1 : S) ≠ 0)
include h10

/-- writing one segment (with or without a preceding moveto) and interpreting the commands
appends exactly that segment -/
theorem step_seg (o : Opts) (hrel : o.rel = true → RelLaw S) (ss : SS S) (cur : Pt S) (prev : Option (Seg S))
    (doneRev : List (Seg S)) (seg : Seg S) (hJ : J ss cur prev doneRev) (hok : SegOK seg) (needM : Bool)
    (hcur : needM = false → cur = segStart seg) :
    J ((((if needM then [Cmd.M (!o.rel) (out o.rel cur (segStart seg))] else []) ++
          [segCmd o (if needM then none else prev) seg]).foldl SvgPath.step ss))
      (segEnd seg) (some seg) (seg :: doneRev) := by
  obtain ⟨j1, j2, j3, j4, j5⟩ := hJ
  -- after the optional moveto: current point is the segment's start
  have key : ∀ (a b : Pt S), at_ (!o.rel) a (out o.rel a b) = b := by
    intro a b
    cases hr : o.rel
    · simp [out, at_, hr]
    · simpa [out, hr] using hrel hr a b
  cases needM with
  | true =>
    simp only [if_true, List.cons_append, List.nil_append, List.foldl_cons, List.foldl_nil]
    have hM : (SvgPath.step ss (Cmd.M (!o.rel) (out o.rel cur (segStart seg)))).cur = segStart seg := by
      simp [SvgPath.step, j2, key]
    cases seg with
    | line s e =>
      constructor <;> simp [segCmd, SvgPath.step, j1, j2, key, segStart, segEnd, ctrl2Of, ctrlOf, j5]
    | quad s c e =>
      by_cases hsm : (o.useSandT && smoothFrom (Seg.quad s c e) none) = true
      · simp only [Bool.and_eq_true] at hsm
        have : c = s := by simpa [smoothFrom] using hsm.2
        subst this
        constructor <;> simp [segCmd, hsm.1, hsm.2, SvgPath.step, j1, j2, key, segStart, segEnd, ctrl2Of, ctrlOf, j5]
      · constructor <;> simp [segCmd, hsm, SvgPath.step, j1, j2, key, segStart, segEnd, ctrl2Of, ctrlOf, j5]
    | cubic s c1 c2 e =>
      by_cases hsm : (o.useSandT && smoothFrom (Seg.cubic s c1 c2 e) none) = true
      · simp only [Bool.and_eq_true] at hsm
        have : c1 = s := by simpa [smoothFrom] using hsm.2
        subst this
        constructor <;> simp [segCmd, hsm.1, hsm.2, SvgPath.step, j1, j2, key, segStart, segEnd, ctrl2Of, ctrlOf, j5]
      · constructor <;> simp [segCmd, hsm, SvgPath.step, j1, j2, key, segStart, segEnd, ctrl2Of, ctrlOf, j5]
    | arc s r rot l sw e =>
      obtain ⟨hr1, hr2, hse⟩ := hok
      constructor <;>
        (cases l <;> cases sw <;>
          simp [segCmd, SvgPath.step, j1, j2, key, segStart, segEnd, ctrl2Of, ctrlOf, j5, hr1, hr2, hse, h10])
  | false =>
    have hc := hcur rfl
    simp only [Bool.false_eq_true, if_false, List.nil_append, List.foldl_cons, List.foldl_nil]
    cases seg with
    | line s e =>
      have hs : ss.cur = s := by rw [j2, hc]; rfl
      constructor <;> simp [segCmd, SvgPath.step, j1, hs, key, segStart, segEnd, ctrl2Of, ctrlOf, j5]
    | quad s c e =>
      have hs : ss.cur = s := by rw [j2, hc]; rfl
      by_cases hsm : (o.useSandT && smoothFrom (Seg.quad s c e) prev) = true
      · simp only [Bool.and_eq_true] at hsm
        have hsm1 := hsm.1
        have hsm2 := hsm.2
        cases prev with
        | none =>
          have : c = s := by simpa [smoothFrom] using hsm2
          constructor <;> simp_all [segCmd, SvgPath.step, key, segStart, segEnd, ctrl2Of, ctrlOf]
        | some pv =>
          cases pv with
          | quad pa pc pb =>
            have hh : s = pb ∧ c = psub (padd s s) pc := by simpa [smoothFrom] using hsm2
            constructor <;> simp_all [segCmd, SvgPath.step, key, segStart, segEnd, ctrl2Of, ctrlOf, reflect, psub, padd]
          | line _ _ =>
            have : c = s := by simpa [smoothFrom] using hsm2
            constructor <;> simp_all [segCmd, SvgPath.step, key, segStart, segEnd, ctrl2Of, ctrlOf]
          | cubic _ _ _ _ =>
            have : c = s := by simpa [smoothFrom] using hsm2
            constructor <;> simp_all [segCmd, SvgPath.step, key, segStart, segEnd, ctrl2Of, ctrlOf]
          | arc _ _ _ _ _ _ =>
            have : c = s := by simpa [smoothFrom] using hsm2
            constructor <;> simp_all [segCmd, SvgPath.step, key, segStart, segEnd, ctrl2Of, ctrlOf]
      · constructor <;> simp [segCmd, hsm, SvgPath.step, j1, hs, key, segStart, segEnd, ctrl2Of, ctrlOf, j5]
    | cubic s c1 c2 e =>
      have hs : ss.cur = s := by rw [j2, hc]; rfl
      by_cases hsm : (o.useSandT && smoothFrom (Seg.cubic s c1 c2 e) prev) = true
      · simp only [Bool.and_eq_true] at hsm
        have hsm1 := hsm.1
        have hsm2 := hsm.2
        cases prev with
        | none =>
          have : c1 = s := by simpa [smoothFrom] using hsm2
          constructor <;> simp_all [segCmd, SvgPath.step, key, segStart, segEnd, ctrl2Of, ctrlOf]
        | some pv =>
          cases pv with
          | cubic pa pc1 pc2 pb =>
            have hh : s = pb ∧ c1 = psub (padd s s) pc2 := by simpa [smoothFrom] using hsm2
            constructor <;> simp_all [segCmd, SvgPath.step, key, segStart, segEnd, ctrl2Of, ctrlOf, reflect, psub, padd]
          | line _ _ =>
            have : c1 = s := by simpa [smoothFrom] using hsm2
            constructor <;> simp_all [segCmd, SvgPath.step, key, segStart, segEnd, ctrl2Of, ctrlOf]
          | quad _ _ _ =>
            have : c1 = s := by simpa [smoothFrom] using hsm2
            constructor <;> simp_all [segCmd, SvgPath.step, key, segStart, segEnd, ctrl2Of, ctrlOf]
          | arc _ _ _ _ _ _ =>
            have : c1 = s := by simpa [smoothFrom] using hsm2
            constructor <;> simp_all [segCmd, SvgPath.step, key, segStart, segEnd, ctrl2Of, ctrlOf]
      · constructor <;> simp [segCmd, hsm, SvgPath.step, j1, hs, key, segStart, segEnd, ctrl2Of, ctrlOf, j5]
    | arc s r rot l sw e =>
      have hs : ss.cur = s := by rw [j2, hc]; rfl
      obtain ⟨hr1, hr2, hse⟩ := hok
      constructor <;>
        (cases l <;> cases sw <;>
          simp [segCmd, SvgPath.step, j1, hs, key, segStart, segEnd, ctrl2Of, ctrlOf, j5, hr1, hr2, hse, h10])


omit h10 in
/-- the sub-path start after writing one segment: moved by the moveto, otherwise untouched -/
theorem step_seg_start (o : Opts) (hrel : o.rel = true → RelLaw S) (ss : SS S) (cur : Pt S) (prev : Option (Seg S))
    (seg : Seg S) (hcur : ss.cur = cur) (needM : Bool) :
    ((((if needM then [Cmd.M (!o.rel) (out o.rel cur (segStart seg))] else []) ++
          [segCmd o (if needM then none else prev) seg]).foldl SvgPath.step ss)).start
      = if needM then segStart seg else ss.start := by
  have key : ∀ (a b : Pt S), at_ (!o.rel) a (out o.rel a b) = b := by
    intro a b
    cases hr : o.rel
    · simp [out, at_, hr]
    · simpa [out, hr] using hrel hr a b
  have hkeep : ∀ (st : SS S) (c : Cmd S), (∀ a p, c ≠ .M a p) → c ≠ .Z → (SvgPath.step st c).start = st.start := by
    intro st c h1 h2
    cases c <;> simp [SvgPath.step] <;> first | exact absurd rfl (h1 _ _) | exact absurd rfl h2 | skip
    all_goals (split <;> [rfl; (split <;> rfl)])
  have hnotM : ∀ pv a p, segCmd o pv seg ≠ Cmd.M a p := by
    intro pv a p
    cases seg <;> simp [segCmd] <;> split <;> simp
  have hnotZ : ∀ pv, segCmd o pv seg ≠ Cmd.Z := by
    intro pv
    cases seg <;> simp [segCmd] <;> split <;> simp
  cases needM with
  | true =>
    simp only [if_true, List.cons_append, List.nil_append, List.foldl_cons, List.foldl_nil]
    rw [hkeep _ _ (hnotM none) (hnotZ none)]
    simp [SvgPath.step, hcur, key]
  | false =>
    simp only [Bool.false_eq_true, if_false, List.nil_append, List.foldl_cons, List.foldl_nil]
    exact hkeep _ _ (hnotM prev) (hnotZ prev)

/-- consecutive segments join, starting from `cur` -/
def chainFrom (cur : Pt S) : List (Seg S) → Prop
  | [] => True
  | seg :: r => cur = segStart seg ∧ chainFrom (segEnd seg) r

def lastEnd (cur : Pt S) : List (Seg S) → Pt S
  | [] => cur
  | seg :: r => lastEnd (segEnd seg) r

/-- interpreting everything the serializer loop writes for `segs` appends exactly `segs` -/
theorem fold_loop (o : Opts) (hrel : o.rel = true → RelLaw S) (sc : Bool) (endPt : Pt S) (segs : List (Seg S))
    (hok : ∀ g ∈ segs, SegOK g) (ss : SS S) (cur : Pt S) (prev : Option (Seg S)) (doneRev : List (Seg S))
    (hJ : J ss cur prev doneRev) :
    let ss' := (loopCmds o sc endPt (some cur) prev segs).foldl SvgPath.step ss
    ss'.segs = segs.reverse ++ doneRev ∧ ss'.closed = false ∧ ss'.cur = lastEnd cur segs ∧
      (chainFrom cur segs → ss.start = endPt → ss'.start = endPt) := by
  induction segs generalizing ss cur prev doneRev with
  | nil =>
    simp only [loopCmds, List.foldl_nil, List.reverse_nil, List.nil_append, lastEnd]
    exact ⟨hJ.segs, hJ.closed, hJ.cur, fun _ h => h⟩
  | cons seg rest ih =>
    have hseg := hok seg (by simp)
    have hrest : ∀ g ∈ rest, SegOK g := fun g hg => hok g (by simp [hg])
    simp only [loopCmds]
    set needM : Bool := (decide (some cur ≠ some (segStart seg)) || (sc && decide (segStart seg = endPt) && o.useClosedAttrib)) with hneed
    have hcur : needM = false → cur = segStart seg := by
      intro h
      rw [hneed] at h
      simp only [Bool.or_eq_false_iff] at h
      simpa using h.1
    have e : ((if needM = true then [Cmd.M (!o.rel) (out o.rel cur (segStart seg))] else []) ++
        segCmd o (if needM = true then none else prev) seg :: loopCmds o sc endPt (some (segEnd seg)) (some seg) rest)
        = ((if needM then [Cmd.M (!o.rel) (out o.rel cur (segStart seg))] else []) ++
            [segCmd o (if needM then none else prev) seg]) ++ loopCmds o sc endPt (some (segEnd seg)) (some seg) rest := by
      simp
    rw [e, List.foldl_append]
    have hJ' := step_seg h10 o hrel ss cur prev doneRev seg hJ hseg needM hcur
    have hst := step_seg_start o hrel ss cur prev seg hJ.cur needM
    obtain ⟨r1, r2, r3, r4⟩ := ih hrest _ (segEnd seg) (some seg) (seg :: doneRev) hJ'
    refine ⟨by simpa using r1, r2, by simpa [lastEnd] using r3, ?_⟩
    intro hch hs
    apply r4 hch.2
    rw [hst]
    cases hn : needM with
    | false => simpa using hs
    | true =>
      simp only [if_true]
      rw [hneed] at hn
      have hc1 : decide (some cur ≠ some (segStart seg)) = false := by simp [hch.1]
      simp only [hc1, Bool.false_or, Bool.and_eq_true, decide_eq_true_eq] at hn
      exact hn.1.2


omit h10 in
theorem lastEnd_append (c : Pt S) (front : List (Seg S)) (z : Seg S) :
    lastEnd c (front ++ [z]) = segEnd z := by
  induction front generalizing c with
  | nil => rfl
  | cons a r ih => simpa [lastEnd] using ih (segEnd a)

omit h10 in
theorem chainFrom_append (c : Pt S) (front : List (Seg S)) (z : Seg S) :
    chainFrom c (front ++ [z]) ↔ chainFrom c front ∧ lastEnd c front = segStart z := by
  induction front generalizing c with
  | nil => simp [chainFrom, lastEnd]
  | cons a r ih => simp [chainFrom, lastEnd, ih, and_assoc]

omit h10 in
theorem continuous_chain (a : Seg S) (rest : List (Seg S)) (h : continuous (a :: rest) = true) :
    chainFrom (segEnd a) rest := by
  induction rest generalizing a with
  | nil => trivial
  | cons b r ih =>
    simp only [continuous, Bool.and_eq_true, decide_eq_true_eq] at h
    exact ⟨h.1, ih b h.2⟩

omit h10 in
theorem step_Z (ss : SS S) : SvgPath.step ss Cmd.Z =
    { ss with segs := (if ss.cur = ss.start then ss.segs else .line ss.cur ss.start :: ss.segs),
              cur := ss.start, closed := true, lastC := none, lastQ := none } := rfl

/-- `self_closed` of `Path.d` -/
def selfClosed (o : Opts) (p : List (Seg S)) : Bool :=
  match p.getLast?, p.head? with
  | some z, some a => o.useClosedAttrib && continuous p && segStart a = segEnd z
  | _, _ => false

/-- **C01 at command level.**  For every non-empty list of segments (arcs as real `Arc`
objects: non-zero radii, distinct ends; the closing segment not a zero-length Line) and every
option set, interpreting the commands that `Path.d` writes gives back exactly the same segments —
same kinds, same order, same flags, same points, nothing dropped or added — and the closed flag
is set iff a `Z` was written.  Absolute form: no arithmetic law is used.  Relative form: `RelLaw`. -/
theorem run_dCmds (o : Opts) (hrel : o.rel = true → RelLaw S) (cur0 : Pt S)
    (hfirst : ∀ q : Pt S, at_ (!o.rel) cur0 q = q)
    (a : Seg S) (rest : List (Seg S)) (hok : ∀ g ∈ a :: rest, SegOK g)
    (hz : ∀ z zs ze, (a :: rest).getLast? = some z → z = .line zs ze → zs ≠ ze) :
    SvgPath.run cur0 (dCmds o (a :: rest)) = some (a :: rest, selfClosed o (a :: rest)) := by
  -- split the list at its last element
  obtain ⟨front, z, hp⟩ : ∃ front z, a :: rest = front ++ [z] :=
    ⟨(a :: rest).dropLast, (a :: rest).getLast (by simp), (List.dropLast_append_getLast (by simp)).symm⟩
  have hlast : (a :: rest).getLast? = some z := by rw [hp]; simp
  have hzl := hz z
  set sc : Bool := o.useClosedAttrib && continuous (a :: rest) && decide (segStart a = segEnd z) with hsc
  have hsel : selfClosed o (a :: rest) = sc := by simp [selfClosed, hlast, hsc]
  rw [hsel]
  -- common part: the initial moveto, the first segment, then the loop over `more`, then `zpart`
  have main : ∀ (b : Bool) (more : List (Seg S)) (zpart : List (Cmd S)), (∀ g ∈ more, SegOK g) →
      SvgPath.run cur0 (loopCmds o b (segEnd z) none none (a :: more) ++ zpart) =
        (let s1 := SvgPath.step (specAfterM' (segStart a)) (segCmd o none a)
         let s2 := (loopCmds o b (segEnd z) (some (segEnd a)) (some a) more).foldl SvgPath.step s1
         let s3 := zpart.foldl SvgPath.step s2
         some (s3.segs.reverse, s3.closed)) := by
    intro b more zpart _
    simp only [loopCmds]
    simp [SvgPath.run, hfirst, specAfterM', List.foldl_append]
  have hJ0 : J (specAfterM' (segStart a)) (segStart a) (none : Option (Seg S)) [] := by
    constructor <;> simp [specAfterM', ctrl2Of, ctrlOf]
  have hJ1 := step_seg h10 o hrel _ _ none [] a hJ0 (hok a (by simp)) false (fun _ => rfl)
  simp only [Bool.false_eq_true, if_false, List.nil_append, List.foldl_cons, List.foldl_nil] at hJ1
  have hst1 := step_seg_start o hrel (specAfterM' (segStart a)) (segStart a) none a rfl false
  simp only [Bool.false_eq_true, if_false, List.nil_append, List.foldl_cons, List.foldl_nil] at hst1
  have hst1' : (SvgPath.step (specAfterM' (segStart a)) (segCmd o none a)).start = segStart a := by
    rw [hst1]; rfl
  simp only [dCmds, hlast, List.head?_cons]
  rw [show (o.useClosedAttrib && continuous (a :: rest) && decide (segStart a = segEnd z)) = sc from rfl]
  by_cases hdrop : (sc && isLine z) = true
  · -- closed by a Line: that Line is left to `Z`
    simp only [hdrop, if_true]
    simp only [Bool.and_eq_true] at hdrop
    obtain ⟨hsct, hline⟩ := hdrop
    have hsc' := hsct
    rw [hsc] at hsc'
    simp only [Bool.and_eq_true, decide_eq_true_eq] at hsc'
    obtain ⟨⟨_, hcont⟩, hclosed⟩ := hsc'
    obtain ⟨zs, ze, hzform⟩ : ∃ zs ze, z = Seg.line zs ze := by
      cases z <;> simp [isLine] at hline; exact ⟨_, _, rfl⟩
    have hne := hzl zs ze hlast hzform
    have hfront : (a :: rest).dropLast = front := by rw [hp]; simp
    cases front with
    | nil =>
      exfalso
      simp at hp
      obtain ⟨h1, _⟩ := hp
      subst h1
      rw [hzform] at hclosed
      exact hne (by simpa [segStart, segEnd] using hclosed)
    | cons a' fr =>
      have ha : a' = a := by
        have := congrArg List.head? hp; simpa using this.symm
      subst ha
      have hrest : rest = fr ++ [z] := by simpa using hp
      rw [hfront, hsct]
      simp only [if_true]
      rw [main true fr [Cmd.Z] (fun g hg => hok g (by rw [hrest]; simp [hg]))]
      obtain ⟨r1, r2, r3, r4⟩ := fold_loop h10 o hrel true (segEnd z) fr
        (fun g hg => hok g (by rw [hrest]; simp [hg])) _ (segEnd a') (some a') [a'] hJ1
      have hch : chainFrom (segEnd a') (fr ++ [z]) := by
        rw [← hrest]; exact continuous_chain a' rest hcont
      rw [chainFrom_append] at hch
      have hstart := r4 hch.1 (by rw [hst1']; exact hclosed)
      simp only [List.foldl_cons, List.foldl_nil, step_Z]
      have hcur : ((loopCmds o true (segEnd z) (some (segEnd a')) (some a') fr).foldl SvgPath.step
          (SvgPath.step (specAfterM' (segStart a')) (segCmd o none a'))).cur = zs := by
        rw [r3, hch.2, hzform]; rfl
      have hstart' : ((loopCmds o true (segEnd z) (some (segEnd a')) (some a') fr).foldl SvgPath.step
          (SvgPath.step (specAfterM' (segStart a')) (segCmd o none a'))).start = ze := by
        rw [hstart, hzform]; rfl
      simp only [hcur, hstart', hne, if_false, r1]
      simp [hrest, hzform]
  · -- every segment is written
    have hd : (sc && isLine z) = false := by simpa using hdrop
    simp only [hd, Bool.false_eq_true, if_false]
    by_cases hsct : sc = true
    · -- closed by a curve: `Z` adds nothing
      have hsc' := hsct
      rw [hsc] at hsc'
      simp only [Bool.and_eq_true, decide_eq_true_eq] at hsc'
      obtain ⟨⟨_, hcont⟩, hclosed⟩ := hsc'
      simp only [hsct, if_true]
      rw [main true rest [Cmd.Z] (fun g hg => hok g (by simp [hg]))]
      obtain ⟨r1, r2, r3, r4⟩ := fold_loop h10 o hrel true (segEnd z) rest
        (fun g hg => hok g (by simp [hg])) _ (segEnd a) (some a) [a] hJ1
      have hstart := r4 (continuous_chain a rest hcont) (by rw [hst1']; exact hclosed)
      have hend : lastEnd (segEnd a) rest = segEnd z := by
        have : lastEnd cur0 (a :: rest) = segEnd z := by rw [hp, lastEnd_append]
        simpa [lastEnd] using this
      simp only [List.foldl_cons, List.foldl_nil, step_Z]
      simp [r3, hstart, hend, r1, hsct]
    · have hscf : sc = false := by simpa using hsct
      simp only [hscf, Bool.false_eq_true, if_false]
      rw [main false rest [] (fun g hg => hok g (by simp [hg]))]
      obtain ⟨r1, r2, r3, r4⟩ := fold_loop h10 o hrel false (segEnd z) rest
        (fun g hg => hok g (by simp [hg])) _ (segEnd a) (some a) [a] hJ1
      simp [r1, r2]


/-! ## down to tokens: `parse_path(path.d(**o))` -/
open SvgVerif.Props.C02 in
/-- every command written with its letter (Path.d never relies on implicit repetition) -/
def allLetters (cs : List (Cmd S)) : C02.Prog S := cs.map (fun c => (c, false))

omit h10 in
open SvgVerif.Props.C02 in
theorem valid_allLetters (prev : Cmd S) (cs : List (Cmd S)) : C02.Valid prev (allLetters cs) := by
  induction cs generalizing prev with
  | nil => trivial
  | cons c r ih => exact ⟨fun h => by simp at h, ih c⟩

omit h10 in
theorem map_fst_allLetters (cs : List (Cmd S)) : (allLetters cs).map (·.1) = cs := by
  induction cs with
  | nil => rfl
  | cons c r ih => simpa [allLetters] using ih

open SvgVerif.Props.C02 in
/-- the token list of `Path.d(**o)` -/
def dToks (o : Opts) (p : List (Seg S)) : List (Tok S) :=
  match dCmds o p with
  | [] => []
  | c :: tl => C02.cmdToks c false ++ C02.toks (allLetters tl)

/-- **C01.**  Parsing what `Path.d(**o)` writes yields the same path: same segment kinds in the
same order, same arc flags, same defining points, nothing dropped, nothing added, and
`_closed` set iff `Z` was written — for every option combination.  (`hcomm`: IEEE `+` commutes.) -/
theorem d_parse_roundtrip (hcomm : ∀ x y : S, x + y = y + x) (o : Opts) (hrel : o.rel = true → RelLaw S)
    (cur0 : Pt S) (hfirst : ∀ q : Pt S, at_ (!o.rel) cur0 q = q)
    (a : Seg S) (rest : List (Seg S)) (hok : ∀ g ∈ a :: rest, SegOK g)
    (hz : ∀ z zs ze, (a :: rest).getLast? = some z → z = .line zs ze → zs ≠ ze) :
    (parseToks false cur0 (dToks o (a :: rest))).toOption = some (a :: rest, selfClosed o (a :: rest)) := by
  have hrun := run_dCmds h10 o hrel cur0 hfirst a rest hok hz
  unfold dToks
  cases hd : dCmds o (a :: rest) with
  | nil => rw [hd] at hrun; simp [SvgPath.run] at hrun
  | cons c tl =>
    rw [hd] at hrun
    cases c with
    | M ab q =>
      simp only
      rw [C02.parse_refines_spec hcomm cur0 ab q (allLetters tl) (valid_allLetters _ tl), map_fst_allLetters]
      exact hrun
    | _ => simp [SvgPath.run] at hrun

/-- non-vacuity: a closed two-subpath path with all four kinds under every option set (integers) -/
def demoPath : List (Seg Int) :=
  [.line (0, 0) (4, 0), .cubic (4, 0) (5, 1) (6, 1) (7, 0), .cubic (7, 0) (8, -1) (9, 3) (9, 5),
   .quad (9, 5) (7, 7) (5, 5), .quad (5, 5) (3, 3) (2, 5), .arc (2, 5) (3, 2) 30 true false (0, 3), .line (0, 3) (0, 0)]

example : ∀ us uc : Bool, parseToks false (0, 0) (dToks ⟨us, uc, false⟩ demoPath)
    = .ok (demoPath, selfClosed (⟨us, uc, false⟩ : Opts) demoPath) := by decide

end SvgVerif.Props.C01
