import SvgVerif.Model.Poly
import Mathlib.Algebra.Polynomial.FieldDivision
import Mathlib.Algebra.Polynomial.Taylor
import Mathlib.Algebra.Polynomial.HasseDeriv
import Mathlib.Algebra.Polynomial.Derivative
import Mathlib.Tactic.Ring
import Mathlib.Tactic.FieldSimp
/-! # C19 — `rational_limit` returns the limit of the rational function, including at common zeros

Model: `Model.Poly.rationalLimit` (coefficient lists, highest power first; tied to `polytools.rational_limit` by
exact correspondence).

* `rationalLimit_lhopital` / `rationalLimit_noLimit` (any field, list level): the recursion is iterated L'Hôpital —
  with `m` the first order at which `g⁽ᵐ⁾(t0) ≠ 0`, it returns `f⁽ᵐ⁾(t0)/g⁽ᵐ⁾(t0)` if all lower derivatives of `f`
  vanish at `t0`, and raises `ValueError` ("Limit does not exist") at the first lower order where `f⁽ʲ⁾(t0) ≠ 0`;
  fuel `m + 1` suffices (so the recursion terminates for every `g ≠ 0`: `m ≤ deg g`).
* `rationalLimit_is_limit` (characteristic 0, through `Polynomial`): in the first case
  `f = (X − t0)^m·f₁`, `g = (X − t0)^m·g₁` with `g₁(t0) ≠ 0`, and the value returned is `f₁(t0)/g₁(t0)` — the value
  of the rational function `f/g` after cancelling the common zero, i.e. its limit at `t0`. -/
namespace SvgVerif.Props.C19
set_option linter.unusedVariables false
set_option linter.unusedSimpArgs false
set_option linter.unusedSectionVars false
open SvgVerif.Model.Poly Polynomial

variable {K : Type} [Field K] [DecidableEq K]

/-- `n`-fold `np.poly1d.deriv()` -/
def pderivN : ℕ → List K → List K
  | 0, cs => cs
  | n + 1, cs => pderivN n (pderiv cs)

/-- **iterated L'Hôpital, the value case** -/
theorem rationalLimit_lhopital (m fuel : ℕ) (hfuel : m < fuel) (f g : List K) (t0 : K)
    (hg0 : ∀ j, j < m → peval (pderivN j g) t0 = 0) (hf0 : ∀ j, j < m → peval (pderivN j f) t0 = 0)
    (hgm : peval (pderivN m g) t0 ≠ 0) :
    rationalLimit fuel f g t0 = .value (peval (pderivN m f) t0 / peval (pderivN m g) t0) := by
  induction m generalizing fuel f g with
  | zero =>
    obtain ⟨n, rfl⟩ : ∃ n, fuel = n + 1 := ⟨fuel - 1, by omega⟩
    simp only [pderivN] at hgm ⊢
    simp only [rationalLimit, ne_eq, hgm, not_false_eq_true, if_true]
  | succ m ih =>
    obtain ⟨n, rfl⟩ : ∃ n, fuel = n + 1 := ⟨fuel - 1, by omega⟩
    have g0 : peval g t0 = 0 := hg0 0 (by omega)
    have f0 : peval f t0 = 0 := hf0 0 (by omega)
    simp only [rationalLimit, ne_eq, g0, not_true_eq_false, if_false, f0, if_true]
    exact ih n (by omega) (pderiv f) (pderiv g) (fun j hj => hg0 (j + 1) (by omega)) (fun j hj => hf0 (j + 1) (by omega)) hgm

/-- **iterated L'Hôpital, the `ValueError` case**: the denominator still vanishes at order `m` where the numerator
does not -/
theorem rationalLimit_noLimit (m fuel : ℕ) (hfuel : m < fuel) (f g : List K) (t0 : K)
    (hg0 : ∀ j, j ≤ m → peval (pderivN j g) t0 = 0) (hf0 : ∀ j, j < m → peval (pderivN j f) t0 = 0)
    (hfm : peval (pderivN m f) t0 ≠ 0) :
    rationalLimit fuel f g t0 = .noLimit := by
  induction m generalizing fuel f g with
  | zero =>
    obtain ⟨n, rfl⟩ : ∃ n, fuel = n + 1 := ⟨fuel - 1, by omega⟩
    have g0 : peval g t0 = 0 := hg0 0 (le_refl _)
    simp only [pderivN] at hfm
    simp only [rationalLimit, ne_eq, g0, not_true_eq_false, if_false, hfm]
  | succ m ih =>
    obtain ⟨n, rfl⟩ : ∃ n, fuel = n + 1 := ⟨fuel - 1, by omega⟩
    have g0 : peval g t0 = 0 := hg0 0 (by omega)
    have f0 : peval f t0 = 0 := hf0 0 (by omega)
    simp only [rationalLimit, ne_eq, g0, not_true_eq_false, if_false, f0, if_true]
    exact ih n (by omega) (pderiv f) (pderiv g) (fun j hj => hg0 (j + 1) (by omega)) (fun j hj => hf0 (j + 1) (by omega)) hfm

/-! ## the coefficient lists as `Polynomial`s -/

/-- coefficient list, highest power first (numpy order) ↦ polynomial -/
noncomputable def toPoly : List K → K[X]
  | [] => 0
  | c :: cs => C c * X ^ cs.length + toPoly cs

theorem foldl_horner (cs : List K) (a t : K) :
    cs.foldl (fun acc c => acc * t + c) a = a * t ^ cs.length + (toPoly cs).eval t := by
  induction cs generalizing a with
  | nil => simp [toPoly]
  | cons c cs ih =>
    simp only [List.foldl_cons, ih, toPoly, List.length_cons, eval_add, eval_mul, eval_C, eval_pow, eval_X]
    ring

theorem peval_eq_eval (cs : List K) (t : K) : peval cs t = (toPoly cs).eval t := by
  unfold peval; rw [foldl_horner]; ring

theorem pderiv_length (cs : List K) : (pderiv cs).length = cs.length - 1 := by
  induction cs with
  | nil => rfl
  | cons c cs ih =>
    cases cs with
    | nil => rfl
    | cons d ds => simp only [pderiv, List.length_cons] at ih ⊢; omega

theorem toPoly_pderiv (cs : List K) : toPoly (pderiv cs) = derivative (toPoly cs) := by
  induction cs with
  | nil => simp [pderiv, toPoly]
  | cons c cs ih =>
    cases cs with
    | nil => simp [pderiv, toPoly]
    | cons d ds =>
      have hl : (pderiv (d :: ds)).length = ds.length := by rw [pderiv_length]; simp
      rw [show pderiv (c :: d :: ds) = (((d :: ds).length : ℕ) : K) * c :: pderiv (d :: ds) from rfl]
      rw [show toPoly ((((d :: ds).length : ℕ) : K) * c :: pderiv (d :: ds))
          = C ((((d :: ds).length : ℕ) : K) * c) * X ^ (pderiv (d :: ds)).length + toPoly (pderiv (d :: ds)) from rfl]
      rw [ih, hl]
      rw [show toPoly (c :: d :: ds) = C c * X ^ (d :: ds).length + toPoly (d :: ds) from rfl]
      simp only [List.length_cons, derivative_add, derivative_mul, derivative_C, zero_mul, zero_add, derivative_X_pow,
        Nat.add_sub_cancel, Nat.cast_add, Nat.cast_one, C_mul, map_add, map_natCast, map_one]
      ring

theorem toPoly_pderivN (n : ℕ) (cs : List K) : toPoly (pderivN n cs) = derivative^[n] (toPoly cs) := by
  induction n generalizing cs with
  | zero => rfl
  | succ n ih => simp only [pderivN, ih, toPoly_pderiv, Function.iterate_succ, Function.comp]

/-! ## cancelling the common zero -/

variable [CharZero K]

/-- a polynomial whose derivatives of order `< m` vanish at `t0` is `(X − t0)^m · p₁` with
`p₁(t0) = p⁽ᵐ⁾(t0)/m!` -/
theorem exists_factor (p : K[X]) (t0 : K) (m : ℕ) (h : ∀ j, j < m → (derivative^[j] p).eval t0 = 0) :
    ∃ p1 : K[X], p = (X - C t0) ^ m * p1 ∧ p1.eval t0 = (derivative^[m] p).eval t0 / (m.factorial : K) := by
  have hdvd : (X - C t0) ^ m ∣ p := by
    by_cases hp : p = 0
    · rw [hp]; exact dvd_zero _
    · cases m with
      | zero => simp
      | succ m =>
        have : m < p.rootMultiplicity t0 := by
          rw [lt_rootMultiplicity_iff_isRoot_iterate_derivative hp]
          intro j hj; exact h j (by omega)
        exact (pow_dvd_pow _ this).trans (pow_rootMultiplicity_dvd p t0)
  obtain ⟨p1, hp1⟩ := hdvd
  refine ⟨p1, hp1, ?_⟩
  have hfac : (m.factorial : K) ≠ 0 := Nat.cast_ne_zero.mpr (Nat.factorial_ne_zero m)
  rw [eq_div_iff hfac]
  -- the m-th Taylor coefficient of p at t0 is p1(t0)
  have ht : (taylor t0 p).coeff m = p1.eval t0 := by
    rw [hp1, taylor_mul, taylor_pow, map_sub, taylor_X, taylor_C, add_sub_cancel_right]
    have := coeff_X_pow_mul (taylor t0 p1) m 0
    rw [zero_add] at this
    rw [this, taylor_coeff_zero]
  rw [taylor_coeff] at ht
  have hd : derivative^[m] p = (m.factorial : K) • hasseDeriv m p := by
    have := congrFun (factorial_smul_hasseDeriv (R := K) m) p
    simp only [LinearMap.smul_apply] at this
    rw [← this]
    simp [Nat.cast_smul_eq_nsmul]
  rw [hd, eval_smul, smul_eq_mul, ht]; ring

/-- **`rational_limit` returns the limit**: if the derivatives of order `< m` of both `f` and `g` vanish at `t0` and
`g⁽ᵐ⁾(t0) ≠ 0`, then `f = (X − t0)^m f₁`, `g = (X − t0)^m g₁` with `g₁(t0) ≠ 0`, and the model returns
`f₁(t0)/g₁(t0)` — the value at `t0` of `f/g` with the common zero cancelled. -/
theorem rationalLimit_is_limit (m fuel : ℕ) (hfuel : m < fuel) (f g : List K) (t0 : K)
    (hg0 : ∀ j, j < m → peval (pderivN j g) t0 = 0) (hf0 : ∀ j, j < m → peval (pderivN j f) t0 = 0)
    (hgm : peval (pderivN m g) t0 ≠ 0) :
    ∃ f1 g1 : K[X], toPoly f = (X - C t0) ^ m * f1 ∧ toPoly g = (X - C t0) ^ m * g1 ∧ g1.eval t0 ≠ 0 ∧
      rationalLimit fuel f g t0 = .value (f1.eval t0 / g1.eval t0) := by
  have hfac : (m.factorial : K) ≠ 0 := Nat.cast_ne_zero.mpr (Nat.factorial_ne_zero m)
  obtain ⟨f1, hf1, ef1⟩ := exists_factor (toPoly f) t0 m
    (fun j hj => by rw [← toPoly_pderivN, ← peval_eq_eval]; exact hf0 j hj)
  obtain ⟨g1, hg1, eg1⟩ := exists_factor (toPoly g) t0 m
    (fun j hj => by rw [← toPoly_pderivN, ← peval_eq_eval]; exact hg0 j hj)
  rw [← toPoly_pderivN, ← peval_eq_eval] at ef1 eg1
  refine ⟨f1, g1, hf1, hg1, ?_, ?_⟩
  · rw [eg1]; exact div_ne_zero hgm hfac
  · rw [rationalLimit_lhopital m fuel hfuel f g t0 hg0 hf0 hgm, ef1, eg1]
    congr 1
    field_simp

/-- the `m`-th derivative of `(X − t0)^m · p₁` at `t0` is `m!·p₁(t0)` (the `m`-th Taylor coefficient) -/
theorem eval_iterate_derivative_factor (p1 : K[X]) (t0 : K) (m : ℕ) :
    (derivative^[m] ((X - C t0) ^ m * p1)).eval t0 = (m.factorial : K) * p1.eval t0 := by
  have ht : (taylor t0 ((X - C t0) ^ m * p1)).coeff m = p1.eval t0 := by
    rw [taylor_mul, taylor_pow, map_sub, taylor_X, taylor_C, add_sub_cancel_right]
    have := coeff_X_pow_mul (taylor t0 p1) m 0
    rw [zero_add] at this
    rw [this, taylor_coeff_zero]
  rw [taylor_coeff] at ht
  have hd : derivative^[m] ((X - C t0) ^ m * p1) = (m.factorial : K) • hasseDeriv m ((X - C t0) ^ m * p1) := by
    have := congrFun (factorial_smul_hasseDeriv (R := K) m) ((X - C t0) ^ m * p1)
    simp only [LinearMap.smul_apply] at this
    rw [← this]
    simp [Nat.cast_smul_eq_nsmul]
  rw [hd, eval_smul, smul_eq_mul, ht]

/-- lower derivatives of `(X − t0)^m · p₁` vanish at `t0` -/
theorem eval_iterate_derivative_factor_lt (p1 : K[X]) (t0 : K) (m j : ℕ) (hj : j < m) :
    (derivative^[j] ((X - C t0) ^ m * p1)).eval t0 = 0 := by
  have hd : (X - C t0) ^ (m - j) ∣ derivative^[j] ((X - C t0) ^ m * p1) :=
    pow_sub_dvd_iterate_derivative_of_pow_dvd j (dvd_mul_right _ _)
  have h1 : (X - C t0) ∣ derivative^[j] ((X - C t0) ^ m * p1) :=
    (dvd_pow_self _ (Nat.sub_ne_zero_of_lt hj)).trans hd
  exact dvd_iff_isRoot.mp h1

/-- **`rational_limit` on any pair with a common factor**: if `f = (X − t0)^m·f₁` and `g = (X − t0)^m·g₁` with
`g₁(t0) ≠ 0`, the model returns `f₁(t0)/g₁(t0)` (fuel `m + 1` suffices). -/
theorem rationalLimit_of_factor (m fuel : ℕ) (hfuel : m < fuel) (f g : List K) (t0 : K) (f1 g1 : K[X])
    (hf : toPoly f = (X - C t0) ^ m * f1) (hg : toPoly g = (X - C t0) ^ m * g1) (hg1 : g1.eval t0 ≠ 0) :
    rationalLimit fuel f g t0 = .value (f1.eval t0 / g1.eval t0) := by
  have hfac : (m.factorial : K) ≠ 0 := Nat.cast_ne_zero.mpr (Nat.factorial_ne_zero m)
  have e : ∀ (cs : List K) (j : ℕ), peval (pderivN j cs) t0 = (derivative^[j] (toPoly cs)).eval t0 := by
    intro cs j; rw [peval_eq_eval, toPoly_pderivN]
  rw [rationalLimit_lhopital m fuel hfuel f g t0
    (fun j hj => by rw [e, hg]; exact eval_iterate_derivative_factor_lt g1 t0 m j hj)
    (fun j hj => by rw [e, hf]; exact eval_iterate_derivative_factor_lt f1 t0 m j hj)
    (by rw [e, hg, eval_iterate_derivative_factor]; exact mul_ne_zero hfac hg1)]
  rw [e, e, hf, hg, eval_iterate_derivative_factor, eval_iterate_derivative_factor]
  congr 1
  field_simp

/-- non-vacuity: `(t² − 1)/(t − 1)` at `t0 = 1` (a common zero): the limit is `2` -/
example : rationalLimit 3 [(1 : ℚ), 0, -1] [1, -1] 1 = .value 2 := by decide +kernel

end SvgVerif.Props.C19
