import SvgVerif.Gen.C08
import SvgVerif.Model.BBox
import SvgVerif.Lemmas.Extreme
import SvgVerif.Lemmas.PolyCalculus
import Mathlib.Analysis.SpecialFunctions.Sqrt
import Mathlib.Tactic.Ring
import Mathlib.Tactic.Linarith
import Mathlib.Tactic.FieldSimp
import Mathlib.Tactic.NormNum
/-! # C08 — bbox() contains the curve and every side of it is touched by the curve

Cubic coordinate functions (`bezier_real_minmax`, the route `CubicBezier.bbox` takes): the
candidate parameters the code evaluates contain **every** interior critical point, so by the
extreme value theorem the reported min / max bound the coordinate on `[0,1]`, and they are
attained at parameters in `[0,1]` (tightness).  `Path.bbox`: union of the segment boxes, each
side attained by a segment.  The arithmetic of the model is cross-checked against the
definitions traced from the running code (`Gen.C08`). -/
namespace SvgVerif.Props.C08
set_option linter.unusedVariables false
set_option linter.unusedSimpArgs false
open SvgVerif SvgVerif.Model.BBox Set

/-! ## bridges: the model's arithmetic is the code's arithmetic -/
theorem denom_bridge (a0 a1 a2 a3 : ℝ) : denom a0 a1 a2 a3 = Gen.C08.minmax_denom a0 a1 a2 a3 := by
  simp only [denom, Gen.C08.minmax_denom]
theorem delta_bridge (a0 a1 a2 a3 : ℝ) : delta a0 a1 a2 a3 = Gen.C08.minmax_delta a0 a1 a2 a3 := by
  simp only [delta, Gen.C08.minmax_delta]; ring
theorem tau_bridge (a0 a1 a2 a3 : ℝ) : tau a0 a1 a2 = Gen.C08.minmax_tau a0 a1 a2 a3 := by
  simp only [tau, Gen.C08.minmax_tau]
theorem value_bridge (a0 a1 a2 a3 t : ℝ) : value a0 a1 a2 a3 t = Gen.C08.minmax_value a0 a1 a2 a3 t := by
  simp only [value, Gen.C08.minmax_value]
/-- `q` of the code: `tau + sqrt delta` when `tau ≥ 0`, `tau - sqrt delta` otherwise -/
noncomputable def qOf (a0 a1 a2 a3 : ℝ) : ℝ :=
  if tau a0 a1 a2 ≥ 0 then tau a0 a1 a2 + Real.sqrt (delta a0 a1 a2 a3) else tau a0 a1 a2 - Real.sqrt (delta a0 a1 a2 a3)

/-- the two traced paths (`tau ≥ 0`, `tau < 0`; both with `q ≠ 0`) are the model's `r1`, `r2` -/
theorem r_bridge (a0 a1 a2 a3 : ℝ) :
    (tau a0 a1 a2 ≥ 0 → qOf a0 a1 a2 a3 / denom a0 a1 a2 a3 = Gen.C08.minmax_r1_pos a0 a1 a2 a3 ∧
      (a0 - a1) / qOf a0 a1 a2 a3 = Gen.C08.minmax_r2_pos a0 a1 a2 a3) ∧
    (¬ tau a0 a1 a2 ≥ 0 → qOf a0 a1 a2 a3 / denom a0 a1 a2 a3 = Gen.C08.minmax_r1_neg a0 a1 a2 a3 ∧
      (a0 - a1) / qOf a0 a1 a2 a3 = Gen.C08.minmax_r2_neg a0 a1 a2 a3) := by
  have hd : delta a0 a1 a2 a3 = (((a1 ^ 2) - ((a0 + a1) * a2)) + (a2 ^ 2)) + ((a0 - a1) * a3) := by
    simp only [delta]; ring
  constructor
  · intro h
    rw [qOf, if_pos h]
    simp only [Gen.C08.minmax_r1_pos, Gen.C08.minmax_r2_pos, hd, tau, denom, and_self]
  · intro h
    rw [qOf, if_neg h]
    simp only [Gen.C08.minmax_r1_neg, Gen.C08.minmax_r2_neg, hd, tau, denom, and_self]

/-- Vieta: the product of the two roots of the derivative -/
theorem tau_sq_sub_delta (a0 a1 a2 a3 : ℝ) :
    tau a0 a1 a2 ^ 2 - delta a0 a1 a2 a3 = (a0 - a1) * denom a0 a1 a2 a3 := by
  simp only [tau, delta, denom]; ring

/-- the cancellation-free pair `{q/denom, (a0-a1)/q}` (or `q/denom` twice when `q = 0`) is the
pair `{(tau + sqrt delta)/denom, (tau - sqrt delta)/denom}` -/
theorem stable_roots (a0 a1 a2 a3 : ℝ) (hden : denom a0 a1 a2 a3 ≠ 0) (hdel : 0 ≤ delta a0 a1 a2 a3) :
    let q := qOf a0 a1 a2 a3
    let r1 := q / denom a0 a1 a2 a3
    let r2 := if q ≠ 0 then (a0 - a1) / q else r1
    ((tau a0 a1 a2 + Real.sqrt (delta a0 a1 a2 a3)) / denom a0 a1 a2 a3 = r1 ∧
      (tau a0 a1 a2 - Real.sqrt (delta a0 a1 a2 a3)) / denom a0 a1 a2 a3 = r2) ∨
    ((tau a0 a1 a2 + Real.sqrt (delta a0 a1 a2 a3)) / denom a0 a1 a2 a3 = r2 ∧
      (tau a0 a1 a2 - Real.sqrt (delta a0 a1 a2 a3)) / denom a0 a1 a2 a3 = r1) := by
  intro q r1 r2
  have hs := Real.sqrt_nonneg (delta a0 a1 a2 a3)
  have hv : (tau a0 a1 a2 + Real.sqrt (delta a0 a1 a2 a3)) * (tau a0 a1 a2 - Real.sqrt (delta a0 a1 a2 a3))
      = (a0 - a1) * denom a0 a1 a2 a3 := by
    rw [← tau_sq_sub_delta]
    have := Real.sq_sqrt hdel
    nlinarith [this]
  by_cases ht : tau a0 a1 a2 ≥ 0
  · left
    have hq : q = tau a0 a1 a2 + Real.sqrt (delta a0 a1 a2 a3) := by simp only [q, qOf, if_pos ht]
    refine ⟨by simp only [r1, hq], ?_⟩
    by_cases hq0 : q ≠ 0
    · simp only [r2, if_pos hq0]
      rw [hq] at hq0 ⊢
      rw [div_eq_div_iff hden hq0]; linarith
    · simp only [r2, if_neg hq0, r1]
      have hq0' : tau a0 a1 a2 + Real.sqrt (delta a0 a1 a2 a3) = 0 := by
        rw [← hq]; exact not_not.mp hq0
      have h1 : tau a0 a1 a2 = 0 := by linarith
      have h2 : Real.sqrt (delta a0 a1 a2 a3) = 0 := by linarith
      rw [hq, h1, h2]; simp
  · right
    have hq : q = tau a0 a1 a2 - Real.sqrt (delta a0 a1 a2 a3) := by simp only [q, qOf, if_neg ht]
    have hq0 : q ≠ 0 := by
      rw [hq]; have := not_le.mp ht; intro h; linarith
    refine ⟨?_, by simp only [r1, hq]⟩
    simp only [r2, if_pos hq0]
    rw [hq] at hq0 ⊢
    rw [div_eq_div_iff hden hq0]; linarith

/-- when the cubic term vanishes the code hands the derivative's coefficients to the root
finder: they are the coefficients of the derivative of the (quadratic) coordinate function -/
theorem degenerate_dcoeffs (a0 a1 a2 t : ℝ) :
    Gen.C08.degenerate_dcoeff_0 a0 a1 a2 * t + Gen.C08.degenerate_dcoeff_1 a0 a1 a2
      = 2 * ((a1 - a0) * (1 - t) + (a2 - a1) * t) := by
  simp only [Gen.C08.degenerate_dcoeff_0, Gen.C08.degenerate_dcoeff_1]; ring

/-! ## the critical points of a cubic coordinate are exactly r1, r2 -/

/-- derivative of the coordinate function -/
def dvalue (a0 a1 a2 a3 t : ℝ) : ℝ :=
  3 * (a1 - a0) * (1 - t) ^ 2 + 6 * (a2 - a1) * (1 - t) * t + 3 * (a3 - a2) * t ^ 2

theorem hasDerivAt_value (a0 a1 a2 a3 t : ℝ) :
    HasDerivAt (value a0 a1 a2 a3) (dvalue a0 a1 a2 a3 t) t := by
  have e : value a0 a1 a2 a3 = Spec.polyEval [-a0 + 3 * (a1 - a2) + a3, 3 * (a0 - 2 * a1 + a2), 3 * (a1 - a0), a0] := by
    funext x; simp [value, Spec.polyEval]; ring
  rw [e]
  have := Spec.hasDerivAt_polyEval [-a0 + 3 * (a1 - a2) + a3, 3 * (a0 - 2 * a1 + a2), 3 * (a1 - a0), a0] t
  have e2 : dvalue a0 a1 a2 a3 t =
      Spec.polyEval (Spec.polyDeriv [-a0 + 3 * (a1 - a2) + a3, 3 * (a0 - 2 * a1 + a2), 3 * (a1 - a0), a0]) t := by
    simp only [dvalue, Spec.polyDeriv, Spec.polyEval, List.length]
    push_cast
    ring
  rw [e2]; exact this

/-- `denom · a'(t) = −3 ((denom·t − tau)² − delta)` -/
theorem key_identity (a0 a1 a2 a3 t : ℝ) :
    denom a0 a1 a2 a3 * dvalue a0 a1 a2 a3 t
      = -3 * ((denom a0 a1 a2 a3 * t - tau a0 a1 a2) ^ 2 - delta a0 a1 a2 a3) := by
  simp only [denom, dvalue, tau, delta]; ring

theorem critical_is_root (a0 a1 a2 a3 t : ℝ) (hden : denom a0 a1 a2 a3 ≠ 0) (hdel : 0 ≤ delta a0 a1 a2 a3)
    (hcrit : dvalue a0 a1 a2 a3 t = 0) :
    t = (tau a0 a1 a2 + Real.sqrt (delta a0 a1 a2 a3)) / denom a0 a1 a2 a3 ∨
    t = (tau a0 a1 a2 - Real.sqrt (delta a0 a1 a2 a3)) / denom a0 a1 a2 a3 := by
  have h := key_identity a0 a1 a2 a3 t
  rw [hcrit, mul_zero] at h
  have hsq : (denom a0 a1 a2 a3 * t - tau a0 a1 a2) ^ 2 = Real.sqrt (delta a0 a1 a2 a3) ^ 2 := by
    rw [Real.sq_sqrt hdel]; linarith
  rcases sq_eq_sq_iff_eq_or_eq_neg.mp hsq with h1 | h1
  · left; field_simp; linarith
  · right; field_simp; linarith

theorem no_critical_of_neg_delta (a0 a1 a2 a3 t : ℝ) (hden : denom a0 a1 a2 a3 ≠ 0) (hdel : delta a0 a1 a2 a3 < 0) :
    dvalue a0 a1 a2 a3 t ≠ 0 := by
  intro hcrit
  have h := key_identity a0 a1 a2 a3 t
  rw [hcrit, mul_zero] at h
  have : 0 ≤ (denom a0 a1 a2 a3 * t - tau a0 a1 a2) ^ 2 := sq_nonneg _
  linarith

/-! ## Python `min` / `max` of a list -/
theorem pmax_spec (l : List ℝ) (m : ℝ) (h : pmax l = some m) : (∀ v ∈ l, v ≤ m) ∧ m ∈ l := by
  cases l with
  | nil => simp [pmax] at h
  | cons x xs =>
    simp only [pmax, Option.some.injEq] at h
    subst h
    have gen : ∀ (ys : List ℝ) (acc : ℝ),
        (acc ≤ ys.foldl (fun m y => if m < y then y else m) acc) ∧
        (∀ v ∈ ys, v ≤ ys.foldl (fun m y => if m < y then y else m) acc) ∧
        (ys.foldl (fun m y => if m < y then y else m) acc = acc ∨ ys.foldl (fun m y => if m < y then y else m) acc ∈ ys) := by
      intro ys
      induction ys with
      | nil => intro acc; simp
      | cons y r ih =>
        intro acc
        simp only [List.foldl_cons]
        obtain ⟨i1, i2, i3⟩ := ih (if acc < y then y else acc)
        have hacc : acc ≤ (if acc < y then y else acc) := by split_ifs with hh <;> [exact hh.le; exact le_refl _]
        have hy : y ≤ (if acc < y then y else acc) := by split_ifs with hh <;> [exact le_refl _; exact not_lt.mp hh]
        refine ⟨le_trans hacc i1, ?_, ?_⟩
        · intro v hv
          rcases List.mem_cons.mp hv with rfl | hv
          · exact le_trans hy i1
          · exact i2 v hv
        · rcases i3 with h' | h'
          · rw [h']
            split_ifs with hh
            · right; simp
            · left; rfl
          · right; exact List.mem_cons_of_mem _ h'
    obtain ⟨g1, g2, g3⟩ := gen xs x
    refine ⟨?_, ?_⟩
    · intro v hv
      rcases List.mem_cons.mp hv with rfl | hv
      · exact g1
      · exact g2 v hv
    · rcases g3 with h' | h'
      · rw [h']; simp
      · exact List.mem_cons_of_mem _ h'

theorem pmin_spec (l : List ℝ) (m : ℝ) (h : pmin l = some m) : (∀ v ∈ l, m ≤ v) ∧ m ∈ l := by
  cases l with
  | nil => simp [pmin] at h
  | cons x xs =>
    simp only [pmin, Option.some.injEq] at h
    subst h
    have gen : ∀ (ys : List ℝ) (acc : ℝ),
        (ys.foldl (fun m y => if y < m then y else m) acc ≤ acc) ∧
        (∀ v ∈ ys, ys.foldl (fun m y => if y < m then y else m) acc ≤ v) ∧
        (ys.foldl (fun m y => if y < m then y else m) acc = acc ∨ ys.foldl (fun m y => if y < m then y else m) acc ∈ ys) := by
      intro ys
      induction ys with
      | nil => intro acc; simp
      | cons y r ih =>
        intro acc
        simp only [List.foldl_cons]
        obtain ⟨i1, i2, i3⟩ := ih (if y < acc then y else acc)
        have hacc : (if y < acc then y else acc) ≤ acc := by split_ifs with hh <;> [exact hh.le; exact le_refl _]
        have hy : (if y < acc then y else acc) ≤ y := by split_ifs with hh <;> [exact le_refl _; exact not_lt.mp hh]
        refine ⟨le_trans i1 hacc, ?_, ?_⟩
        · intro v hv
          rcases List.mem_cons.mp hv with rfl | hv
          · exact le_trans i1 hy
          · exact i2 v hv
        · rcases i3 with h' | h'
          · rw [h']
            split_ifs with hh
            · right; simp
            · left; rfl
          · right; exact List.mem_cons_of_mem _ h'
    obtain ⟨g1, g2, g3⟩ := gen xs x
    refine ⟨?_, ?_⟩
    · intro v hv
      rcases List.mem_cons.mp hv with rfl | hv
      · exact g1
      · exact g2 v hv
    · rcases g3 with h' | h'
      · rw [h']; simp
      · exact List.mem_cons_of_mem _ h'

/-! ## containment and tightness for a cubic coordinate -/

theorem mem_cand_list (r1 r2 c : ℝ)
    (hc : c ∈ [0, 1] ++ (if 0 < r1 ∧ r1 < 1 then [r1] else []) ++ (if 0 < r2 ∧ r2 < 1 then [r2] else [])) :
    c ∈ Icc (0 : ℝ) 1 := by
  simp only [List.mem_append, List.mem_cons, List.mem_singleton] at hc
  rcases hc with ((rfl | rfl | hc) | hc) | hc
  · exact ⟨le_refl _, zero_le_one⟩
  · exact ⟨zero_le_one, le_refl _⟩
  · simp at hc
  · split_ifs at hc with hh
    · simp at hc; subst hc; exact ⟨hh.1.le, hh.2.le⟩
    · simp at hc
  · split_ifs at hc with hh
    · simp at hc; subst hc; exact ⟨hh.1.le, hh.2.le⟩
    · simp at hc

theorem cand_list_has (r1 r2 t : ℝ) (ht : t ∈ Ioo (0 : ℝ) 1) (h : t = r1 ∨ t = r2) :
    t ∈ [0, 1] ++ (if 0 < r1 ∧ r1 < 1 then [r1] else []) ++ (if 0 < r2 ∧ r2 < 1 then [r2] else []) := by
  rcases h with h | h
  · have hh := ht; rw [h] at hh; simp [hh.1, hh.2, h]
  · have hh := ht; rw [h] at hh; simp [hh.1, hh.2, h]

theorem cands_spec (a0 a1 a2 a3 : ℝ) (cs : List ℝ) (h : cands Real.sqrt a0 a1 a2 a3 = some cs) :
    (0 : ℝ) ∈ cs ∧ (1 : ℝ) ∈ cs ∧ (∀ c ∈ cs, c ∈ Icc (0 : ℝ) 1) ∧
    (∀ t ∈ Ioo (0 : ℝ) 1, dvalue a0 a1 a2 a3 t = 0 → t ∈ cs) := by
  unfold cands at h
  by_cases hden : denom a0 a1 a2 a3 ≠ 0
  · rw [if_pos hden] at h
    by_cases hdel : delta a0 a1 a2 a3 ≥ 0
    · rw [if_pos hdel] at h
      simp only [Option.some.injEq] at h
      subst h
      refine ⟨by simp, by simp, ?_, ?_⟩
      · intro c hc
        exact mem_cand_list _ _ c hc
      · intro t ht hcrit
        have hst := stable_roots a0 a1 a2 a3 hden hdel
        simp only [qOf] at hst
        apply cand_list_has _ _ t ht
        rcases critical_is_root a0 a1 a2 a3 t hden hdel hcrit with h1 | h1 <;>
          rcases hst with ⟨e1, e2⟩ | ⟨e1, e2⟩
        · left; rw [h1, e1] <;> try (split_ifs <;> rfl)
        · right; rw [h1, e1] <;> try (split_ifs <;> rfl)
        · right; rw [h1, e2] <;> try (split_ifs <;> rfl)
        · left; rw [h1, e2] <;> try (split_ifs <;> rfl)
    · rw [if_neg hdel] at h
      simp only [Option.some.injEq] at h
      subst h
      refine ⟨by simp, by simp, ?_, ?_⟩
      · intro c hc
        simp only [List.mem_cons, List.mem_singleton] at hc
        rcases hc with rfl | rfl | hc
        · exact ⟨le_refl _, zero_le_one⟩
        · exact ⟨zero_le_one, le_refl _⟩
        · simp at hc
      · intro t ht hcrit
        exact absurd hcrit (no_critical_of_neg_delta a0 a1 a2 a3 t hden (not_le.mp hdel))
  · simp [hden] at h

/-- **C08, cubic coordinate.**  When `bezier_real_minmax` answers `(lo, hi)` by its closed form,
every value of the coordinate on `[0,1]` lies in `[lo, hi]` (containment) and both bounds are
values of the coordinate at parameters in `[0,1]` (the box side is touched by the curve). -/
theorem cubicMinmax_contains_tight (a0 a1 a2 a3 lo hi : ℝ)
    (h : cubicMinmax Real.sqrt a0 a1 a2 a3 = some (lo, hi)) :
    (∀ t ∈ Icc (0 : ℝ) 1, lo ≤ value a0 a1 a2 a3 t ∧ value a0 a1 a2 a3 t ≤ hi) ∧
    (∃ c ∈ Icc (0 : ℝ) 1, value a0 a1 a2 a3 c = lo) ∧ (∃ c ∈ Icc (0 : ℝ) 1, value a0 a1 a2 a3 c = hi) := by
  unfold cubicMinmax at h
  cases hcs : cands Real.sqrt a0 a1 a2 a3 with
  | none => simp [hcs] at h
  | some cs =>
    simp only [hcs] at h
    cases hmin : pmin (cs.map (value a0 a1 a2 a3)) with
    | none => simp [hmin] at h
    | some lo' =>
      cases hmax : pmax (cs.map (value a0 a1 a2 a3)) with
      | none => simp [hmin, hmax] at h
      | some hi' =>
        simp only [hmin, hmax, Option.some.injEq, Prod.mk.injEq] at h
        obtain ⟨rfl, rfl⟩ := h
        obtain ⟨c0, c1, cin, ccrit⟩ := cands_spec a0 a1 a2 a3 cs hcs
        obtain ⟨pm1, pm2⟩ := pmin_spec _ _ hmin
        obtain ⟨px1, px2⟩ := pmax_spec _ _ hmax
        have hcont : ContinuousOn (value a0 a1 a2 a3) (Icc 0 1) :=
          fun x _ => (hasDerivAt_value a0 a1 a2 a3 x).continuousAt.continuousWithinAt
        refine ⟨?_, ?_, ?_⟩
        · intro t ht
          obtain ⟨c, hc, _, hle⟩ := Lemmas.le_candidate_max (value a0 a1 a2 a3) (dvalue a0 a1 a2 a3) cs
            (fun x _ => hasDerivAt_value a0 a1 a2 a3 x) hcont c0 c1 ccrit t ht
          obtain ⟨c', hc', _, hge⟩ := Lemmas.candidate_min_le (value a0 a1 a2 a3) (dvalue a0 a1 a2 a3) cs
            (fun x _ => hasDerivAt_value a0 a1 a2 a3 x) hcont c0 c1 ccrit t ht
          exact ⟨le_trans (pm1 _ (List.mem_map_of_mem hc')) hge, le_trans hle (px1 _ (List.mem_map_of_mem hc))⟩
        · obtain ⟨c, hc, hv⟩ := List.mem_map.mp pm2
          exact ⟨c, cin c hc, hv⟩
        · obtain ⟨c, hc, hv⟩ := List.mem_map.mp px2
          exact ⟨c, cin c hc, hv⟩

/-! ## Path.bbox is the union of the segment boxes -/
theorem pathBbox_union (bs : List (Box ℝ)) (xmin xmax ymin ymax : ℝ) (h : pathBbox bs = some (xmin, xmax, ymin, ymax)) :
    (∀ b ∈ bs, xmin ≤ b.1 ∧ b.2.1 ≤ xmax ∧ ymin ≤ b.2.2.1 ∧ b.2.2.2 ≤ ymax) ∧
    (∃ b ∈ bs, b.1 = xmin) ∧ (∃ b ∈ bs, b.2.1 = xmax) ∧ (∃ b ∈ bs, b.2.2.1 = ymin) ∧ (∃ b ∈ bs, b.2.2.2 = ymax) := by
  unfold pathBbox at h
  cases h1 : pmin (bs.map (·.1)) with
  | none => simp [h1] at h
  | some a =>
  cases h2 : pmax (bs.map (·.2.1)) with
  | none => simp [h1, h2] at h
  | some b =>
  cases h3 : pmin (bs.map (·.2.2.1)) with
  | none => simp [h1, h2, h3] at h
  | some c =>
  cases h4 : pmax (bs.map (·.2.2.2)) with
  | none => simp [h1, h2, h3, h4] at h
  | some d =>
    simp only [h1, h2, h3, h4, Option.some.injEq, Prod.mk.injEq] at h
    obtain ⟨rfl, rfl, rfl, rfl⟩ := h
    obtain ⟨p1, q1⟩ := pmin_spec _ _ h1
    obtain ⟨p2, q2⟩ := pmax_spec _ _ h2
    obtain ⟨p3, q3⟩ := pmin_spec _ _ h3
    obtain ⟨p4, q4⟩ := pmax_spec _ _ h4
    refine ⟨fun bx hb => ⟨p1 _ (List.mem_map_of_mem hb), p2 _ (List.mem_map_of_mem hb), p3 _ (List.mem_map_of_mem hb),
      p4 _ (List.mem_map_of_mem hb)⟩, ?_, ?_, ?_, ?_⟩
    · obtain ⟨bx, hb, e⟩ := List.mem_map.mp q1; exact ⟨bx, hb, e⟩
    · obtain ⟨bx, hb, e⟩ := List.mem_map.mp q2; exact ⟨bx, hb, e⟩
    · obtain ⟨bx, hb, e⟩ := List.mem_map.mp q3; exact ⟨bx, hb, e⟩
    · obtain ⟨bx, hb, e⟩ := List.mem_map.mp q4; exact ⟨bx, hb, e⟩

end SvgVerif.Props.C08
