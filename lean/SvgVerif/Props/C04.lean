import SvgVerif.Gen.C04
import Mathlib.Analysis.SpecialFunctions.Trigonometric.Deriv
import Mathlib.Analysis.SpecialFunctions.Trigonometric.Inverse
import Mathlib.Analysis.Calculus.Deriv.Mul
import Mathlib.Analysis.Calculus.Deriv.Add
import Mathlib.Tactic.Ring
import Mathlib.Tactic.FieldSimp
import Mathlib.Tactic.LinearCombination
/-! # C04 — Arc realises the SVG endpoint parameterisation (F.6.5)

`Gen.C04` is regenerated every run by tracing `Arc.point` and `Arc.derivative(t, n)`, n = 1..5,
on an `Arc` whose derived parameters (`theta`, `delta`, `center`, `radius`, `rot_matrix`,
`rotation`) are symbolic; `cos` / `sin` are `Real.cos` / `Real.sin`, `pi` is a symbol.
`cphi + i·sphi` is `rot_matrix = exp(i·radians(rotation))`. -/
namespace SvgVerif.Props.C04
set_option linter.unusedVariables false
open SvgVerif Real

variable (theta delta rx ry cphi sphi rot cx cy pi t : ℝ)

/-- the eccentric angle `radians(theta + t·delta)` -/
noncomputable def ang : ℝ := ((theta + t * delta) * pi) / 180
/-- `k = d(angle)/dt` -/
noncomputable def k : ℝ := (delta * pi) / 180

/-- every `point(t)` lies on the ellipse with the stored centre, radii and rotation -/
theorem point_on_ellipse (hrx : rx ≠ 0) (hry : ry ≠ 0) (hrot : cphi ^ 2 + sphi ^ 2 = 1) :
    let x := Gen.C04.point_x theta delta rx ry cphi sphi rot cx cy pi t - cx
    let y := Gen.C04.point_y theta delta rx ry cphi sphi rot cx cy pi t - cy
    ((x * cphi + y * sphi) / rx) ^ 2 + ((-x * sphi + y * cphi) / ry) ^ 2 = 1 := by
  simp only [Gen.C04.point_x, Gen.C04.point_y]
  set a := ((theta + t * delta) * pi) / 180 with ha
  have h1 : ((rx * cphi * cos a - ry * sphi * sin a + cx - cx) * cphi + (rx * sphi * cos a + ry * cphi * sin a + cy - cy) * sphi) / rx
      = cos a * (cphi ^ 2 + sphi ^ 2) := by field_simp; ring
  have h2 : (-(rx * cphi * cos a - ry * sphi * sin a + cx - cx) * sphi + (rx * sphi * cos a + ry * cphi * sin a + cy - cy) * cphi) / ry
      = sin a * (cphi ^ 2 + sphi ^ 2) := by field_simp; ring
  rw [h1, h2, hrot]
  simp [cos_sq_add_sin_sq]

/-- the angle moves affinely (hence monotonically) in `t`, with rate `k` -/
theorem hasDerivAt_ang : HasDerivAt (fun s => ((theta + s * delta) * pi) / 180) ((delta * pi) / 180) t := by
  have h := ((((hasDerivAt_id t).mul_const delta).const_add theta).mul_const pi).div_const 180
  simpa using h

/-- `derivative(t, 1)` is the velocity of `point(t)` (with `rot_matrix = exp(i·radians(rotation))`) -/
theorem hasDerivAt_point (hc : cphi = cos ((rot * pi) / 180)) (hs : sphi = sin ((rot * pi) / 180)) :
    HasDerivAt (fun s => Gen.C04.point_x theta delta rx ry cphi sphi rot cx cy pi s)
      (Gen.C04.derivative_1_x theta delta rx ry cphi sphi rot cx cy pi t) t ∧
    HasDerivAt (fun s => Gen.C04.point_y theta delta rx ry cphi sphi rot cx cy pi s)
      (Gen.C04.derivative_1_y theta delta rx ry cphi sphi rot cx cy pi t) t := by
  have ha := hasDerivAt_ang theta delta pi t
  have hcos := ha.cos
  have hsin := ha.sin
  constructor
  · have h := ((hcos.const_mul (rx * cphi)).fun_sub (hsin.const_mul (ry * sphi))).add_const cx
    refine h.congr_deriv ?_
    simp only [Gen.C04.derivative_1_x]
    rw [← hc, ← hs]; ring
  · have h := ((hcos.const_mul (rx * sphi)).fun_add (hsin.const_mul (ry * cphi))).add_const cy
    refine h.congr_deriv ?_
    simp only [Gen.C04.derivative_1_y]
    rw [← hc, ← hs]; ring

/-- `derivative(t, 2)` is the derivative of `derivative(t, 1)` -/
theorem hasDerivAt_derivative_1 :
    HasDerivAt (fun s => Gen.C04.derivative_1_x theta delta rx ry cphi sphi rot cx cy pi s)
      (Gen.C04.derivative_2_x theta delta rx ry cphi sphi rot cx cy pi t) t ∧
    HasDerivAt (fun s => Gen.C04.derivative_1_y theta delta rx ry cphi sphi rot cx cy pi s)
      (Gen.C04.derivative_2_y theta delta rx ry cphi sphi rot cx cy pi t) t := by
  have ha := hasDerivAt_ang theta delta pi t
  have hcos := ha.cos
  have hsin := ha.sin
  constructor
  · have h := ((hsin.const_mul (-rx * cos ((rot * pi) / 180))).fun_sub (hcos.const_mul (ry * sin ((rot * pi) / 180)))).const_mul ((delta * pi) / 180)
    refine h.congr_deriv ?_
    simp only [Gen.C04.derivative_2_x]
    ring
  · have h := ((hsin.const_mul (-rx * sin ((rot * pi) / 180))).fun_add (hcos.const_mul (ry * cos ((rot * pi) / 180)))).const_mul ((delta * pi) / 180)
    refine h.congr_deriv ?_
    simp only [Gen.C04.derivative_2_y]
    ring

/-- the higher derivatives repeat with period 4, each order carrying one more factor `k`:
`γ'' = −k²(γ − c)`, `γ''' = −k² γ'`, `γ⁗ = k⁴(γ − c)`, `γ⁽⁵⁾ = k⁴ γ'` -/
theorem derivative_recurrence (hc : cphi = cos ((rot * pi) / 180)) (hs : sphi = sin ((rot * pi) / 180)) :
    Gen.C04.derivative_2_x theta delta rx ry cphi sphi rot cx cy pi t
      = -(k delta pi) ^ 2 * (Gen.C04.point_x theta delta rx ry cphi sphi rot cx cy pi t - cx) ∧
    Gen.C04.derivative_2_y theta delta rx ry cphi sphi rot cx cy pi t
      = -(k delta pi) ^ 2 * (Gen.C04.point_y theta delta rx ry cphi sphi rot cx cy pi t - cy) ∧
    Gen.C04.derivative_3_x theta delta rx ry cphi sphi rot cx cy pi t
      = -(k delta pi) ^ 2 * Gen.C04.derivative_1_x theta delta rx ry cphi sphi rot cx cy pi t ∧
    Gen.C04.derivative_3_y theta delta rx ry cphi sphi rot cx cy pi t
      = -(k delta pi) ^ 2 * Gen.C04.derivative_1_y theta delta rx ry cphi sphi rot cx cy pi t ∧
    Gen.C04.derivative_4_x theta delta rx ry cphi sphi rot cx cy pi t
      = (k delta pi) ^ 4 * (Gen.C04.point_x theta delta rx ry cphi sphi rot cx cy pi t - cx) ∧
    Gen.C04.derivative_4_y theta delta rx ry cphi sphi rot cx cy pi t
      = (k delta pi) ^ 4 * (Gen.C04.point_y theta delta rx ry cphi sphi rot cx cy pi t - cy) ∧
    Gen.C04.derivative_5_x theta delta rx ry cphi sphi rot cx cy pi t
      = (k delta pi) ^ 4 * Gen.C04.derivative_1_x theta delta rx ry cphi sphi rot cx cy pi t ∧
    Gen.C04.derivative_5_y theta delta rx ry cphi sphi rot cx cy pi t
      = (k delta pi) ^ 4 * Gen.C04.derivative_1_y theta delta rx ry cphi sphi rot cx cy pi t := by
  simp only [Gen.C04.point_x, Gen.C04.point_y, Gen.C04.derivative_1_x, Gen.C04.derivative_1_y,
    Gen.C04.derivative_2_x, Gen.C04.derivative_2_y, Gen.C04.derivative_3_x, Gen.C04.derivative_3_y,
    Gen.C04.derivative_4_x, Gen.C04.derivative_4_y, Gen.C04.derivative_5_x, Gen.C04.derivative_5_y, k, hc, hs]
  refine ⟨?_, ?_, ?_, ?_, ?_, ?_, ?_, ?_⟩ <;> ring

/-! ## F.6.5.5: the start angle.  For a unit vector `(ux, uy)` the three-way case split of
`_parameterize` (`uy > 0`, `uy < 0`, `uy = 0` with the sign of `ux`) yields an angle `θ` (degrees)
with `cos θ = ux` and `sin θ = uy`. -/
noncomputable def thetaDeg (ux uy : ℝ) : ℝ :=
  if 0 < uy then arccos ux * 180 / Real.pi
  else if uy < 0 then -(arccos ux * 180 / Real.pi)
  else if 0 < ux then 0 else 180

theorem theta_correct (ux uy : ℝ) (hu : ux ^ 2 + uy ^ 2 = 1) :
    cos (thetaDeg ux uy * Real.pi / 180) = ux ∧ sin (thetaDeg ux uy * Real.pi / 180) = uy := by
  have hpi : Real.pi ≠ 0 := Real.pi_ne_zero
  have hux : -1 ≤ ux ∧ ux ≤ 1 := by constructor <;> nlinarith [sq_nonneg uy, sq_nonneg (ux - 1), sq_nonneg (ux + 1)]
  have hs2 : Real.sqrt (1 - ux ^ 2) = |uy| := by
    rw [show 1 - ux ^ 2 = uy ^ 2 by linarith, Real.sqrt_sq_eq_abs]
  unfold thetaDeg
  split_ifs with h1 h2 h3
  · have e : arccos ux * 180 / Real.pi * Real.pi / 180 = arccos ux := by field_simp
    rw [e, cos_arccos hux.1 hux.2, sin_arccos, hs2, abs_of_pos h1]; exact ⟨rfl, rfl⟩
  · have e : -(arccos ux * 180 / Real.pi) * Real.pi / 180 = -arccos ux := by field_simp
    rw [e, cos_neg, sin_neg, cos_arccos hux.1 hux.2, sin_arccos, hs2, abs_of_neg h2]; exact ⟨rfl, by ring⟩
  · have huy : uy = 0 := le_antisymm (not_lt.mp h1) (not_lt.mp h2)
    have : ux = 1 := by
      have : ux ^ 2 = 1 := by rw [huy] at hu; linarith
      nlinarith [sq_nonneg (ux - 1), sq_nonneg (ux + 1)]
    simp [this, huy]
  · have huy : uy = 0 := le_antisymm (not_lt.mp h1) (not_lt.mp h2)
    have : ux = -1 := by
      have h2' : ux ^ 2 = 1 := by rw [huy] at hu; linarith
      have : ux ≤ 0 := not_lt.mp h3
      nlinarith [sq_nonneg (ux - 1), sq_nonneg (ux + 1)]
    have e : (180 : ℝ) * Real.pi / 180 = Real.pi := by ring
    simp [this, huy, e]

end SvgVerif.Props.C04
