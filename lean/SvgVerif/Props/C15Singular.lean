import SvgVerif.Model.Tangent
import SvgVerif.Props.C19Limit
import Mathlib.Analysis.Complex.Basic
import Mathlib.Topology.Algebra.Polynomial
import Mathlib.Analysis.Normed.Field.Basic
import Mathlib.Tactic.Ring
import Mathlib.Tactic.FieldSimp
/-! # C15 — `unit_tangent` where the derivative vanishes

`bezier_unit_tangent` returns `csqrt(rational_limit(d², |d|², t))` (`d = seg.poly().deriv()`) where
`seg.derivative(t) = 0`.  Model: `Model.Tangent.tangentLimit` (executed against the real function on exact rational
control points, harness/props/c15.py).  Over ℂ, for a REAL parameter `t` and any zero of finite order — `d = (X − t)^k·e`
with `e(t) ≠ 0` —

* `tangentLimit_value` : the argument of `csqrt` is `e(t)/conj(e(t))`, and `limit_is_square` : that is `u²` for the
  unit vector `u = e(t)/|e(t)|`;
* `tendsto_quotient_right` / `tendsto_quotient_left` : `u` is the limit of `derivative/|derivative|` from the right,
  and `(−1)^k·u` from the left — so at `t = 0` the direction of travel is `u`, at `t = 1` it is `(−1)^k u`;
* `sqrt_of_square` : whatever square root of `u²` is returned is `u` or `−u`.

Hence the code returns the direction of travel **up to sign**; the principal branch picks the root in the closed
right half-plane, which is `−u` for curves heading into the left half-plane: the recorded finding F18. -/
namespace SvgVerif.Props.C15
set_option linter.unusedVariables false
set_option linter.unusedSimpArgs false
open SvgVerif.Model.Poly SvgVerif.Model.Tangent SvgVerif.Props.C19 Polynomial
open scoped ComplexConjugate

noncomputable instance : DecidableEq ℂ := Classical.decEq ℂ

/-! ## coefficient lists ↔ polynomials, for the list operations of the model -/

/-- low-degree-first coefficient list ↦ polynomial -/
noncomputable def toPolyL : List ℂ → ℂ[X]
  | [] => 0
  | c :: cs => C c + X * toPolyL cs

theorem toPolyL_append_single (l : List ℂ) (c : ℂ) : toPolyL (l ++ [c]) = toPolyL l + C c * X ^ l.length := by
  induction l with
  | nil => simp [toPolyL]
  | cons a l ih => simp only [List.cons_append, toPolyL, ih, List.length_cons, pow_succ]; ring

theorem toPoly_eq_toPolyL_reverse (cs : List ℂ) : toPoly cs = toPolyL cs.reverse := by
  induction cs with
  | nil => rfl
  | cons c cs ih =>
    rw [List.reverse_cons, toPolyL_append_single, List.length_reverse, ← ih]
    simp only [toPoly]; ring

theorem toPolyL_addL (a b : List ℂ) : toPolyL (addL a b) = toPolyL a + toPolyL b := by
  induction a generalizing b with
  | nil => simp [addL, toPolyL]
  | cons x xs ih =>
    cases b with
    | nil => simp [addL, toPolyL]
    | cons y ys => simp only [addL, toPolyL, ih, C_add]; ring

theorem toPolyL_map_mul (a : ℂ) (bs : List ℂ) : toPolyL (bs.map (a * ·)) = C a * toPolyL bs := by
  induction bs with
  | nil => simp [toPolyL]
  | cons b bs ih => simp only [List.map_cons, toPolyL, ih, C_mul]; ring

theorem toPolyL_mulL (a b : List ℂ) : toPolyL (mulL a b) = toPolyL a * toPolyL b := by
  induction a with
  | nil => simp [mulL, toPolyL]
  | cons x xs ih =>
    simp only [mulL, toPolyL_addL, toPolyL_map_mul, toPolyL, ih, C_0, zero_add]; ring

/-- `polyMul` is the product of polynomials -/
theorem toPoly_polyMul (a b : List ℂ) : toPoly (polyMul a b) = toPoly a * toPoly b := by
  unfold polyMul
  rw [toPoly_eq_toPolyL_reverse, List.reverse_reverse, toPolyL_mulL, ← toPoly_eq_toPolyL_reverse,
    ← toPoly_eq_toPolyL_reverse]

theorem toPoly_map_conj (d : List ℂ) : toPoly (d.map (starRingEnd ℂ)) = (toPoly d).map (starRingEnd ℂ) := by
  induction d with
  | nil => simp [toPoly]
  | cons c cs ih =>
    simp only [List.map_cons, toPoly, ih, List.length_map, Polynomial.map_add, Polynomial.map_mul, Polynomial.map_C,
      Polynomial.map_pow, Polynomial.map_X]

/-- a polynomial with conjugated coefficients, evaluated at a real point, is the conjugate of the value -/
theorem eval_map_conj (p : ℂ[X]) (t : ℂ) (ht : conj t = t) : (p.map (starRingEnd ℂ)).eval t = conj (p.eval t) := by
  rw [eval_map]
  have := eval₂_hom (f := starRingEnd ℂ) (p := p) t
  rw [ht] at this
  exact this

/-! ## the value handed to `csqrt` -/

/-- **The argument of `csqrt`**: if the derivative polynomial of the segment is `(X − t)^k · e` with `e(t) ≠ 0`, at a
real parameter `t`, the model returns `e(t)/conj(e(t))` (fuel `2k + 1` suffices). -/
theorem tangentLimit_value (pts : List ℂ) (t : ℂ) (ht : conj t = t) (k fuel : ℕ) (hfuel : 2 * k < fuel) (e : ℂ[X])
    (hd : toPoly (derivCoeffs pts) = (X - C t) ^ k * e) (he : e.eval t ≠ 0) :
    tangentLimit (starRingEnd ℂ) fuel pts t = .value (e.eval t / conj (e.eval t)) := by
  unfold tangentLimit
  simp only
  have hconj : (toPoly (derivCoeffs pts)).map (starRingEnd ℂ) = (X - C t) ^ k * e.map (starRingEnd ℂ) := by
    rw [hd, Polynomial.map_mul, Polynomial.map_pow, Polynomial.map_sub, Polynomial.map_X, Polynomial.map_C]
    rw [ht]
  have hf : toPoly (polyMul (derivCoeffs pts) (derivCoeffs pts)) = (X - C t) ^ (2 * k) * (e * e) := by
    rw [toPoly_polyMul, hd]; ring
  have hg : toPoly (polyMul (derivCoeffs pts) ((derivCoeffs pts).map (starRingEnd ℂ)))
      = (X - C t) ^ (2 * k) * (e * e.map (starRingEnd ℂ)) := by
    rw [toPoly_polyMul, toPoly_map_conj, hconj, hd]; ring
  have hg1 : (e * e.map (starRingEnd ℂ)).eval t ≠ 0 := by
    rw [eval_mul, eval_map_conj e t ht]
    have hc : conj (e.eval t) ≠ 0 := by simpa using he
    exact mul_ne_zero he hc
  rw [rationalLimit_of_factor (2 * k) fuel hfuel _ _ t _ _ hf hg hg1]
  rw [eval_mul, eval_mul, eval_map_conj e t ht]
  congr 1
  field_simp

/-- `e/conj(e)` is the square of the unit vector `e/|e|` -/
theorem limit_is_square (z : ℂ) (hz : z ≠ 0) : (z / (‖z‖ : ℂ)) ^ 2 = z / conj z := by
  have hn : (‖z‖ : ℂ) ≠ 0 := by exact_mod_cast (norm_ne_zero_iff.mpr hz)
  have hc : conj z ≠ 0 := by simpa using hz
  have h2 : (‖z‖ : ℂ) ^ 2 = z * conj z := by
    rw [Complex.mul_conj, Complex.normSq_eq_norm_sq]; push_cast; ring
  rw [div_pow, h2]
  field_simp

/-- any square root of `u²` is `u` or `−u` -/
theorem sqrt_of_square (u w : ℂ) (h : w ^ 2 = u ^ 2) : w = u ∨ w = -u := by
  have : (w - u) * (w + u) = 0 := by ring_nf; rw [h]; ring
  rcases mul_eq_zero.mp this with h1 | h1
  · left; linear_combination h1
  · right; linear_combination h1

/-- `u = e(t)/|e(t)|` has modulus 1 -/
theorem unit_norm (z : ℂ) (hz : z ≠ 0) : ‖z / (‖z‖ : ℂ)‖ = 1 := by
  rw [norm_div, Complex.norm_real, norm_norm, div_self (norm_ne_zero_iff.mpr hz)]

/-! ## `u` is the one-sided limit of `derivative/|derivative|` -/

open Filter Topology

/-- the unit quotient of a complex number -/
noncomputable def unitQ (z : ℂ) : ℂ := z / (‖z‖ : ℂ)

theorem unitQ_pos_smul (r : ℝ) (hr : 0 < r) (z : ℂ) : unitQ ((r : ℂ) * z) = unitQ z := by
  unfold unitQ
  have hrc : (r : ℂ) ≠ 0 := by exact_mod_cast hr.ne'
  rw [norm_mul, Complex.norm_real, Real.norm_of_nonneg hr.le]
  push_cast
  by_cases hz : z = 0
  · simp [hz]
  · have hn : (‖z‖ : ℂ) ≠ 0 := by exact_mod_cast (norm_ne_zero_iff.mpr hz)
    field_simp

theorem unitQ_neg (z : ℂ) : unitQ (-z) = -unitQ z := by
  unfold unitQ; rw [norm_neg]; ring

theorem continuousAt_unitQ_eval (e : ℂ[X]) (t : ℝ) (he : e.eval (t : ℂ) ≠ 0) :
    ContinuousAt (fun τ : ℝ => unitQ (e.eval (τ : ℂ))) t := by
  unfold unitQ
  have hc : Continuous fun τ : ℝ => e.eval (τ : ℂ) := e.continuous.comp Complex.continuous_ofReal
  have hn : Continuous fun τ : ℝ => ((‖e.eval (τ : ℂ)‖ : ℝ) : ℂ) := Complex.continuous_ofReal.comp hc.norm
  refine ContinuousAt.div hc.continuousAt hn.continuousAt ?_
  exact_mod_cast (norm_ne_zero_iff.mpr he)

/-- **From the right** the unit quotient of the derivative tends to `u = e(t)/|e(t)|`. -/
theorem tendsto_quotient_right (d e : ℂ[X]) (t : ℝ) (k : ℕ) (hd : d = (X - C (t : ℂ)) ^ k * e)
    (he : e.eval (t : ℂ) ≠ 0) :
    Tendsto (fun τ : ℝ => unitQ (d.eval (τ : ℂ))) (𝓝[>] t) (𝓝 (unitQ (e.eval (t : ℂ)))) := by
  have hcont := (continuousAt_unitQ_eval e t he).tendsto.mono_left (nhdsWithin_le_nhds (s := Set.Ioi t))
  refine hcont.congr' ?_
  filter_upwards [self_mem_nhdsWithin] with τ hτ
  have hpos : 0 < (τ - t) ^ k := pow_pos (sub_pos.mpr hτ) k
  rw [hd, eval_mul, eval_pow, eval_sub, eval_X, eval_C]
  have : ((τ : ℂ) - (t : ℂ)) ^ k = (((τ - t) ^ k : ℝ) : ℂ) := by push_cast; ring
  rw [this, unitQ_pos_smul _ hpos]

/-- **From the left** it tends to `(−1)^k · u`. -/
theorem tendsto_quotient_left (d e : ℂ[X]) (t : ℝ) (k : ℕ) (hd : d = (X - C (t : ℂ)) ^ k * e)
    (he : e.eval (t : ℂ) ≠ 0) :
    Tendsto (fun τ : ℝ => unitQ (d.eval (τ : ℂ))) (𝓝[<] t) (𝓝 ((-1) ^ k * unitQ (e.eval (t : ℂ)))) := by
  have hcont := ((continuousAt_unitQ_eval e t he).tendsto.mono_left
    (nhdsWithin_le_nhds (s := Set.Iio t))).const_mul ((-1 : ℂ) ^ k)
  refine hcont.congr' ?_
  filter_upwards [self_mem_nhdsWithin] with τ hτ
  have hpos : 0 < (t - τ) ^ k := pow_pos (sub_pos.mpr hτ) k
  rw [hd, eval_mul, eval_pow, eval_sub, eval_X, eval_C]
  have : ((τ : ℂ) - (t : ℂ)) ^ k = (-1 : ℂ) ^ k * (((t - τ) ^ k : ℝ) : ℂ) := by
    push_cast; rw [← mul_pow]; ring
  rw [this, mul_assoc]
  -- pull the sign out of the unit quotient
  have hsign : ∀ (n : ℕ) (z : ℂ), unitQ ((-1 : ℂ) ^ n * z) = (-1 : ℂ) ^ n * unitQ z := by
    intro n z
    induction n with
    | zero => simp
    | succ n ih =>
      rw [pow_succ, mul_assoc, show (-1 : ℂ) * z = -z by ring, ← neg_mul_eq_mul_neg, unitQ_neg, ih]
      ring
  rw [hsign, unitQ_pos_smul _ hpos]

/-- non-vacuity / the recorded finding: `CubicBezier(0, 0, −1−i, −2)` at `t = 0` — derivative polynomial
`(X − 0)·e` with `e(0) = −6 − 6i`; the argument of `csqrt` is `i = u²` with `u = (−1 − i)/√2`, the direction of travel,
while the principal square root of `i` is `(1 + i)/√2 = −u` -/
example : derivCoeffs [(0 : ℂ), 0, -1 - Complex.I, -2] = [3 * (-(0 : ℂ) + 3 * (0 - (-1 - Complex.I)) + -2),
    2 * (3 * (0 - 2 * 0 + (-1 - Complex.I))), 3 * (0 - 0)] := by
  simp [derivCoeffs]

end SvgVerif.Props.C15
