import SvgVerif.Gen.C14
import SvgVerif.Model.Enclose
import Mathlib.Tactic.Ring
import Mathlib.Tactic.FieldSimp
import Mathlib.Tactic.NormNum
import Mathlib.Algebra.CharZero.Defs
/-! # C14 — area() is the signed enclosed area; enclosure tests agree with crossing parity

`Gen.C14` is regenerated each run by tracing `Path.area()` (through `poly()`, `real`, `imag`,
`.deriv()`, `*`, `.integ()`), `reversed()`, `translated()` and `transform()` on closed paths of
five shapes with coordinate-wise symbolic control points.  The identities hold over every
field of characteristic 0. -/
namespace SvgVerif.Props.C14
set_option linter.unusedVariables false
set_option linter.unusedSectionVars false
open SvgVerif

variable {K : Type} [Field K] [CharZero K]

/-! ## polygons: the shoelace formula -/
theorem tri_shoelace (p0x p0y p1x p1y p2x p2y : K) :
    Gen.C14.tri_area p0x p0y p1x p1y p2x p2y
      = ((p0x * p1y - p1x * p0y) + (p1x * p2y - p2x * p1y) + (p2x * p0y - p0x * p2y)) / 2 := by
  simp only [Gen.C14.tri_area]; ring
theorem quadri_shoelace (p0x p0y p1x p1y p2x p2y p3x p3y : K) :
    Gen.C14.quadri_area p0x p0y p1x p1y p2x p2y p3x p3y
      = ((p0x * p1y - p1x * p0y) + (p1x * p2y - p2x * p1y) + (p2x * p3y - p3x * p2y) + (p3x * p0y - p0x * p3y)) / 2 := by
  simp only [Gen.C14.quadri_area]; ring

/-- positive for counter-clockwise traversal: the unit square 0 → 1 → 1+i → i has area +1 -/
example : Gen.C14.quadri_area (0 : ℚ) 0 1 0 1 1 0 1 = 1 := by norm_num [Gen.C14.quadri_area]
/-- and −1 when traversed clockwise -/
example : Gen.C14.quadri_area (0 : ℚ) 0 0 1 1 1 1 0 = -1 := by norm_num [Gen.C14.quadri_area]

/-! ## closed Bezier paths: the exact Green value, written out for a cubic closed by a line -/
theorem cubic_line_closed_form (p0x p0y p1x p1y p2x p2y p3x p3y : K) :
    Gen.C14.cubic_line_area p0x p0y p1x p1y p2x p2y p3x p3y
      = (3 / 20 : K) * ((p0x * p1y - p1x * p0y) * 2 + (p0x * p2y - p2x * p0y) + (p1x * p2y - p2x * p1y)
          + (p1x * p3y - p3x * p1y) + (p2x * p3y - p3x * p2y) * 2 + (p0x * p3y - p3x * p0y) / 3)
        + (p3x * p0y - p0x * p3y) / 2 := by
  simp only [Gen.C14.cubic_line_area]; ring

/-! ## sign change under reversal, translation invariance, scaling by the determinant -/
theorem tri_reversed (p0x p0y p1x p1y p2x p2y : K) :
    Gen.C14.tri_area_reversed p0x p0y p1x p1y p2x p2y = - Gen.C14.tri_area p0x p0y p1x p1y p2x p2y := by
  simp only [Gen.C14.tri_area_reversed, Gen.C14.tri_area]; ring
theorem tri_translated (p0x p0y p1x p1y p2x p2y zx zy : K) :
    Gen.C14.tri_area_translated p0x p0y p1x p1y p2x p2y zx zy = Gen.C14.tri_area p0x p0y p1x p1y p2x p2y := by
  simp only [Gen.C14.tri_area_translated, Gen.C14.tri_area]; ring
theorem tri_transformed (p0x p0y p1x p1y p2x p2y a b c d e f : K) :
    Gen.C14.tri_area_transformed p0x p0y p1x p1y p2x p2y a b c d e f = (a * d - b * c) * Gen.C14.tri_area p0x p0y p1x p1y p2x p2y := by
  simp only [Gen.C14.tri_area_transformed, Gen.C14.tri_area]; ring

theorem quadri_reversed (p0x p0y p1x p1y p2x p2y p3x p3y : K) :
    Gen.C14.quadri_area_reversed p0x p0y p1x p1y p2x p2y p3x p3y = - Gen.C14.quadri_area p0x p0y p1x p1y p2x p2y p3x p3y := by
  simp only [Gen.C14.quadri_area_reversed, Gen.C14.quadri_area]; ring
theorem quadri_translated (p0x p0y p1x p1y p2x p2y p3x p3y zx zy : K) :
    Gen.C14.quadri_area_translated p0x p0y p1x p1y p2x p2y p3x p3y zx zy = Gen.C14.quadri_area p0x p0y p1x p1y p2x p2y p3x p3y := by
  simp only [Gen.C14.quadri_area_translated, Gen.C14.quadri_area]; ring
theorem quadri_transformed (p0x p0y p1x p1y p2x p2y p3x p3y a b c d e f : K) :
    Gen.C14.quadri_area_transformed p0x p0y p1x p1y p2x p2y p3x p3y a b c d e f = (a * d - b * c) * Gen.C14.quadri_area p0x p0y p1x p1y p2x p2y p3x p3y := by
  simp only [Gen.C14.quadri_area_transformed, Gen.C14.quadri_area]; ring

theorem cubic_line_reversed (p0x p0y p1x p1y p2x p2y p3x p3y : K) :
    Gen.C14.cubic_line_area_reversed p0x p0y p1x p1y p2x p2y p3x p3y = - Gen.C14.cubic_line_area p0x p0y p1x p1y p2x p2y p3x p3y := by
  simp only [Gen.C14.cubic_line_area_reversed, Gen.C14.cubic_line_area]; ring
theorem cubic_line_translated (p0x p0y p1x p1y p2x p2y p3x p3y zx zy : K) :
    Gen.C14.cubic_line_area_translated p0x p0y p1x p1y p2x p2y p3x p3y zx zy = Gen.C14.cubic_line_area p0x p0y p1x p1y p2x p2y p3x p3y := by
  simp only [Gen.C14.cubic_line_area_translated, Gen.C14.cubic_line_area]; ring
theorem cubic_line_transformed (p0x p0y p1x p1y p2x p2y p3x p3y a b c d e f : K) :
    Gen.C14.cubic_line_area_transformed p0x p0y p1x p1y p2x p2y p3x p3y a b c d e f = (a * d - b * c) * Gen.C14.cubic_line_area p0x p0y p1x p1y p2x p2y p3x p3y := by
  simp only [Gen.C14.cubic_line_area_transformed, Gen.C14.cubic_line_area]; ring

theorem quad_line_reversed (p0x p0y p1x p1y p2x p2y : K) :
    Gen.C14.quad_line_area_reversed p0x p0y p1x p1y p2x p2y = - Gen.C14.quad_line_area p0x p0y p1x p1y p2x p2y := by
  simp only [Gen.C14.quad_line_area_reversed, Gen.C14.quad_line_area]; ring
theorem quad_line_translated (p0x p0y p1x p1y p2x p2y zx zy : K) :
    Gen.C14.quad_line_area_translated p0x p0y p1x p1y p2x p2y zx zy = Gen.C14.quad_line_area p0x p0y p1x p1y p2x p2y := by
  simp only [Gen.C14.quad_line_area_translated, Gen.C14.quad_line_area]; ring
theorem quad_line_transformed (p0x p0y p1x p1y p2x p2y a b c d e f : K) :
    Gen.C14.quad_line_area_transformed p0x p0y p1x p1y p2x p2y a b c d e f = (a * d - b * c) * Gen.C14.quad_line_area p0x p0y p1x p1y p2x p2y := by
  simp only [Gen.C14.quad_line_area_transformed, Gen.C14.quad_line_area]; ring

theorem cubic_cubic_reversed (p0x p0y p1x p1y p2x p2y p3x p3y p4x p4y p5x p5y : K) :
    Gen.C14.cubic_cubic_area_reversed p0x p0y p1x p1y p2x p2y p3x p3y p4x p4y p5x p5y = - Gen.C14.cubic_cubic_area p0x p0y p1x p1y p2x p2y p3x p3y p4x p4y p5x p5y := by
  simp only [Gen.C14.cubic_cubic_area_reversed, Gen.C14.cubic_cubic_area]; ring
theorem cubic_cubic_translated (p0x p0y p1x p1y p2x p2y p3x p3y p4x p4y p5x p5y zx zy : K) :
    Gen.C14.cubic_cubic_area_translated p0x p0y p1x p1y p2x p2y p3x p3y p4x p4y p5x p5y zx zy = Gen.C14.cubic_cubic_area p0x p0y p1x p1y p2x p2y p3x p3y p4x p4y p5x p5y := by
  simp only [Gen.C14.cubic_cubic_area_translated, Gen.C14.cubic_cubic_area]; ring
theorem cubic_cubic_transformed (p0x p0y p1x p1y p2x p2y p3x p3y p4x p4y p5x p5y a b c d e f : K) :
    Gen.C14.cubic_cubic_area_transformed p0x p0y p1x p1y p2x p2y p3x p3y p4x p4y p5x p5y a b c d e f = (a * d - b * c) * Gen.C14.cubic_cubic_area p0x p0y p1x p1y p2x p2y p3x p3y p4x p4y p5x p5y := by
  simp only [Gen.C14.cubic_cubic_area_transformed, Gen.C14.cubic_cubic_area]; ring

/-! ## enclosure: decision logic -/
open SvgVerif.Model.Enclose

/-- `path_encloses_pt` answers the parity of the number of reported crossings of the probe -/
theorem encloses_parity (n : ℕ) : enclosesPt n = true ↔ n % 2 = 1 := by
  unfold enclosesPt; simp

/-- `is_contained_by` is true exactly when the paths do not cross, the inner start lies in the
outer bounding box, and the probe from the inner start crosses the outer path an odd number of times -/
theorem contained_logic (crosses inBox : Bool) (n : ℕ) :
    isContainedBy crosses inBox n = true ↔ crosses = false ∧ inBox = true ∧ n % 2 = 1 := by
  unfold isContainedBy enclosesPt
  cases crosses <;> cases inBox <;> simp

end SvgVerif.Props.C14
