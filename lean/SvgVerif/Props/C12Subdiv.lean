import SvgVerif.Model.Intersect
import SvgVerif.Props.C11Model
import Mathlib.Data.List.Nodup
import Mathlib.Data.List.Sigma
/-! # C12 — what `bezier_intersections` guarantees about a crossing (the subdivision solver)

`target_handled`: follow ANY chain of cell pairs `tgt 0, tgt 1, …, tgt K` (think: the cells that contain a given
crossing), where `tgt (j+1)` is one of the four children of `tgt j`, every pair of boxes along the chain overlaps
in the sense of `boxes_intersect`, and `tgt K` is the first whose two boxes both have area `< tol_deC`.
If the run returns normally, then either

* `tgt K` itself was **handled**: its centre pair is in the result, or a reported point lies within `tol` of its
  point (the `ApproxSolutionSet` test) — or
* some cell pair `q` that was reported-or-suppressed in the same way **shares a sub-curve** with the chain at some
  depth `j ≤ K` (the redundant-pair removal deleted the chain there).

That is the whole completeness content of the algorithm, law-free (valid for floats).  The hypothesis that the
boxes along the chain overlap *with positive width* is exactly what fails for an axis-parallel straight Bezier
(finding F9); "shadowed by a pair sharing only ONE sub-curve" is why two crossings closer than a cell are merged;
that a crossing may be handled several times along neighbouring chains is finding F33. -/
namespace SvgVerif.Props.C12
set_option linter.unusedVariables false
set_option linter.unusedSimpArgs false
set_option linter.unusedSectionVars false
open SvgVerif SvgVerif.Model.Intersect SvgVerif.Model

variable {C S P : Type} [Add S] [Sub S] [Mul S] [Div S] [Neg S] [LT S] [LE S] [DecidableLT S]
  [DecidableLE S] [DecidableEq S] [OfNat S 0] [OfNat S 1]

/-- same sub-curves and centres (object identity aside) -/
def Same (p q : BPair C S) : Prop := p.bez1 = q.bez1 ∧ p.bez2 = q.bez2 ∧ p.t1 = q.t1 ∧ p.t2 = q.t2

/-- the pair passes both tests of the reporting branch -/
def Good (env : Env C S P) (p : BPair C S) : Prop :=
  boxesIntersect (env.bbox p.bez1) (env.bbox p.bez2) = true ∧ isSmall env (env.bbox p.bez1) (env.bbox p.bez2) = true

/-- reported, or suppressed because a reported point is within `tol` of its point -/
def HandledBy (env : Env C S P) (out : List (S × S)) (q : BPair C S) : Prop :=
  (q.t1, q.t2) ∈ out ∨ ∃ r ∈ out, env.close (env.point q.t1) (env.point r.1) = true

/-- deleted by the redundant-pair removal of a handled pair -/
def ShadowedBy (env : Env C S P) (out : List (S × S)) (t : BPair C S) : Prop :=
  ∃ q, Good env q ∧ shares env q t = true ∧ HandledBy env out q

theorem HandledBy.mono {env : Env C S P} {out out' : List (S × S)} {q : BPair C S}
    (h : HandledBy env out q) (hsub : ∀ r ∈ out, r ∈ out') : HandledBy env out' q := by
  rcases h with h | ⟨r, hr, hc⟩
  · exact Or.inl (hsub _ h)
  · exact Or.inr ⟨r, hsub _ hr, hc⟩

theorem ShadowedBy.mono {env : Env C S P} {out out' : List (S × S)} {t : BPair C S}
    (h : ShadowedBy env out t) (hsub : ∀ r ∈ out, r ∈ out') : ShadowedBy env out' t := by
  obtain ⟨q, g, s, hh⟩ := h
  exact ⟨q, g, s, hh.mono hsub⟩

/-- the state of one sweep is consistent: the point set is the list of points of the reported pairs -/
def PtsOk (env : Env C S P) (st : Sweep C S P) : Prop := st.pts = st.out.map (fun r => env.point r.1)

/-- what has happened to the target after it has been swept -/
def Done (env : Env C S P) (delta : S) (st : Sweep C S P) (t : BPair C S) : Prop :=
  (isSmall env (env.bbox t.bez1) (env.bbox t.bez2) = false ∧ ∀ c ∈ children env delta t, c ∈ st.newPairs) ∨
  (isSmall env (env.bbox t.bez1) (env.bbox t.bez2) = true ∧ HandledBy env st.out t)

theorem sweepStep_mono (env : Env C S P) (delta : S) (st : Sweep C S P) (p : BPair C S) :
    (∀ r ∈ st.out, r ∈ (sweepStep env delta st p).out) ∧
    (∀ c ∈ st.newPairs, c ∈ (sweepStep env delta st p).newPairs) ∧
    (∀ x ∈ (sweepStep env delta st p).live, x ∈ st.live) := by
  unfold sweepStep
  split
  · exact ⟨fun _ h => h, fun _ h => h, fun _ h => h⟩
  · simp only
    split
    · split
      · split
        · exact ⟨fun _ h => h, fun _ h => h, fun x h => (List.mem_filter.mp h).1⟩
        · refine ⟨fun r h => ?_, fun _ h => h, fun x h => (List.mem_filter.mp h).1⟩
          simp only [List.mem_append]; exact Or.inl h
      · refine ⟨fun _ h => h, fun c h => ?_, fun _ h => h⟩
        simp only [List.mem_append]; exact Or.inl h
    · exact ⟨fun _ h => h, fun _ h => h, fun _ h => h⟩

theorem sweepStep_ptsOk (env : Env C S P) (delta : S) (st : Sweep C S P) (p : BPair C S) (h : PtsOk env st) :
    PtsOk env (sweepStep env delta st p) := by
  unfold sweepStep
  split
  · exact h
  · simp only
    split
    · split
      · split
        · exact h
        · unfold PtsOk at h ⊢
          simp only [List.map_append, List.map_cons, List.map_nil, h]
      · exact h
    · exact h

/-- a pair that reaches the reporting branch is handled in the resulting state -/
theorem handled_after_report (env : Env C S P) (delta : S) (st : Sweep C S P) (p : BPair C S) (hp : PtsOk env st)
    (hlive : st.live.any (·.id == p.id) = true) (hg : Good env p) :
    HandledBy env (sweepStep env delta st p).out p := by
  unfold sweepStep
  rw [if_neg (by simp [hlive])]
  simp only [hg.1, hg.2, if_true]
  split
  · rename_i hany
    rw [List.any_eq_true] at hany
    obtain ⟨y, hy, hc⟩ := hany
    rw [hp, List.mem_map] at hy
    obtain ⟨r, hr, rfl⟩ := hy
    exact Or.inr ⟨r, hr, hc⟩
  · left
    simp

/-- ids identify the pairs of the snapshot -/
def IdsUnique (ps : List (BPair C S)) : Prop := ∀ x ∈ ps, ∀ y ∈ ps, x.id = y.id → x = y

/-- the invariant of the sweep with respect to a target `t` of the snapshot `ps0`:
before `t` is reached it is live or shadowed; afterwards it is done or shadowed -/
theorem sweep_target (env : Env C S P) (delta : S) (ps0 : List (BPair C S)) (t : BPair C S) (ht0 : t ∈ ps0)
    (huniq : IdsUnique ps0) (hbox : boxesIntersect (env.bbox t.bez1) (env.bbox t.bez2) = true)
    (ps : List (BPair C S)) (hps : ∀ x ∈ ps, x ∈ ps0) (hnd : ps.Nodup) (st : Sweep C S P)
    (hpts : PtsOk env st) (hlive : ∀ x ∈ st.live, x ∈ ps0)
    (hinv : (t ∈ ps → (t ∈ st.live ∨ ShadowedBy env st.out t)) ∧
            (t ∉ ps → (Done env delta st t ∨ ShadowedBy env st.out t))) :
    Done env delta (ps.foldl (sweepStep env delta) st) t ∨ ShadowedBy env (ps.foldl (sweepStep env delta) st).out t := by
  induction ps generalizing st with
  | nil => exact hinv.2 (by simp)
  | cons p ps ih =>
    simp only [List.foldl_cons]
    obtain ⟨m1, m2, m3⟩ := sweepStep_mono env delta st p
    have hnd' := (List.nodup_cons.mp hnd)
    apply ih (fun x hx => hps x (by simp [hx])) hnd'.2 _ (sweepStep_ptsOk env delta st p hpts)
      (fun x hx => hlive x (m3 x hx))
    by_cases hpt : p = t
    · -- the target itself is swept now
      subst hpt
      have hin := hinv.1 (by simp)
      refine ⟨fun hmem => absurd hmem hnd'.1, fun _ => ?_⟩
      rcases hin with hl | hs
      · have hany : st.live.any (·.id == p.id) = true := by
          rw [List.any_eq_true]; exact ⟨p, hl, by simp⟩
        by_cases hsm : isSmall env (env.bbox p.bez1) (env.bbox p.bez2) = true
        · exact Or.inl (Or.inr ⟨hsm, handled_after_report env delta st p hpts hany ⟨hbox, hsm⟩⟩)
        · have hsm' : isSmall env (env.bbox p.bez1) (env.bbox p.bez2) = false := by simpa using hsm
          left; left
          refine ⟨hsm', fun c hc => ?_⟩
          unfold sweepStep
          rw [if_neg (by simp [hany])]
          simp only [hbox, hsm', if_true, Bool.false_eq_true, if_false, List.mem_append]
          exact Or.inr hc
      · exact Or.inr (hs.mono m1)
    · -- another pair is swept
      constructor
      · intro hmem
        have hin := hinv.1 (by simp [hmem])
        rcases hin with hl | hs
        · -- is t still live afterwards?
          by_cases hstill : t ∈ (sweepStep env delta st p).live
          · exact Or.inl hstill
          · right
            -- it was removed: p reached the reporting branch and shares a sub-curve with t
            unfold sweepStep at hstill ⊢
            by_cases hskip : (!(st.live.any (·.id == p.id))) = true
            · rw [if_pos hskip] at hstill; exact absurd hl hstill
            · rw [if_neg hskip] at hstill ⊢
              simp only at hstill ⊢
              have hany : st.live.any (·.id == p.id) = true := by simpa using hskip
              by_cases hb : boxesIntersect (env.bbox p.bez1) (env.bbox p.bez2) = true
              · by_cases hsm : isSmall env (env.bbox p.bez1) (env.bbox p.bez2) = true
                · have hh := handled_after_report env delta st p hpts hany ⟨hb, hsm⟩
                  unfold sweepStep at hh
                  rw [if_neg hskip] at hh
                  simp only [hb, hsm, if_true] at hh hstill ⊢
                  have hsh : shares env p t = true := by
                    by_contra hns
                    apply hstill
                    split <;> (rw [List.mem_filter]; exact ⟨hl, by simpa using hns⟩)
                  refine ⟨p, ⟨hb, hsm⟩, hsh, ?_⟩
                  by_cases hc : (st.pts.any fun y => env.close (env.point p.t1) y) = true
                  · simp only [hc, if_true] at hh ⊢; exact hh
                  · simp only [hc, Bool.false_eq_true, if_false] at hh ⊢; exact hh
                · have hsm' : isSmall env (env.bbox p.bez1) (env.bbox p.bez2) = false := by simpa using hsm
                  simp only [hb, hsm', if_true, Bool.false_eq_true, if_false] at hstill
                  exact absurd hl hstill
              · have hb' : boxesIntersect (env.bbox p.bez1) (env.bbox p.bez2) = false := by simpa using hb
                simp only [hb', Bool.false_eq_true, if_false] at hstill
                exact absurd hl hstill
        · exact Or.inr (hs.mono m1)
      · intro hnmem
        have hin := hinv.2 (by simp [hnmem, Ne.symm hpt])
        rcases hin with hd | hs
        · left
          rcases hd with ⟨a, b⟩ | ⟨a, b⟩
          · exact Or.inl ⟨a, fun c hc => m2 c (b c hc)⟩
          · exact Or.inr ⟨a, b.mono m1⟩
        · exact Or.inr (hs.mono m1)

/-! ### renumbering -/
theorem mem_renumber (ps : List (BPair C S)) (x : BPair C S) :
    x ∈ renumber ps ↔ ∃ i, ∃ h : i < ps.length, x = { ps[i] with id := i } := by
  unfold renumber
  rw [List.mem_map]
  constructor
  · rintro ⟨⟨p, i⟩, hmem, rfl⟩
    rw [List.mem_zipIdx_iff_getElem?] at hmem
    have hi : i < ps.length := by
      by_contra hcon
      rw [List.getElem?_eq_none (by omega)] at hmem
      exact absurd hmem (by simp)
    refine ⟨i, hi, ?_⟩
    rw [List.getElem?_eq_getElem hi] at hmem
    simp only [Option.some.injEq] at hmem
    subst hmem; rfl
  · rintro ⟨i, hi, rfl⟩
    refine ⟨(ps[i], i), ?_, rfl⟩
    rw [List.mem_zipIdx_iff_getElem?]
    simp [List.getElem?_eq_getElem hi]

theorem renumber_unique (ps : List (BPair C S)) : IdsUnique (renumber ps) := by
  intro x hx y hy hid
  rw [mem_renumber] at hx hy
  obtain ⟨i, hi, rfl⟩ := hx
  obtain ⟨j, hj, rfl⟩ := hy
  simp only at hid
  subst hid
  rfl

theorem renumber_nodup (ps : List (BPair C S)) : (renumber ps).Nodup := by
  have h : (renumber ps).map (·.id) = ps.zipIdx.map Prod.snd := by
    unfold renumber
    rw [List.map_map]
    apply List.map_congr_left
    rintro ⟨p, i⟩ _
    rfl
  exact List.Nodup.of_map (·.id) (h ▸ List.nodup_zipIdx_map_snd ps)

theorem renumber_same (ps : List (BPair C S)) (p : BPair C S) (hp : p ∈ ps) :
    ∃ x ∈ renumber ps, Same x p := by
  obtain ⟨i, hi, rfl⟩ := List.getElem_of_mem hp
  exact ⟨{ ps[i] with id := i }, (mem_renumber ps _).mpr ⟨i, hi, rfl⟩, rfl, rfl, rfl, rfl⟩

theorem children_same (env : Env C S P) (delta : S) (p q : BPair C S) (h : Same p q) :
    children env delta p = children env delta q := by
  obtain ⟨h1, h2, h3, h4⟩ := h
  unfold children
  rw [h1, h2, h3, h4]

theorem shares_same (env : Env C S P) (q p p' : BPair C S) (h : Same p p') : shares env q p = shares env q p' := by
  obtain ⟨h1, h2, _, _⟩ := h
  unfold shares; rw [h1, h2]

theorem out_mono_fold (env : Env C S P) (delta : S) (ps : List (BPair C S)) (st : Sweep C S P) :
    ∀ r ∈ st.out, r ∈ (ps.foldl (sweepStep env delta) st).out := by
  induction ps generalizing st with
  | nil => exact fun _ h => h
  | cons p ps ih =>
    intro r hr
    simp only [List.foldl_cons]
    exact ih _ r ((sweepStep_mono env delta st p).1 r hr)

theorem ptsOk_fold (env : Env C S P) (delta : S) (ps : List (BPair C S)) (st : Sweep C S P) (h : PtsOk env st) :
    PtsOk env (ps.foldl (sweepStep env delta) st) := by
  induction ps generalizing st with
  | nil => exact h
  | cons p ps ih => simp only [List.foldl_cons]; exact ih _ (sweepStep_ptsOk env delta st p h)

/-- the result of the loop contains everything reported so far -/
theorem biLoop_out_mono (env : Env C S P) (two : S) (fuel k : Nat) (pairs : List (BPair C S)) (pts : List P)
    (out res : List (S × S)) (h : biLoop env two fuel k pairs pts out = .ok res) : ∀ r ∈ out, r ∈ res := by
  induction fuel generalizing k pairs pts out with
  | zero => simp [biLoop] at h
  | succ fuel ih =>
    unfold biLoop at h
    cases pairs with
    | nil => simp only [BIResult.ok.injEq] at h; subst h; exact fun _ hr => hr
    | cons p ps =>
      simp only at h
      intro r hr
      exact ih _ _ _ _ h r (out_mono_fold env _ (p :: ps) ⟨p :: ps, [], pts, out⟩ r hr)

/-- a chain of cell pairs as `bezier_intersections` would descend through them -/
structure Chain (env : Env C S P) (two : S) (tgt : Nat → BPair C S) (K : Nat) : Prop where
  step : ∀ j, j < K → ∃ c ∈ children env (halfPow two (j + 2)) (tgt j), Same c (tgt (j + 1))
  boxes : ∀ j, j ≤ K → boxesIntersect (env.bbox (tgt j).bez1) (env.bbox (tgt j).bez2) = true
  big : ∀ j, j < K → isSmall env (env.bbox (tgt j).bez1) (env.bbox (tgt j).bez2) = false
  small : isSmall env (env.bbox (tgt K).bez1) (env.bbox (tgt K).bez2) = true

/-- **Main invariant of the subdivision loop**: if at depth `j ≤ K` the chain's pair is in the pair list, then in
the final result the chain's last pair is handled, or the chain is shadowed at some depth in `j..K`. -/
theorem biLoop_target (env : Env C S P) (two : S) (tgt : Nat → BPair C S) (K : Nat) (hch : Chain env two tgt K)
    (fuel j : Nat) (hj : j ≤ K) (pairs : List (BPair C S)) (pts : List P) (out res : List (S × S))
    (huniq : IdsUnique pairs) (hnd : pairs.Nodup) (hpts : pts = out.map (fun r => env.point r.1))
    (hin : ∃ x ∈ pairs, Same x (tgt j))
    (h : biLoop env two fuel j pairs pts out = .ok res) :
    HandledBy env res (tgt K) ∨ ∃ i, j ≤ i ∧ i ≤ K ∧ ShadowedBy env res (tgt i) := by
  induction fuel generalizing j pairs pts out with
  | zero => simp [biLoop] at h
  | succ fuel ih =>
    obtain ⟨x, hx, hsame⟩ := hin
    unfold biLoop at h
    cases pairs with
    | nil => simp at hx
    | cons p ps =>
      simp only at h
      have hbx : boxesIntersect (env.bbox x.bez1) (env.bbox x.bez2) = true := by
        rw [hsame.1, hsame.2.1]; exact hch.boxes j hj
      have hsw := sweep_target env (halfPow two (j + 2)) (p :: ps) x hx huniq hbx (p :: ps) (fun _ h => h) hnd
        ⟨p :: ps, [], pts, out⟩ hpts (fun _ h => h) ⟨fun _ => Or.inl hx, fun hn => absurd hx hn⟩
      have hmono := biLoop_out_mono env two fuel (j + 1) _ _ _ res h
      rcases hsw with hd | hs
      · rcases hd with ⟨hbig, hch'⟩ | ⟨hsm, hh⟩
        · -- not small: j < K and the chain continues at depth j+1
          have hjK : j < K := by
            rcases Nat.lt_or_ge j K with h1 | h1
            · exact h1
            · have : j = K := Nat.le_antisymm hj h1
              subst this
              rw [hsame.1, hsame.2.1, hch.small] at hbig
              exact absurd hbig (by simp)
          obtain ⟨c, hc, hcs⟩ := hch.step j hjK
          rw [← children_same env _ x (tgt j) hsame] at hc
          obtain ⟨y, hy, hys⟩ := renumber_same _ c (hch' c hc)
          have := ih (j + 1) hjK (renumber _) _ _ (renumber_unique _) (renumber_nodup _)
            (ptsOk_fold env _ (p :: ps) ⟨p :: ps, [], pts, out⟩ hpts)
            ⟨y, hy, hys.1.trans hcs.1, hys.2.1.trans hcs.2.1, hys.2.2.1.trans hcs.2.2.1, hys.2.2.2.trans hcs.2.2.2⟩ h
          rcases this with h1 | ⟨i, hi1, hi2, hi3⟩
          · exact Or.inl h1
          · exact Or.inr ⟨i, by omega, hi2, hi3⟩
        · -- small: this is depth K and the pair is handled
          have hjK : j = K := by
            rcases Nat.lt_or_ge j K with h1 | h1
            · rw [hsame.1, hsame.2.1, hch.big j h1] at hsm
              exact absurd hsm (by simp)
            · exact Nat.le_antisymm hj h1
          subst hjK
          left
          have hh' : HandledBy env (List.foldl (sweepStep env (halfPow two (j + 2))) ⟨p :: ps, [], pts, out⟩ (p :: ps)).out (tgt j) := by
            rcases hh with h1 | ⟨r, hr, hc⟩
            · left; rw [← hsame.2.2.1, ← hsame.2.2.2]; exact h1
            · right; exact ⟨r, hr, by rw [← hsame.2.2.1]; exact hc⟩
          exact hh'.mono hmono
      · right
        refine ⟨j, le_refl _, hj, ?_⟩
        obtain ⟨q, g, s, hh⟩ := hs
        exact ⟨q, g, (shares_same env q x (tgt j) hsame) ▸ s, hh.mono hmono⟩

/-- **Completeness content of `bezier_intersections`** (see the header of this file). -/
theorem target_handled (env : Env C S P) (two : S) (maxits : Nat) (b1 b2 : C) (tgt : Nat → BPair C S) (K : Nat)
    (h0 : Same (tgt 0) ⟨b1, b2, 1 / two, 1 / two, 0⟩) (hch : Chain env two tgt K)
    (res : List (S × S)) (h : bezierIntersections env two maxits b1 b2 = .ok res) :
    HandledBy env res (tgt K) ∨ ∃ i, i ≤ K ∧ ShadowedBy env res (tgt i) := by
  unfold bezierIntersections at h
  have := biLoop_target env two tgt K hch maxits 0 (Nat.zero_le _) [⟨b1, b2, 1 / two, 1 / two, 0⟩] [] [] res
    (by intro x hx y hy _; simp at hx hy; rw [hx, hy]) (by simp) (by simp)
    ⟨_, by simp, ⟨h0.1.symm, h0.2.1.symm, h0.2.2.1.symm, h0.2.2.2.symm⟩⟩ h
  rcases this with h1 | ⟨i, _, hi, hs⟩
  · exact Or.inl h1
  · exact Or.inr ⟨i, hi, hs⟩

/-- non-vacuity: a one-element chain (the root pair already passes both tests) -/
example : Chain (C := Unit) (S := Int) (P := Unit)
    ⟨fun _ => ⟨0, 1, 0, 1⟩, fun _ => ((), ()), fun _ _ => true, fun _ => (), fun _ _ => false, 2⟩ 2
    (fun _ => ⟨(), (), 0, 0, 0⟩) 0 :=
  ⟨fun j hj => absurd hj (Nat.not_lt_zero j), fun _ _ => by decide, fun j hj => absurd hj (Nat.not_lt_zero j), by decide⟩

end SvgVerif.Props.C12
