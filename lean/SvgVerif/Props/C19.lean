import SvgVerif.Model.Poly
import SvgVerif.Props.C19Identities
import Mathlib.Data.List.Basic
import Mathlib.Data.List.Count
/-! # C19 — generic Bezier / polynomial helpers

* per-degree polynomial identities: `SvgVerif.Props.C19Identities` (bridges to the
  GENERATED `Gen.C19`).
* the root filter of `polyroots` (everything after the `np.roots` oracle): this file.
  Statement of the property: *every simple real root that satisfies the condition is
  returned exactly once, whatever other (possibly clustered) roots there are.*
-/
namespace SvgVerif.Props.C19
open SvgVerif.Model SvgVerif.Model.Poly

variable {α : Type}

/-! ## the duplicate filter -/

theorem dedupAux_sublist (close : α → α → Bool) (seen rs : List α) :
    (dedupAux close seen rs).Sublist rs := by
  induction rs generalizing seen with
  | nil => simp [dedupAux]
  | cons x xs ih =>
    unfold dedupAux
    split
    · exact (ih _).cons _
    · exact (ih _).cons₂ _

/-- nothing is invented or reordered: the output is a sublist of the input -/
theorem dedup_sublist (close : α → α → Bool) (rs : List α) : (dedup close rs).Sublist rs :=
  dedupAux_sublist close [] rs

theorem count_dedupAux [DecidableEq α] (close : α → α → Bool) (x : α) (seen rs : List α)
    (hseen : ∀ y ∈ seen, y ≠ x → close y x = false)
    (hrs : ∀ y ∈ rs, y ≠ x → close y x = false)
    (hself : x ∈ seen ∨ (rs.count x ≤ 1) → True)
    (hx : x ∉ seen) (h1 : rs.count x ≤ 1) :
    (dedupAux close seen rs).count x = rs.count x := by
  induction rs generalizing seen with
  | nil => simp [dedupAux]
  | cons z zs ih =>
    by_cases hz : z = x
    · subst hz
      have hnot : (seen.any fun y => close y z) = false := by
        rw [List.any_eq_false]
        intro y hy
        have : y ≠ z := fun h => hx (h ▸ hy)
        simp [hseen y hy this]
      have hzs : zs.count z = 0 := by
        have := h1; simp [List.count_cons_self] at this; exact this
      have hnotin : z ∉ zs := List.count_eq_zero.mp hzs
      unfold dedupAux
      simp only [hnot, Bool.false_eq_true, ↓reduceIte, List.count_cons_self, hzs]
      have : (dedupAux close (seen ++ [z]) zs).count z = 0 := by
        apply List.count_eq_zero.mpr
        intro hmem
        exact hnotin ((dedupAux_sublist close _ zs).subset hmem)
      omega
    · have hcnt : (z :: zs).count x = zs.count x := by simp [List.count_cons, hz]
      have h1' : zs.count x ≤ 1 := by rw [← hcnt]; exact h1
      have hrs' : ∀ y ∈ zs, y ≠ x → close y x = false := fun y hy => hrs y (List.mem_cons_of_mem _ hy)
      have hseen' : ∀ y ∈ seen ++ [z], y ≠ x → close y x = false := by
        intro y hy hne
        rcases List.mem_append.mp hy with h | h
        · exact hseen y h hne
        · simp at h; subst h; exact hrs y (List.mem_cons_self) hne
      have hx' : x ∉ seen ++ [z] := by
        simp [hx]; exact fun h => hz h.symm
      unfold dedupAux
      split
      · rw [ih _ hseen' hrs' (fun _ => trivial) hx' h1', hcnt]
      · rw [List.count_cons, ih _ hseen' hrs' (fun _ => trivial) hx' h1', hcnt]; simp [hz]

/-- **simple roots survive, exactly once.**  If `x` occurs once among the candidate roots
and no *other* candidate is close to it, it occurs exactly once in the output — whatever
clusters the remaining candidates form. -/
theorem dedup_keeps_isolated [DecidableEq α] (close : α → α → Bool) (rs : List α) (x : α)
    (honce : rs.count x = 1) (hiso : ∀ y ∈ rs, y ≠ x → close y x = false) :
    (dedup close rs).count x = 1 := by
  unfold dedup
  rw [count_dedupAux close x [] rs (by simp) hiso (fun _ => trivial) (by simp) (by omega), honce]

theorem dedupAux_no_close_pair (close : α → α → Bool) (seen rs : List α) :
    ∀ x ∈ dedupAux close seen rs, ∀ y ∈ seen, close y x = false := by
  induction rs generalizing seen with
  | nil => simp [dedupAux]
  | cons z zs ih =>
    intro x hx y hy
    unfold dedupAux at hx
    split at hx
    · exact ih _ x hx y (List.mem_append_left _ hy)
    · rename_i hnone
      rcases List.mem_cons.mp hx with h | h
      · subst h
        have := List.any_eq_false.mp (by simpa using hnone) y hy
        simpa using this
      · exact ih _ x h y (List.mem_append_left _ hy)

/-- **reported once**: no retained root has an earlier *retained* root close to it -/
theorem dedup_pairwise (close : α → α → Bool) (rs : List α) :
    (dedup close rs).Pairwise (fun a b => close a b = false) := by
  unfold dedup
  suffices h : ∀ seen, (dedupAux close seen rs).Pairwise (fun a b => close a b = false) from h []
  induction rs with
  | nil => intro seen; simp [dedupAux]
  | cons z zs ih =>
    intro seen
    unfold dedupAux
    split
    · exact ih _
    · refine List.pairwise_cons.mpr ⟨?_, ih _⟩
      intro b hb
      exact dedupAux_no_close_pair close (seen ++ [z]) zs b hb z (by simp)

/-! ## non-vacuity and the pre-repair defect (F16) as kernel-checked witnesses -/

/-- integer stand-ins for the roots 0.9, 0.500002, 0.5, 0.1 with `close a b := |a-b| ≤ 1` -/
def closeNat (a b : Nat) : Bool := decide (a - b ≤ 1 ∧ b - a ≤ 1)

example : dedup closeNat [9, 6, 5, 1] = [9, 6, 1] := by decide
example : ([9, 6, 5, 1] : List Nat).count 1 = 1 ∧ ∀ y ∈ ([9, 6, 5, 1] : List Nat), y ≠ 1 → closeNat y 1 = false := by
  decide

/-- the full statement, as a proposition about an arbitrary filter `f` -/
def KeepsIsolated (f : (Nat → Nat → Bool) → List Nat → List Nat) : Prop :=
  ∀ (close : Nat → Nat → Bool) (rs : List Nat) (x : Nat),
    rs.count x = 1 → (∀ y ∈ rs, y ≠ x → close y x = false) → (f close rs).count x = 1

theorem keepsIsolated_dedup : KeepsIsolated dedup :=
  fun close rs x h1 h2 => dedup_keeps_isolated close rs x h1 h2

/-- the filter as it was before the repair (pair position used as a root index) loses
the isolated root `1` of `[9,6,5,1]` -/
theorem not_keepsIsolated_dedupBuggy : ¬ KeepsIsolated dedupBuggy := by
  intro h
  have := h closeNat [9, 6, 5, 1] 1 (by decide) (by decide)
  revert this
  decide

end SvgVerif.Props.C19
